package main

import (
	"fmt"
	"go/types"

	"golang.org/x/tools/go/ssa"
)

// C15: end-to-end layout. Structural clauses decided here:
//   required   – FindLookups adds the lookups of the language system's
//                required feature without consulting the caller's feature
//                switches
//   rangefilter– every lookup index appended to FindLookups' result is
//                compared with len(LookupList) first
//   pipeline   – Layouter.Layout runs cmap lookup, GSUB, advance widths, GPOS
//                in this order
//   bufreset   – the Layouter's reusable buffer is only ever re-used as
//                buf[:0] and extended by append, so no field of an earlier
//                result can leak into a later one
//   mapdet     – determinism of feature selection, layout and kern conversion

func init() { properties["C15"] = propC15 }

func propC15(w *World, r *Report) {
	e := NewEffects(w)
	runDet(w, r, e, "C15")
	r.Floor("mapdet", 8)
	checkFindLookups(w, r)
	checkLayoutPipeline(w, r)
	checkBufReset(w, r)
	RunKernFlags(w, r)
}

func checkFindLookups(w *World, r *Report) {
	r.Rule("required: in FindLookups some store into the include-set whose key derives from the language system's Required feature exists, and none of the branch conditions deciding it depends on the caller's feature-switch map || rangefilter: every append to the returned slice is guarded by a comparison against len(LookupList) || optional: the stores for optional features ARE guarded by a lookup in the feature-switch map")
	fn := w.Func("(*opentype/gtab.Info).FindLookups")
	if fn == nil {
		r.Fatal("anchor (*gtab.Info).FindLookups does not resolve")
		return
	}
	name := fnName(fn)
	var sw *ssa.Parameter
	for _, p := range fn.Params {
		if m, ok := p.Type().Underlying().(*types.Map); ok {
			if b, ok := m.Elem().Underlying().(*types.Basic); ok && b.Kind() == types.Bool {
				sw = p
			}
		}
	}
	if sw == nil {
		r.Fatal("FindLookups has no feature-switch parameter (map[...]bool)")
		return
	}
	dependsOnSwitch := func(v ssa.Value) bool {
		return backSlice(v)[sw]
	}
	nReq, nOpt := 0, 0
	cconds := controlConds(fn)
	for _, b := range fn.Blocks {
		for _, ins := range b.Instrs {
			mu, ok := ins.(*ssa.MapUpdate)
			if !ok {
				continue
			}
			// the include-set: a map with bool values allocated in this function
			if _, isMk := mu.Map.(*ssa.MakeMap); !isMk {
				continue
			}
			sl := backSlice(mu.Key)
			fromRequired := sliceHasField(sl, "Required")
			swGuard := false
			for _, cnd := range allConds(cconds, b) {
				if dependsOnSwitch(cnd) {
					swGuard = true
				}
			}
			// range loops: the key comes from iterating feature.Lookups; the feature is
			// selected by Required or by an element of Optional
			if fromRequired {
				nReq++
				key := r.MkKey("required", name, "include-set store for the required feature")
				if swGuard {
					r.Fail("required", key, w.Pos(mu.Pos()), "the lookups of the required feature are only included under a test of the caller's feature switches", nil)
				} else {
					r.OK("required", key, w.Pos(mu.Pos()), "store is not control-dependent on the feature-switch map")
				}
			} else {
				nOpt++
				key := r.MkKey("optional", name, "include-set store for optional features")
				if swGuard {
					r.OK("optional", key, w.Pos(mu.Pos()), "store is guarded by a lookup in the feature-switch map")
				} else {
					r.Fail("optional", key, w.Pos(mu.Pos()), "optional features are included without consulting the caller's feature switches", nil)
				}
			}
		}
	}
	if nReq == 0 {
		r.Fail("required", r.MkKey("required", name, "include-set store for the required feature"), w.Pos(fn.Pos()),
			"no store into the include-set derives from the language system's Required feature: the required feature is never included", nil)
	}
	if nOpt == 0 {
		r.Fail("optional", r.MkKey("optional", name, "include-set store for optional features"), w.Pos(fn.Pos()),
			"no store into the include-set for optional features found", nil)
	}
	// rangefilter: appends that feed the return value
	nApp := 0
	for _, b := range fn.Blocks {
		for _, ins := range b.Instrs {
			c, ok := ins.(*ssa.Call)
			if !ok {
				continue
			}
			bi, ok := c.Call.Value.(*ssa.Builtin)
			if !ok || bi.Name() != "append" {
				continue
			}
			// element type must be the result's element type
			if !types.Identical(c.Type(), fn.Signature.Results().At(0).Type()) {
				continue
			}
			nApp++
			key := r.MkKey("rangefilter", name, "append to result")
			guarded := false
			for _, cnd := range allConds(cconds, b) {
				if cmp, ok := isCompare(cnd); ok {
					for v := range backSlice(cmp) {
						if isLenOfField(v, "LookupList") {
							guarded = true
						}
					}
				}
			}
			if guarded {
				r.OK("rangefilter", key, w.Pos(c.Pos()), "guarded by a comparison with len(LookupList)")
			} else {
				r.Fail("rangefilter", key, w.Pos(c.Pos()), "lookup index appended to the result without a range check against len(LookupList)", nil)
			}
		}
	}
	if nApp == 0 {
		r.Fatal("FindLookups: no append to the result slice found (rule rangefilter matches nothing)")
	}
}

// reaches reports whether block a can reach block b along CFG edges (a != b required for a true "later").
func reaches(a, b *ssa.BasicBlock) bool {
	seen := map[*ssa.BasicBlock]bool{}
	stack := append([]*ssa.BasicBlock{}, a.Succs...)
	for len(stack) > 0 {
		x := stack[len(stack)-1]
		stack = stack[:len(stack)-1]
		if seen[x] {
			continue
		}
		seen[x] = true
		if x == b {
			return true
		}
		stack = append(stack, x.Succs...)
	}
	return false
}

func checkLayoutPipeline(w *World, r *Report) {
	r.Rule("pipeline: in (*Layouter).Layout the character-map lookup, the GSUB application, the advance-width assignment and the GPOS application occur in this order on the control-flow graph (no path leads from a later stage back to an earlier one)")
	fn := w.Func("(*sfnt.Layouter).Layout")
	if fn == nil {
		r.Fatal("anchor (*sfnt.Layouter).Layout does not resolve")
		return
	}
	name := fnName(fn)
	stage := map[string][]*ssa.BasicBlock{}
	stagePos := map[string]ssa.Instruction{}
	recvField := func(v ssa.Value) string {
		// receiver loaded from a field of the Layouter
		if u, ok := v.(*ssa.UnOp); ok {
			if fa, ok := u.X.(*ssa.FieldAddr); ok && fa.X == fn.Params[0] {
				return fieldName(fa)
			}
		}
		return ""
	}
	for _, b := range fn.Blocks {
		for _, ins := range b.Instrs {
			switch x := ins.(type) {
			case *ssa.Call:
				c := x.Common()
				if c.IsInvoke() && c.Method.Name() == "Lookup" && recvField(c.Value) == "cmap" {
					stage["cmap"] = append(stage["cmap"], b)
					stagePos["cmap"] = ins
				}
				if callee := c.StaticCallee(); callee != nil && callee.Name() == "Apply" && len(c.Args) > 0 {
					switch recvField(c.Args[0]) {
					case "gsub":
						stage["gsub"] = append(stage["gsub"], b)
						stagePos["gsub"] = ins
					case "gpos":
						stage["gpos"] = append(stage["gpos"], b)
						stagePos["gpos"] = ins
					}
				}
			case *ssa.Store:
				if fieldName(x.Addr) == "Advance" {
					stage["width"] = append(stage["width"], b)
					stagePos["width"] = ins
				}
			}
		}
	}
	order := []string{"cmap", "gsub", "width", "gpos"}
	for _, s := range order {
		if len(stage[s]) == 0 {
			r.Fail("pipeline", r.MkKey("pipeline", name, "stage "+s), w.Pos(fn.Pos()), "stage "+s+" not found in Layout", nil)
			return
		}
	}
	for i := 0; i+1 < len(order); i++ {
		a, b := order[i], order[i+1]
		key := r.MkKey("pipeline", name, a+" before "+b)
		ok := true
		for _, ba := range stage[a] {
			for _, bb := range stage[b] {
				if ba == bb {
					// same block: compare instruction order
					ia, ib := -1, -1
					for k, ins := range ba.Instrs {
						if ins == stagePos[a] {
							ia = k
						}
						if ins == stagePos[b] {
							ib = k
						}
					}
					if ia > ib {
						ok = false
					}
					continue
				}
				if reaches(bb, ba) || !reaches(ba, bb) {
					ok = false
				}
			}
		}
		if ok {
			r.OK("pipeline", key, w.Pos(stagePos[b].Pos()), "every "+a+" site precedes every "+b+" site on the CFG")
		} else {
			r.Fail("pipeline", key, w.Pos(stagePos[b].Pos()), fmt.Sprintf("stage %s does not strictly precede stage %s in Layout", a, b), nil)
		}
	}
}

// checkBufReset: history independence of the Layouter's reusable buffer.
func checkBufReset(w *World, r *Report) {
	r.Rule("bufreset: every value derived from the Layouter's reusable buffer field is re-used only as buf[:0] and grown only by append (never re-sliced to a non-zero length, never passed to a growing helper), so all elements of a result are written completely in the same call")
	for _, fn := range methodsOf(w, "", "Layouter") {
		if len(fn.Blocks) == 0 {
			continue
		}
		name := fnName(fn)
		// loads of slice-typed fields of the receiver
		derived := map[ssa.Value]bool{}
		var loads []*ssa.UnOp
		for _, b := range fn.Blocks {
			for _, ins := range b.Instrs {
				if u, ok := ins.(*ssa.UnOp); ok {
					if fa, ok := u.X.(*ssa.FieldAddr); ok && fa.X == fn.Params[0] {
						if _, isSlice := u.Type().Underlying().(*types.Slice); isSlice {
							loads = append(loads, u)
						}
					}
				}
			}
		}
		if len(loads) == 0 {
			continue
		}
		for _, u := range loads {
			key := r.MkKey("bufreset", name, "load of "+describeAddr(u.X))
			bad := ""
			// every use of the raw load must be a [:0] re-slice
			for _, ref := range *u.Referrers() {
				sl, ok := ref.(*ssa.Slice)
				if !ok || sl.X != u {
					if _, isDbg := ref.(*ssa.DebugRef); isDbg {
						continue
					}
					bad = "the stored buffer is used other than as buf[:0] at " + w.Pos(ref.Pos())
					continue
				}
				hc, ok := sl.High.(*ssa.Const)
				if !ok || hc.Int64() != 0 {
					bad = "the stored buffer is re-sliced to a non-zero length at " + w.Pos(sl.Pos()) + ": elements of the previous result become visible"
					continue
				}
				derived[sl] = true
			}
			// propagate: phi, append results, results of calls taking a derived value
			changed := true
			for changed {
				changed = false
				for _, b := range fn.Blocks {
					for _, ins := range b.Instrs {
						v, ok := ins.(ssa.Value)
						if !ok || derived[v] {
							continue
						}
						switch x := ins.(type) {
						case *ssa.Phi:
							for _, ed := range x.Edges {
								if derived[ed] {
									derived[v] = true
									changed = true
								}
							}
						case *ssa.Call:
							for _, a := range x.Call.Args {
								if derived[a] {
									derived[v] = true
									changed = true
								}
							}
						case *ssa.Slice:
							if derived[x.X] {
								derived[v] = true
								changed = true
							}
						}
					}
				}
			}
			for v := range derived {
				switch x := v.(type) {
				case *ssa.Slice:
					if hc, ok := x.High.(*ssa.Const); ok && hc.Int64() == 0 {
						continue
					}
					if derived[x.X] {
						bad = "a buffer-derived slice is re-sliced at " + w.Pos(x.Pos()) + ": stale elements may become visible"
					}
				case *ssa.Call:
					if bi, ok := x.Call.Value.(*ssa.Builtin); ok {
						if bi.Name() != "append" && bi.Name() != "len" && bi.Name() != "cap" {
							bad = "buffer-derived slice passed to builtin " + bi.Name()
						}
						continue
					}
					callee := x.Call.StaticCallee()
					if callee == nil {
						bad = "buffer-derived slice passed to a dynamic call at " + w.Pos(x.Pos())
						continue
					}
					// only the shaping context may receive it
					if callee.Signature.Recv() == nil || callee.Name() != "Apply" {
						bad = "buffer-derived slice passed to " + fnName(callee) + " at " + w.Pos(x.Pos()) + " (only append and gtab.Context.Apply may extend it)"
					}
				}
			}
			if bad == "" {
				r.OK("bufreset", key, w.Pos(u.Pos()), "re-used only as [:0], extended only by append / Context.Apply")
			} else {
				r.Fail("bufreset", key, w.Pos(u.Pos()), bad, nil)
			}
		}
	}
	r.Floor("bufreset", 1)
}
