package main

import (
	"fmt"
	"go/ast"
	"go/constant"
	"go/token"
	"go/types"
	"strings"

	"golang.org/x/tools/go/ssa"
)

// C15: end-to-end layout. Structural clauses decided here:
//   required   – FindLookups adds the lookups of the language system's
//                required feature without consulting the caller's feature
//                switches
//   rangefilter– every lookup index appended to FindLookups' result is
//                compared with len(LookupList) first
//   pipeline   – Layouter.Layout runs cmap lookup, GSUB, advance widths, GPOS
//                in this order
//   bufreset   – the Layouter's reusable buffer is only ever re-used as
//                buf[:0] and extended by append, so no field of an earlier
//                result can leak into a later one
//   mapdet     – determinism of feature selection, layout and kern conversion

func init() { properties["C15"] = propC15 }

func propC15(w *World, r *Report) {
	e := NewEffects(w)
	runDet(w, r, e, "C15")
	r.Floor("mapdet", 8)
	checkFindLookups(w, r)
	checkLayoutPipeline(w, r)
	checkBufReset(w, r)
	RunKernFlags(w, r)
	RunBigEndian(w, r, func(p string) bool { return strings.HasSuffix(p, "/kern") })
	RunCursorAdvance(w, r, w.LibFuncs())
	RunLookupZero(w, r)
	r.Floor("cursoradvance", 1)
	RunRecordEffect(w, r)
	RunKernAbsent(w, r)
	RunLigPrefix(w, r)
	RunLigCondition(w, r)
	RunKernPairFirst(w, r)
	RunRequiredInit(w, r)
	RunKernStride(w, r)
}

func checkFindLookups(w *World, r *Report) {
	r.Rule("required: in FindLookups some store into the include-set whose key derives from the language system's Required feature exists, and none of the branch conditions deciding it depends on the caller's feature-switch map || rangefilter: every append to the returned slice is guarded by a comparison against len(LookupList) || optional: the stores for optional features ARE guarded by a lookup in the feature-switch map")
	fn := w.Func("(*opentype/gtab.Info).FindLookups")
	if fn == nil {
		r.Fatal("anchor (*gtab.Info).FindLookups does not resolve")
		return
	}
	name := fnName(fn)
	var sw *ssa.Parameter
	for _, p := range fn.Params {
		if m, ok := p.Type().Underlying().(*types.Map); ok {
			if b, ok := m.Elem().Underlying().(*types.Basic); ok && b.Kind() == types.Bool {
				sw = p
			}
		}
	}
	if sw == nil {
		r.Fatal("FindLookups has no feature-switch parameter (map[...]bool)")
		return
	}
	dependsOnSwitch := func(v ssa.Value) bool {
		return backSlice(v)[sw]
	}
	nReq, nOpt := 0, 0
	cconds := controlConds(fn)
	for _, b := range fn.Blocks {
		for _, ins := range b.Instrs {
			mu, ok := ins.(*ssa.MapUpdate)
			if !ok {
				continue
			}
			// the include-set: a map with bool values allocated in this function
			if _, isMk := mu.Map.(*ssa.MakeMap); !isMk {
				continue
			}
			sl := backSlice(mu.Key)
			fromRequired := sliceHasField(sl, "Required")
			swGuard := false
			for _, cnd := range allConds(cconds, b) {
				if dependsOnSwitch(cnd) {
					swGuard = true
				}
			}
			// range loops: the key comes from iterating feature.Lookups; the feature is
			// selected by Required or by an element of Optional
			if fromRequired {
				nReq++
				key := r.MkKey("required", name, "include-set store for the required feature")
				if swGuard {
					r.Fail("required", key, w.Pos(mu.Pos()), "the lookups of the required feature are only included under a test of the caller's feature switches", nil)
				} else {
					r.OK("required", key, w.Pos(mu.Pos()), "store is not control-dependent on the feature-switch map")
				}
			} else {
				nOpt++
				key := r.MkKey("optional", name, "include-set store for optional features")
				if swGuard {
					r.OK("optional", key, w.Pos(mu.Pos()), "store is guarded by a lookup in the feature-switch map")
				} else {
					r.Fail("optional", key, w.Pos(mu.Pos()), "optional features are included without consulting the caller's feature switches", nil)
				}
			}
		}
	}
	if nReq == 0 {
		r.Fail("required", r.MkKey("required", name, "include-set store for the required feature"), w.Pos(fn.Pos()),
			"no store into the include-set derives from the language system's Required feature: the required feature is never included", nil)
	}
	if nOpt == 0 {
		r.Fail("optional", r.MkKey("optional", name, "include-set store for optional features"), w.Pos(fn.Pos()),
			"no store into the include-set for optional features found", nil)
	}
	// rangefilter: appends that feed the return value
	nApp := 0
	for _, b := range fn.Blocks {
		for _, ins := range b.Instrs {
			c, ok := ins.(*ssa.Call)
			if !ok {
				continue
			}
			bi, ok := c.Call.Value.(*ssa.Builtin)
			if !ok || bi.Name() != "append" {
				continue
			}
			// element type must be the result's element type
			if !types.Identical(c.Type(), fn.Signature.Results().At(0).Type()) {
				continue
			}
			nApp++
			key := r.MkKey("rangefilter", name, "append to result")
			guarded := false
			for _, cnd := range allConds(cconds, b) {
				if cmp, ok := isCompare(cnd); ok {
					for v := range backSlice(cmp) {
						if isLenOfField(v, "LookupList") {
							guarded = true
						}
					}
				}
			}
			if guarded {
				r.OK("rangefilter", key, w.Pos(c.Pos()), "guarded by a comparison with len(LookupList)")
			} else {
				r.Fail("rangefilter", key, w.Pos(c.Pos()), "lookup index appended to the result without a range check against len(LookupList)", nil)
			}
		}
	}
	if nApp == 0 {
		r.Fatal("FindLookups: no append to the result slice found (rule rangefilter matches nothing)")
	}
	// resultpath: what is returned is the filtered and sorted list and nothing else
	resT := fn.Signature.Results().At(0).Type()
	for _, b := range fn.Blocks {
		rt, ok := b.Instrs[len(b.Instrs)-1].(*ssa.Return)
		if !ok || len(rt.Results) == 0 || isNilConst(rt.Results[0]) {
			continue
		}
		key := r.MkKey("rangefilter", name, "returned list")
		foreign := token.NoPos
		built := false
		sl := sliceThroughCells(fn, rt.Results[0])
		for v := range sl {
			if !types.Identical(v.Type(), resT) {
				continue
			}
			switch x := v.(type) {
			case *ssa.Call:
				if bi, ok := x.Call.Value.(*ssa.Builtin); ok && bi.Name() == "append" {
					built = true
				} else {
					foreign = x.Pos()
				}
			case *ssa.UnOp:
				if _, isFA := x.X.(*ssa.FieldAddr); isFA {
					foreign = x.Pos()
				}
			case *ssa.Parameter, *ssa.Extract, *ssa.Lookup, *ssa.Field:
				foreign = x.Pos()
			}
		}
		sorted := false
		for _, b2 := range fn.Blocks {
			if !b2.Dominates(b) {
				continue
			}
			for _, in := range b2.Instrs {
				c, ok := in.(*ssa.Call)
				if !ok || c.Call.StaticCallee() == nil {
					continue
				}
				cn := fnName(c.Call.StaticCallee())
				if !(strings.HasPrefix(cn, "sort.") || strings.HasPrefix(cn, "slices.Sort")) || len(c.Call.Args) == 0 {
					continue
				}
				for v := range sliceThroughCells(fn, c.Call.Args[0]) {
					if types.Identical(v.Type(), resT) || types.Identical(v.Type(), types.NewPointer(resT)) {
						if sl[v] {
							sorted = true
						}
					}
				}
			}
		}
		switch {
		case foreign.IsValid():
			r.Fail("rangefilter", key, w.Pos(rt.Pos()), "the list returned here takes elements from "+w.Pos(foreign)+" that did not pass the range filter, the duplicate removal and the sort: out-of-range, repeated or unordered lookup indices reach the caller", nil)
		case !built || !sorted:
			r.Fail("rangefilter", key, w.Pos(rt.Pos()), "the list returned here is not the one built by the range-filtered appends and sorted before the return", nil)
		default:
			r.OK("rangefilter", key, w.Pos(rt.Pos()), "the filtered list, sorted before the return")
		}
	}
}

// reaches reports whether block a can reach block b along CFG edges (a != b required for a true "later").
func reaches(a, b *ssa.BasicBlock) bool {
	seen := map[*ssa.BasicBlock]bool{}
	stack := append([]*ssa.BasicBlock{}, a.Succs...)
	for len(stack) > 0 {
		x := stack[len(stack)-1]
		stack = stack[:len(stack)-1]
		if seen[x] {
			continue
		}
		seen[x] = true
		if x == b {
			return true
		}
		stack = append(stack, x.Succs...)
	}
	return false
}

func checkLayoutPipeline(w *World, r *Report) {
	r.Rule("pipeline: in (*Layouter).Layout the character-map lookup, the GSUB application, the advance-width assignment and the GPOS application occur in this order on the control-flow graph (no path leads from a later stage back to an earlier one), and the GSUB and GPOS applications are control-dependent on nothing but the nil test of their own table and tests for an empty sequence (no other condition on the text or the glyph sequence)")
	fn := w.Func("(*sfnt.Layouter).Layout")
	if fn == nil {
		r.Fatal("anchor (*sfnt.Layouter).Layout does not resolve")
		return
	}
	name := fnName(fn)
	stage := map[string][]*ssa.BasicBlock{}
	stagePos := map[string]ssa.Instruction{}
	recvField := func(v ssa.Value) string {
		// receiver loaded from a field of the Layouter
		if u, ok := v.(*ssa.UnOp); ok {
			if fa, ok := u.X.(*ssa.FieldAddr); ok && fa.X == fn.Params[0] {
				return fieldName(fa)
			}
		}
		return ""
	}
	for _, b := range fn.Blocks {
		for _, ins := range b.Instrs {
			switch x := ins.(type) {
			case *ssa.Call:
				c := x.Common()
				if c.IsInvoke() && c.Method.Name() == "Lookup" && recvField(c.Value) == "cmap" {
					stage["cmap"] = append(stage["cmap"], b)
					stagePos["cmap"] = ins
				}
				if callee := c.StaticCallee(); callee != nil && callee.Name() == "Apply" && len(c.Args) > 0 {
					switch recvField(c.Args[0]) {
					case "gsub":
						stage["gsub"] = append(stage["gsub"], b)
						stagePos["gsub"] = ins
					case "gpos":
						stage["gpos"] = append(stage["gpos"], b)
						stagePos["gpos"] = ins
					}
				}
			case *ssa.Store:
				if fieldName(x.Addr) == "Advance" {
					stage["width"] = append(stage["width"], b)
					stagePos["width"] = ins
				}
			}
		}
	}
	order := []string{"cmap", "gsub", "width", "gpos"}
	for _, s := range order {
		if len(stage[s]) == 0 {
			r.Fail("pipeline", r.MkKey("pipeline", name, "stage "+s), w.Pos(fn.Pos()), "stage "+s+" not found in Layout", nil)
			return
		}
	}
	// a table that is present is applied to every text: the Apply calls are
	// control-dependent on nothing but the nil test of their own table
	cc := controlConds(fn)
	for _, s := range []string{"gsub", "gpos"} {
		for _, b := range stage[s] {
			key := r.MkKey("pipeline", name, "stage "+s+" runs whenever the table is present")
			bad := ""
			for _, c := range cc[b] {
				okc := false
				if bo, ok := c.(*ssa.BinOp); ok && isNilTest(c) {
					if recvField(bo.X) == s || recvField(bo.Y) == s {
						okc = true
					}
				}
				if !okc && isEmptinessTest(c) {
					okc = true // nothing to apply the lookups to
				}
				if !okc {
					bad = w.Pos(c.Pos())
					if bad == "" || bad == "-" {
						bad = c.String()
					}
				}
			}
			if bad != "" {
				r.FailC("pipeline", key, []string{"conditional"}, w.Pos(stagePos[s].Pos()), fmt.Sprintf("the %s stage of Layout also depends on the condition at %s: for some texts the lookups of a table that is present are not applied", s, bad), nil)
			} else {
				r.OK("pipeline", key, w.Pos(stagePos[s].Pos()), "guarded only by the nil test of l."+s)
			}
		}
	}
	for i := 0; i+1 < len(order); i++ {
		a, b := order[i], order[i+1]
		key := r.MkKey("pipeline", name, a+" before "+b)
		ok := true
		for _, ba := range stage[a] {
			for _, bb := range stage[b] {
				if ba == bb {
					// same block: compare instruction order
					ia, ib := -1, -1
					for k, ins := range ba.Instrs {
						if ins == stagePos[a] {
							ia = k
						}
						if ins == stagePos[b] {
							ib = k
						}
					}
					if ia > ib {
						ok = false
					}
					continue
				}
				if reaches(bb, ba) || !reaches(ba, bb) {
					ok = false
				}
			}
		}
		if ok {
			r.OK("pipeline", key, w.Pos(stagePos[b].Pos()), "every "+a+" site precedes every "+b+" site on the CFG")
		} else {
			r.Fail("pipeline", key, w.Pos(stagePos[b].Pos()), fmt.Sprintf("stage %s does not strictly precede stage %s in Layout", a, b), nil)
		}
	}
}

// checkBufReset: history independence of the Layouter's reusable buffer.
func checkBufReset(w *World, r *Report) {
	r.Rule("bufreset: every value derived from the Layouter's reusable buffer field is re-used only as buf[:0] and grown only by append (never re-sliced to a non-zero length, never passed to a growing helper), so all elements of a result are written completely in the same call")
	for _, fn := range methodsOf(w, "", "Layouter") {
		if len(fn.Blocks) == 0 {
			continue
		}
		name := fnName(fn)
		// loads of slice-typed fields of the receiver
		derived := map[ssa.Value]bool{}
		var loads []*ssa.UnOp
		for _, b := range fn.Blocks {
			for _, ins := range b.Instrs {
				if u, ok := ins.(*ssa.UnOp); ok {
					if fa, ok := u.X.(*ssa.FieldAddr); ok && fa.X == fn.Params[0] {
						if _, isSlice := u.Type().Underlying().(*types.Slice); isSlice {
							loads = append(loads, u)
						}
					}
				}
			}
		}
		if len(loads) == 0 {
			continue
		}
		for _, u := range loads {
			key := r.MkKey("bufreset", name, "load of "+describeAddr(u.X))
			bad := ""
			// every use of the raw load must be a [:0] re-slice
			for _, ref := range *u.Referrers() {
				sl, ok := ref.(*ssa.Slice)
				if !ok || sl.X != u {
					if _, isDbg := ref.(*ssa.DebugRef); isDbg {
						continue
					}
					bad = "the stored buffer is used other than as buf[:0] at " + w.Pos(ref.Pos())
					continue
				}
				hc, ok := sl.High.(*ssa.Const)
				if !ok || hc.Int64() != 0 {
					bad = "the stored buffer is re-sliced to a non-zero length at " + w.Pos(sl.Pos()) + ": elements of the previous result become visible"
					continue
				}
				derived[sl] = true
			}
			// propagate: phi, append results, results of calls taking a derived value
			changed := true
			for changed {
				changed = false
				for _, b := range fn.Blocks {
					for _, ins := range b.Instrs {
						v, ok := ins.(ssa.Value)
						if !ok || derived[v] {
							continue
						}
						switch x := ins.(type) {
						case *ssa.Phi:
							for _, ed := range x.Edges {
								if derived[ed] {
									derived[v] = true
									changed = true
								}
							}
						case *ssa.Call:
							for _, a := range x.Call.Args {
								if derived[a] {
									derived[v] = true
									changed = true
								}
							}
						case *ssa.Slice:
							if derived[x.X] {
								derived[v] = true
								changed = true
							}
						}
					}
				}
			}
			for v := range derived {
				switch x := v.(type) {
				case *ssa.Slice:
					if hc, ok := x.High.(*ssa.Const); ok && hc.Int64() == 0 {
						continue
					}
					if derived[x.X] {
						bad = "a buffer-derived slice is re-sliced at " + w.Pos(x.Pos()) + ": stale elements may become visible"
					}
				case *ssa.Call:
					if bi, ok := x.Call.Value.(*ssa.Builtin); ok {
						if bi.Name() != "append" && bi.Name() != "len" && bi.Name() != "cap" {
							bad = "buffer-derived slice passed to builtin " + bi.Name()
						}
						continue
					}
					callee := x.Call.StaticCallee()
					if callee == nil {
						bad = "buffer-derived slice passed to a dynamic call at " + w.Pos(x.Pos())
						continue
					}
					// only the shaping context may receive it
					if callee.Signature.Recv() == nil || callee.Name() != "Apply" {
						bad = "buffer-derived slice passed to " + fnName(callee) + " at " + w.Pos(x.Pos()) + " (only append and gtab.Context.Apply may extend it)"
					}
				}
			}
			if bad == "" {
				r.OK("bufreset", key, w.Pos(u.Pos()), "re-used only as [:0], extended only by append / Context.Apply")
			} else {
				r.Fail("bufreset", key, w.Pos(u.Pos()), bad, nil)
			}
		}
	}
	r.Floor("bufreset", 1)
}

// RunCursorAdvance: a loop that positions the reader with a loop-carried
// cursor (SeekPos(pos) / ReadAt(.., pos) at the start of each iteration)
// must advance that cursor on every path to the next iteration; a
// `continue` that skips the advance makes the next iteration read the same
// record again and everything after it is lost or misread.
func RunCursorAdvance(w *World, r *Report, fns []*ssa.Function) {
	r.Rule("cursoradvance: where a loop seeks to (or reads at) a loop-carried position variable, no path around the loop leaves that variable unchanged (every value flowing back into it differs from its value at the start of the iteration)")
	for _, fn := range fns {
		if fn.Blocks == nil {
			continue
		}
		for _, l := range naturalLoops(fn) {
			for _, in := range l.head.Instrs {
				ph, ok := in.(*ssa.Phi)
				if !ok {
					break
				}
				if !isIntType(ph.Type()) {
					continue
				}
				// used as a seek/read position inside the loop?
				used := false
				var use ssa.Instruction
				seen := map[ssa.Value]bool{}
				var visit func(v ssa.Value, depth int)
				visit = func(v ssa.Value, depth int) {
					if seen[v] || depth > 3 || v.Referrers() == nil {
						return
					}
					seen[v] = true
					for _, ref := range *v.Referrers() {
						if ref.Block() == nil || !l.body[ref.Block()] {
							continue
						}
						switch x := ref.(type) {
						case *ssa.Convert:
							visit(x, depth+1)
						case *ssa.ChangeType:
							visit(x, depth+1)
						case *ssa.Call:
							name := ""
							if c := x.Call.StaticCallee(); c != nil {
								name = c.Name()
							} else if x.Call.IsInvoke() {
								name = x.Call.Method.Name()
							}
							switch name {
							case "SeekPos", "Seek", "ReadAt":
								for _, a := range x.Call.Args {
									if a == v {
										used, use = true, x
									}
								}
							}
						}
					}
				}
				visit(ph, 0)
				if !used {
					continue
				}
				key := r.MkKey("cursoradvance", fnName(fn), "cursor "+ph.Comment)
				stuck := false
				for i, e := range ph.Edges {
					if l.body[l.head.Preds[i]] && phiSourceIs(e, ph, map[ssa.Value]bool{}) {
						stuck = true
					}
				}
				if stuck {
					r.Fail("cursoradvance", key, w.Pos(use.Pos()), "the position "+ph.Comment+" used here can reach the next iteration unchanged (a continue path skips its update): the same record is read again and the records behind it are never reached", nil)
				} else {
					r.OK("cursoradvance", key, w.Pos(use.Pos()), "updated on every path around the loop")
				}
			}
		}
	}
}

// phiSourceIs: v can be the value ph itself (through other phis), unchanged.
func phiSourceIs(v ssa.Value, ph *ssa.Phi, seen map[ssa.Value]bool) bool {
	if v == ssa.Value(ph) {
		return true
	}
	if seen[v] {
		return false
	}
	seen[v] = true
	if q, ok := v.(*ssa.Phi); ok {
		for _, e := range q.Edges {
			if phiSourceIs(e, ph, seen) {
				return true
			}
		}
	}
	return false
}

// RunLookupZero: glyph ids obtained from the character map while *building
// substitution rules* (the synthetic ligature lookup, the lookup description
// parser) must be tested against 0 one by one: 0 is .notdef, "character not
// in the font", and a rule with .notdef in its input fires on every unmapped
// character.
func RunLookupZero(w *World, r *Report) {
	r.Rule("lookupzero: in the functions that build lookup rules from characters (sfnt.standardLigatures, builder.parser.readGlyphList) every result of cmap Lookup is itself compared with 0 and the zero outcome does not reach the place where the glyph is added to a rule")
	for _, name := range []string{"(*sfnt.Font).standardLigatures", "sfnt.standardLigatures", "(*opentype/gtab/builder.parser).readGlyphList"} {
		fn := w.Func(name)
		if fn == nil {
			continue
		}
		for _, b := range fn.Blocks {
			for _, in := range b.Instrs {
				c, ok := in.(*ssa.Call)
				if !ok || !c.Call.IsInvoke() || c.Call.Method.Name() != "Lookup" {
					continue
				}
				key := r.MkKey("lookupzero", fnName(fn), "result of cmap Lookup")
				tested := false
				var uses []ssa.Instruction
				if c.Referrers() != nil {
					for _, ref := range *c.Referrers() {
						if bo, ok := ref.(*ssa.BinOp); ok && (bo.Op == token.EQL || bo.Op == token.NEQ) {
							if k, ok := bconstInt(bo.Y); ok && k == 0 {
								tested = true
								continue
							}
						}
						uses = append(uses, ref)
					}
				}
				// every other use must be dominated by the outcome "not zero" of such a test
				okUses := tested
				if tested {
					for _, u := range uses {
						guarded := false
						for _, g := range guardsOf(u.Block()) {
							if bo, ok := g.cond.(*ssa.BinOp); ok && bo.X == ssa.Value(c) {
								if k, ok := bconstInt(bo.Y); ok && k == 0 {
									if bo.Op == token.EQL && !g.then || bo.Op == token.NEQ && g.then {
										guarded = true
									}
								}
							}
						}
						if !guarded {
							// the zero branch may end in a call that never returns (p.fatal)
							for _, ref := range *c.Referrers() {
								bo, ok := ref.(*ssa.BinOp)
								if !ok || bo.Referrers() == nil {
									continue
								}
								for _, r2 := range *bo.Referrers() {
									ifi, ok := r2.(*ssa.If)
									if !ok {
										continue
									}
									zero := ifi.Block().Succs[0]
									if bo.Op == token.NEQ {
										zero = ifi.Block().Succs[1]
									}
									if blockNeverContinues(zero) && ifi.Block().Dominates(u.Block()) {
										guarded = true
									}
								}
							}
						}
						if !guarded {
							okUses = false
						}
					}
				}
				if okUses {
					r.OK("lookupzero", key, w.Pos(c.Pos()), "compared with 0, used only when non-zero")
				} else {
					r.Fail("lookupzero", key, w.Pos(c.Pos()), "the glyph id returned by the character map is added to a rule without being tested against 0 (.notdef): for a font that lacks the character the rule then matches every unmapped character", nil)
				}
			}
		}
	}
	r.Floor("lookupzero", 2)
}

// blockNeverContinues: the block calls a function without any return
// instruction (it always panics), or ends in a panic itself.
func blockNeverContinues(b *ssa.BasicBlock) bool {
	for _, in := range b.Instrs {
		switch x := in.(type) {
		case *ssa.Panic:
			return true
		case *ssa.Call:
			if callee := x.Call.StaticCallee(); callee != nil && callee.Blocks != nil {
				hasRet := false
				for _, cb := range callee.Blocks {
					if len(cb.Instrs) > 0 {
						if _, ok := cb.Instrs[len(cb.Instrs)-1].(*ssa.Return); ok {
							hasRet = true
						}
					}
				}
				if !hasRet {
					return true
				}
			}
		}
	}
	return false
}

// RunRecordEffect: kern.Read folds every pair record of every accepted
// subtable into the result map (add, override or minimum).  In the loop that
// reads the records no path from the head of an iteration back to the head
// may bypass the result map: a record that is skipped on the strength of its
// own value (0, say) cannot reset or raise what an earlier subtable stored.
func RunRecordEffect(w *World, r *Report) {
	r.Rule("recordeffect: in kern.Read every path around the pair-record loop consults or updates the result map (a lookup or an update of the map the function returns): no record is dropped before it has been combined with what earlier subtables stored")
	fn := w.Func("kern.Read")
	if fn == nil {
		r.Fatal("kern.Read does not resolve")
		return
	}
	// the result map: the map value returned with a nil error
	isRes := func(v ssa.Value) bool {
		for d := 0; d < 4; d++ {
			switch x := v.(type) {
			case *ssa.MakeMap:
				return true
			case *ssa.ChangeType:
				v = x.X
			case *ssa.Phi:
				if len(x.Edges) == 0 {
					return false
				}
				v = x.Edges[0]
			default:
				return false
			}
		}
		return false
	}
	touch := map[*ssa.BasicBlock]bool{}
	for _, b := range fn.Blocks {
		for _, in := range b.Instrs {
			switch x := in.(type) {
			case *ssa.MapUpdate:
				if isRes(x.Map) {
					touch[b] = true
				}
			case *ssa.Lookup:
				if isRes(x.X) {
					touch[b] = true
				}
			}
		}
	}
	// innermost loop containing a touching block
	var loop *natLoop
	for _, l := range naturalLoops(fn) {
		has := false
		for b := range l.body {
			if touch[b] {
				has = true
			}
		}
		if has && (loop == nil || len(l.body) < len(loop.body)) {
			loop = l
		}
	}
	key := r.MkKey("recordeffect", "kern.Read", "pair-record loop")
	if loop == nil {
		r.Fail("recordeffect", key, w.Pos(fn.Pos()), "no loop of kern.Read touches the result map", nil)
		r.Floor("recordeffect", 1)
		return
	}
	// can a latch be reached from the head without passing a touching block?
	seen := map[*ssa.BasicBlock]bool{loop.head: true}
	work := []*ssa.BasicBlock{loop.head}
	var bypass *ssa.BasicBlock
	for len(work) > 0 && bypass == nil {
		b := work[len(work)-1]
		work = work[:len(work)-1]
		for _, s := range b.Succs {
			if s == loop.head {
				bypass = b
				break
			}
			if !loop.body[s] || touch[s] || seen[s] {
				continue
			}
			seen[s] = true
			work = append(work, s)
		}
	}
	if bypass == nil {
		r.OK("recordeffect", key, w.Pos(loop.head.Instrs[0].Pos()), "every path around the loop consults or updates the result map")
	} else {
		pos := fn.Pos()
		for _, in := range bypass.Instrs {
			if in.Pos().IsValid() {
				pos = in.Pos()
			}
		}
		r.Fail("recordeffect", key, w.Pos(pos), "an iteration of the pair-record loop can return to the loop head without consulting or updating the result map: the record is dropped, so a pair listed in an override or minimum subtable keeps the value of an earlier subtable", nil)
	}
	r.Floor("recordeffect", 1)
}

// RunLigPrefix: the ligature rules standardLigatures builds are tried in the
// order of its string table (Gsub4_1 takes the first ligature of a set that
// matches).  A sequence that is a proper prefix of a later one would always
// win, so the longer ligature could never be produced.
func RunLigPrefix(w *World, r *Report) {
	r.Rule("ligprefix: in the constant string table of standardLigatures no component sequence is a proper prefix of one listed after it (an optional leading ligature character U+FB00..U+FB06 is not part of the sequence): first-match order then finds the longest ligature")
	pkg := w.All[modPath]
	if pkg == nil {
		r.Fatal("root package not loaded")
		return
	}
	fd := findFunc(pkg.Syntax, "standardLigatures")
	key := r.MkKey("ligprefix", "sfnt.standardLigatures", "string table")
	if fd == nil {
		r.Fail("ligprefix", key, "-", "standardLigatures not found", nil)
		return
	}
	info := pkg.TypesInfo
	var best []string
	var bestPos token.Pos
	ast.Inspect(fd.Body, func(n ast.Node) bool {
		cl, ok := n.(*ast.CompositeLit)
		if !ok {
			return true
		}
		var strs []string
		for _, el := range cl.Elts {
			if kv, ok := el.(*ast.KeyValueExpr); ok {
				el = kv.Value
			}
			tv, ok := info.Types[el]
			if !ok || tv.Value == nil || tv.Value.Kind() != constant.String {
				return true
			}
			strs = append(strs, constant.StringVal(tv.Value))
		}
		if len(strs) > len(best) {
			best, bestPos = strs, cl.Pos()
		}
		return true
	})
	if len(best) < 3 {
		r.Fail("ligprefix", key, w.Pos(fd.Pos()), "no constant string table with the ligature sequences found in standardLigatures", nil)
		return
	}
	seqs := make([]string, len(best))
	for i, s := range best {
		rs := []rune(s)
		if len(rs) > 0 && rs[0] >= 0xFB00 && rs[0] <= 0xFB06 {
			rs = rs[1:]
		}
		seqs[i] = string(rs)
	}
	for i := range seqs {
		for j := i + 1; j < len(seqs); j++ {
			if len(seqs[i]) < len(seqs[j]) && strings.HasPrefix(seqs[j], seqs[i]) {
				r.Fail("ligprefix", key, w.Pos(bestPos), fmt.Sprintf("the sequence %q is listed before %q, of which it is a prefix: the shorter ligature always matches first and the longer one is never produced", seqs[i], seqs[j]), nil)
				r.Floor("ligprefix", 1)
				return
			}
		}
	}
	r.OK("ligprefix", key, w.Pos(bestPos), fmt.Sprintf("%d sequences, none a proper prefix of a later one", len(seqs)))
	r.Floor("ligprefix", 1)
}

// RunLigCondition: sfnt.Read gives a font without GSUB the standard
// f-ligatures when the font is proportional.  "Proportional" is a statement
// about the advance widths; the flag in the post table is only a hint that
// real fonts get wrong.  The call of standardLigatures must therefore be
// decided by (*Font).IsFixedPitch — computed from the widths — and by
// nothing that comes from the post table.
func RunLigCondition(w *World, r *Report) {
	r.Rule("ligcondition: in sfnt.Read the call of standardLigatures is control-dependent on the result of (*Font).IsFixedPitch (computed from the advance widths) being false, and on no condition that reads the post table's data")
	fn := w.Func("sfnt.Read")
	if fn == nil {
		r.Fatal("sfnt.Read does not resolve")
		return
	}
	key := r.MkKey("ligcondition", "sfnt.Read", "call of standardLigatures")
	var call *ssa.Call
	for _, b := range fn.Blocks {
		for _, in := range b.Instrs {
			if c, ok := in.(*ssa.Call); ok {
				if cal := c.Call.StaticCallee(); cal != nil && cal.Name() == "standardLigatures" {
					call = c
				}
			}
		}
	}
	if call == nil {
		r.Fail("ligcondition", key, w.Pos(fn.Pos()), "sfnt.Read does not call standardLigatures", nil)
		r.Floor("ligcondition", 1)
		return
	}
	conds := controlConds(fn)[call.Block()]
	byWidths := false
	bad := ""
	for _, c := range conds {
		sl := backSlice(c)
		for v := range sl {
			cc, ok := v.(*ssa.Call)
			if !ok {
				continue
			}
			if cal := cc.Call.StaticCallee(); cal != nil && fnName(cal) == "(*sfnt.Font).IsFixedPitch" {
				byWidths = true
			}
		}
		for v := range sl {
			// anything loaded from a *post.Info
			if fa, ok := v.(*ssa.FieldAddr); ok {
				if strings.Contains(fa.X.Type().String(), "/post.Info") {
					bad = "a condition of the call reads " + fieldName(fa) + " of the post table"
				}
			}
		}
	}
	switch {
	case bad != "":
		r.Fail("ligcondition", key, w.Pos(call.Pos()), bad+": whether a font is proportional is decided by its advance widths; with a stale isFixedPitch flag a proportional font gets no ligatures", nil)
	case !byWidths:
		r.Fail("ligcondition", key, w.Pos(call.Pos()), "the call of standardLigatures does not depend on (*Font).IsFixedPitch", nil)
	default:
		r.OK("ligcondition", key, w.Pos(call.Pos()), "decided by IsFixedPitch (advance widths)")
	}
	r.Floor("ligcondition", 1)
}

// sliceThroughCells: the backward slice of v, continued through local
// variable cells (a load of a captured variable depends on every value
// stored into its cell in fn).
func sliceThroughCells(fn *ssa.Function, v ssa.Value) map[ssa.Value]bool {
	res := map[ssa.Value]bool{}
	work := []ssa.Value{v}
	for len(work) > 0 {
		x := work[len(work)-1]
		work = work[:len(work)-1]
		for y := range backSlice(x) {
			if res[y] {
				continue
			}
			res[y] = true
			if al, ok := y.(*ssa.Alloc); ok && al.Referrers() != nil {
				for _, ref := range *al.Referrers() {
					if st, ok := ref.(*ssa.Store); ok && st.Addr == ssa.Value(al) && !res[st.Val] {
						work = append(work, st.Val)
					}
				}
			}
		}
	}
	return res
}

// RunKernPairFirst: "a font that carries only a legacy kern table kerns every
// pair by exactly the table's value" includes overlapping pairs: in "AVA"
// both (A,V) and (V,A) apply, so after the first pair the scan has to go on
// at the V.  Gpos2_1.apply decides that by one field of the pair record (nil:
// continue at the second glyph, non-nil: behind it).  The rule finds that
// field in apply — the field whose nil test separates two returns — and
// requires that the records sfnt.Read builds from a kern table leave it unset.
func RunKernPairFirst(w *World, r *Report) {
	r.Rule("kernpairfirst: the field of gtab.PairAdjust whose nil test decides in Gpos2_1.apply whether the next pair may start at the second glyph is left nil in every pair record that sfnt.Read builds from a kern table (an empty value record there would consume the second glyph and suppress the overlapping pair)")
	ap := w.Func("(opentype/gtab.Gpos2_1).apply")
	rd := w.Func("sfnt.Read")
	key := r.MkKey("kernpairfirst", "sfnt.Read", "pair records built from the kern table")
	if ap == nil || rd == nil {
		r.Fatal("kernpairfirst: Gpos2_1.apply or sfnt.Read does not resolve")
		return
	}
	// the deciding field: If on (load adj.F) == nil / != nil where both arms return
	field := -1
	var recT types.Type
	for _, b := range ap.Blocks {
		ifi, ok := b.Instrs[len(b.Instrs)-1].(*ssa.If)
		if !ok {
			continue
		}
		bo, ok := ifi.Cond.(*ssa.BinOp)
		if !ok || (bo.Op != token.EQL && bo.Op != token.NEQ) {
			continue
		}
		var ld *ssa.UnOp
		if isNilConst(bo.Y) {
			ld, _ = bo.X.(*ssa.UnOp)
		} else if isNilConst(bo.X) {
			ld, _ = bo.Y.(*ssa.UnOp)
		}
		if ld == nil {
			continue
		}
		fa, ok := ld.X.(*ssa.FieldAddr)
		if !ok {
			continue
		}
		// one arm returns at once
		direct := false
		for _, s := range b.Succs {
			if _, isRet := s.Instrs[len(s.Instrs)-1].(*ssa.Return); isRet && len(s.Instrs) <= 2 {
				direct = true
			}
		}
		if direct {
			field = fa.Field
			recT = fa.X.Type().Underlying().(*types.Pointer).Elem()
		}
	}
	if field < 0 {
		r.Fail("kernpairfirst", key, w.Pos(ap.Pos()), "no nil test of a field of the pair record that separates two returns was found in Gpos2_1.apply: the rule cannot tell how the next position is chosen", nil)
		return
	}
	n := 0
	var bad token.Pos
	for _, b := range rd.Blocks {
		for _, in := range b.Instrs {
			st, ok := in.(*ssa.Store)
			if !ok {
				continue
			}
			fa, ok := st.Addr.(*ssa.FieldAddr)
			if !ok || !types.Identical(fa.X.Type().Underlying().(*types.Pointer).Elem(), recT) {
				continue
			}
			n++
			if fa.Field == field && !isNilConst(st.Val) {
				bad = st.Pos()
			}
		}
	}
	fname := recT.Underlying().(*types.Struct).Field(field).Name()
	switch {
	case n == 0:
		r.Fail("kernpairfirst", key, w.Pos(rd.Pos()), "sfnt.Read builds no pair records (the kern conversion is gone or has moved)", nil)
	case bad.IsValid():
		r.Fail("kernpairfirst", key, w.Pos(bad), "the pair records built from the kern table set "+fname+": Gpos2_1.apply then continues behind the second glyph, so of two overlapping pairs (A,V) and (V,A) only the first is applied", nil)
	default:
		r.OK("kernpairfirst", key, w.Pos(rd.Pos()), fname+" is left nil")
	}
}

// RunKernAbsent: a pair that no earlier subtable listed has kerning value 0.
// Whether a record of a "minimum", "override" or accumulating subtable
// changes the result therefore must not depend on the pair being present in
// the map already: no update of the result map in kern.Read is
// control-dependent on the presence flag of a lookup in that map.
func RunKernAbsent(w *World, r *Report) {
	r.Rule("kernabsent: in kern.Read no update of the result map is control-dependent on the presence flag (the second result) of a lookup in that same map: a pair that no earlier subtable listed counts as kerning value 0, so a minimum or override record applies to it as well")
	fn := w.Func("kern.Read")
	if fn == nil {
		r.Fatal("kern.Read does not resolve")
		return
	}
	n := 0
	kaCC := controlConds(fn)
	for _, b := range fn.Blocks {
		for _, in := range b.Instrs {
			mu, ok := in.(*ssa.MapUpdate)
			if !ok {
				continue
			}
			n++
			key := r.MkKey("kernabsent", "kern.Read", "update of the result map")
			bad := ""
			var conds []ssa.Value
			for _, g := range guardsOf(b) {
				conds = append(conds, g.cond)
			}
			conds = append(conds, kaCC[b]...) // also conditions joined by || (the block has several predecessors)
			for _, cond := range conds {
				for v := range backSlice(cond) {
					ex, ok := v.(*ssa.Extract)
					if !ok || ex.Index != 1 {
						continue
					}
					if lk, ok := ex.Tuple.(*ssa.Lookup); ok && lk.CommaOk && sameMapValue(lk.X, mu.Map) {
						bad = w.Pos(lk.Pos())
					}
				}
			}
			if bad == "" {
				r.OK("kernabsent", key, w.Pos(mu.Pos()), "the update does not depend on the pair being present already")
			} else {
				r.Fail("kernabsent", key, w.Pos(mu.Pos()), "whether this update of the kerning map happens depends on the pair being present already (presence flag of the lookup at "+bad+"): a pair no earlier subtable listed counts as kerning 0, so a minimum record must neither be skipped for it (a minimum above 0) nor applied unconditionally (a minimum below 0)", nil)
			}
		}
	}
	if n == 0 {
		r.Fail("kernabsent", r.MkKey("kernabsent", "kern.Read", "update of the result map"), w.Pos(fn.Pos()), "kern.Read never updates a map", nil)
	}
	r.Floor("kernabsent", 3)
}

func sameMapValue(a, b ssa.Value) bool {
	strip := func(v ssa.Value) ssa.Value {
		for {
			switch x := v.(type) {
			case *ssa.ChangeType:
				v = x.X
			case *ssa.Phi:
				if len(x.Edges) == 0 {
					return v
				}
				v = x.Edges[0]
			default:
				return v
			}
		}
	}
	return strip(a) == strip(b)
}

// isEmptinessTest: len(x) compared with 0 for (in)equality, or len(x) > 0 /
// len(x) >= 1 and their mirror images.
func isEmptinessTest(v ssa.Value) bool {
	b, ok := v.(*ssa.BinOp)
	if !ok {
		return false
	}
	isLen := func(x ssa.Value) bool {
		c, ok := x.(*ssa.Call)
		if !ok {
			return false
		}
		bi, ok := c.Call.Value.(*ssa.Builtin)
		return ok && bi.Name() == "len"
	}
	constOf := func(x ssa.Value) (int64, bool) {
		c, ok := x.(*ssa.Const)
		if !ok || c.Value == nil {
			return 0, false
		}
		return c.Int64(), true
	}
	if isLen(b.X) {
		if k, ok := constOf(b.Y); ok {
			switch {
			case k == 0 && (b.Op == token.EQL || b.Op == token.NEQ || b.Op == token.GTR || b.Op == token.LEQ):
				return true
			case k == 1 && (b.Op == token.GEQ || b.Op == token.LSS):
				return true
			}
		}
	}
	if isLen(b.Y) {
		if k, ok := constOf(b.X); ok {
			switch {
			case k == 0 && (b.Op == token.EQL || b.Op == token.NEQ || b.Op == token.LSS || b.Op == token.GEQ):
				return true
			case k == 1 && (b.Op == token.LEQ || b.Op == token.GTR):
				return true
			}
		}
	}
	return false
}

// RunRequiredInit: gtab.Features.Required names the required feature of a
// language system by index; "none" is 0xFFFF, so the zero value of the field
// makes feature 0 required. Every Features value the library builds says what
// it means: the composite literal sets Required.
func RunRequiredInit(w *World, r *Report) {
	r.Rule("requiredinit: every composite literal of gtab.Features in the library sets the field Required explicitly (its zero value makes feature 0 the required feature, which the caller's feature switches cannot turn off), and a table synthesised in package sfnt sets it to 0xFFFF (no required feature)")
	n := 0
	for _, p := range w.Pkgs {
		if !isLibPkg(p.PkgPath) {
			continue
		}
		for _, f := range p.Syntax {
			if strings.HasSuffix(w.Fset.Position(f.Pos()).Filename, "_test.go") {
				continue
			}
			var stack []ast.Node
			ast.Inspect(f, func(nd ast.Node) bool {
				if nd == nil {
					stack = stack[:len(stack)-1]
					return true
				}
				stack = append(stack, nd)
				cl, ok := nd.(*ast.CompositeLit)
				if !ok {
					return true
				}
				t := p.TypesInfo.TypeOf(cl)
				if t == nil {
					return true
				}
				if pt, ok := t.(*types.Pointer); ok {
					t = pt.Elem()
				}
				nt, ok := t.(*types.Named)
				if !ok || nt.Obj().Name() != "Features" || nt.Obj().Pkg() == nil || !strings.HasSuffix(nt.Obj().Pkg().Path(), "/opentype/gtab") {
					return true
				}
				n++
				fnn := "package " + p.Name
				for i := len(stack) - 1; i >= 0; i-- {
					if fd, ok := stack[i].(*ast.FuncDecl); ok {
						fnn = p.Name + "." + fd.Name.Name
						break
					}
				}
				key := r.MkKey("requiredinit", fnn, "gtab.Features literal")
				has := false
				forced := ""
				for _, el := range cl.Elts {
					if kv, ok := el.(*ast.KeyValueExpr); ok {
						if id, ok := kv.Key.(*ast.Ident); ok && id.Name == "Required" {
							has = true
							// a table the library makes up itself (outside package gtab) has no business forcing a feature on
							if tv, ok := p.TypesInfo.Types[kv.Value]; ok && tv.Value != nil && p.PkgPath == modPath {
								if v, ok := constant.Int64Val(tv.Value); ok && v != 0xFFFF {
									forced = tv.Value.ExactString()
								}
							}
						}
					} else {
						has = true // positional: all fields given
					}
				}
				if forced != "" {
					r.FailC("requiredinit", key, []string{"forced"}, w.Pos(cl.Pos()), "this table, which the library synthesises itself, names feature "+forced+" as the required feature of its language system: it is applied whatever the caller's feature switches say (switching it off has no effect)", nil)
					return true
				}
				if has {
					r.OK("requiredinit", key, w.Pos(cl.Pos()), "Required is set")
				} else {
					r.Fail("requiredinit", key, w.Pos(cl.Pos()), "this gtab.Features value leaves Required at its zero value: feature 0 of the table becomes the required feature and is applied whatever the caller's feature switches say", nil)
				}
				return true
			})
		}
	}
	r.Floor("requiredinit", 2)
}

// RunKernStride: the subtables of a kern table follow each other at the
// distance their length field declares (bytes 2,3 of the subtable header);
// kern.Read steps from one subtable to the next by that length on every path
// — not by a size it computes from the number of pairs, which ignores any
// slack a writer left behind the pairs.
func RunKernStride(w *World, r *Report) {
	r.Rule("kernstride: in kern.Read every value that flows around the subtable loop into the position of the next subtable is the previous position plus a value computed from bytes 2 and 3 of the subtable header (the declared length) and from nothing else that is read from the table")
	fn := w.Func("kern.Read")
	if fn == nil {
		r.Fatal("kern.Read does not resolve")
		return
	}
	n := 0
	for _, l := range naturalLoops(fn) {
		for _, hin := range l.head.Instrs {
			ph, ok := hin.(*ssa.Phi)
			if !ok {
				break
			}
			bt, ok := ph.Type().Underlying().(*types.Basic)
			if !ok || bt.Kind() != types.Int64 {
				continue
			}
			// the position: used as argument of SeekPos
			isPos := false
			if ph.Referrers() != nil {
				for _, ref := range *ph.Referrers() {
					if c, ok := ref.(*ssa.Call); ok && c.Call.StaticCallee() != nil && c.Call.StaticCallee().Name() == "SeekPos" {
						isPos = true
					}
				}
			}
			if !isPos {
				continue
			}
			n++
			key := r.MkKey("kernstride", "kern.Read", "position of the next subtable")
			bad := ""
			var check func(v ssa.Value, seen map[ssa.Value]bool)
			check = func(v ssa.Value, seen map[ssa.Value]bool) {
				if seen[v] || v == ssa.Value(ph) {
					return
				}
				seen[v] = true
				switch x := v.(type) {
				case *ssa.Phi:
					for _, e := range x.Edges {
						check(e, seen)
					}
				case *ssa.BinOp:
					if x.Op == token.ADD && x.X == ssa.Value(ph) {
						has2, has3 := false, false
						for u := range backSlice(x.Y) {
							switch y := u.(type) {
							case *ssa.IndexAddr:
								if k, ok := bconstInt(y.Index); ok {
									if k == 2 {
										has2 = true
									}
									if k == 3 {
										has3 = true
									}
								}
							case *ssa.Call:
								if c := y.Call.StaticCallee(); c != nil && strings.HasPrefix(c.Name(), "ReadUint") {
									bad = "a value read later from the table (" + c.Name() + " at " + w.Pos(y.Pos()) + ")"
								}
							}
						}
						if !has2 || !has3 {
							if bad == "" {
								bad = "a step that is not computed from the length field (bytes 2,3 of the header)"
							}
						}
						return
					}
					if x.Op == token.ADD {
						check(x.X, seen)
						return
					}
					bad = "a value that is not the previous position plus a step"
				default:
					bad = "a value that is not the previous position plus a step"
				}
			}
			for i, e := range ph.Edges {
				if l.head.Dominates(l.head.Preds[i]) {
					check(e, map[ssa.Value]bool{})
				}
			}
			if bad == "" {
				r.OK("kernstride", key, w.Pos(ph.Pos()), "advanced by the declared length on every path")
			} else {
				r.Fail("kernstride", key, w.Pos(ph.Pos()), "the position of the next subtable is advanced by "+bad+": a subtable whose declared length includes slack behind its pairs is followed by a header read from the wrong place, and the table is rejected or mis-read", nil)
			}
		}
	}
	if n == 0 {
		r.Fail("kernstride", r.MkKey("kernstride", "kern.Read", "position of the next subtable"), w.Pos(fn.Pos()), "no loop-carried position that is passed to SeekPos found in kern.Read", nil)
	}
}
