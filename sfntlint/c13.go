package main

import (
	"fmt"
	"go/constant"
	"go/token"
	"go/types"
	"sort"
	"strings"

	"golang.org/x/tools/go/ssa"
)

func init() { properties["C13"] = propC13 }

type dictWrite struct {
	op    string
	kind  string // "int", "int<-float", "float", "string", "other"
	pos   token.Pos
	fn    *ssa.Function
	omitC string // constant the writer compares the value with before omitting the operator ("" = none found)
}

type dictRead struct {
	op     string
	getter string
	def    string
	pos    token.Pos
	fn     *ssa.Function
}

func constName(v ssa.Value) string {
	c, ok := v.(*ssa.Const)
	if !ok || c.Value == nil {
		return ""
	}
	return c.Value.ExactString()
}

// C13: CFF structures and numbers survive write/read.
func propC13(w *World, r *Report) {
	defer RunCacheParam(w, r, "/cff")
	defer runDeadAccIn(w, r, "/cff")
	defer RunSearchMonotone(w, r, "/cff")
	e := NewEffects(w)
	runDet(w, r, e, "C13")
	if wf := w.Func("(*cff.Font).Write"); wf != nil {
		RunFixpointCover(w, r, newBoundsRun(w), []*ssa.Function{wf})
		r.Floor("fixpointcover", 1)
	} else {
		r.Fatal("(*cff.Font).Write does not resolve")
	}
	{
		// the font-dictionary assignment is a function of the glyph: the
		// FDSelect closures the reader and the subsetter build must not keep
		// state between calls (a remembered "current range" makes the answer
		// depend on the order of the queries)
		var cffFns []*ssa.Function
		for _, fn := range w.LibFuncs() {
			if strings.HasSuffix(fnPkgPath(fn), "/cff") {
				cffFns = append(cffFns, fn)
			}
		}
		RunClosureState(w, r, cffFns)
		r.Floor("closurestate", 2)
		RunFDSelectFill(w, r)
		RunPredefEncoding(w, r)
		RunDefaultFlag(w, r)
		RunOmitTolerance(w, r)
		RunStructCover(w, r, "cff", "Outlines", []string{"cff.Read"}, []string{"(*cff.Font).Write"})
		RunStructCover(w, r, "cff", "Font", []string{"cff.Read"}, []string{"(*cff.Font).Write"})
	}
	r.Rule("dicttypes: for every CFF DICT operator the Go type the writer stores (int32 / float64 / string, per operand) can carry what the reader extracts (getInt / getFloat / getString …): an operator the reader reads as a real must not be written from a float that was truncated to int32, and an operator the reader reads with getInt must not be written as a real (getInt ignores reals) || dictdefaults: where the writer omits an operator because the value equals a constant, that constant equals the default the reader substitutes || bigendian on package cff")
	sp := w.SSAPkg[modPath+"/cff"]
	if sp == nil {
		r.Fatal("package cff not loaded")
		return
	}
	opName := map[string]string{} // exact constant -> name
	for name, m := range sp.Members {
		if c, ok := m.(*ssa.NamedConst); ok && strings.HasPrefix(name, "op") && c.Type().String() == modPath+"/cff.dictOp" {
			opName[c.Value.Value.ExactString()] = name
		}
	}
	var writes []dictWrite
	var reads []dictRead
	setterWrites := map[string]bool{}
	for _, fn := range w.LibFuncs() {
		if fnPkgPath(fn) != sp.Pkg.Path() {
			continue
		}
		cc := controlConds(fn)
		for _, b := range fn.Blocks {
			for _, ins := range b.Instrs {
				switch x := ins.(type) {
				case *ssa.MapUpdate:
					if !strings.HasSuffix(x.Map.Type().String(), "cff.cffDict") {
						continue
					}
					op := opName[constName(x.Key)]
					if op == "" {
						continue
					}
					// value: a []interface{} built from an array literal
					kinds := sliceElemKinds(x.Value)
					omit := ""
					for _, cnd := range allConds(cc, b) {
						if bo, ok := cnd.(*ssa.BinOp); ok && (bo.Op == token.NEQ || bo.Op == token.EQL) {
							if c := constName(bo.Y); c != "" {
								omit = c
							} else if c := constName(bo.X); c != "" {
								omit = c
							} else if isNumeric(bo.X.Type()) && isNumeric(bo.Y.Type()) {
								// omitted when the value equals another (non-constant) value:
								// the reader can only substitute a constant
								k3 := r.MkKey("dictdefaults", "cff", "operator "+op+" (variable comparison)")
								r.FailC("dictdefaults", k3, []string{"nonconstant"}, w.Pos(x.Pos()), fmt.Sprintf("%s is written only when two run-time values differ (%s): when they are equal the operator is missing and the reader substitutes its constant default, not that value", op, w.Pos(bo.Pos())), nil)
							}
						}
					}
					for _, k := range kinds {
						writes = append(writes, dictWrite{op: op, kind: k, pos: x.Pos(), fn: fn, omitC: omit})
					}
				case *ssa.Call:
					callee := x.Call.StaticCallee()
					if callee == nil || callee.Signature.Recv() == nil || !strings.HasSuffix(callee.Signature.Recv().Type().String(), "cff.cffDict") {
						continue
					}
					if strings.HasPrefix(callee.Name(), "set") && len(x.Call.Args) >= 2 {
						// a setter helper (setDeltaF16, setFontMatrix) stores the operator it is given
						if op := opName[constName(x.Call.Args[1])]; op != "" {
							setterWrites[op] = true
						}
						continue
					}
					if !strings.HasPrefix(callee.Name(), "get") || len(x.Call.Args) < 2 {
						continue
					}
					op := opName[constName(x.Call.Args[1])]
					if op == "" {
						continue
					}
					def := ""
					if len(x.Call.Args) >= 3 {
						def = constName(x.Call.Args[2])
					}
					reads = append(reads, dictRead{op: op, getter: callee.Name(), def: def, pos: x.Pos(), fn: fn})
				}
			}
		}
	}
	if len(writes) < 15 || len(reads) < 15 {
		r.Fatal("dicttypes: only %d operator writes and %d reads found in package cff", len(writes), len(reads))
		return
	}
	byOp := map[string][]dictRead{}
	for _, rd := range reads {
		byOp[rd.op] = append(byOp[rd.op], rd)
	}
	sort.Slice(writes, func(i, j int) bool {
		if writes[i].op != writes[j].op {
			return writes[i].op < writes[j].op
		}
		return writes[i].pos < writes[j].pos
	})
	for _, wr := range writes {
		key := r.MkKey("dicttypes", "cff", "operator "+wr.op+" written in "+fnName(wr.fn))
		rds := byOp[wr.op]
		if len(rds) == 0 {
			r.OK("dicttypes", key, w.Pos(wr.pos), "written as "+wr.kind+" (not read back through a typed getter)")
			continue
		}
		bad := ""
		for _, rd := range rds {
			switch {
			case wr.kind == "int<-float" && (rd.getter == "getFloat" || rd.getter == "getDeltaF16"):
				bad = fmt.Sprintf("%s is written as int32(<float64 value>) — the fraction is cut off — but read back with %s as a real number at %s", wr.op, rd.getter, w.Pos(rd.pos))
			case (wr.kind == "float" || wr.kind == "number") && rd.getter == "getInt":
				bad = fmt.Sprintf("%s is written as a real but read back with getInt at %s, which ignores reals and returns the default", wr.op, w.Pos(rd.pos))
			case wr.kind == "string" && rd.getter != "getString":
				bad = fmt.Sprintf("%s is written as a string but read with %s", wr.op, rd.getter)
			}
		}
		if bad != "" {
			r.FailC("dicttypes", key, []string{"lossy"}, w.Pos(wr.pos), bad, nil)
		} else {
			r.OK("dicttypes", key, w.Pos(wr.pos), "written as "+wr.kind+", read with "+rds[0].getter)
		}
		// defaults
		if wr.omitC != "" {
			for _, rd := range rds {
				if rd.def == "" {
					continue
				}
				k2 := r.MkKey("dictdefaults", "cff", "operator "+wr.op)
				if constEqual(wr.omitC, rd.def) {
					r.OK("dictdefaults", k2, w.Pos(wr.pos), "omitted when equal to "+wr.omitC+", which is the reader's default")
				} else {
					r.FailC("dictdefaults", k2, []string{"default"}, w.Pos(wr.pos), fmt.Sprintf("%s is omitted when the value equals %s, but the reader substitutes %s when the operator is missing", wr.op, wr.omitC, rd.def), nil)
				}
			}
		}
	}
	// dictcover: what the reader asks a dictionary for, the writer puts there
	{
		written := map[string]bool{}
		for _, wr := range writes {
			written[wr.op] = true
		}
		for op := range setterWrites {
			written[op] = true
		}
		var ops []string
		firstRead := map[string]dictRead{}
		for _, rd := range reads {
			if _, ok := firstRead[rd.op]; !ok {
				firstRead[rd.op] = rd
				ops = append(ops, rd.op)
			}
		}
		sort.Strings(ops)
		for _, op := range ops {
			key := r.MkKey("dictcover", "cff", "operator "+op+" read")
			if written[op] {
				r.OK("dictcover", key, w.Pos(firstRead[op].pos), "the writer stores this operator")
			} else {
				r.Fail("dictcover", key, w.Pos(firstRead[op].pos), fmt.Sprintf("the reader takes %s from a dictionary (%s in %s) but no writer of the package ever stores it: what the font holds for it cannot survive a write/read cycle (for a structural operator such as FDArray or CharStrings the written font is unreadable)", op, firstRead[op].getter, fnName(firstRead[op].fn)), nil)
			}
		}
	}
	r.Floor("dictcover", 25)
	RunBigEndian(w, r, func(p string) bool { return p == sp.Pkg.Path() })
	for _, a := range boundsAssumptions {
		r.Assumes(a)
	}
	br13 := newBoundsRun(w)
	RunLosslessFor(w, r, "C13", br13)
	runNarrowBoundIn(w, r, br13, "/cff")
	runFlagReduceIn(w, r, "/cff")
	var cffFns []*ssa.Function
	for _, f := range w.LibFuncs() {
		if strings.HasSuffix(fnPkgPath(f), "/cff") {
			cffFns = append(cffFns, f)
		}
	}
	RunNumberExact(w, r)
	RunPrevSentinel(w, r, cffFns)
	r.Floor("prevsentinel", 1)
	r.Floor("dicttypes", 15)
	checkOffSize(w, r)
	{
		var cf []*ssa.Function
		for _, f := range w.LibFuncs() {
			if fnPkgPath(f) == sp.Pkg.Path() {
				cf = append(cf, f)
			}
		}
		RunLoopAlias(w, r, cf)
		RunControl(r, "loopalias", "ctlLoopAlias", RunLoopAlias)
	}
	checkWidthDict(w, r)
}

func constEqual(a, b string) bool {
	if a == b {
		return true
	}
	va := constant.MakeFromLiteral(a, token.FLOAT, 0)
	vb := constant.MakeFromLiteral(b, token.FLOAT, 0)
	if va.Kind() == constant.Unknown || vb.Kind() == constant.Unknown {
		return false
	}
	return constant.Compare(va, token.EQL, vb)
}

// sliceElemKinds classifies the elements of a []interface{} value built from a literal.
func sliceElemKinds(v ssa.Value) []string {
	sl, ok := v.(*ssa.Slice)
	if !ok {
		return []string{"other"}
	}
	al, ok := sl.X.(*ssa.Alloc)
	if !ok {
		return []string{"other"}
	}
	var kinds []string
	for _, ref := range *al.Referrers() {
		ia, ok := ref.(*ssa.IndexAddr)
		if !ok {
			continue
		}
		for _, r2 := range *ia.Referrers() {
			st, ok := r2.(*ssa.Store)
			if !ok {
				continue
			}
			mi, ok := st.Val.(*ssa.MakeInterface)
			if !ok {
				kinds = append(kinds, callResultKind(st.Val))
				continue
			}
			kinds = append(kinds, valueKind(mi.X))
		}
	}
	if len(kinds) == 0 {
		return []string{"other"}
	}
	return kinds
}

func valueKind(x ssa.Value) string {
	bt, ok := x.Type().Underlying().(*types.Basic)
	if !ok {
		return "other"
	}
	switch {
	case bt.Kind() == types.String:
		return "string"
	case bt.Info()&types.IsFloat != 0:
		return "float"
	case bt.Info()&types.IsInteger != 0:
		// converted from a float?
		v := x
		for {
			cv, ok := v.(*ssa.Convert)
			if !ok {
				break
			}
			if fb, ok := cv.X.Type().Underlying().(*types.Basic); ok && fb.Info()&types.IsFloat != 0 {
				// a float that was produced by math.Round stays integral
				if call, ok := cv.X.(*ssa.Call); ok && call.Call.StaticCallee() != nil && call.Call.StaticCallee().String() == "math.Round" {
					return "int"
				}
				return "int<-float"
			}
			v = cv.X
		}
		return "int"
	}
	return "other"
}


// callResultKind: an interface value produced by a helper such as
// dictNumber: "number" when the helper can return an int32 or a float64
// (an integer where possible, a real otherwise), else "other".
func callResultKind(v ssa.Value) string {
	call, ok := v.(*ssa.Call)
	if !ok {
		return "other"
	}
	callee := call.Call.StaticCallee()
	if callee == nil || callee.Blocks == nil {
		return "other"
	}
	kinds := map[string]bool{}
	for _, b := range callee.Blocks {
		ret, ok := b.Instrs[len(b.Instrs)-1].(*ssa.Return)
		if !ok || len(ret.Results) != 1 {
			continue
		}
		var visit func(x ssa.Value, depth int)
		visit = func(x ssa.Value, depth int) {
			if depth > 4 {
				kinds["other"] = true
				return
			}
			switch y := x.(type) {
			case *ssa.MakeInterface:
				kinds[valueKind(y.X)] = true
			case *ssa.Phi:
				for _, e := range y.Edges {
					visit(e, depth+1)
				}
			default:
				kinds["other"] = true
			}
		}
		visit(ret.Results[0], 0)
	}
	if kinds["float"] && !kinds["other"] && !kinds["string"] {
		return "number"
	}
	if len(kinds) == 1 {
		for k := range kinds {
			return k
		}
	}
	return "other"
}

// checkOffSize: CFF INDEX (TN5176 section 5): offsets are 1-based, the
// largest one is 1 + (total length of the data), and offSize must be large
// enough for it.  Decided structurally in cffIndex.encode: the value X that
// the offset-size selection compares with 2^(8*offSize) (loop form, shift
// form or the offsSize helper) is the accumulated data length plus a
// constant >= 1, the written offsets start at 1, and the helper's thresholds
// are 2^8, 2^16, 2^24.
func checkOffSize(w *World, r *Report) {
	r.Rule("offsize: in cffIndex.encode the quantity whose size selects offSize is (sum of the item lengths) + c with c >= 1 (the largest offset written is 1 + that sum), the selection has the form 'grow offSize while X >= 2^(8*offSize)' (as a comparison with 1<<(8*offSize), as X>>(8*offSize) > 0, or through offsSize(X)), the offsets written start at 1, and offsSize(x) returns the least k with x < 2^(8k)")
	fn := w.Func("(cff.cffIndex).encode")
	if fn == nil {
		r.Fatal("(cff.cffIndex).encode does not resolve")
		return
	}
	br := newBoundsRun(w)
	p := br.prover(fn)
	// S: accumulator over len(item)
	var acc *ssa.Phi
	for _, b := range fn.Blocks {
		for _, in := range b.Instrs {
			ph, ok := in.(*ssa.Phi)
			if !ok {
				break
			}
			if !isIntType(ph.Type()) || !isLoopPhi(ph) || !is64(ph.Type()) {
				continue
			}
			for _, e := range ph.Edges {
				bo, ok := e.(*ssa.BinOp)
				if !ok || bo.Op != token.ADD || bo.X != ssa.Value(ph) {
					continue
				}
				if call, ok := bo.Y.(*ssa.Call); ok {
					if bi, ok := call.Call.Value.(*ssa.Builtin); ok && bi.Name() == "len" {
						if _, isSlice := call.Call.Args[0].Type().Underlying().(*types.Slice); isSlice {
							acc = ph
						}
					}
				}
			}
		}
	}
	key := r.MkKey("offsize", "cffIndex.encode", "selection operand")
	if acc == nil {
		r.Fail("offsize", key, w.Pos(fn.Pos()), "no accumulator over the item lengths found", nil)
		return
	}
	accAtom := atom{aVal, acc}
	isSel := func(x ssa.Value) (bool, string) {
		l := p.linOf(x)
		if len(l.t) != 1 || l.t[accAtom] != 1 {
			return false, ""
		}
		if l.k >= 1 {
			return true, ""
		}
		return true, fmt.Sprintf("the size of the offsets is chosen for %s (the data length%+d), but the largest offset written is the data length + 1: when the data length is exactly 2^(8k)-1 the last offset does not fit", p.linStr(l), l.k)
	}
	found := false
	report := func(pos token.Pos, bad string, form string) {
		found = true
		if bad == "" {
			r.OK("offsize", key, w.Pos(pos), "selection by "+form+" on data length + c, c >= 1")
		} else {
			r.Fail("offsize", key, w.Pos(pos), bad, nil)
		}
	}
	shiftBy8 := func(v ssa.Value) bool { // 8*offSize
		bo, ok := stripConv(v).(*ssa.BinOp)
		if !ok || bo.Op != token.MUL {
			return false
		}
		c1, ok1 := bconstInt(bo.X)
		c2, ok2 := bconstInt(bo.Y)
		return ok1 && c1 == 8 || ok2 && c2 == 8
	}
	// a comparison between (data length + a) and (1<<(8*offSize) + b), in
	// either order and with any of < <= > >=: normalised to "X >= 2^(8*offSize)"
	// (or its negation) with X = data length + c
	selCompare := func(x *ssa.BinOp) bool {
		d, ok := p.linOf(x.X).sub(p.linOf(x.Y))
		if !ok || len(d.t) != 2 {
			return false
		}
		ca, hasAcc := d.t[accAtom]
		var cs int64
		hasSh := false
		for a, c := range d.t {
			if a == accAtom || a.k != aVal {
				continue
			}
			sh, ok := stripConv(a.v).(*ssa.BinOp)
			if !ok || sh.Op != token.SHL || !shiftBy8(sh.Y) {
				continue
			}
			if one, ok := bconstInt(sh.X); ok && one == 1 {
				cs, hasSh = c, true
			}
		}
		if !hasAcc || !hasSh || ca*cs != -1 {
			return false
		}
		// d = ca*acc + cs*SH + k  compared with 0 by x.Op
		op, k := x.Op, d.k
		if ca < 0 { // multiply by -1: acc - SH - k  (flipped op) 0
			k = -k
			switch op {
			case token.LSS:
				op = token.GTR
			case token.LEQ:
				op = token.GEQ
			case token.GTR:
				op = token.LSS
			case token.GEQ:
				op = token.LEQ
			}
		}
		// acc + k op SH
		var c int64
		switch op {
		case token.GEQ, token.LSS: // acc + k >= SH  (or its negation)
			c = k
		case token.GTR, token.LEQ: // acc + k > SH  <=>  acc + k - 1 >= SH
			c = k - 1
		}
		bad := ""
		if c < 1 {
			bad = fmt.Sprintf("the size of the offsets is chosen for the data length%+d, but the largest offset written is the data length + 1: when the data length is exactly 2^(8k)-1 the last offset does not fit", c)
		}
		report(x.Pos(), bad, "comparison with 1<<(8*offSize)")
		return true
	}
	for _, b := range fn.Blocks {
		for _, in := range b.Instrs {
			switch x := in.(type) {
			case *ssa.BinOp:
				switch x.Op {
				case token.GEQ, token.LSS, token.LEQ:
					if selCompare(x) {
						break
					}
				case token.GTR, token.NEQ:
					if x.Op == token.GTR && selCompare(x) {
						break
					}
					// X >> (8*offSize) > 0
					if sh, ok := stripConv(x.X).(*ssa.BinOp); ok && sh.Op == token.SHR && shiftBy8(sh.Y) {
						if c, ok := bconstInt(x.Y); ok && c == 0 {
							if ok, bad := isSel(sh.X); ok {
								report(x.Pos(), bad, "X >> (8*offSize) > 0")
							}
						}
					}
				}
			case *ssa.Call:
				if callee := x.Call.StaticCallee(); callee != nil && fnName(callee) == "cff.offsSize" && len(x.Call.Args) == 1 {
					if ok, bad := isSel(stripConv(x.Call.Args[0])); ok {
						report(x.Pos(), bad, "offsSize(X)")
					}
				}
			}
		}
	}
	if !found {
		r.Fail("offsize", key, w.Pos(fn.Pos()), "no selection of offSize from the accumulated data length was recognised (comparison with 1<<(8*offSize), X>>(8*offSize) > 0, or offsSize(X))", nil)
	}
	// offsets start at 1
	k2 := r.MkKey("offsize", "cffIndex.encode", "first offset")
	ok1 := false
	for _, b := range fn.Blocks {
		for _, in := range b.Instrs {
			ph, ok := in.(*ssa.Phi)
			if !ok {
				break
			}
			if bt, ok := ph.Type().Underlying().(*types.Basic); !ok || bt.Kind() != types.Uint32 || !isLoopPhi(ph) {
				continue
			}
			for i, e := range ph.Edges {
				if !ph.Block().Dominates(ph.Block().Preds[i]) {
					if c, ok := bconstInt(e); ok && c == 1 {
						ok1 = true
					}
				}
			}
		}
	}
	if ok1 {
		r.OK("offsize", k2, w.Pos(fn.Pos()), "the running offset starts at 1")
	} else {
		r.Fail("offsize", k2, w.Pos(fn.Pos()), "no 32-bit running offset that starts at 1 found (INDEX offsets are relative to the byte before the data)", nil)
	}
	// helper thresholds
	if h := w.Func("cff.offsSize"); h != nil {
		k3 := r.MkKey("offsize", "cff.offsSize", "thresholds")
		good, n := true, 0
		for _, b := range h.Blocks {
			if len(b.Instrs) == 0 {
				continue
			}
			ret, ok := b.Instrs[len(b.Instrs)-1].(*ssa.Return)
			if !ok {
				continue
			}
			k, ok := bconstInt(ret.Results[0])
			if !ok {
				good = false
				continue
			}
			n++
			if k == 4 {
				continue
			}
			// the guard that leads here: i < 1<<(8k)
			gs := guardsOf(b)
			if len(gs) == 0 {
				good = false
				continue
			}
			cmp, ok := gs[0].cond.(*ssa.BinOp)
			c, isC := int64(0), false
			if ok {
				c, isC = bconstInt(cmp.Y)
			}
			if !ok || !isC || cmp.Op != token.LSS || !gs[0].then || c != int64(1)<<uint(8*k) {
				good = false
			}
		}
		if good && n == 4 {
			r.OK("offsize", k3, w.Pos(h.Pos()), "x < 2^8 -> 1, < 2^16 -> 2, < 2^24 -> 3, else 4")
		} else {
			r.Fail("offsize", k3, w.Pos(h.Pos()), "offsSize does not return the least k with x < 2^(8k) in the recognised form", nil)
		}
	}
	r.Floor("offsize", 3)
}

func isNumeric(t types.Type) bool {
	b, ok := t.Underlying().(*types.Basic)
	return ok && b.Info()&types.IsNumeric != 0
}

// RunNumberExact: cff.dictNumber chooses between the integer and the real
// encoding of a DICT operand.  The integer form may be chosen only for values
// it represents exactly: every return of a value converted from the float
// argument to an integer type is reached through the true edge of an equality
// test between the argument and the back-conversion of that very integer
// (float64(int32(x)) == x).  A range test (|x| <= MaxInt32) is not enough: it
// lets 600.25 through as 600.
func RunNumberExact(w *World, r *Report) {
	r.Rule("numberexact: in cff.dictNumber a value converted from the float64 argument to an integer type is returned only under an equality test between the argument and the back-conversion of that integer: fractions are never cut off when the number form is chosen")
	fn := w.Func("cff.dictNumber")
	key := r.MkKey("numberexact", "cff.dictNumber", "integer form")
	if fn == nil || len(fn.Params) != 1 {
		r.Fatal("numberexact: cff.dictNumber does not resolve")
		return
	}
	x := fn.Params[0]
	n := 0
	for _, b := range fn.Blocks {
		rt, ok := b.Instrs[len(b.Instrs)-1].(*ssa.Return)
		if !ok || len(rt.Results) != 1 {
			continue
		}
		mi, ok := rt.Results[0].(*ssa.MakeInterface)
		if !ok {
			continue
		}
		cv, ok := mi.X.(*ssa.Convert)
		if !ok || cv.X != ssa.Value(x) || !isIntType(cv.Type()) {
			continue
		}
		n++
		exact := false
		for _, g := range guardsOf(b) {
			bo, ok := g.cond.(*ssa.BinOp)
			if !ok || !((bo.Op == token.EQL && g.then) || (bo.Op == token.NEQ && !g.then)) {
				continue
			}
			for _, pr := range [][2]ssa.Value{{bo.X, bo.Y}, {bo.Y, bo.X}} {
				back, ok := pr[0].(*ssa.Convert)
				if !ok || pr[1] != ssa.Value(x) {
					continue
				}
				if inner, ok := back.X.(*ssa.Convert); ok && inner.X == ssa.Value(x) && types.Identical(inner.Type(), cv.Type()) {
					exact = true
				}
				if back.X == ssa.Value(cv) {
					exact = true
				}
			}
		}
		if exact {
			r.OK("numberexact", key, w.Pos(rt.Pos()), "returned only when the conversion is exact")
		} else {
			r.Fail("numberexact", key, w.Pos(rt.Pos()), "the argument is returned converted to an integer without a test that the conversion is exact: a fractional DICT operand (a width parameter such as 600.25) is written as an integer while the charstrings were encoded against the exact value", nil)
		}
	}
	if n == 0 {
		r.OK("numberexact", key, w.Pos(fn.Pos()), "the function never returns a converted integer")
	}
}
