package main

// E8 sizeagree: declared sizes equal emitted sizes.
//
// A small symbolic executor over the type-checked syntax evaluates the paired
// functions (X.encodeLen / X.encode, EncodeLen / Encode, AppendLen / Append,
// glyf encodeLen / append) in a size algebra: integers are canonical
// polynomials over atoms such as len(R.Repl), call:R.Cov.EncodeLen(),
// sum{$1<len(R.Rules)}[guard](…) and align(…,k); byte buffers carry a symbolic
// length and capacity. For every pair it requires, per path condition,
//   value returned by the length function  ==  final length of the buffer
//   (== requested capacity when one is requested).
// Anything outside the understood subset makes the pair "unanalysable".

import (
	"crypto/sha256"
	"fmt"
	"go/ast"
	"go/constant"
	"go/token"
	"go/types"
	"regexp"
	"sort"
	"strings"

	"golang.org/x/tools/go/types/typeutil"
)

// ---- linear/polynomial canonical form --------------------------------------

type lin struct {
	t map[string]int64 // monomial (sorted atoms joined by '*'; "" = 1) -> coefficient
}

func linConst(c int64) lin {
	l := lin{t: map[string]int64{}}
	if c != 0 {
		l.t[""] = c
	}
	return l
}

func linAtom(a string) lin { return lin{t: map[string]int64{a: 1}} }

func (a lin) add(b lin) lin {
	r := lin{t: map[string]int64{}}
	for k, v := range a.t {
		r.t[k] += v
	}
	for k, v := range b.t {
		r.t[k] += v
		if r.t[k] == 0 {
			delete(r.t, k)
		}
	}
	return r
}

func (a lin) scale(c int64) lin {
	r := lin{t: map[string]int64{}}
	if c == 0 {
		return r
	}
	for k, v := range a.t {
		r.t[k] = v * c
	}
	return r
}

func (a lin) sub(b lin) lin { return a.add(b.scale(-1)) }

func mulMono(x, y string) string {
	if x == "" {
		return y
	}
	if y == "" {
		return x
	}
	parts := append(strings.Split(x, "\x00"), strings.Split(y, "\x00")...)
	sort.Strings(parts)
	return strings.Join(parts, "\x00")
}

func (a lin) mul(b lin) lin {
	r := lin{t: map[string]int64{}}
	for k1, v1 := range a.t {
		for k2, v2 := range b.t {
			k := mulMono(k1, k2)
			r.t[k] += v1 * v2
			if r.t[k] == 0 {
				delete(r.t, k)
			}
		}
	}
	return r
}

func (a lin) isConst() (int64, bool) {
	if len(a.t) == 0 {
		return 0, true
	}
	if len(a.t) == 1 {
		if v, ok := a.t[""]; ok {
			return v, true
		}
	}
	return 0, false
}

func (a lin) String() string {
	if len(a.t) == 0 {
		return "0"
	}
	keys := make([]string, 0, len(a.t))
	for k := range a.t {
		keys = append(keys, k)
	}
	sort.Strings(keys)
	var sb strings.Builder
	for i, k := range keys {
		if i > 0 {
			sb.WriteString(" + ")
		}
		v := a.t[k]
		mono := strings.ReplaceAll(k, "\x00", "·")
		switch {
		case k == "":
			fmt.Fprintf(&sb, "%d", v)
		case v == 1:
			sb.WriteString(mono)
		default:
			fmt.Fprintf(&sb, "%d·%s", v, mono)
		}
	}
	return sb.String()
}

func (a lin) mentions(s string) bool {
	for k := range a.t {
		if strings.Contains(k, s) {
			return true
		}
	}
	return false
}

// ---- symbolic values ---------------------------------------------------------

type symKind int

const (
	symUnknown symKind = iota
	symInt
	symPath // any non-integer value identified by a canonical path text
	symBuf  // byte buffer with symbolic length / capacity
	symTuple
)

type sym struct {
	kind symKind
	n    lin    // symInt; symBuf: length
	cap  *lin   // symBuf: requested capacity (nil = none requested)
	path string // symPath
	elems []sym // symTuple
}

func (v sym) text() string {
	switch v.kind {
	case symInt:
		return "(" + v.n.String() + ")"
	case symPath:
		return v.path
	case symBuf:
		return "buf"
	}
	return "?"
}

type szState struct {
	env      map[types.Object]sym
	cond     []string // path condition (depth 0 forks)
	ret      []sym
	returned bool
	bad      string // reason the path is unanalysable
	stopped  bool   // `continue` executed at loop-body level
	consumedRest bool // an if/continue already executed the rest of the loop body
}

func (s *szState) clone() *szState {
	n := &szState{env: make(map[types.Object]sym, len(s.env)), cond: append([]string{}, s.cond...),
		ret: s.ret, returned: s.returned, bad: s.bad, stopped: s.stopped}
	for k, v := range s.env {
		if v.kind == symBuf && v.cap != nil {
			c := *v.cap
			v.cap = &c
		}
		n.env[k] = v
	}
	return n
}

type szExec struct {
	w      *World
	info   *types.Info
	depth  int
	recv   types.Object
	lens   map[string]lin // known lengths of made slices, by canonical path
	inline int            // current inlining depth
	ctr    *int           // ordinal for anonymous objects (position-independent names)
}

func (x *szExec) fresh(kind string) string {
	*x.ctr++
	return fmt.Sprintf("%s#%d", kind, *x.ctr)
}

var sizePairs = map[string]string{"Encode": "EncodeLen", "encode": "encodeLen", "Append": "AppendLen", "append": "encodeLen"}

func (x *szExec) bad(st *szState, pos token.Pos, format string, a ...any) {
	if st.bad == "" {
		st.bad = x.w.Pos(pos) + ": " + fmt.Sprintf(format, a...)
	}
}

// canon renders an expression canonically, substituting symbolic values.
func (x *szExec) canon(st *szState, e ast.Expr) string {
	v := x.eval(st, e)
	return v.text()
}

func constInt(info *types.Info, e ast.Expr) (int64, bool) {
	if tv, ok := info.Types[e]; ok && tv.Value != nil {
		if tv.Value.Kind() == constant.Int {
			if i, ok := constant.Int64Val(tv.Value); ok {
				return i, true
			}
		}
	}
	return 0, false
}

func isIntLike(t types.Type) bool {
	if t == nil {
		return false
	}
	b, ok := t.Underlying().(*types.Basic)
	return ok && b.Info()&types.IsInteger != 0
}

func isByteSlice(t types.Type) bool {
	if t == nil {
		return false
	}
	s, ok := t.Underlying().(*types.Slice)
	if !ok {
		return false
	}
	b, ok := s.Elem().Underlying().(*types.Basic)
	return ok && b.Kind() == types.Uint8
}

func (x *szExec) eval(st *szState, e ast.Expr) sym {
	if c, ok := constInt(x.info, e); ok {
		return sym{kind: symInt, n: linConst(c)}
	}
	switch e := e.(type) {
	case *ast.ParenExpr:
		return x.eval(st, e.X)
	case *ast.Ident:
		obj := x.info.ObjectOf(e)
		if v, ok := st.env[obj]; ok {
			return v
		}
		if e.Name == "nil" {
			return sym{kind: symPath, path: "nil"}
		}
		if obj != nil && isIntLike(obj.Type()) {
			return sym{kind: symInt, n: linAtom("var:" + e.Name)}
		}
		return sym{kind: symPath, path: e.Name}
	case *ast.BasicLit:
		return sym{kind: symPath, path: e.Value}
	case *ast.SelectorExpr:
		if _, ok := x.info.Selections[e]; !ok {
			// qualified identifier
			return sym{kind: symPath, path: types.ExprString(e)}
		}
		base := x.eval(st, e.X)
		p := base.text() + "." + e.Sel.Name
		if isIntLike(x.info.TypeOf(e)) {
			return sym{kind: symInt, n: linAtom("val:" + p)}
		}
		return sym{kind: symPath, path: p}
	case *ast.IndexExpr:
		base := x.eval(st, e.X)
		idx := x.eval(st, e.Index)
		// the index as the range statement writes it: no parentheses around a linear form
		it := idx.text()
		if idx.kind == symInt {
			it = idx.n.String()
		}
		p := base.text() + "[" + it + "]"
		if isIntLike(x.info.TypeOf(e)) {
			return sym{kind: symInt, n: linAtom("val:" + p)}
		}
		return sym{kind: symPath, path: p}
	case *ast.StarExpr:
		return x.eval(st, e.X)
	case *ast.UnaryExpr:
		v := x.eval(st, e.X)
		switch e.Op {
		case token.AND:
			return v
		case token.SUB:
			if v.kind == symInt {
				return sym{kind: symInt, n: v.n.scale(-1)}
			}
		case token.NOT:
			return sym{kind: symPath, path: negText(v.text())}
		}
		return sym{kind: symPath, path: e.Op.String() + v.text()}
	case *ast.TypeAssertExpr:
		v := x.eval(st, e.X)
		if e.Type == nil {
			return v
		}
		return sym{kind: symPath, path: v.text() + ".(" + types.ExprString(e.Type) + ")"}
	case *ast.SliceExpr:
		v := x.eval(st, e.X)
		if v.kind == symBuf {
			return v
		}
		lo, hi := "", ""
		if e.Low != nil {
			lo = x.canon(st, e.Low)
		}
		if e.High != nil {
			hi = x.canon(st, e.High)
		}
		return sym{kind: symPath, path: v.text() + "[" + lo + ":" + hi + "]"}
	case *ast.BinaryExpr:
		l, r := x.eval(st, e.X), x.eval(st, e.Y)
		if l.kind == symInt && r.kind == symInt {
			switch e.Op {
			case token.ADD:
				return sym{kind: symInt, n: l.n.add(r.n)}
			case token.SUB:
				return sym{kind: symInt, n: l.n.sub(r.n)}
			case token.MUL:
				return sym{kind: symInt, n: l.n.mul(r.n)}
			case token.QUO, token.REM, token.SHL, token.SHR, token.AND, token.OR, token.XOR, token.AND_NOT:
				lc, lok := l.n.isConst()
				rc, rok := r.n.isConst()
				if lok && rok && (e.Op != token.QUO && e.Op != token.REM || rc != 0) {
					switch e.Op {
					case token.QUO:
						return sym{kind: symInt, n: linConst(lc / rc)}
					case token.REM:
						return sym{kind: symInt, n: linConst(lc % rc)}
					case token.SHL:
						return sym{kind: symInt, n: linConst(lc << uint(rc))}
					case token.SHR:
						return sym{kind: symInt, n: linConst(lc >> uint(rc))}
					case token.AND:
						return sym{kind: symInt, n: linConst(lc & rc)}
					case token.OR:
						return sym{kind: symInt, n: linConst(lc | rc)}
					}
				}
				if e.Op == token.SHL && rok {
					return sym{kind: symInt, n: l.n.scale(1 << uint(rc))}
				}
				return sym{kind: symInt, n: linAtom("op(" + e.Op.String() + ";" + l.n.String() + ";" + r.n.String() + ")")}
			}
		}
		// comparisons in one canonical form, so that the two functions of a
		// pair may write the same test either way round: a > b as b < a,
		// a >= b as b <= a, a != b as !(a == b), operands of == in text order
		lt, rt, op := l.text(), r.text(), e.Op
		switch op {
		case token.GTR:
			lt, rt, op = rt, lt, token.LSS
		case token.GEQ:
			lt, rt, op = rt, lt, token.LEQ
		}
		if (op == token.EQL || op == token.NEQ) && rt < lt {
			lt, rt = rt, lt
		}
		if op == token.NEQ {
			return sym{kind: symPath, path: negText("(" + lt + " == " + rt + ")")}
		}
		return sym{kind: symPath, path: "(" + lt + " " + op.String() + " " + rt + ")"}
	case *ast.CallExpr:
		return x.evalCall(st, e)
	case *ast.CompositeLit:
		if isByteSlice(x.info.TypeOf(e)) {
			return sym{kind: symBuf, n: linConst(int64(len(e.Elts)))}
		}
		return sym{kind: symPath, path: x.fresh("lit")}
	case *ast.FuncLit:
		return sym{kind: symPath, path: x.fresh("func")}
	}
	return sym{kind: symUnknown}
}

func (x *szExec) evalCall(st *szState, e *ast.CallExpr) sym {
	// conversions
	if tv, ok := x.info.Types[e.Fun]; ok && tv.IsType() && len(e.Args) == 1 {
		v := x.eval(st, e.Args[0])
		if isByteSlice(tv.Type) && v.kind != symBuf {
			// []byte(string)
			return sym{kind: symBuf, n: linAtom("len(" + v.text() + ")")}
		}
		return v
	}
	if id, ok := e.Fun.(*ast.Ident); ok {
		if _, isB := x.info.Uses[id].(*types.Builtin); isB {
			switch id.Name {
			case "len", "cap":
				v := x.eval(st, e.Args[0])
				if v.kind == symBuf {
					if id.Name == "cap" && v.cap != nil {
						return sym{kind: symInt, n: *v.cap}
					}
					return sym{kind: symInt, n: v.n}
				}
				if l, ok := x.lens[v.text()]; ok {
					return sym{kind: symInt, n: l}
				}
				return sym{kind: symInt, n: linAtom("len(" + v.text() + ")")}
			case "make":
				if isByteSlice(x.info.TypeOf(e)) {
					b := sym{kind: symBuf, n: linConst(0)}
					if len(e.Args) >= 2 {
						l := x.eval(st, e.Args[1])
						if l.kind != symInt {
							return sym{kind: symUnknown}
						}
						b.n = l.n
					}
					if len(e.Args) >= 3 {
						c := x.eval(st, e.Args[2])
						if c.kind == symInt {
							cc := c.n
							b.cap = &cc
						}
					} else if len(e.Args) == 2 {
						cc := b.n
						b.cap = &cc
					}
					return b
				}
				mp := x.fresh("make")
				if len(e.Args) >= 2 {
					if l := x.eval(st, e.Args[1]); l.kind == symInt {
						x.lens[mp] = l.n
					}
				}
				return sym{kind: symPath, path: mp}
			case "append":
				base := x.eval(st, e.Args[0])
				if base.kind == symPath && (base.path == "nil") {
					base = sym{kind: symBuf, n: linConst(0)}
				}
				if base.kind != symBuf {
					if isByteSlice(x.info.TypeOf(e.Args[0])) {
						return sym{kind: symUnknown}
					}
					return sym{kind: symPath, path: "append(" + base.text() + ",…)"}
				}
				res := base
				if e.Ellipsis != token.NoPos && len(e.Args) == 2 {
					s := x.eval(st, e.Args[1])
					switch s.kind {
					case symBuf:
						res.n = res.n.add(s.n)
					case symPath:
						res.n = res.n.add(linAtom("len(" + s.path + ")"))
					default:
						return sym{kind: symUnknown}
					}
				} else {
					res.n = res.n.add(linConst(int64(len(e.Args) - 1)))
				}
				return res
			case "min", "max":
				var parts []string
				for _, a := range e.Args {
					parts = append(parts, x.canon(st, a))
				}
				return sym{kind: symInt, n: linAtom(id.Name + "(" + strings.Join(parts, ",") + ")")}
			}
		}
	}
	// method or function call
	var text string
	var mname string
	var recvSym sym
	hasRecv := false
	var args []string
	for _, a := range e.Args {
		args = append(args, x.canon(st, a))
	}
	switch f := e.Fun.(type) {
	case *ast.SelectorExpr:
		if _, ok := x.info.Selections[f]; ok {
			recvSym = x.eval(st, f.X)
			hasRecv = true
			mname = f.Sel.Name
			// a method that cannot look at its receiver (unnamed receiver) gives the same result for every receiver
			if fn, ok := typeutil.Callee(x.info, e).(*types.Func); ok {
				if sig, ok := fn.Type().(*types.Signature); ok && sig.Recv() != nil && (sig.Recv().Name() == "" || sig.Recv().Name() == "_") {
					recvSym = sym{kind: symPath, path: "_"}
				}
			}
			text = recvSym.text() + "." + mname + "(" + strings.Join(args, ",") + ")"
		} else {
			text = types.ExprString(f) + "(" + strings.Join(args, ",") + ")"
		}
	case *ast.Ident:
		text = f.Name + "(" + strings.Join(args, ",") + ")"
	default:
		text = x.fresh("call")
	}
	rt := x.info.TypeOf(e)
	// helpers of the library without a paired length function are executed symbolically
	if v, ok := x.tryInline(st, e, hasRecv, recvSym, mname); ok {
		return v
	}
	// X.Encode() / X.encode(): a byte slice whose length is the paired length function
	if hasRecv && isByteSlice(rt) {
		if ln, ok := sizePairs[mname]; ok {
			bargs := args
			if mname == "Append" || mname == "append" {
				// buf = X.Append(buf): length grows by X.AppendLen()
				if len(e.Args) == 1 {
					b := x.eval(st, e.Args[0])
					if b.kind == symBuf {
						b.n = b.n.add(linAtom("call:" + recvSym.text() + "." + ln + "()"))
						return b
					}
				}
				return sym{kind: symUnknown}
			}
			rtxt := recvSym.text()
			if fn, ok := typeutil.Callee(x.info, e).(*types.Func); ok {
				if sig, ok := fn.Type().(*types.Signature); ok && sig.Recv() != nil {
					ms := types.NewMethodSet(types.NewPointer(derefType(sig.Recv().Type())))
					for i := 0; i < ms.Len(); i++ {
						if m, ok := ms.At(i).Obj().(*types.Func); ok && m.Name() == ln {
							if rs := m.Type().(*types.Signature).Recv(); rs != nil && (rs.Name() == "" || rs.Name() == "_") {
								rtxt = "_"
							}
						}
					}
				}
			}
			return sym{kind: symBuf, n: linAtom("call:" + rtxt + "." + ln + "(" + strings.Join(bargs, ",") + ")")}
		}
		return sym{kind: symBuf, n: linAtom("len(" + text + ")")}
	}
	if tup, ok := rt.(*types.Tuple); ok {
		_ = tup
		return sym{kind: symPath, path: text}
	}
	if isIntLike(rt) {
		return sym{kind: symInt, n: linAtom("call:" + text)}
	}
	if isByteSlice(rt) {
		return sym{kind: symBuf, n: linAtom("len(" + text + ")")}
	}
	return sym{kind: symPath, path: text}
}

// tryInline symbolically executes a library function whose result is an
// integer or a byte buffer, if it has a single feasible path. Paired length
// functions (EncodeLen, encodeLen, AppendLen) are never inlined: they are the
// atoms both sides are compared in; encoders are inlined only when their
// receiver type has no paired length method.
func (x *szExec) tryInline(st *szState, e *ast.CallExpr, hasRecv bool, recvSym sym, mname string) (sym, bool) {
	if x.inline >= 3 {
		return sym{}, false
	}
	callee, _ := typeutil.Callee(x.info, e).(*types.Func)
	if callee == nil || callee.Pkg() == nil || !isLibPkg(callee.Pkg().Path()) {
		return sym{}, false
	}
	switch callee.Name() {
	case "EncodeLen", "encodeLen", "AppendLen":
		return sym{}, false
	}
	rt := x.info.TypeOf(e)
	_, isTuple := rt.(*types.Tuple)
	if !isIntLike(rt) && !isByteSlice(rt) && !isTuple {
		return sym{}, false
	}
	if ln, ok := sizePairs[callee.Name()]; ok && hasRecv {
		// does the receiver type have the paired length method?
		sig := callee.Type().(*types.Signature)
		if sig.Recv() != nil {
			ms := types.NewMethodSet(types.NewPointer(derefType(sig.Recv().Type())))
			for i := 0; i < ms.Len(); i++ {
				if ms.At(i).Obj().Name() == ln {
					return sym{}, false
				}
			}
		}
	}
	p := x.w.All[callee.Pkg().Path()]
	if p == nil {
		return sym{}, false
	}
	var fd *ast.FuncDecl
	for _, f := range p.Syntax {
		for _, d := range f.Decls {
			if d2, ok := d.(*ast.FuncDecl); ok && p.TypesInfo.Defs[d2.Name] == types.Object(callee) {
				fd = d2
			}
		}
	}
	if fd == nil || fd.Body == nil {
		return sym{}, false
	}
	sub := &szExec{w: x.w, info: p.TypesInfo, lens: x.lens, inline: x.inline + 1, ctr: x.ctr}
	ns := &szState{env: map[types.Object]sym{}}
	if fd.Recv != nil && len(fd.Recv.List) == 1 && len(fd.Recv.List[0].Names) == 1 && hasRecv {
		ns.env[p.TypesInfo.ObjectOf(fd.Recv.List[0].Names[0])] = recvSym
	}
	i := 0
	for _, f := range fd.Type.Params.List {
		for _, n := range f.Names {
			if i < len(e.Args) {
				ns.env[p.TypesInfo.ObjectOf(n)] = x.eval(st, e.Args[i])
			}
			i++
		}
	}
	finals := sub.execList([]*szState{ns}, fd.Body.List)
	var live []*szState
	for _, f := range finals {
		isPanic := false
		for _, c := range f.cond {
			if c == "#panic" {
				isPanic = true
			}
		}
		if !isPanic {
			live = append(live, f)
		}
	}
	if len(live) != 1 || live[0].bad != "" || !live[0].returned || len(live[0].ret) < 1 {
		return sym{}, false
	}
	if isTuple {
		hasInt := false
		for _, el := range live[0].ret {
			if el.kind == symInt {
				hasInt = true
			}
		}
		if !hasInt {
			return sym{}, false
		}
		return sym{kind: symTuple, elems: live[0].ret}, true
	}
	if len(live[0].ret) != 1 {
		return sym{}, false
	}
	v := live[0].ret[0]
	if v.kind != symInt && v.kind != symBuf {
		return sym{}, false
	}
	return v, true
}

func derefType(t types.Type) types.Type {
	if p, ok := t.(*types.Pointer); ok {
		return p.Elem()
	}
	return t
}

// ---- statements --------------------------------------------------------------

func (x *szExec) assignTo(st *szState, lhs ast.Expr, v sym) {
	switch l := lhs.(type) {
	case *ast.Ident:
		if l.Name == "_" {
			return
		}
		if obj := x.info.ObjectOf(l); obj != nil {
			st.env[obj] = v
		}
	default:
		// stores into elements / fields do not change sizes
	}
}

func isPanicOnly(body *ast.BlockStmt) bool {
	if body == nil || len(body.List) != 1 {
		return false
	}
	es, ok := body.List[0].(*ast.ExprStmt)
	if !ok {
		return false
	}
	c, ok := es.X.(*ast.CallExpr)
	if !ok {
		return false
	}
	id, ok := c.Fun.(*ast.Ident)
	return ok && id.Name == "panic"
}

// execList runs statements on a set of states, forking at depth-0 branches.
func (x *szExec) execList(states []*szState, list []ast.Stmt) []*szState {
	for i, s := range list {
		var next []*szState
		for _, st := range states {
			if st.returned || st.bad != "" || st.stopped {
				next = append(next, st)
				continue
			}
			next = append(next, x.exec(st, s, list[i+1:])...)
		}
		states = next
		// an if-with-continue inside a loop consumes the rest of the list itself
		allStopped := true
		for _, st := range states {
			if !(st.returned || st.bad != "" || st.stopped) {
				allStopped = false
			}
		}
		if allStopped {
			break
		}
		if x.depth > 0 {
			if consumed(states) {
				for _, st := range states {
					st.consumedRest = false
				}
				break
			}
		}
	}
	return states
}

func consumed(states []*szState) bool {
	for _, st := range states {
		if st.consumedRest {
			return true
		}
	}
	return false
}

func (x *szExec) exec(st *szState, s ast.Stmt, rest []ast.Stmt) []*szState {
	one := []*szState{st}
	switch s := s.(type) {
	case *ast.EmptyStmt:
	case *ast.BlockStmt:
		return x.execList(one, s.List)
	case *ast.LabeledStmt:
		return x.exec(st, s.Stmt, rest)
	case *ast.DeclStmt:
		if gd, ok := s.Decl.(*ast.GenDecl); ok && gd.Tok == token.VAR {
			for _, sp := range gd.Specs {
				vs := sp.(*ast.ValueSpec)
				for i, n := range vs.Names {
					obj := x.info.ObjectOf(n)
					if i < len(vs.Values) {
						st.env[obj] = x.eval(st, vs.Values[i])
					} else if isIntLike(obj.Type()) {
						st.env[obj] = sym{kind: symInt, n: linConst(0)}
					} else if isByteSlice(obj.Type()) {
						st.env[obj] = sym{kind: symBuf, n: linConst(0)}
					} else {
						st.env[obj] = sym{kind: symPath, path: "zero:" + n.Name}
					}
				}
			}
		}
	case *ast.ExprStmt:
		if c, ok := s.X.(*ast.CallExpr); ok {
			if id, ok := c.Fun.(*ast.Ident); ok && id.Name == "panic" {
				st.returned = true // abnormal exit: not a size-relevant path
				st.ret = nil
				st.bad = ""
				st.cond = append(st.cond, "#panic")
			}
		}
	case *ast.IncDecStmt:
		v := x.eval(st, s.X)
		if v.kind == symInt {
			d := int64(1)
			if s.Tok == token.DEC {
				d = -1
			}
			x.assignTo(st, s.X, sym{kind: symInt, n: v.n.add(linConst(d))})
		}
	case *ast.AssignStmt:
		x.assign(st, s)
	case *ast.ReturnStmt:
		st.returned = true
		st.ret = nil
		for _, r := range s.Results {
			st.ret = append(st.ret, x.eval(st, r))
		}
	case *ast.IfStmt:
		return x.ifStmt(st, s, rest)
	case *ast.SwitchStmt:
		return x.switchStmt(st, s)
	case *ast.TypeSwitchStmt:
		return x.typeSwitch(st, s)
	case *ast.RangeStmt:
		x.rangeStmt(st, s)
	case *ast.ForStmt:
		x.forStmt(st, s)
	case *ast.BranchStmt:
		switch s.Tok {
		case token.CONTINUE:
			if x.depth > 0 && s.Label == nil {
				st.stopped = true
			} else {
				x.bad(st, s.Pos(), "labelled continue / continue outside a loop body")
			}
		default:
			x.bad(st, s.Pos(), "%s statement", s.Tok)
		}
	default:
		x.bad(st, s.Pos(), "statement %T not understood", s)
	}
	return one
}

func (x *szExec) assign(st *szState, s *ast.AssignStmt) {
	if len(s.Lhs) > 1 && len(s.Rhs) == 1 {
		// tuple assignment from a call
		v := x.eval(st, s.Rhs[0])
		if v.kind == symTuple && len(v.elems) == len(s.Lhs) {
			for i, l := range s.Lhs {
				x.assignTo(st, l, v.elems[i])
			}
			return
		}
		for i, l := range s.Lhs {
			t := x.info.TypeOf(l)
			p := fmt.Sprintf("%s#%d", v.text(), i)
			if isIntLike(t) {
				x.assignTo(st, l, sym{kind: symInt, n: linAtom("call:" + p)})
			} else {
				x.assignTo(st, l, sym{kind: symPath, path: p})
			}
		}
		return
	}
	for i, l := range s.Lhs {
		if i >= len(s.Rhs) {
			break
		}
		rv := x.eval(st, s.Rhs[i])
		switch s.Tok {
		case token.ASSIGN, token.DEFINE:
			if rv.kind == symUnknown && (isIntLike(x.info.TypeOf(l)) || isByteSlice(x.info.TypeOf(l))) {
				if _, isId := l.(*ast.Ident); isId {
					x.bad(st, s.Pos(), "value of %s not understood", types.ExprString(s.Rhs[i]))
				}
			}
			x.assignTo(st, l, rv)
		case token.ADD_ASSIGN, token.SUB_ASSIGN:
			lv := x.eval(st, l)
			if lv.kind == symInt && rv.kind == symInt {
				if s.Tok == token.ADD_ASSIGN {
					x.assignTo(st, l, sym{kind: symInt, n: lv.n.add(rv.n)})
				} else {
					x.assignTo(st, l, sym{kind: symInt, n: lv.n.sub(rv.n)})
				}
			} else if _, isId := l.(*ast.Ident); isId && isIntLike(x.info.TypeOf(l)) {
				x.bad(st, s.Pos(), "non-integer operand in %s", s.Tok)
			}
		default:
			lv := x.eval(st, l)
			if _, isId := l.(*ast.Ident); isId && lv.kind == symInt && rv.kind == symInt {
				x.assignTo(st, l, sym{kind: symInt, n: linAtom("op(" + s.Tok.String() + ";" + lv.n.String() + ";" + rv.n.String() + ")")})
			}
		}
	}
}

// negText negates a canonical condition text (double negations cancel).
func negText(g string) string {
	if strings.HasPrefix(g, "!(") && strings.HasSuffix(g, ")") && balanced(g[2:len(g)-1]) {
		return g[2 : len(g)-1]
	}
	if strings.HasPrefix(g, "!") && !strings.ContainsAny(g[1:], " ") && !strings.HasPrefix(g, "!(") {
		return g[1:]
	}
	return "!(" + g + ")"
}

func balanced(s string) bool {
	d := 0
	for _, c := range s {
		switch c {
		case '(':
			d++
		case ')':
			d--
			if d < 0 {
				return false
			}
		}
	}
	return d == 0
}

// simplifyGuards merges c·g{C}·m + c·g{!C}·m into c·m.
func simplifyGuards(l lin) lin {
	for changed := true; changed; {
		changed = false
		for k, c := range l.t {
			parts := strings.Split(k, "\x00")
			for i, p := range parts {
				if !strings.HasPrefix(p, "g{") {
					continue
				}
				cond := p[2 : len(p)-1]
				other := append(append([]string{}, parts[:i]...), parts[i+1:]...)
				neg := append(append([]string{}, other...), "g{"+negText(cond)+"}")
				sort.Strings(neg)
				nk := strings.Join(neg, "\x00")
				if c2, ok := l.t[nk]; ok && c2 == c && nk != k {
					sort.Strings(other)
					ok2 := strings.Join(other, "\x00")
					delete(l.t, k)
					delete(l.t, nk)
					l.t[ok2] += c
					if l.t[ok2] == 0 {
						delete(l.t, ok2)
					}
					changed = true
					break
				}
			}
			if changed {
				break
			}
		}
	}
	return l
}

// guardLin multiplies every term by the guard atom.
func guardLin(g string, l lin) lin {
	if g == "" {
		return l
	}
	return l.mul(linAtom("g{" + g + "}"))
}

// mergeGuarded: base + [g](then-base) + [!g](else-base) for every accumulator.
func (x *szExec) mergeGuarded(st *szState, g string, thenSt, elseSt *szState) {
	objs := map[types.Object]bool{}
	for o := range thenSt.env {
		objs[o] = true
	}
	for o := range elseSt.env {
		objs[o] = true
	}
	for o := range objs {
		b, okb := st.env[o]
		t, okt := thenSt.env[o]
		e, oke := elseSt.env[o]
		if !okb {
			continue // declared inside the branch
		}
		if !okt {
			t = b
		}
		if !oke {
			e = b
		}
		switch b.kind {
		case symInt:
			if t.kind != symInt || e.kind != symInt {
				st.env[o] = sym{kind: symUnknown}
				continue
			}
			dt, de := t.n.sub(b.n), e.n.sub(b.n)
			st.env[o] = sym{kind: symInt, n: simplifyGuards(b.n.add(guardLin(g, dt)).add(guardLin(negText(g), de)))}
		case symBuf:
			if t.kind != symBuf || e.kind != symBuf {
				st.env[o] = sym{kind: symUnknown}
				continue
			}
			dt, de := t.n.sub(b.n), e.n.sub(b.n)
			nb := b
			nb.n = simplifyGuards(b.n.add(guardLin(g, dt)).add(guardLin(negText(g), de)))
			st.env[o] = nb
		default:
			if t.text() != b.text() || e.text() != b.text() {
				st.env[o] = sym{kind: symPath, path: "ite(" + g + "," + t.text() + "," + e.text() + ")"}
			}
		}
	}
	if thenSt.bad != "" {
		st.bad = thenSt.bad
	}
	if elseSt.bad != "" {
		st.bad = elseSt.bad
	}
}

func (x *szExec) ifStmt(st *szState, s *ast.IfStmt, rest []ast.Stmt) []*szState {
	if s.Init != nil {
		x.exec(st, s.Init, nil)
	}
	if isPanicOnly(s.Body) && s.Else == nil {
		return []*szState{st} // "refused loudly" guard: not size-relevant
	}
	if x.depth == 0 {
		// `if a && b {T} else {E}` is `if a { if b {T} else {E} } else {E}`, `if a || b {T} else {E}` is
		// `if a {T} else if b {T} else {E}`: path conditions are sets of atomic tests whichever way it is written
		c := s.Cond
		for {
			pe, ok := c.(*ast.ParenExpr)
			if !ok {
				break
			}
			c = pe.X
		}
		if be, ok := c.(*ast.BinaryExpr); ok {
			switch be.Op {
			case token.LAND:
				inner := &ast.IfStmt{If: s.If, Cond: be.Y, Body: s.Body, Else: s.Else}
				outer := &ast.IfStmt{If: s.If, Cond: be.X, Body: &ast.BlockStmt{Lbrace: s.Body.Lbrace, List: []ast.Stmt{inner}, Rbrace: s.Body.Rbrace}, Else: s.Else}
				return x.ifStmt(st, outer, rest)
			case token.LOR:
				inner := &ast.IfStmt{If: s.If, Cond: be.Y, Body: s.Body, Else: s.Else}
				outer := &ast.IfStmt{If: s.If, Cond: be.X, Body: s.Body, Else: inner}
				return x.ifStmt(st, outer, rest)
			}
		}
	}
	g := x.canon(st, s.Cond)
	if x.depth == 0 {
		t := st.clone()
		t.cond = append(t.cond, g)
		e := st.clone()
		e.cond = append(e.cond, negText(g))
		res := x.execList([]*szState{t}, s.Body.List)
		switch el := s.Else.(type) {
		case nil:
			res = append(res, e)
		case *ast.BlockStmt:
			res = append(res, x.execList([]*szState{e}, el.List)...)
		case *ast.IfStmt:
			res = append(res, x.ifStmt(e, el, rest)...)
		}
		return res
	}
	// inside a loop body: guarded merge
	t := st.clone()
	ts := x.execList([]*szState{t}, s.Body.List)
	if len(ts) != 1 || ts[0].returned {
		x.bad(st, s.Pos(), "return or fork inside a loop body")
		return []*szState{st}
	}
	t = ts[0]
	e := st.clone()
	switch el := s.Else.(type) {
	case nil:
	case *ast.BlockStmt:
		es := x.execList([]*szState{e}, el.List)
		if len(es) != 1 || es[0].returned {
			x.bad(st, s.Pos(), "return or fork inside a loop body")
			return []*szState{st}
		}
		e = es[0]
	case *ast.IfStmt:
		es := x.ifStmt(e, el, nil)
		if len(es) != 1 {
			x.bad(st, s.Pos(), "fork inside a loop body")
			return []*szState{st}
		}
		e = es[0]
	}
	if t.stopped && !e.stopped {
		// `if c { …; continue }`: the rest of the loop body runs under !c
		t.stopped = false
		es := x.execList([]*szState{e}, rest)
		if len(es) != 1 || es[0].returned {
			x.bad(st, s.Pos(), "return or fork inside a loop body")
			return []*szState{st}
		}
		e = es[0]
		e.stopped = false
		x.mergeGuarded(st, g, t, e)
		st.consumedRest = true
		return []*szState{st}
	}
	if e.stopped && !t.stopped {
		e.stopped = false
		ts2 := x.execList([]*szState{t}, rest)
		if len(ts2) != 1 || ts2[0].returned {
			x.bad(st, s.Pos(), "return or fork inside a loop body")
			return []*szState{st}
		}
		t = ts2[0]
		t.stopped = false
		x.mergeGuarded(st, g, t, e)
		st.consumedRest = true
		return []*szState{st}
	}
	x.mergeGuarded(st, g, t, e)
	return []*szState{st}
}

func (x *szExec) switchStmt(st *szState, s *ast.SwitchStmt) []*szState {
	if s.Init != nil {
		x.exec(st, s.Init, nil)
	}
	if x.depth > 0 {
		x.bad(st, s.Pos(), "switch inside a loop body")
		return []*szState{st}
	}
	tag := ""
	if s.Tag != nil {
		tag = x.canon(st, s.Tag)
	}
	var res []*szState
	var negs []string
	hasDefault := false
	for _, cc := range s.Body.List {
		cl := cc.(*ast.CaseClause)
		c := st.clone()
		if cl.List == nil {
			hasDefault = true
			c.cond = append(c.cond, "switch "+tag+" default")
		} else {
			var vals []string
			for _, e := range cl.List {
				vals = append(vals, x.canon(st, e))
			}
			c.cond = append(c.cond, "switch "+tag+" case "+strings.Join(vals, ","))
			negs = append(negs, vals...)
		}
		res = append(res, x.execList([]*szState{c}, cl.Body)...)
	}
	if !hasDefault {
		c := st.clone()
		c.cond = append(c.cond, "switch "+tag+" none")
		res = append(res, c)
	}
	return res
}

func (x *szExec) typeSwitch(st *szState, s *ast.TypeSwitchStmt) []*szState {
	if x.depth > 0 {
		x.bad(st, s.Pos(), "type switch inside a loop body")
		return []*szState{st}
	}
	// x := y.(type) / y.(type)
	var subject ast.Expr
	var bind *ast.Ident
	switch a := s.Assign.(type) {
	case *ast.AssignStmt:
		bind = a.Lhs[0].(*ast.Ident)
		subject = a.Rhs[0].(*ast.TypeAssertExpr).X
	case *ast.ExprStmt:
		subject = a.X.(*ast.TypeAssertExpr).X
	}
	subj := x.canon(st, subject)
	var res []*szState
	hasDefault := false
	for _, cc := range s.Body.List {
		cl := cc.(*ast.CaseClause)
		c := st.clone()
		tname := "default"
		if cl.List != nil {
			var ts []string
			for _, e := range cl.List {
				ts = append(ts, types.ExprString(e))
			}
			tname = strings.Join(ts, ",")
		} else {
			hasDefault = true
		}
		c.cond = append(c.cond, "type("+subj+")="+tname)
		if bind != nil {
			if obj := x.info.Implicits[cl]; obj != nil {
				c.env[obj] = sym{kind: symPath, path: subj + ".(" + tname + ")"}
			}
		}
		res = append(res, x.execList([]*szState{c}, cl.Body)...)
	}
	if !hasDefault {
		c := st.clone()
		c.cond = append(c.cond, "type("+subj+")=other")
		res = append(res, c)
	}
	return res
}

// sumOver builds Σ_{$d < bound} body.
func sumOver(d int, bound lin, body lin) lin {
	v := fmt.Sprintf("$%d", d)
	res := linConst(0)
	dep := lin{t: map[string]int64{}}
	for k, c := range body.t {
		if strings.Contains(k, v) {
			dep.t[k] = c
		} else {
			res = res.add(bound.mul(lin{t: map[string]int64{k: c}}))
		}
	}
	for k, c := range dep.t {
		one := lin{t: map[string]int64{k: 1}}
		res = res.add(linAtom("sum{" + v + "<" + bound.String() + "}(" + one.String() + ")").scale(c))
	}
	return res
}

// loopBody executes a loop body once and adds the accumulated deltas.
func (x *szExec) loopBody(st *szState, body *ast.BlockStmt, bound lin, pos token.Pos) {
	x.depth++
	d := x.depth
	b := st.clone()
	bs := x.execList([]*szState{b}, body.List)
	x.depth--
	if len(bs) != 1 || bs[0].returned {
		x.bad(st, pos, "return or fork inside a loop body")
		return
	}
	b = bs[0]
	if b.bad != "" {
		st.bad = b.bad
		return
	}
	for o, before := range st.env {
		after, ok := b.env[o]
		if !ok {
			continue
		}
		switch before.kind {
		case symInt:
			if after.kind != symInt {
				st.env[o] = sym{kind: symUnknown}
				continue
			}
			delta := after.n.sub(before.n)
			if len(delta.t) == 0 {
				continue
			}
			// a non-accumulating assignment (x = f(i)) leaves the variable unknown after the loop
			if delta.mentions("var:") && false {
				st.env[o] = sym{kind: symUnknown}
				continue
			}
			if !x.isAccumulator(body, o) {
				// the fold binds its own index: rename it so that it is not mistaken for an enclosing loop index
				iv, bv := fmt.Sprintf("$%d", d), fmt.Sprintf("#%d", d)
				st.env[o] = sym{kind: symInt, n: linAtom("fold{" + before.n.String() + ";" + strings.ReplaceAll(after.n.String(), iv, bv) + ";" + bv + "<" + bound.String() + "}")}
				continue
			}
			st.env[o] = sym{kind: symInt, n: before.n.add(sumOver(d, bound, delta))}
		case symBuf:
			if after.kind != symBuf {
				st.env[o] = sym{kind: symUnknown}
				continue
			}
			delta := after.n.sub(before.n)
			nb := before
			nb.n = before.n.add(sumOver(d, bound, delta))
			st.env[o] = nb
		default:
			if after.text() != before.text() {
				st.env[o] = sym{kind: symPath, path: "loopval:" + o.Name()}
			}
		}
	}
}

// isAccumulator: every assignment to obj inside body is obj += e, obj -= e, obj++ or obj--.
func (x *szExec) isAccumulator(body *ast.BlockStmt, obj types.Object) bool {
	ok := true
	ast.Inspect(body, func(n ast.Node) bool {
		if as, isA := n.(*ast.AssignStmt); isA {
			for _, l := range as.Lhs {
				if id, isId := l.(*ast.Ident); isId && x.info.ObjectOf(id) == obj {
					if as.Tok != token.ADD_ASSIGN && as.Tok != token.SUB_ASSIGN {
						ok = false
					}
				}
			}
		}
		return true
	})
	return ok
}

func (x *szExec) rangeStmt(st *szState, s *ast.RangeStmt) {
	coll := x.eval(st, s.X)
	var bound lin
	d := x.depth + 1
	idx := fmt.Sprintf("$%d", d)
	switch {
	case coll.kind == symInt:
		bound = coll.n // range over an integer
	case coll.kind == symBuf:
		bound = coll.n
	default:
		if l, ok := x.lens[coll.text()]; ok {
			bound = l
		} else {
			bound = linAtom("len(" + coll.text() + ")")
		}
	}
	if id, ok := s.Key.(*ast.Ident); ok && id.Name != "_" {
		if isMapType(x.info.TypeOf(s.X)) {
			st.env[x.info.ObjectOf(id)] = sym{kind: symPath, path: "key(" + coll.text() + "," + idx + ")"}
		} else {
			st.env[x.info.ObjectOf(id)] = sym{kind: symInt, n: linAtom(idx)}
		}
	}
	if id, ok := s.Value.(*ast.Ident); ok && id.Name != "_" {
		p := coll.text() + "[" + idx + "]"
		if isIntLike(x.info.TypeOf(id)) {
			st.env[x.info.ObjectOf(id)] = sym{kind: symInt, n: linAtom("val:" + p)}
		} else {
			st.env[x.info.ObjectOf(id)] = sym{kind: symPath, path: p}
		}
	}
	x.loopBody(st, s.Body, bound, s.Pos())
}

func (x *szExec) forStmt(st *szState, s *ast.ForStmt) {
	// padding idiom: for X%k != 0 { X++ }  /  for len(buf)%k != 0 { buf = append(buf, 0) }
	if s.Init == nil && s.Post == nil && s.Cond != nil {
		if be, ok := s.Cond.(*ast.BinaryExpr); ok && be.Op == token.NEQ {
			if rem, ok := be.X.(*ast.BinaryExpr); ok && rem.Op == token.REM {
				if z, ok := constInt(x.info, be.Y); ok && z == 0 {
					if k, ok := constInt(x.info, rem.Y); ok && k > 0 && len(s.Body.List) == 1 {
						subj := x.eval(st, rem.X)
						if subj.kind == symInt {
							aligned := linAtom(fmt.Sprintf("align(%s,%d)", subj.n.String(), k))
							switch b := s.Body.List[0].(type) {
							case *ast.IncDecStmt:
								if b.Tok == token.INC && x.canon(st, b.X) == x.canon(st, rem.X) {
									x.assignTo(st, b.X, sym{kind: symInt, n: aligned})
									return
								}
							case *ast.AssignStmt:
								if len(b.Lhs) == 1 && len(b.Rhs) == 1 {
									if call, ok := b.Rhs[0].(*ast.CallExpr); ok {
										if id, ok := call.Fun.(*ast.Ident); ok && id.Name == "append" && len(call.Args) == 2 {
											bv := x.eval(st, b.Lhs[0])
											if bv.kind == symBuf && bv.n.String() == subj.n.String() {
												bv.n = aligned
												x.assignTo(st, b.Lhs[0], bv)
												return
											}
										}
									}
								}
							}
						}
					}
				}
			}
		}
	}
	// counted loop: for i := a; i < n; i++
	if s.Init != nil && s.Cond != nil && s.Post != nil {
		as, ok1 := s.Init.(*ast.AssignStmt)
		be, ok2 := s.Cond.(*ast.BinaryExpr)
		inc, ok3 := s.Post.(*ast.IncDecStmt)
		if ok1 && ok2 && ok3 && len(as.Lhs) == 1 && len(as.Rhs) == 1 && be.Op == token.LSS && inc.Tok == token.INC {
			iv, ok := as.Lhs[0].(*ast.Ident)
			if ok && types.ExprString(be.X) == iv.Name && types.ExprString(inc.X) == iv.Name {
				a := x.eval(st, as.Rhs[0])
				n := x.eval(st, be.Y)
				if a.kind == symInt && n.kind == symInt {
					d := x.depth + 1
					st.env[x.info.ObjectOf(iv)] = sym{kind: symInt, n: a.n.add(linAtom(fmt.Sprintf("$%d", d)))}
					x.loopBody(st, s.Body, n.n.sub(a.n), s.Pos())
					return
				}
			}
		}
	}
	x.bad(st, s.Pos(), "loop form not understood")
}

// ---- driver --------------------------------------------------------------------

type szResult struct {
	paths map[string]string // path condition -> canonical size
	caps  map[string]string // path condition -> canonical requested capacity (may be empty)
	bad   string
}

// runSize symbolically executes fd; for a length function it records the
// returned integer, for an encoder the final buffer length and capacity.
func runSize(w *World, info *types.Info, fd *ast.FuncDecl, bufParam bool) szResult {
	x := &szExec{w: w, info: info, lens: map[string]lin{}, ctr: new(int)}
	st := &szState{env: map[types.Object]sym{}}
	if fd.Recv != nil && len(fd.Recv.List) == 1 && len(fd.Recv.List[0].Names) == 1 {
		st.env[info.ObjectOf(fd.Recv.List[0].Names[0])] = sym{kind: symPath, path: "R"}
	}
	for _, f := range fd.Type.Params.List {
		for _, n := range f.Names {
			obj := info.ObjectOf(n)
			if isByteSlice(obj.Type()) {
				st.env[obj] = sym{kind: symBuf, n: linConst(0)}
			} else if isIntLike(obj.Type()) {
				st.env[obj] = sym{kind: symInt, n: linAtom("arg:" + n.Name)}
			} else {
				st.env[obj] = sym{kind: symPath, path: "arg:" + n.Name}
			}
		}
	}
	res := szResult{paths: map[string]string{}, caps: map[string]string{}}
	finals := x.execList([]*szState{st}, fd.Body.List)
	for _, f := range finals {
		if f.bad != "" {
			res.bad = f.bad
			continue
		}
		isPanic := false
		for _, c := range f.cond {
			if c == "#panic" {
				isPanic = true
			}
		}
		if isPanic {
			continue
		}
		if !f.returned || len(f.ret) == 0 {
			res.bad = "a path does not return a value"
			continue
		}
		cset := map[string]bool{}
		var conds []string
		for _, c := range f.cond {
			if !cset[c] {
				cset[c] = true
				conds = append(conds, c)
			}
		}
		sort.Strings(conds)
		if infeasible(conds) {
			continue
		}
		key := strings.Join(conds, " && ")
		v := f.ret[0]
		if v.kind == symInt || v.kind == symBuf {
			v.n = underConds(v.n, conds)
			if v.cap != nil {
				c := underConds(*v.cap, conds)
				v.cap = &c
			}
		}
		switch v.kind {
		case symInt:
			res.paths[key] = normKeys(v.n.String())
		case symBuf:
			res.paths[key] = normKeys(v.n.String())
			if v.cap != nil {
				res.caps[key] = normKeys(v.cap.String())
			}
		case symPath:
			if v.path == "nil" {
				res.paths[key] = "0"
			} else {
				res.bad = "returned value not understood: " + v.path
			}
		default:
			res.bad = "returned value not understood"
		}
	}
	return res
}


// infeasible: two different type cases for the same subject.
func infeasible(conds []string) bool {
	seen := map[string]string{}
	for _, c := range conds {
		if strings.HasPrefix(c, "type(") {
			i := strings.LastIndex(c, ")=")
			if i < 0 {
				continue
			}
			subj, t := c[:i], c[i+2:]
			if old, ok := seen[subj]; ok && old != t {
				return true
			}
			seen[subj] = t
		}
	}
	return false
}

// canonical forms (see eval): len(P) > 0 and 0 < len(P) both read !((0) < (len(P))) when false; len(P) == 0 reads ((0) == (len(P)))
var reLenZero = regexp.MustCompile(`^!\(\(\(0\) < \((len\([^()]*(\([^()]*\))?[^()]*\))\)\)\)$`)
var reLenZeroEq = regexp.MustCompile(`^\(\(0\) == \((len\([^()]*(\([^()]*\))?[^()]*\))\)\)$`)

// underConds simplifies an expression using the path condition: when
// len(P) > 0 is known to be false, terms that are sums over len(P) or
// multiples of len(P) vanish.
func underConds(l lin, conds []string) lin {
	for _, c := range conds {
		m := reLenZero.FindStringSubmatch(c)
		if m == nil {
			m = reLenZeroEq.FindStringSubmatch(c)
		}
		if m == nil {
			continue
		}
		atom := m[1]
		for k := range l.t {
			for _, part := range strings.Split(k, "\x00") {
				if part == atom || strings.HasPrefix(part, "sum{") && strings.Contains(part, "<"+atom+"}") {
					delete(l.t, k)
					break
				}
			}
		}
	}
	return l
}

var reKeysLen = regexp.MustCompile(`len\(maps\.Keys\(`)

// normText applies textual normalisations that do not change the value:
// iterating the sorted key list of a map visits the same entries as iterating
// the map.
func normText(s string) string {
	for {
		i := strings.Index(s, "maps.Keys(")
		if i < 0 {
			return s
		}
		// find matching paren
		j, d := i+len("maps.Keys("), 1
		for j < len(s) && d > 0 {
			if s[j] == '(' {
				d++
			} else if s[j] == ')' {
				d--
			}
			j++
		}
		inner := s[i+len("maps.Keys(") : j-1]
		s = s[:i] + "KEYS<" + inner + ">" + s[j:]
	}
}

func normKeys(s string) string {
	s = normText(s)
	// M[(val:KEYS<M>[$k])] -> M[$k]; len(KEYS<M>) -> len(M)
	for {
		i := strings.Index(s, "KEYS<")
		if i < 0 {
			return s
		}
		j, d := i+5, 1
		for j < len(s) && d > 0 {
			if s[j] == '<' {
				d++
			} else if s[j] == '>' {
				d--
			}
			j++
		}
		inner := s[i+5 : j-1]
		pre := "[(val:"
		if strings.HasSuffix(s[:i], inner+pre) {
			// …inner[(val:KEYS<inner>[$k])]
			rest := s[j:]
			if k := strings.Index(rest, "])]"); k >= 0 && strings.HasPrefix(rest, "[$") {
				s = s[:i-len(pre)] + rest[:k+1] + rest[k+3:]
				continue
			}
		}
		s = s[:i] + inner + s[j:]
	}
}

// RunSizeAgree compares every (length function, encoder) pair of the library.
func RunSizeAgree(w *World, r *Report, pkgFilter func(string) bool) {
	r.Rule("sizeagree: for every pair (encodeLen, encode), (EncodeLen, Encode), (AppendLen, Append), (glyf encodeLen, append) a symbolic executor over the syntax computes, per path condition, the returned length and the final length (and requested capacity) of the emitted buffer as canonical polynomials over atoms len(path), paired-size calls, guarded sums over loops and align(); the two must be identical; a pair outside the understood subset is 'unanalysable' (allowed only if frozen in the reviewed table)")
	type meth struct {
		fd   *ast.FuncDecl
		info *types.Info
	}
	byType := map[string]map[string]meth{}
	var order []string
	for path, p := range w.All {
		if !isLibPkg(path) || (pkgFilter != nil && !pkgFilter(path)) {
			continue
		}
		for _, f := range p.Syntax {
			for _, d := range f.Decls {
				fd, ok := d.(*ast.FuncDecl)
				if !ok || fd.Recv == nil || fd.Body == nil {
					continue
				}
				rt := fd.Recv.List[0].Type
				if st, ok := rt.(*ast.StarExpr); ok {
					rt = st.X
				}
				tn := shortName(path) + "." + types.ExprString(rt)
				if byType[tn] == nil {
					byType[tn] = map[string]meth{}
					order = append(order, tn)
				}
				byType[tn][fd.Name.Name] = meth{fd, p.TypesInfo}
			}
		}
	}
	sort.Strings(order)
	for _, tn := range order {
		ms := byType[tn]
		for _, pr := range [][2]string{{"encodeLen", "encode"}, {"EncodeLen", "Encode"}, {"AppendLen", "Append"}, {"encodeLen", "append"}} {
			lm, okL := ms[pr[0]]
			em, okE := ms[pr[1]]
			if !okL || !okE {
				continue
			}
			key := r.MkKey("sizeagree", tn, pr[0]+"/"+pr[1])
			pos := w.Pos(em.fd.Pos())
			lr := runSize(w, lm.info, lm.fd, false)
			er := runSize(w, em.info, em.fd, true)
			if lr.bad != "" || er.bad != "" {
				why := lr.bad
				if why == "" {
					why = er.bad
				}
				r.FailC("sizeagree", key, []string{"unanalysable"}, pos, "pair outside the understood subset: "+why, nil)
				continue
			}
			var diffs []string
			keys := map[string]bool{}
			for k := range lr.paths {
				keys[k] = true
			}
			for k := range er.paths {
				keys[k] = true
			}
			var ks []string
			for k := range keys {
				ks = append(ks, k)
			}
			sort.Strings(ks)
			for _, k := range ks {
				lv, okl := lr.paths[k]
				ev, oke := er.paths[k]
				switch {
				case !okl:
					diffs = append(diffs, fmt.Sprintf("path [%s] exists only in %s (emits %s)", k, pr[1], ev))
				case !oke:
					diffs = append(diffs, fmt.Sprintf("path [%s] exists only in %s (declares %s)", k, pr[0], lv))
				case lv != ev:
					diffs = append(diffs, fmt.Sprintf("on path [%s] %s declares %s but %s emits %s", k, pr[0], lv, pr[1], ev))
				}
				if c, ok := er.caps[k]; ok && oke && c != ev {
					diffs = append(diffs, fmt.Sprintf("on path [%s] %s requests capacity %s but emits %s", k, pr[1], c, ev))
				}
			}
			if len(diffs) == 0 {
				r.OK("sizeagree", key, pos, fmt.Sprintf("%d path(s) agree, e.g. %s", len(ks), firstVal(lr.paths)))
			} else {
				// a reviewed entry for a pair the algebra cannot equate is bound to the
				// exact canonical forms it was reviewed for
				h := sha256.New()
				for _, k := range ks {
					fmt.Fprintf(h, "%s|%s|%s|%s\n", k, lr.paths[k], er.paths[k], er.caps[k])
				}
				fp := fmt.Sprintf("%x", h.Sum(nil))[:12]
				r.FailC("sizeagree", key, []string{"mismatch:" + fp}, pos, strings.Join(diffs[:min(2, len(diffs))], "; "), nil)
			}
		}
	}
}

func firstVal(m map[string]string) string {
	var ks []string
	for k := range m {
		ks = append(ks, k)
	}
	sort.Strings(ks)
	if len(ks) == 0 {
		return ""
	}
	v := m[ks[len(ks)-1]]
	if len(v) > 160 {
		v = v[:160] + "…"
	}
	return v
}
