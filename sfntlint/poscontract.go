package main

// Position contracts of the shaping engine: the functions that apply a
// lookup at a position are entered with  0 <= pos < end <= len(ctx.seq).
// The contract is assumed inside these functions (entry facts of the
// prover) and checked at every call site in scope (rule poscontract).

import (
	"fmt"
	"go/types"
	"strings"

	"golang.org/x/tools/go/ssa"
)

type posContract struct {
	ctx, pos, end int // parameter indices (end < 0: the end is len(ctx.seq))
}

func contractOf(fn *ssa.Function) *posContract {
	if fn == nil || !strings.HasSuffix(fnPkgPath(fn), "/opentype/gtab") || fn.Signature.Recv() == nil {
		return nil
	}
	isCtx := func(t types.Type) bool {
		pt, ok := t.(*types.Pointer)
		if !ok {
			return false
		}
		nt, ok := pt.Elem().(*types.Named)
		return ok && nt.Obj().Name() == "Context"
	}
	ps := fn.Params
	switch fn.Name() {
	case "apply":
		if len(ps) == 4 && isCtx(ps[1].Type()) && isIntType(ps[2].Type()) && isIntType(ps[3].Type()) {
			return &posContract{1, 2, 3}
		}
	case "applyAt":
		if len(ps) == 4 && isCtx(ps[0].Type()) && isIntType(ps[2].Type()) && isIntType(ps[3].Type()) {
			return &posContract{0, 2, 3}
		}
	case "applyAtRecursively":
		if len(ps) == 2 && isCtx(ps[0].Type()) && isIntType(ps[1].Type()) {
			return &posContract{0, 1, -1}
		}
	}
	return nil
}

// contractEntryFacts: what a contract function may assume on entry.
func (p *bprover) contractEntryFacts() []bfact {
	c := contractOf(p.fn)
	if c == nil || p.memAt == nil {
		return nil
	}
	seq := p.memAt(nil, p.fn.Params[c.ctx], "seq")
	if seq == nil {
		return nil
	}
	why := "position contract of the shaping engine"
	pos := p.linOf(p.fn.Params[c.pos])
	n := p.lenOf(seq)
	res := []bfact{{e: pos, why: why}}
	if c.end >= 0 {
		end := p.linOf(p.fn.Params[c.end])
		if d, ok := end.sub(pos); ok {
			res = append(res, bfact{e: d.addc(-1), why: why})
		}
		if d, ok := n.sub(end); ok {
			res = append(res, bfact{e: d, why: why})
		}
	} else if d, ok := n.sub(pos); ok {
		res = append(res, bfact{e: d.addc(-1), why: why})
	}
	return res
}

// RunPosContracts checks the contract at every call of a contract function
// from the functions in scope.
func RunPosContracts(w *World, r *Report, br *boundsRun, fns []*ssa.Function) {
	r.Rule("poscontract: every call of Subtable.apply, (*Context).applyAt and (*Context).applyAtRecursively passes a position with 0 <= pos < end <= len(ctx.seq) (the sequence as it is at the call); inside these functions the contract is assumed")
	for _, fn := range fns {
		p := br.prover(fn)
		for _, b := range fn.Blocks {
			for _, in := range b.Instrs {
				call, ok := in.(ssa.CallInstruction)
				if !ok {
					continue
				}
				var c *posContract
				var callee *ssa.Function
				for _, cal := range w.Callees(call) {
					if cc := contractOf(cal); cc != nil {
						c, callee = cc, cal
						break
					}
				}
				if c == nil {
					continue
				}
				args := call.Common().Args
				if call.Common().IsInvoke() {
					// invoke: Args exclude the receiver
					args = append([]ssa.Value{call.Common().Value}, args...)
				}
				if len(args) <= c.pos || len(args) <= c.ctx || c.end >= len(args) {
					continue
				}
				name := callee.Name()
				key := r.MkKey("poscontract", fnName(fn), "call of "+name)
				posv := w.Pos(call.Pos())
				seq := p.memAt(call, args[c.ctx], "seq")
				if seq == nil {
					r.Fail("poscontract", key, posv, "the glyph sequence at the call cannot be identified", nil)
					continue
				}
				pos := p.linOf(args[c.pos])
				n := p.lenOf(seq)
				goals := []blin{pos}
				texts := []string{"pos >= 0"}
				if c.end >= 0 {
					end := p.linOf(args[c.end])
					if d, ok := end.sub(pos); ok {
						goals = append(goals, d.addc(-1))
						texts = append(texts, "pos < end")
					}
					if d, ok := n.sub(end); ok {
						goals = append(goals, d)
						texts = append(texts, "end <= len(seq)")
					}
				} else if d, ok := n.sub(pos); ok {
					goals = append(goals, d.addc(-1))
					texts = append(texts, "pos < len(seq)")
				}
				failed := ""
				for i, g := range goals {
					if !p.proveAt(b, g) {
						failed = texts[i]
						break
					}
				}
				if failed == "" {
					r.OK("poscontract", key, posv, "0 <= pos < end <= len(seq) at the call")
				} else {
					r.Fail("poscontract", key, posv, fmt.Sprintf("%q is not shown for the arguments of %s (pos %s, sequence length %s)", failed, name, p.linStr(pos), p.linStr(n)), nil)
				}
			}
		}
	}
	r.Floor("poscontract", 3)
}
