package main

import (
	"fmt"
	"go/constant"
	"go/token"
	"strings"

	"golang.org/x/tools/go/ssa"
)

// RunOmitTolerance: a DICT entry that equals its default is left out and the
// reader fills in the default. "Equals" has to mean equal to the precision
// the format keeps (reals are written with nine significant digits and more):
// an omission test |x - default| > tol with a coarse tolerance replaces values
// near the default by the default (a font matrix 1/1005 by 1/1000).
func RunOmitTolerance(w *World, r *Report) {
	omitToleranceIn(w, r, "/cff")
	RunControl(r, "omittolerance", "ctlOmitNearBad", func(cw *World, rr *Report, fns []*ssa.Function) { omitToleranceIn(cw, rr, "") })
}

func omitToleranceIn(w *World, r *Report, pkgSuffix string) {
	r.Rule("omittolerance: in the functions of package cff that build a DICT (receiver or result of type cffDict) no branch compares math.Abs(x - d) with a constant tolerance above 1e-9: a value is left out only if it equals the default to the precision dictionary reals keep")
	n := 0
	for _, fn := range w.LibFuncs() {
		if !strings.HasSuffix(fnPkgPath(fn), pkgSuffix) {
			continue
		}
		isDict := func(s string) bool { return strings.HasSuffix(s, "cff.cffDict") || strings.HasSuffix(s, ".ctlDict") }
		ok := fn.Signature.Recv() != nil && isDict(fn.Signature.Recv().Type().String())
		for i := 0; i < fn.Signature.Results().Len(); i++ {
			if isDict(fn.Signature.Results().At(i).Type().String()) {
				ok = true
			}
		}
		if !ok {
			continue
		}
		for _, b := range fn.Blocks {
			for _, in := range b.Instrs {
				bo, isB := in.(*ssa.BinOp)
				if !isB || (bo.Op != token.GTR && bo.Op != token.LSS && bo.Op != token.GEQ && bo.Op != token.LEQ) {
					continue
				}
				var abs *ssa.Call
				var tol *ssa.Const
				for _, side := range [][2]ssa.Value{{bo.X, bo.Y}, {bo.Y, bo.X}} {
					c, isCall := side[0].(*ssa.Call)
					k, isConst := side[1].(*ssa.Const)
					if !isCall || !isConst || k.Value == nil {
						continue
					}
					callee := c.Common().StaticCallee()
					if callee == nil || callee.Pkg == nil || callee.Pkg.Pkg.Path() != "math" || callee.Name() != "Abs" {
						continue
					}
					if sub, isSub := c.Common().Args[0].(*ssa.BinOp); !isSub || sub.Op != token.SUB {
						continue
					}
					abs, tol = c, k
				}
				if abs == nil {
					continue
				}
				t, _ := constant.Float64Val(constant.ToFloat(tol.Value))
				n++
				key := r.MkKey("omittolerance", fnName(fn), fmt.Sprintf("tolerance %g", t))
				if t <= 1e-9 {
					r.OK("omittolerance", key, w.Pos(bo.Pos()), "the tolerance is below the precision of dictionary reals")
				} else {
					r.Fail("omittolerance", key, w.Pos(bo.Pos()), fmt.Sprintf("a value within %g of the default is left out of the DICT and read back as the default: values that differ from the default in the third to ninth significant digit do not survive (reals are promised to nine significant digits)", t), nil)
				}
			}
		}
	}
	_ = n
}
