package main

// stackctl: the Type 2 operators whose effect is steered by integer operands
// — index, roll, put, get — interpreted with concrete control operands and
// symbolic data.  The interpreter below runs the operator's case clause of
// decodeCharString (and the helper functions of package cff it calls, such as
// roll) on a stack of tokens: "s0", "s1", ... for data operands and "#n" for
// the integer n.  Every operation that moves data (index expressions, slice
// expressions, append, copy with memmove semantics, element assignment,
// make) is modelled; arithmetic exists only on integers.  Anything else makes
// the rule fail as "not understood", never pass.

import (
	"fmt"
	"sort"
	"go/ast"
	"go/constant"
	"go/token"
	"go/types"
	"strconv"
	"strings"
)

type ciArr struct{ el []string }

type ciView struct {
	a      *ciArr
	lo, hi int
}

func (v ciView) len() int { return v.hi - v.lo }

type ciLin struct {
	t map[string]int
	k int
}

func (l ciLin) String() string {
	var names []string
	for n, c := range l.t {
		if c != 0 {
			names = append(names, n)
		}
	}
	sort.Strings(names)
	out := ""
	for _, n := range names {
		c := l.t[n]
		switch {
		case c == 1:
			out += "+" + n
		case c == -1:
			out += "-" + n
		case c > 0:
			out += fmt.Sprintf("+%d*%s", c, n)
		default:
			out += fmt.Sprintf("%d*%s", c, n)
		}
	}
	if l.k != 0 || out == "" {
		out += fmt.Sprintf("%+d", l.k)
	}
	return strings.TrimPrefix(out, "+")
}

func ciAtom(n string) ciLin { return ciLin{t: map[string]int{n: 1}} }

func (l ciLin) add(o ciLin, sign int) ciLin {
	r := ciLin{t: map[string]int{}, k: l.k + sign*o.k}
	for n, c := range l.t {
		r.t[n] += c
	}
	for n, c := range o.t {
		r.t[n] += sign * c
	}
	return r
}

// ciParseLin reads a token produced by ciLin.String (or a plain atom).
func ciParseLin(tok string) (ciLin, bool) {
	if strings.HasPrefix(tok, "#") {
		n, err := strconv.Atoi(tok[1:])
		return ciLin{t: map[string]int{}, k: n}, err == nil
	}
	r := ciLin{t: map[string]int{}}
	i := 0
	for i < len(tok) {
		sign := 1
		if tok[i] == '+' {
			i++
		} else if tok[i] == '-' {
			sign = -1
			i++
		}
		j := i
		for j < len(tok) && tok[j] != '+' && tok[j] != '-' {
			j++
		}
		term := tok[i:j]
		if term == "" {
			return r, false
		}
		coef := 1
		if k := strings.Index(term, "*"); k >= 0 {
			c, err := strconv.Atoi(term[:k])
			if err != nil {
				return r, false
			}
			coef, term = c, term[k+1:]
		}
		if n, err := strconv.Atoi(term); err == nil {
			r.k += sign * coef * n
		} else {
			r.t[term] += sign * coef
		}
		i = j
	}
	return r, true
}

type ciState struct {
	ints     map[string]int
	sl       map[string]ciView
	flo      map[string]ciLin
	bools    map[string]bool
	failed   bool // the clause returned an error
	returned bool
}

type ciInterp struct {
	info     *types.Info
	funcs    map[string]*ast.FuncDecl
	closures map[string]*ast.FuncLit
	st    *ciState
	err   string
	steps int
	depth int
	brk   bool
	cont  bool
}

func (in *ciInterp) fail(f string, a ...interface{}) {
	if in.err == "" {
		in.err = fmt.Sprintf(f, a...)
	}
}

func (in *ciInterp) intE(e ast.Expr) (int, bool) {
	if tv, ok := in.info.Types[e]; ok && tv.Value != nil && tv.Value.Kind() == constant.Int {
		v, ok := constant.Int64Val(tv.Value)
		return int(v), ok
	}
	switch x := e.(type) {
	case *ast.ParenExpr:
		return in.intE(x.X)
	case *ast.Ident:
		v, ok := in.st.ints[x.Name]
		return v, ok
	case *ast.UnaryExpr:
		if x.Op == token.SUB {
			v, ok := in.intE(x.X)
			return -v, ok
		}
	case *ast.CallExpr:
		if id, ok := x.Fun.(*ast.Ident); ok && len(x.Args) == 1 {
			switch id.Name {
			case "len":
				if v, ok := in.viewE(x.Args[0]); ok {
					return v.len(), true
				}
			case "int", "int32", "int64":
				if t, ok := in.elemE(x.Args[0]); ok && strings.HasPrefix(t, "#") {
					n, err := strconv.Atoi(t[1:])
					return n, err == nil
				}
				return in.intE(x.Args[0])
			}
		}
	case *ast.BinaryExpr:
		a, ok1 := in.intE(x.X)
		b, ok2 := in.intE(x.Y)
		if !ok1 || !ok2 {
			return 0, false
		}
		switch x.Op {
		case token.ADD:
			return a + b, true
		case token.SUB:
			return a - b, true
		case token.MUL:
			return a * b, true
		case token.QUO:
			if b == 0 {
				return 0, false
			}
			return a / b, true
		case token.REM:
			if b == 0 {
				return 0, false
			}
			return a % b, true
		}
	}
	return 0, false
}

func (in *ciInterp) viewE(e ast.Expr) (ciView, bool) {
	switch x := e.(type) {
	case *ast.ParenExpr:
		return in.viewE(x.X)
	case *ast.Ident:
		if x.Name == "nil" {
			return ciView{}, true
		}
		v, ok := in.st.sl[x.Name]
		return v, ok
	case *ast.SelectorExpr:
		v, ok := in.st.sl[types.ExprString(x)]
		return v, ok
	case *ast.SliceExpr:
		v, ok := in.viewE(x.X)
		if !ok || x.Slice3 {
			return ciView{}, false
		}
		lo, hi := 0, v.len()
		if x.Low != nil {
			if lo, ok = in.intE(x.Low); !ok {
				return ciView{}, false
			}
		}
		if x.High != nil {
			if hi, ok = in.intE(x.High); !ok {
				return ciView{}, false
			}
		}
		capacity := 0
		if v.a != nil {
			capacity = len(v.a.el) - v.lo
		}
		if lo < 0 || hi < lo || hi > capacity {
			in.fail("slice expression %s out of range (%d:%d of %d)", types.ExprString(e), lo, hi, capacity)
			return ciView{}, false
		}
		return ciView{a: v.a, lo: v.lo + lo, hi: v.lo + hi}, true
	case *ast.CallExpr:
		if id, ok := x.Fun.(*ast.Ident); ok {
			switch id.Name {
			case "make":
				if len(x.Args) >= 2 {
					n, ok := in.intE(x.Args[1])
					if !ok || n < 0 || n > 4096 {
						return ciView{}, false
					}
					a := &ciArr{el: make([]string, n)}
					for i := range a.el {
						a.el[i] = "#0"
					}
					return ciView{a: a, lo: 0, hi: n}, true
				}
			case "append":
				if len(x.Args) >= 1 && !x.Ellipsis.IsValid() {
					v, ok := in.viewE(x.Args[0])
					if !ok {
						return ciView{}, false
					}
					var add []string
					for _, a := range x.Args[1:] {
						t, ok := in.elemE(a)
						if !ok {
							return ciView{}, false
						}
						add = append(add, t)
					}
					// write in place while capacity lasts (Go semantics), else copy
					if v.a != nil && v.hi+len(add) <= len(v.a.el) {
						copy(v.a.el[v.hi:], add)
						return ciView{a: v.a, lo: v.lo, hi: v.hi + len(add)}, true
					}
					na := &ciArr{}
					if v.a != nil {
						na.el = append(na.el, v.a.el[v.lo:v.hi]...)
					}
					na.el = append(na.el, add...)
					return ciView{a: na, lo: 0, hi: len(na.el)}, true
				}
			}
		}
	}
	return ciView{}, false
}

func (in *ciInterp) elemE(e ast.Expr) (string, bool) {
	if tv, ok := in.info.Types[e]; ok && tv.Value != nil {
		f, _ := constant.Float64Val(constant.ToFloat(tv.Value))
		if f == float64(int(f)) {
			return "#" + strconv.Itoa(int(f)), true
		}
		return "", false
	}
	switch x := e.(type) {
	case *ast.ParenExpr:
		return in.elemE(x.X)
	case *ast.IndexExpr:
		v, ok := in.viewE(x.X)
		if !ok {
			return "", false
		}
		i, ok := in.intE(x.Index)
		if !ok {
			return "", false
		}
		if i < 0 || i >= v.len() {
			in.fail("index %s out of range (%d of %d)", types.ExprString(e), i, v.len())
			return "", false
		}
		return v.a.el[v.lo+i], true
	case *ast.CallExpr:
		if id, ok := x.Fun.(*ast.Ident); ok && id.Name == "float64" && len(x.Args) == 1 {
			return in.elemE(x.Args[0])
		}
	case *ast.Ident, *ast.BinaryExpr, *ast.SelectorExpr:
		if in.isFloatExpr(e) {
			if l, ok := in.floatE(e); ok {
				return l.String(), true
			}
		}
	}
	return "", false
}

func (in *ciInterp) typeOf(e ast.Expr) types.Type {
	if tv, ok := in.info.Types[e]; ok && tv.Type != nil {
		return tv.Type
	}
	if id, ok := e.(*ast.Ident); ok {
		if o := in.info.ObjectOf(id); o != nil {
			return o.Type()
		}
	}
	return nil
}

func (in *ciInterp) isFloatExpr(e ast.Expr) bool {
	t := in.typeOf(e)
	if t == nil {
		return false
	}
	b, isB := t.Underlying().(*types.Basic)
	return isB && b.Info()&types.IsFloat != 0
}

// floatE evaluates a floating-point expression to a linear form over the
// symbolic operands (sums and differences only).
func (in *ciInterp) floatE(e ast.Expr) (ciLin, bool) {
	if tv, ok := in.info.Types[e]; ok && tv.Value != nil {
		f, _ := constant.Float64Val(constant.ToFloat(tv.Value))
		if f == float64(int(f)) {
			return ciLin{t: map[string]int{}, k: int(f)}, true
		}
		return ciLin{}, false
	}
	switch x := e.(type) {
	case *ast.ParenExpr:
		return in.floatE(x.X)
	case *ast.Ident:
		if l, ok := in.st.flo[x.Name]; ok {
			return l, true
		}
		return ciLin{}, false
	case *ast.SelectorExpr:
		name := types.ExprString(x)
		if l, ok := in.st.flo[name]; ok {
			return l, true
		}
		return ciAtom(name), true // a quantity of the environment
	case *ast.IndexExpr:
		t, ok := in.elemE(x)
		if !ok {
			return ciLin{}, false
		}
		return ciParseLin(t)
	case *ast.UnaryExpr:
		if x.Op == token.SUB {
			l, ok := in.floatE(x.X)
			return ciLin{t: map[string]int{}}.add(l, -1), ok
		}
	case *ast.BinaryExpr:
		a, ok1 := in.floatE(x.X)
		b, ok2 := in.floatE(x.Y)
		if !ok1 || !ok2 {
			return ciLin{}, false
		}
		switch x.Op {
		case token.ADD:
			return a.add(b, 1), true
		case token.SUB:
			return a.add(b, -1), true
		}
	case *ast.CallExpr:
		if id, ok := x.Fun.(*ast.Ident); ok && (id.Name == "float64" || id.Name == "fix") && len(x.Args) == 1 {
			return in.floatE(x.Args[0])
		}
	}
	return ciLin{}, false
}

func (in *ciInterp) boolE(e ast.Expr) (bool, bool) {
	switch x := e.(type) {
	case *ast.ParenExpr:
		return in.boolE(x.X)
	case *ast.Ident:
		switch x.Name {
		case "true":
			return true, true
		case "false":
			return false, true
		}
		v, ok := in.st.bools[x.Name]
		return v, ok
	case *ast.UnaryExpr:
		if x.Op == token.NOT {
			v, ok := in.boolE(x.X)
			return !v, ok
		}
	case *ast.BinaryExpr:
		switch x.Op {
		case token.LAND:
			a, ok := in.boolE(x.X)
			if !ok {
				return false, false
			}
			if !a {
				return false, true
			}
			return in.boolE(x.Y)
		case token.LOR:
			a, ok := in.boolE(x.X)
			if !ok {
				return false, false
			}
			if a {
				return true, true
			}
			return in.boolE(x.Y)
		case token.EQL, token.NEQ:
			// slice compared with nil
			if id, ok := x.Y.(*ast.Ident); ok && id.Name == "nil" {
				if v, ok := in.viewE(x.X); ok {
					return (v.a == nil) == (x.Op == token.EQL), true
				}
			}
		}
		a, ok1 := in.intE(x.X)
		b, ok2 := in.intE(x.Y)
		if ok1 && ok2 {
			switch x.Op {
			case token.LSS:
				return a < b, true
			case token.LEQ:
				return a <= b, true
			case token.GTR:
				return a > b, true
			case token.GEQ:
				return a >= b, true
			case token.EQL:
				return a == b, true
			case token.NEQ:
				return a != b, true
			}
		}
	}
	return false, false
}

func (in *ciInterp) isSliceExpr(e ast.Expr) bool {
	t := in.typeOf(e)
	if t == nil {
		return false
	}
	_, isSl := t.Underlying().(*types.Slice)
	return isSl
}

func (in *ciInterp) isIntExpr(e ast.Expr) bool {
	t := in.typeOf(e)
	if t == nil {
		return false
	}
	b, isB := t.Underlying().(*types.Basic)
	return isB && b.Info()&types.IsInteger != 0
}

func (in *ciInterp) assign1(lhs, rhs ast.Expr, tok token.Token) {
	if ix, ok := lhs.(*ast.IndexExpr); ok {
		v, ok1 := in.viewE(ix.X)
		i, ok2 := in.intE(ix.Index)
		t, ok3 := in.elemE(rhs)
		if !ok1 || !ok2 || !ok3 || tok != token.ASSIGN {
			in.fail("element assignment %s not understood", types.ExprString(lhs))
			return
		}
		if i < 0 || i >= v.len() {
			in.fail("store %s out of range", types.ExprString(lhs))
			return
		}
		v.a.el[v.lo+i] = t
		return
	}
	var id *ast.Ident
	switch l := lhs.(type) {
	case *ast.Ident:
		id = l
	case *ast.SelectorExpr:
		id = &ast.Ident{Name: types.ExprString(l)}
	default:
		in.fail("assignment to %s not understood", types.ExprString(lhs))
		return
	}
	if id.Name == "_" {
		return
	}
	if in.isFloatExpr(rhs) || in.isFloatExpr(lhs) {
		l, ok := in.floatE(rhs)
		if !ok {
			in.fail("floating-point value %s not understood", types.ExprString(rhs))
			return
		}
		switch tok {
		case token.ASSIGN, token.DEFINE:
			in.st.flo[id.Name] = l
		case token.ADD_ASSIGN:
			in.st.flo[id.Name] = in.st.flo[id.Name].add(l, 1)
		case token.SUB_ASSIGN:
			in.st.flo[id.Name] = in.st.flo[id.Name].add(l, -1)
		default:
			in.fail("assignment operator %s not understood", tok)
		}
		return
	}
	if tv, ok := in.info.Types[rhs]; ok && tv.Type != nil {
		if b, isB := tv.Type.Underlying().(*types.Basic); isB && b.Info()&types.IsBoolean != 0 {
			v, ok := in.boolE(rhs)
			if !ok {
				in.fail("boolean value %s not understood", types.ExprString(rhs))
				return
			}
			in.st.bools[id.Name] = v
			return
		}
	}
	if in.isSliceExpr(rhs) || (tok != token.DEFINE && in.isSliceExpr(lhs)) || in.isSliceExpr(lhs) {
		v, ok := in.viewE(rhs)
		if !ok {
			in.fail("slice value %s not understood", types.ExprString(rhs))
			return
		}
		in.st.sl[id.Name] = v
		return
	}
	if in.isIntExpr(rhs) || in.isIntExpr(lhs) {
		n, ok := in.intE(rhs)
		if !ok {
			in.fail("integer value %s not understood", types.ExprString(rhs))
			return
		}
		switch tok {
		case token.ASSIGN, token.DEFINE:
			in.st.ints[id.Name] = n
		case token.ADD_ASSIGN:
			in.st.ints[id.Name] += n
		case token.SUB_ASSIGN:
			in.st.ints[id.Name] -= n
		case token.REM_ASSIGN:
			if n == 0 {
				in.fail("remainder by zero")
				return
			}
			in.st.ints[id.Name] %= n
		case token.MUL_ASSIGN:
			in.st.ints[id.Name] *= n
		default:
			in.fail("assignment operator %s not understood", tok)
		}
		return
	}
	in.fail("assignment %s = %s not understood", types.ExprString(lhs), types.ExprString(rhs))
}

func (in *ciInterp) block(stmts []ast.Stmt) {
	for _, s := range stmts {
		if in.err != "" || in.st.failed || in.st.returned || in.brk || in.cont {
			return
		}
		in.stmt(s)
	}
}

func (in *ciInterp) stmt(s ast.Stmt) {
	in.steps++
	if in.steps > 20000 {
		in.fail("interpretation does not end")
		return
	}
	switch x := s.(type) {
	case *ast.BlockStmt:
		in.block(x.List)
	case *ast.AssignStmt:
		if len(x.Lhs) == len(x.Rhs) && len(x.Lhs) > 1 {
			// tuple assignment of elements (swap): evaluate all right sides first
			var vals []string
			for _, r := range x.Rhs {
				t, ok := in.elemE(r)
				if !ok {
					in.fail("tuple assignment not understood")
					return
				}
				vals = append(vals, t)
			}
			for i, l := range x.Lhs {
				ix, ok := l.(*ast.IndexExpr)
				if !ok {
					in.fail("tuple assignment not understood")
					return
				}
				v, ok1 := in.viewE(ix.X)
				k, ok2 := in.intE(ix.Index)
				if !ok1 || !ok2 || k < 0 || k >= v.len() {
					in.fail("tuple assignment not understood")
					return
				}
				v.a.el[v.lo+k] = vals[i]
			}
			return
		}
		if len(x.Lhs) != 1 || len(x.Rhs) != 1 {
			in.fail("assignment form not understood")
			return
		}
		in.assign1(x.Lhs[0], x.Rhs[0], x.Tok)
	case *ast.DeclStmt:
		gd, ok := x.Decl.(*ast.GenDecl)
		if !ok {
			in.fail("declaration not understood")
			return
		}
		for _, sp := range gd.Specs {
			vs, ok := sp.(*ast.ValueSpec)
			if !ok {
				continue
			}
			for i, nm := range vs.Names {
				if i < len(vs.Values) {
					in.assign1(nm, vs.Values[i], token.DEFINE)
				} else if in.isSliceExpr(nm) {
					in.st.sl[nm.Name] = ciView{}
				} else if in.isFloatExpr(nm) {
					in.st.flo[nm.Name] = ciLin{t: map[string]int{}}
				} else {
					in.st.ints[nm.Name] = 0
				}
			}
		}
	case *ast.IncDecStmt:
		id, ok := x.X.(*ast.Ident)
		if !ok {
			in.fail("inc/dec not understood")
			return
		}
		if x.Tok == token.INC {
			in.st.ints[id.Name]++
		} else {
			in.st.ints[id.Name]--
		}
	case *ast.IfStmt:
		if x.Init != nil {
			in.stmt(x.Init)
		}
		c, ok := in.boolE(x.Cond)
		if !ok {
			in.fail("condition %s not understood", types.ExprString(x.Cond))
			return
		}
		if c {
			in.block(x.Body.List)
		} else if x.Else != nil {
			in.stmt(x.Else)
		}
	case *ast.ForStmt:
		if x.Init != nil {
			in.stmt(x.Init)
		}
		for iter := 0; iter < 4096; iter++ {
			if x.Cond != nil {
				c, ok := in.boolE(x.Cond)
				if !ok {
					in.fail("loop condition %s not understood", types.ExprString(x.Cond))
					return
				}
				if !c {
					return
				}
			}
			in.block(x.Body.List)
			if in.err != "" || in.st.failed || in.st.returned {
				return
			}
			if in.brk {
				in.brk = false
				return
			}
			in.cont = false
			if x.Post != nil {
				in.stmt(x.Post)
			}
		}
		in.fail("loop does not end")
	case *ast.BranchStmt:
		switch x.Tok {
		case token.BREAK:
			in.brk = true
		case token.CONTINUE:
			in.cont = true
		default:
			in.fail("branch statement not understood")
		}
	case *ast.ExprStmt:
		call, ok := x.X.(*ast.CallExpr)
		if !ok {
			in.fail("expression statement not understood")
			return
		}
		id, ok := call.Fun.(*ast.Ident)
		if !ok {
			in.fail("call %s not understood", types.ExprString(call.Fun))
			return
		}
		if id.Name == "copy" && len(call.Args) == 2 {
			d, ok1 := in.viewE(call.Args[0])
			sv, ok2 := in.viewE(call.Args[1])
			if !ok1 || !ok2 {
				in.fail("copy operands not understood")
				return
			}
			n := d.len()
			if sv.len() < n {
				n = sv.len()
			}
			tmp := make([]string, n)
			if n > 0 {
				copy(tmp, sv.a.el[sv.lo:sv.lo+n])
				copy(d.a.el[d.lo:d.lo+n], tmp)
			}
			return
		}
		if fl := in.closures[id.Name]; fl != nil {
			in.callClosure(fl, call.Args)
			return
		}
		fd := in.funcs[id.Name]
		if fd == nil {
			in.fail("call of %s not understood", id.Name)
			return
		}
		in.call(fd, call.Args)
	case *ast.ReturnStmt:
		if in.depth == 0 {
			// inside the operator's case clause every return reports an error
			in.st.failed = true
		} else {
			in.st.returned = true
		}
	default:
		in.fail("statement %T not understood", s)
	}
}

func (in *ciInterp) call(fd *ast.FuncDecl, args []ast.Expr) {
	if in.depth > 3 {
		in.fail("call depth")
		return
	}
	// bind parameters (slices by reference to the same array, integers by value)
	callee := &ciState{ints: map[string]int{}, sl: map[string]ciView{}, flo: map[string]ciLin{}, bools: map[string]bool{}}
	i := 0
	for _, f := range fd.Type.Params.List {
		for _, nm := range f.Names {
			if i >= len(args) {
				in.fail("argument count")
				return
			}
			if in.isSliceExpr(args[i]) {
				v, ok := in.viewE(args[i])
				if !ok {
					in.fail("slice argument %s not understood", types.ExprString(args[i]))
					return
				}
				callee.sl[nm.Name] = v
			} else {
				n, ok := in.intE(args[i])
				if !ok {
					in.fail("integer argument %s not understood", types.ExprString(args[i]))
					return
				}
				callee.ints[nm.Name] = n
			}
			i++
		}
	}
	saved := in.st
	in.st = callee
	in.depth++
	in.block(fd.Body.List)
	in.depth--
	in.st = saved
}

// runCase interprets one case clause on the given stack and storage.
func ciRunCase(info *types.Info, funcs map[string]*ast.FuncDecl, cc *ast.CaseClause, stack []string, storage []string) (out []string, store []string, failed bool, err string) {
	in := &ciInterp{info: info, funcs: funcs}
	in.st = &ciState{ints: map[string]int{}, sl: map[string]ciView{}, flo: map[string]ciLin{}, bools: map[string]bool{}}
	a := &ciArr{el: append(append([]string{}, stack...), make([]string, 8)...)}
	in.st.sl["stack"] = ciView{a: a, lo: 0, hi: len(stack)}
	if storage != nil {
		in.st.sl["storage"] = ciView{a: &ciArr{el: append([]string{}, storage...)}, lo: 0, hi: len(storage)}
	} else {
		in.st.sl["storage"] = ciView{}
	}
	in.block(cc.Body)
	if in.err != "" {
		return nil, nil, false, in.err
	}
	sv := in.st.sl["stack"]
	if sv.a != nil {
		out = append(out, sv.a.el[sv.lo:sv.hi]...)
	}
	st := in.st.sl["storage"]
	if st.a != nil {
		store = append(store, st.a.el[st.lo:st.hi]...)
	}
	return out, store, in.st.failed, ""
}

func checkStackCtl(w *World, r *Report) {
	r.Rule("stackctl: index, roll, put and get — the case clause of decodeCharString (with the helpers of package cff it calls) is interpreted on a stack of symbolic operands with every admissible value of the integer control operands: `i index` copies the element i below the top (the top one for negative i), `N J roll` moves each of the top N operands J places towards the top, cyclically (all N in 1..5, J in -7..7), `val i put` followed by `i get` yields val for every i in 0..31, and the rest of the stack is untouched; indices outside the defined range are rejected")
	pkg := w.All[modPath+"/cff"]
	if pkg == nil {
		r.Fatal("package cff not loaded")
		return
	}
	funcs := map[string]*ast.FuncDecl{}
	var dec *ast.FuncDecl
	for _, f := range pkg.Syntax {
		for _, d := range f.Decls {
			if fd, ok := d.(*ast.FuncDecl); ok && fd.Body != nil {
				if fd.Recv == nil {
					funcs[fd.Name.Name] = fd
				}
				if fd.Name.Name == "decodeCharString" {
					dec = fd
				}
			}
		}
	}
	if dec == nil {
		r.Fatal("decodeCharString not found")
		return
	}
	clauses := map[string]*ast.CaseClause{}
	ast.Inspect(dec.Body, func(n ast.Node) bool {
		if cc, ok := n.(*ast.CaseClause); ok {
			for _, e := range cc.List {
				clauses[types.ExprString(e)] = cc
			}
		}
		return true
	})
	info := pkg.TypesInfo
	syms := func(n int) []string {
		var s []string
		for i := 0; i < n; i++ {
			s = append(s, fmt.Sprintf("s%d", i))
		}
		return s
	}
	eq := func(a, b []string) bool {
		if len(a) != len(b) {
			return false
		}
		for i := range a {
			if a[i] != b[i] {
				return false
			}
		}
		return true
	}
	run := func(op string, f func(cc *ast.CaseClause) string) {
		key := r.MkKey("stackctl", "decodeCharString", "operator "+strings.TrimPrefix(op, "t2"))
		cc := clauses[op]
		if cc == nil {
			r.Fail("stackctl", key, w.Pos(dec.Pos()), "no case for "+op, nil)
			return
		}
		if bad := f(cc); bad != "" {
			r.Fail("stackctl", key, w.Pos(cc.Pos()), strings.TrimPrefix(op, "t2")+": "+bad, nil)
		} else {
			r.OK("stackctl", key, w.Pos(cc.Pos()), "agrees with TN5177 for every control operand tried")
		}
	}
	// index
	run("t2index", func(cc *ast.CaseClause) string {
		for i := -3; i <= 5; i++ {
			st := append(syms(4), "#"+strconv.Itoa(i))
			out, _, failed, err := ciRunCase(info, funcs, cc, st, nil)
			if err != "" {
				return err
			}
			switch {
			case i > 3:
				if !failed {
					return fmt.Sprintf("index %d with four operands below it is accepted (stack %v)", i, out)
				}
			default:
				k := i
				if k < 0 {
					k = 0
				}
				want := append(syms(4), fmt.Sprintf("s%d", 3-k))
				if failed || !eq(out, want) {
					return fmt.Sprintf("`s0 s1 s2 s3 %d index` leaves %v, defined is %v", i, out, want)
				}
			}
		}
		return ""
	})
	// roll
	run("t2roll", func(cc *ast.CaseClause) string {
		for n := -1; n <= 6; n++ {
			for j := -7; j <= 7; j++ {
				st := append(syms(5), "#"+strconv.Itoa(n), "#"+strconv.Itoa(j))
				out, _, failed, err := ciRunCase(info, funcs, cc, st, nil)
				if err != "" {
					return err
				}
				if n == 0 && failed {
					// TN5177 asks for a non-negative count; a count of 0 rotates nothing. Rejecting it is
					// the library's (conservative) choice; accepting it must leave the operands alone.
					continue
				}
				if n < 0 || n > 5 {
					if !failed {
						return fmt.Sprintf("roll with count %d over five operands is accepted", n)
					}
					continue
				}
				if n == 0 {
					if !eq(out, syms(5)) {
						return fmt.Sprintf("`s0 s1 s2 s3 s4 0 %d roll` leaves %v, defined is the five operands unchanged", j, out)
					}
					continue
				}
				want := syms(5)
				win := make([]string, n)
				for t := 0; t < n; t++ {
					win[((t+j)%n+n)%n] = want[5-n+t]
				}
				copy(want[5-n:], win)
				if failed || !eq(out, want) {
					return fmt.Sprintf("`s0 s1 s2 s3 s4 %d %d roll` leaves %v, defined is %v", n, j, out, want)
				}
			}
		}
		return ""
	})
	// put, then get
	putcc, getcc := clauses["t2put"], clauses["t2get"]
	run("t2put", func(cc *ast.CaseClause) string {
		if getcc == nil {
			return "no case for get"
		}
		for i := -1; i <= 32; i++ {
			st := []string{"s0", "s1", "#" + strconv.Itoa(i)}
			out, store, failed, err := ciRunCase(info, funcs, cc, st, nil)
			if err != "" {
				return err
			}
			if i < 0 || i > 31 {
				if !failed {
					return fmt.Sprintf("put with index %d is accepted (the transient array has 32 entries)", i)
				}
				continue
			}
			if failed || !eq(out, []string{"s0"}) {
				return fmt.Sprintf("`s0 s1 %d put` leaves %v, defined is [s0]", i, out)
			}
			// a later get of the same index, with other data on the stack
			out2, _, failed2, err := ciRunCase(info, funcs, getcc, []string{"t0", "#" + strconv.Itoa(i)}, store)
			if err != "" {
				return err
			}
			if failed2 || !eq(out2, []string{"t0", "s1"}) {
				return fmt.Sprintf("after `s1 %d put`, `t0 %d get` leaves %v, defined is [t0 s1]", i, i, out2)
			}
			// and a get of another index does not see it
			o := (i + 1) % 32
			out3, _, failed3, err := ciRunCase(info, funcs, getcc, []string{"t0", "#" + strconv.Itoa(o)}, store)
			if err != "" {
				return err
			}
			if !failed3 && len(out3) == 2 && out3[1] == "s1" {
				return fmt.Sprintf("after `s1 %d put`, `%d get` also returns s1", i, o)
			}
		}
		return ""
	})
	run("t2get", func(cc *ast.CaseClause) string {
		if putcc == nil {
			return "no case for put"
		}
		// get before any put, and with an index outside the array, is rejected or yields a number — never a stack operand
		for _, i := range []int{-1, 0, 31, 32} {
			out, _, failed, err := ciRunCase(info, funcs, cc, []string{"t0", "#" + strconv.Itoa(i)}, nil)
			if err != "" {
				return err
			}
			if !failed && (len(out) != 2 || out[0] != "t0" || !strings.HasPrefix(out[1], "#")) {
				return fmt.Sprintf("`t0 %d get` on an empty transient array leaves %v", i, out)
			}
		}
		return ""
	})
	r.Floor("stackctl", 4)
}

// callClosure runs a function literal of the enclosing function: it shares
// the caller's variables; only its parameters are bound afresh.
func (in *ciInterp) callClosure(fl *ast.FuncLit, args []ast.Expr) {
	if in.depth > 3 {
		in.fail("call depth")
		return
	}
	type saved struct {
		name string
		kind int
		i    int
		b    bool
		has  bool
	}
	var save []saved
	i := 0
	for _, f := range fl.Type.Params.List {
		for _, nm := range f.Names {
			if i >= len(args) {
				in.fail("argument count")
				return
			}
			if b, ok := in.boolE(args[i]); ok && !in.isIntExpr(args[i]) {
				old, has := in.st.bools[nm.Name]
				save = append(save, saved{name: nm.Name, kind: 1, b: old, has: has})
				in.st.bools[nm.Name] = b
			} else if n, ok := in.intE(args[i]); ok {
				old, has := in.st.ints[nm.Name]
				save = append(save, saved{name: nm.Name, kind: 0, i: old, has: has})
				in.st.ints[nm.Name] = n
			} else {
				in.fail("argument %s of a closure not understood", types.ExprString(args[i]))
				return
			}
			i++
		}
	}
	in.depth++
	in.block(fl.Body.List)
	in.depth--
	in.st.returned = false
	for _, sv := range save {
		switch sv.kind {
		case 0:
			if sv.has {
				in.st.ints[sv.name] = sv.i
			} else {
				delete(in.st.ints, sv.name)
			}
		case 1:
			if sv.has {
				in.st.bools[sv.name] = sv.b
			} else {
				delete(in.st.bools, sv.name)
			}
		}
	}
}

// ciRun interprets a case clause with a prepared state and returns the
// interpreter (for inspection of the final state).
func ciRun(info *types.Info, funcs map[string]*ast.FuncDecl, closures map[string]*ast.FuncLit, cc *ast.CaseClause, init func(st *ciState)) (*ciInterp, string) {
	in := &ciInterp{info: info, funcs: funcs, closures: closures}
	in.st = &ciState{ints: map[string]int{}, sl: map[string]ciView{}, flo: map[string]ciLin{}, bools: map[string]bool{}}
	init(in.st)
	in.block(cc.Body)
	return in, in.err
}

func ciSlice(tokens []string, spare int) ciView {
	a := &ciArr{el: append(append([]string{}, tokens...), make([]string, spare)...)}
	return ciView{a: a, lo: 0, hi: len(tokens)}
}

func (v ciView) tokens() []string {
	if v.a == nil {
		return nil
	}
	return append([]string{}, v.a.el[v.lo:v.hi]...)
}

// checkStemSem: hstem, vstem, hstemhm, vstemhm.  "y dy {dya dyb}*": the
// first edge of every operator is relative to 0, every further value to the
// previous edge (TN5177 4.3) — whatever stems earlier operators declared.
func checkStemSem(w *World, r *Report) {
	r.Rule("stemsem: the case clauses of hstem, vstem, hstemhm and vstemhm are interpreted with 2..7 symbolic operands (an odd count carries the width first) and with stems of an earlier operator already recorded: the edges appended are the running sums s0, s0+s1, s0+s1+s2, ... of this operator's operands alone, in that order, to the list of the right direction; the other list, and what was recorded before, is untouched; the stack is empty afterwards")
	pkg := w.All[modPath+"/cff"]
	if pkg == nil {
		r.Fatal("package cff not loaded")
		return
	}
	info := pkg.TypesInfo
	funcs := map[string]*ast.FuncDecl{}
	var dec *ast.FuncDecl
	for _, f := range pkg.Syntax {
		for _, d := range f.Decls {
			if fd, ok := d.(*ast.FuncDecl); ok && fd.Body != nil {
				if fd.Recv == nil {
					funcs[fd.Name.Name] = fd
				}
				if fd.Name.Name == "decodeCharString" {
					dec = fd
				}
			}
		}
	}
	if dec == nil {
		r.Fatal("decodeCharString not found")
		return
	}
	closures := map[string]*ast.FuncLit{}
	for _, st := range dec.Body.List {
		as, ok := st.(*ast.AssignStmt)
		if !ok || len(as.Lhs) != 1 || len(as.Rhs) != 1 {
			continue
		}
		if fl, ok := as.Rhs[0].(*ast.FuncLit); ok {
			if id, ok := as.Lhs[0].(*ast.Ident); ok {
				closures[id.Name] = fl
			}
		}
	}
	clauses := map[string]*ast.CaseClause{}
	ast.Inspect(dec.Body, func(n ast.Node) bool {
		if cc, ok := n.(*ast.CaseClause); ok {
			for _, e := range cc.List {
				clauses[types.ExprString(e)] = cc
			}
		}
		return true
	})
	// the stem lists: slice fields of the result that the clauses append to
	for _, op := range []string{"t2hstem", "t2vstem", "t2hstemhm", "t2vstemhm"} {
		key := r.MkKey("stemsem", "decodeCharString", "operator "+strings.TrimPrefix(op, "t2"))
		cc := clauses[op]
		if cc == nil {
			r.Fail("stemsem", key, w.Pos(dec.Pos()), "no case for "+op, nil)
			continue
		}
		own, other := "res.HStem", "res.VStem"
		if strings.HasPrefix(op, "t2v") {
			own, other = other, own
		}
		bad := ""
		for n := 2; n <= 7 && bad == ""; n++ {
			var stack []string
			for i := 0; i < n; i++ {
				stack = append(stack, fmt.Sprintf("s%d", i))
			}
			in, err := ciRun(info, funcs, closures, cc, func(st *ciState) {
				st.sl["stack"] = ciSlice(stack, 4)
				st.sl["res.HStem"] = ciSlice([]string{"h0", "h1"}, 0)
				st.sl["res.VStem"] = ciSlice([]string{"v0", "v1"}, 0)
				st.bools["widthIsSet"] = false
				st.ints["stage"] = 0
			})
			if err != "" {
				bad = err
				break
			}
			if in.st.failed {
				bad = fmt.Sprintf("%d operands are rejected", n)
				break
			}
			wd := n % 2
			prior := map[string][]string{"res.HStem": {"h0", "h1"}, "res.VStem": {"v0", "v1"}}
			want := append([]string{}, prior[own]...)
			sum := ciLin{t: map[string]int{}}
			for i := wd; i < n; i++ {
				sum = sum.add(ciAtom(fmt.Sprintf("s%d", i)), 1)
				want = append(want, sum.String())
			}
			got := in.st.sl[own].tokens()
			if strings.Join(got, " ") != strings.Join(want, " ") {
				bad = fmt.Sprintf("with %d operands after an earlier stem operator the edges recorded are [%s], defined are [%s] (each operator starts at 0)", n, strings.Join(got, " "), strings.Join(want, " "))
				break
			}
			if o := in.st.sl[other].tokens(); strings.Join(o, " ") != strings.Join(prior[other], " ") {
				bad = fmt.Sprintf("the list of the other direction is changed to [%s]", strings.Join(o, " "))
				break
			}
			if rest := in.st.sl["stack"].tokens(); len(rest) != 0 {
				bad = fmt.Sprintf("the stack still holds %v afterwards", rest)
				break
			}
			if wd == 1 {
				if wv, ok := in.st.flo["res.Width"]; !ok || wv.t["s0"] != 1 {
					bad = "with an odd operand count the first operand is not taken as the width"
				}
			}
		}
		if bad == "" {
			r.OK("stemsem", key, w.Pos(cc.Pos()), "edges are the running sums of the operator's own operands")
		} else {
			r.Fail("stemsem", key, w.Pos(cc.Pos()), strings.TrimPrefix(op, "t2")+": "+bad, nil)
		}
	}
	// the implicit vertical stems in front of the first hintmask / cntrmask:
	// "hstemhm ... hintmask": operands left on the stack are vstem operands,
	// and like every stem operator they start at 0, whatever vstems an
	// explicit vstemhm declared before
	for _, op := range []string{"t2hintmask"} {
		key := r.MkKey("stemsem", "decodeCharString", "implicit vstems at "+strings.TrimPrefix(op, "t2"))
		cc := clauses[op]
		if cc == nil {
			r.Fail("stemsem", key, w.Pos(dec.Pos()), "no case for "+op, nil)
			continue
		}
		bad := ""
		for n := 2; n <= 5 && bad == ""; n++ {
			var stack []string
			for i := 0; i < n; i++ {
				stack = append(stack, fmt.Sprintf("s%d", i))
			}
			// only the part of the clause that records the stems is
			// interpreted: the longest prefix of its statements the interpreter
			// understands (the rest builds the mask command from the code bytes)
			var in *ciInterp
			err := "no statement of the clause is understood"
			for k := len(cc.Body); k >= 1; k-- {
				pre := &ast.CaseClause{List: cc.List, Body: cc.Body[:k], Case: cc.Case, Colon: cc.Colon}
				in2, e2 := ciRun(info, funcs, closures, pre, func(st *ciState) {
					st.sl["stack"] = ciSlice(stack, 4)
					st.sl["res.HStem"] = ciSlice([]string{"h0", "h1"}, 0)
					st.sl["res.VStem"] = ciSlice([]string{"v0", "v1"}, 0)
					st.bools["widthIsSet"] = false
					st.ints["stage"] = 1
				})
				if e2 == "" {
					in, err = in2, ""
					break
				}
				err = e2
			}
			if err != "" {
				bad = err
				break
			}
			if in.st.failed {
				bad = fmt.Sprintf("%d operands are rejected", n)
				break
			}
			wd := n % 2
			want := []string{"v0", "v1"}
			sum := ciLin{t: map[string]int{}}
			for i := wd; i < n; i++ {
				sum = sum.add(ciAtom(fmt.Sprintf("s%d", i)), 1)
				want = append(want, sum.String())
			}
			got := in.st.sl["res.VStem"].tokens()
			if strings.Join(got, " ") != strings.Join(want, " ") {
				bad = fmt.Sprintf("with %d operands on the stack and vstems already declared the implicit vertical stems recorded are [%s], defined are [%s] (they start at 0 like every stem operator)", n, strings.Join(got, " "), strings.Join(want, " "))
				break
			}
			if o := in.st.sl["res.HStem"].tokens(); strings.Join(o, " ") != "h0 h1" {
				bad = fmt.Sprintf("the horizontal stems are changed to [%s]", strings.Join(o, " "))
				break
			}
		}
		if bad == "" {
			r.OK("stemsem", key, w.Pos(cc.Pos()), "implicit vstems are the running sums of the operands left on the stack")
		} else {
			r.Fail("stemsem", key, w.Pos(cc.Pos()), "hintmask: "+bad, nil)
		}
	}
	r.Floor("stemsem", 4)
}
