package main

// cacheparam: a map handed to a function as a parameter outlives the call; a
// function that uses it as a cache (look the key up, on a miss compute the
// value and store it under the key) is asked again with other arguments. The
// numbers the cached value is computed from must all take part in the key,
// or two calls that agree in the key and differ elsewhere share one value.

import (
	"go/token"
	"go/types"
	"sort"
	"strings"

	"golang.org/x/tools/go/ssa"
)

func cacheParamIn(w *World, r *Report, fns []*ssa.Function) {
	for _, fn := range fns {
		if len(fn.Blocks) == 0 {
			continue
		}
		for _, b := range fn.Blocks {
			for _, in := range b.Instrs {
				mu, ok := in.(*ssa.MapUpdate)
				if !ok {
					continue
				}
				if _, isParam := mu.Map.(*ssa.Parameter); !isParam {
					continue
				}
				var lk *ssa.Lookup
				if refs := mu.Map.Referrers(); refs != nil {
					for _, ref := range *refs {
						if l, ok := ref.(*ssa.Lookup); ok && l.CommaOk && sameKeyValue(l.Index, mu.Key) && l.Block().Dominates(mu.Block()) {
							lk = l
						}
					}
				}
				if lk == nil {
					continue
				}
				key := r.MkKey("cacheparam", fnName(fn), "cache in parameter "+mu.Map.Name())
				// integer sources of a value: calls, parameters and loads it is computed from
				var sources func(v ssa.Value, into map[ssa.Value]bool, seen map[ssa.Value]bool, root bool)
				sources = func(v ssa.Value, into map[ssa.Value]bool, seen map[ssa.Value]bool, root bool) {
					if v == nil || seen[v] {
						return
					}
					seen[v] = true
					switch x := v.(type) {
					case *ssa.Const:
					case *ssa.Extract:
						if x.Tuple == ssa.Value(lk) {
							return
						}
						if c, ok := x.Tuple.(*ssa.Call); ok && root {
							for _, a := range c.Call.Args {
								if isIntegerType(a.Type()) {
									sources(a, into, seen, false)
								}
							}
							return
						}
						if isIntegerType(x.Type()) {
							into[x.Tuple] = true
						}
					case *ssa.Call:
						if _, isB := x.Call.Value.(*ssa.Builtin); isB {
							return
						}
						if root {
							for _, a := range x.Call.Args {
								if isIntegerType(a.Type()) {
									sources(a, into, seen, false)
								}
							}
							return
						}
						into[x] = true
					case *ssa.Parameter:
						if isIntegerType(x.Type()) {
							into[x] = true
						}
					case *ssa.UnOp:
						if x.Op == token.MUL {
							if isIntegerType(x.Type()) {
								into[x] = true
							}
							return
						}
						sources(x.X, into, seen, false)
					case *ssa.BinOp:
						sources(x.X, into, seen, false)
						sources(x.Y, into, seen, false)
					case *ssa.Convert:
						sources(x.X, into, seen, false)
					case *ssa.ChangeType:
						sources(x.X, into, seen, false)
					case *ssa.Phi:
						for _, e := range x.Edges {
							sources(e, into, seen, root)
						}
					}
				}
				vs, ks := map[ssa.Value]bool{}, map[ssa.Value]bool{}
				sources(mu.Value, vs, map[ssa.Value]bool{}, true)
				sources(mu.Key, ks, map[ssa.Value]bool{}, false)
				var missing []string
				for v := range vs {
					if !ks[v] {
						pos := w.Pos(v.Pos())
						missing = append(missing, valueDesc(v)+" ("+pos+")")
					}
				}
				sort.Strings(missing)
				if len(missing) > 0 {
					r.Fail("cacheparam", key, w.Pos(mu.Pos()), "the value stored in the cache is computed from "+strings.Join(missing, ", ")+", which the key does not include: a later call that agrees in the key and differs there gets the value computed for the earlier one", nil)
				} else {
					r.OK("cacheparam", key, w.Pos(mu.Pos()), "every number the value is computed from is part of the key")
				}
			}
		}
	}
}

func valueDesc(v ssa.Value) string {
	switch x := v.(type) {
	case *ssa.Call:
		if c := x.Call.StaticCallee(); c != nil {
			return "the result of " + c.Name()
		}
		return "a call result"
	case *ssa.Parameter:
		return "parameter " + x.Name()
	case *ssa.UnOp:
		if fa, ok := x.X.(*ssa.FieldAddr); ok {
			return "field " + fieldName(fa)
		}
	}
	return "a value of type " + types.TypeString(v.Type(), nil)
}

func RunCacheParam(w *World, r *Report, suffixes ...string) {
	r.Rule("cacheparam: where a function uses a map parameter as a cache (comma-ok lookup of a key, on a miss a value is computed and stored under that key), every integer source of the stored value — call results, parameters and loads among the integer arguments of the call that computes it — is also a source of the key")
	in := map[string]bool{}
	for _, s := range suffixes {
		in[modPath+s] = true
	}
	var fns []*ssa.Function
	for _, fn := range w.LibFuncs() {
		if in[fnPkgPath(fn)] {
			fns = append(fns, fn)
		}
	}
	cacheParamIn(w, r, fns)
	RunControl(r, "cacheparam", "ctlCacheParamBad", cacheParamIn)
}
