package main

import (
	"encoding/json"
	"fmt"
	"os"
	"path/filepath"
	"sort"
	"strconv"
	"strings"
	"time"
)

// Status of an obligation.
const (
	StOK        = "discharged"
	StTable     = "reviewed-table"
	StKnown     = "known-finding"
	StViolation = "violation"
)

// Obligation is one instance of a rule at one construct.
type Obligation struct {
	Rule   string   `json:"rule"`
	Key    string   `json:"key"` // rule|func|construct|ordinal — never a line number
	Pos    string   `json:"pos"`
	Status string   `json:"status"`
	How    string   `json:"how,omitempty"`    // pattern/guard/table entry that discharged it
	Detail string   `json:"detail,omitempty"` // for violations: what is missing
	Path   []string `json:"path,omitempty"`   // call path from an entry point
	need      []string // keys (with failure classes) no entry resolved
	hows      []string // what resolved the other keys
	nKnown    int      // how many of those were known findings
	rawDetail string   // detail as reported by the rule, before notes about entries
}

type KnownFinding struct {
	Property string `json:"property"`
	Key      string `json:"key"`
	Status   string `json:"status"` // "known" or "fixed"
	What     string `json:"what"`
	Witness  string `json:"witness,omitempty"`
	Commit   string `json:"commit,omitempty"`
}

type TableEntry struct {
	Key    string `json:"key"`
	Reason string `json:"reason"`
	// Cond is an optional machine-checked side condition name.
	Cond string `json:"cond,omitempty"`
}

// Report collects everything one property run establishes.
type Report struct {
	Property string
	Tier     string
	W        *World
	Obls     []Obligation
	keyCount map[string]int
	Counts   map[string]int // per rule instance counts
	Floors   map[string]int
	Notes    []string
	Scope    map[string]int // e.g. functions analysed
	Rules    []string       // rule descriptions for the explanation
	Assume   []string
	known    map[string]KnownFinding
	table    map[string]TableEntry
	usedTbl  map[string]bool
	fatal    []string
	start    time.Time
	verifDir string
	Variants []string // loads analysed (native, 386, cha...)
	Conds    map[string]func() (bool, string) // machine-checked side conditions of reviewed entries
	required [][2]string
}

func NewReport(prop, tier, verifDir string) *Report {
	r := &Report{Property: prop, Tier: tier, keyCount: map[string]int{}, Counts: map[string]int{},
		Floors: map[string]int{}, Scope: map[string]int{}, known: map[string]KnownFinding{},
		table: map[string]TableEntry{}, usedTbl: map[string]bool{}, start: time.Now(), verifDir: verifDir,
		Conds: map[string]func() (bool, string){}}
	r.loadKnown()
	r.loadTables()
	return r
}

func (r *Report) loadKnown() {
	b, err := os.ReadFile(filepath.Join(r.verifDir, "known_findings.json"))
	if err != nil {
		return
	}
	var kf struct {
		Findings []KnownFinding `json:"findings"`
	}
	if err := json.Unmarshal(b, &kf); err != nil {
		r.fatal = append(r.fatal, "known_findings.json unreadable: "+err.Error())
		return
	}
	for _, k := range kf.Findings {
		if k.Property == r.Property && k.Status == "known" {
			r.known[k.Key] = k
		}
	}
}

func (r *Report) loadTables() {
	files, _ := filepath.Glob(filepath.Join(r.verifDir, "tables", "*.json"))
	for _, f := range files {
		b, err := os.ReadFile(f)
		if err != nil {
			continue
		}
		var es []TableEntry
		if err := json.Unmarshal(b, &es); err != nil {
			r.fatal = append(r.fatal, f+" unreadable: "+err.Error())
			continue
		}
		for _, e := range es {
			r.table[e.Key] = e
		}
	}
}

// MkKey builds a stable obligation key; repeated (rule,fn,construct) triples
// get ordinals in the order they are reported (source order).
func (r *Report) MkKey(rule, fn, construct string) string {
	base := rule + "|" + fn + "|" + construct
	n := r.keyCount[base]
	r.keyCount[base] = n + 1
	return fmt.Sprintf("%s|%d", base, n)
}

// OK records a discharged obligation.
func (r *Report) OK(rule, key, pos, how string) {
	r.Counts[rule]++
	r.Obls = append(r.Obls, Obligation{Rule: rule, Key: key, Pos: pos, Status: StOK, How: how})
}

// Fail records an obligation that the rule could not discharge. It becomes a
// reviewed-table entry, a known finding or a violation.
func (r *Report) Fail(rule, key, pos, detail string, path []string) {
	r.FailC(rule, key, nil, pos, detail, path)
}

// FailC is Fail with failure classes: a reviewed-table or known-finding entry
// must exist for every class (key "<obligation key>#<class>"), so that an
// entry accepting e.g. a comparator never hides a missing sort.
func (r *Report) FailC(rule, key string, classes []string, pos, detail string, path []string) {
	r.Counts[rule]++
	o := Obligation{Rule: rule, Key: key, Pos: pos, Detail: detail, Path: path}
	keys := []string{key}
	if len(classes) > 0 {
		keys = keys[:0]
		seen := map[string]bool{}
		for _, c := range classes {
			if !seen[c] {
				seen[c] = true
				keys = append(keys, key+"#"+c)
			}
		}
		o.Detail += " [classes: " + strings.Join(classes, ",") + "]"
	}
	nT, nK := 0, 0
	var hows, open []string
	o.rawDetail = o.Detail
	for _, k := range keys {
		if e, ok := r.table[k]; ok && r.condHolds(e, &o) {
			nT++
			hows = append(hows, "reviewed: "+e.Reason)
			r.usedTbl[k] = true
		} else if kf, ok := r.known[k]; ok {
			nK++
			hows = append(hows, kf.What)
		} else {
			open = append(open, k)
		}
	}
	switch {
	case nT == len(keys):
		o.Status = StTable
		o.How = strings.Join(hows, "; ")
	case nT+nK == len(keys):
		o.Status = StKnown
		o.How = strings.Join(hows, "; ")
	default:
		o.Status = StViolation
		o.need, o.hows, o.nKnown = open, hows, nK
	}
	r.Obls = append(r.Obls, o)
}

// condHolds evaluates the machine-checked side condition of a reviewed entry.
func (r *Report) condHolds(e TableEntry, o *Obligation) bool {
	if e.Cond == "" {
		return true
	}
	if strings.HasPrefix(e.Cond, "detail-contains:") {
		// the review is bound to what the rule reported (e.g. the text of the comparator it accepted)
		want := strings.TrimPrefix(e.Cond, "detail-contains:")
		if strings.Contains(o.Detail, want) {
			return true
		}
		o.Detail += " [the reviewed entry was written for a construct reported as \"" + want + "\"; the construct has changed and must be reviewed again]"
		return false
	}
	f := r.Conds[e.Cond]
	if f == nil {
		o.Detail += " [reviewed entry needs side condition " + e.Cond + ", which this property does not establish]"
		return false
	}
	ok, why := f()
	if !ok {
		o.Detail += " [side condition " + e.Cond + " of the reviewed entry fails: " + why + "]"
	}
	return ok
}

// InTable reports whether a reviewed entry exists for key (without recording).
func (r *Report) InTable(key string) (TableEntry, bool) {
	e, ok := r.table[key]
	return e, ok
}

// Fatal records an analysis failure (unresolved anchor, engine error): undecided = fail.
func (r *Report) Fatal(format string, a ...any) {
	r.fatal = append(r.fatal, fmt.Sprintf(format, a...))
}

func (r *Report) Floor(rule string, n int) { r.Floors[rule] = n }

// Require names an obligation (by key) that was confirmed by hand on today's
// tree and must still be produced by its rule; if the construct the rule
// matched has disappeared, the rule passes vacuously for it, which is
// reported as undecided.
func (r *Report) Require(key, why string) {
	r.required = append(r.required, [2]string{key, why})
}

func (r *Report) Rule(desc string)   { r.Rules = append(r.Rules, desc) }
func (r *Report) Assumes(s string)   { r.Assume = append(r.Assume, s) }
func (r *Report) Note(f string, a ...any) { r.Notes = append(r.Notes, fmt.Sprintf(f, a...)) }

type evidence struct {
	PropertyID  string         `json:"property_id"`
	Tier        string         `json:"tier"`
	Seed        int            `json:"seed"`
	Level       string         `json:"level"`
	Coverage    map[string]any `json:"coverage"`
	Assumptions []string       `json:"assumptions"`
	WallS       float64        `json:"wall_s"`
	Violations  int            `json:"violations"`
}

// Finish writes the evidence file and replay artefacts, prints the verdict
// lines and returns the process exit code.
func (r *Report) Finish(seed int) int {
	if f := os.Getenv("SFNT_USEDLOG"); f != "" {
		if fh, err := os.OpenFile(f, os.O_APPEND|os.O_CREATE|os.O_WRONLY, 0o644); err == nil {
			for k := range r.usedTbl {
				fmt.Fprintln(fh, k)
			}
			fh.Close()
		}
	}
	// vacuity floors
	for rule, fl := range r.Floors {
		if r.Counts[rule] < fl {
			r.fatal = append(r.fatal, fmt.Sprintf("rule %s matched %d instances, below the hand-confirmed floor %d (vacuous or subsystem removed)", rule, r.Counts[rule], fl))
		}
	}
	haveKey := map[string]bool{}
	for _, o := range r.Obls {
		haveKey[o.Key] = true
	}
	r.rescueRenamed(haveKey)
	for _, rq := range r.required {
		if !haveKey[rq[0]] {
			r.fatal = append(r.fatal, fmt.Sprintf("hand-confirmed rule instance %q no longer exists (%s): the rule would pass vacuously for it", rq[0], rq[1]))
		}
	}
	sort.SliceStable(r.Obls, func(i, j int) bool { return r.Obls[i].Key < r.Obls[j].Key })
	nOK, nTab, nKnown, nViol := 0, 0, 0, 0
	distinct := map[string]bool{}
	var viol []Obligation
	perRule := map[string]map[string]int{}
	for _, o := range r.Obls {
		distinct[o.Key] = true
		if perRule[o.Rule] == nil {
			perRule[o.Rule] = map[string]int{}
		}
		perRule[o.Rule][o.Status]++
		switch o.Status {
		case StOK:
			nOK++
		case StTable:
			nTab++
		case StKnown:
			nKnown++
		default:
			nViol++
			viol = append(viol, o)
		}
	}
	// samples: a few of each status
	var samples []any
	seen := map[string]int{}
	for _, o := range r.Obls {
		k := o.Rule + "/" + o.Status
		if seen[k] < 2 {
			seen[k]++
			samples = append(samples, o)
		}
	}
	evDir := filepath.Join(r.verifDir, "evidence")
	os.MkdirAll(filepath.Join(evDir, "violations"), 0o755)
	// remove stale replay files of this property
	old, _ := filepath.Glob(filepath.Join(evDir, "violations", r.Property+"-*.json"))
	for _, f := range old {
		os.Remove(f)
	}
	exit := 0
	for _, o := range r.Obls {
		if o.Status == StKnown {
			fmt.Printf("KNOWN-FINDING: property=%s %s [%s at %s]\n", r.Property, o.How, o.Key, o.Pos)
		}
	}
	for i, o := range viol {
		p := filepath.Join(evDir, "violations", fmt.Sprintf("%s-%d.json", r.Property, i))
		b, _ := json.MarshalIndent(o, "", " ")
		os.WriteFile(p, b, 0o644)
		fmt.Printf("  %s: rule %s: %s\n    key: %s\n", o.Pos, o.Rule, o.Detail, o.Key)
		if len(o.Path) > 0 {
			fmt.Printf("    path: %s\n", strings.Join(o.Path, " -> "))
		}
		fmt.Printf("VIOLATION property=%s replay=%s\n", r.Property, p)
		exit = 1
	}
	for i, f := range r.fatal {
		p := filepath.Join(evDir, "violations", fmt.Sprintf("%s-undecided-%d.json", r.Property, i))
		b, _ := json.MarshalIndent(map[string]string{"undecided": f}, "", " ")
		os.WriteFile(p, b, 0o644)
		fmt.Printf("  undecided: %s\n", f)
		fmt.Printf("VIOLATION property=%s replay=%s\n", r.Property, p)
		exit = 1
	}
	var ruleLines []string
	var rules []string
	for k := range perRule {
		rules = append(rules, k)
	}
	sort.Strings(rules)
	for _, k := range rules {
		m := perRule[k]
		ruleLines = append(ruleLines, fmt.Sprintf("%s: %d instances (%d discharged by pattern, %d by reviewed table, %d known findings, %d violations; floor %d)",
			k, m[StOK]+m[StTable]+m[StKnown]+m[StViolation], m[StOK], m[StTable], m[StKnown], m[StViolation], r.Floors[k]))
	}
	var scope []string
	for k, v := range r.Scope {
		scope = append(scope, fmt.Sprintf("%s=%d", k, v))
	}
	sort.Strings(scope)
	expl := "Static analysis of /repo's working tree (go/packages + go/types + go/ssa + " + "call graph; nothing executed). " +
		"Loads analysed: " + strings.Join(r.Variants, ", ") + ". Scope: " + strings.Join(scope, ", ") + ". Rules applied: " +
		strings.Join(r.Rules, " || ") + ". Per rule: " + strings.Join(ruleLines, "; ") + "."
	if len(r.Notes) > 0 {
		expl += " Notes: " + strings.Join(r.Notes, "; ") + "."
	}
	ev := evidence{PropertyID: r.Property, Tier: r.Tier, Seed: seed, Level: "other",
		Coverage: map[string]any{
			"explanation":         expl,
			"obligations":         len(r.Obls),
			"discharged":          nOK + nTab,
			"known_findings":      nKnown,
			"evaluations":         len(r.Obls),
			"distinct_nontrivial": len(distinct),
			"rule":                "one obligation per (rule, function, construct); distinct = distinct obligation keys; all are non-trivial in the sense that the construct matched a rule's sink/site pattern",
			"samples":             samples,
			"per_rule":            perRule,
			"exhaustive":          true,
			"checker_cmd":         fmt.Sprintf("./check %s %s", r.Property, r.Tier),
			"trusted_base":        []string{"go/types", "go/ssa (x/tools v0.29.0)", "VTA/CHA call graph", "reviewed tables in /verif/tables", "external-effect summaries"},
		},
		Assumptions: append([]string{"go/types and go/ssa model the program faithfully; library packages use no reflection-based mutation, unsafe or cgo (asserted on every run)"}, r.Assume...),
		WallS:       time.Since(r.start).Seconds(), Violations: nViol + len(r.fatal)}
	b, _ := json.MarshalIndent(ev, "", " ")
	if err := os.WriteFile(filepath.Join(evDir, r.Property+".json"), b, 0o644); err != nil {
		fmt.Println("cannot write evidence:", err)
		return 2
	}
	fmt.Printf("%s %s: %d obligations: %d discharged, %d reviewed-table, %d known findings, %d violations, %d undecided (%.1fs)\n",
		r.Property, r.Tier, len(r.Obls), nOK, nTab, nKnown, nViol, len(r.fatal), time.Since(r.start).Seconds())
	for _, l := range ruleLines {
		fmt.Println("  ", l)
	}
	return exit
}


// rescueRenamed keeps a reviewed entry attached to its construct when a local
// variable the construct mentions has been renamed.  Obligation keys carry
// the source text of the construct; a rename of a local changes that text and
// nothing else.  An unmatched obligation is paired with a reviewed entry of
// the same rule, function, ordinal and failure class whose own key no rule
// produced in this run (a stale entry), when the two construct texts differ
// in exactly one identifier a -> b throughout, no local called a is in scope at
// the construct any more and b is a local in scope there.  Using a different,
// already existing variable in place of a (a real change) leaves a in scope
// and is not rescued; a changed field or callee is not a local and is not
// rescued either.
func (r *Report) rescueRenamed(haveKey map[string]bool) {
	if r.W == nil {
		return
	}
	// keys whose own obligation was not discharged by the rule itself: an entry whose key is
	// produced by a proven obligation is free (a rename elsewhere can move a proven construct
	// onto the ordinal of a reviewed one)
	needsEntry := map[string]bool{}
	for _, o := range r.Obls {
		if o.Status != StOK {
			needsEntry[o.Key] = true
		}
	}
	for i := range r.Obls {
		o := &r.Obls[i]
		if o.Status != StViolation || len(o.need) == 0 {
			continue
		}
		hows := append([]string{}, o.hows...)
		all := true
		rescuedKnown := 0
		for _, k := range o.need {
			if _, ok := r.table[k]; ok {
				all = false // the entry exists and its side condition failed
				break
			}
			rule, fn, cons, tail, ok := splitKey(k)
			if !ok {
				all = false
				break
			}
			found := false
			var cands []string
			for tk := range r.table {
				cands = append(cands, tk)
			}
			// known findings follow a rename in the same way (the finding stays a finding)
			for tk := range r.known {
				if _, dup := r.table[tk]; !dup {
					cands = append(cands, tk)
				}
			}
			sort.Strings(cands)
			for _, tk := range cands {
				trule, tfn, tcons, ttail, ok := splitKey(tk)
				if !ok || trule != rule || r.usedTbl[tk] {
					continue
				}
				renumbered := false
				if tfn != fn {
					// function literals are numbered in source order (f$1, f$2): moving one
					// (exchanging the branches of an if) renumbers them
					if !sameButLiteralNumbers(tfn, fn) {
						continue
					}
					renumbered = true
				}
				base := tk
				if j := strings.LastIndex(base, "#"); j >= 0 && strings.Contains(ttail, "#") {
					base = base[:j]
				}
				if haveKey[base] && needsEntry[base] {
					continue // the entry's own construct still exists and still needs it
				}
				tord, tclass, _ := strings.Cut(ttail, "#")
				ord, class, _ := strings.Cut(tail, "#")
				if tclass != class {
					continue
				}
				var whys []string
				if renumbered {
					if tcons != cons || tord != ord {
						continue
					}
					whys = append(whys, fmt.Sprintf("entry written when this function literal was %s", tfn))
				}
				if tcons != cons {
					a, b, ok := oneIdentRenamed(tcons, cons)
					if !ok || !r.W.localInScope(o.Pos, b) {
						continue
					}
					// the old name may still denote something at the construct (the renamed local
					// shadowed it): accepted only when that something has a different type, so that
					// the new text cannot be the old construct with another variable put in by mistake
					if r.W.localInScope(o.Pos, a) && r.W.sameTypeInScope(o.Pos, a, b) {
						continue
					}
					whys = append(whys, fmt.Sprintf("entry written when the local %s was called %s", b, a))
				}
				if tord != ord {
					// later ordinal of the entry's text: constructs with that
					// text that came earlier in the function are gone (renamed
					// or removed), so the ordinals of the remaining ones moved
					// down; only ordinals that cannot exist any more qualify
					n, err := strconv.Atoi(tord)
					if err != nil || n < r.keyCount[rule+"|"+fn+"|"+tcons] {
						continue
					}
					whys = append(whys, fmt.Sprintf("entry written for occurrence %d of the text %q in the function; earlier occurrences have since been renamed or removed", n, tcons))
				}
				why := strings.Join(whys, "; ")
				if kf, isKnown := r.known[tk]; isKnown {
					if _, inTable := r.table[tk]; !inTable {
						r.usedTbl[tk] = true
						hows = append(hows, kf.What)
						rescuedKnown++
						found = true
						break
					}
				}
				e := r.table[tk]
				tmp := *o
				tmp.Detail = o.rawDetail
				if !r.condHolds(e, &tmp) {
					continue
				}
				r.usedTbl[tk] = true
				hows = append(hows, fmt.Sprintf("reviewed (%s): %s", why, e.Reason))
				found = true
				break
			}
			if !found {
				all = false
				break
			}
		}
		if all {
			o.Status = StTable
			if o.nKnown > 0 || rescuedKnown > 0 {
				o.Status = StKnown
			}
			o.How = strings.Join(hows, "; ")
		}
	}
}

// splitKey splits rule|fn|construct|ordinal[#class]; the construct may itself contain '|'.
func splitKey(k string) (rule, fn, cons, tail string, ok bool) {
	i := strings.Index(k, "|")
	if i < 0 {
		return
	}
	rest := k[i+1:]
	j := strings.Index(rest, "|")
	l := strings.LastIndex(rest, "|")
	if j < 0 || l <= j {
		return
	}
	return k[:i], rest[:j], rest[j+1 : l], rest[l+1:], true
}

// oneIdentRenamed reports whether new is old with every occurrence of one
// identifier a replaced by an identifier b that old does not mention.
func oneIdentRenamed(old, new string) (a, b string, ok bool) {
	to, tn := identTokens(old), identTokens(new)
	if len(to) != len(tn) {
		return
	}
	for i := range to {
		if to[i] == tn[i] {
			continue
		}
		if !isIdentTok(to[i]) || !isIdentTok(tn[i]) {
			return "", "", false
		}
		if a == "" {
			a, b = to[i], tn[i]
		} else if to[i] != a || tn[i] != b {
			return "", "", false
		}
	}
	if a == "" {
		return "", "", false
	}
	for i := range to {
		if to[i] == b || tn[i] == a {
			return "", "", false
		}
		if to[i] == a && tn[i] != b {
			return "", "", false
		}
	}
	return a, b, true
}

func isIdentTok(t string) bool {
	if t == "" {
		return false
	}
	c := t[0]
	return c == '_' || c >= 'a' && c <= 'z' || c >= 'A' && c <= 'Z' || c >= 0x80
}

// identTokens splits s into identifiers and single other characters.
func identTokens(s string) []string {
	var out []string
	for i := 0; i < len(s); {
		c := s[i]
		if c == '_' || c >= 'a' && c <= 'z' || c >= 'A' && c <= 'Z' || c >= 0x80 {
			j := i + 1
			for j < len(s) && (s[j] == '_' || s[j] >= 'a' && s[j] <= 'z' || s[j] >= 'A' && s[j] <= 'Z' || s[j] >= '0' && s[j] <= '9' || s[j] >= 0x80) {
				j++
			}
			out = append(out, s[i:j])
			i = j
			continue
		}
		if c >= '0' && c <= '9' {
			j := i + 1
			for j < len(s) && (s[j] >= '0' && s[j] <= '9' || s[j] >= 'a' && s[j] <= 'z' || s[j] >= 'A' && s[j] <= 'Z' || s[j] == '_' || s[j] == '.') {
				j++
			}
			out = append(out, s[i:j])
			i = j
			continue
		}
		out = append(out, s[i:i+1])
		i++
	}
	return out
}

// sameButLiteralNumbers: a and b name function literals of the same enclosing
// function at the same nesting depth and differ only in the numbers.
func sameButLiteralNumbers(a, b string) bool {
	pa, pb := strings.Split(a, "$"), strings.Split(b, "$")
	if len(pa) != len(pb) || len(pa) < 2 || pa[0] != pb[0] {
		return false
	}
	diff := false
	for i := 1; i < len(pa); i++ {
		if _, err := strconv.Atoi(pa[i]); err != nil {
			return false
		}
		if _, err := strconv.Atoi(pb[i]); err != nil {
			return false
		}
		if pa[i] != pb[i] {
			diff = true
		}
	}
	return diff
}
