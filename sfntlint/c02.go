package main

import (
	"fmt"
	"go/token"
	"go/types"
	"sort"
	"strings"

	"golang.org/x/tools/go/ssa"
)

// decoder entry points named by C02's quantifier, plus the lazy accessors of
// the statement's second sentence.
var c02Entries = []string{
	"sfnt.Read", "sfnt.ReadFile", "header.Read", "cff.Read",
	"cmap.Decode", "(cmap.Table).Get", "(cmap.Table).GetNoLang", "(cmap.Table).GetBest",
	"glyf.Decode", "(*glyf.SimpleGlyph).Decode",
	"opentype/gtab.Read", "opentype/gdef.Read", "opentype/coverage.Read", "opentype/coverage.ReadSet", "opentype/classdef.Read",
	"name.Decode", "head.Read", "hmtx.Decode", "maxp.Read", "os2.Read", "post.Read", "kern.Read",
}

func debugC02Inventory(w *World) {
	var entries []*ssa.Function
	for _, n := range c02Entries {
		fn := w.Func(n)
		if fn == nil {
			fmt.Println("unresolved", n)
			continue
		}
		entries = append(entries, fn)
	}
	reach := w.Reachable(entries)
	counts := map[string]int{}
	perFn := map[string]int{}
	nf := 0
	for fn := range reach {
		if !isLibPkg(fnPkgPath(fn)) || fn.Blocks == nil {
			continue
		}
		nf++
		for _, b := range fn.Blocks {
			for _, in := range b.Instrs {
				switch x := in.(type) {
				case *ssa.IndexAddr:
					counts["indexaddr"]++
					perFn[fnName(fn)]++
				case *ssa.Index:
					counts["index"]++
					perFn[fnName(fn)]++
				case *ssa.Slice:
					counts["slice"]++
					perFn[fnName(fn)]++
				case *ssa.BinOp:
					if (x.Op == token.QUO || x.Op == token.REM) && isIntType(x.Type()) {
						if _, ok := x.Y.(*ssa.Const); !ok {
							counts["div"]++
						}
					}
				case *ssa.MakeSlice:
					counts["makeslice"]++
				case *ssa.TypeAssert:
					if !x.CommaOk {
						counts["typeassert"]++
					}
				case *ssa.Panic:
					counts["panic"]++
				case *ssa.SliceToArrayPointer:
					counts["slice2arr"]++
				}
			}
		}
	}
	fmt.Println("functions", nf)
	var ks []string
	for k := range counts {
		ks = append(ks, k)
	}
	sort.Strings(ks)
	for _, k := range ks {
		fmt.Println(" ", k, counts[k])
	}
	var fs []string
	for f := range perFn {
		fs = append(fs, f)
	}
	sort.Slice(fs, func(i, j int) bool { return perFn[fs[i]] > perFn[fs[j]] })
	for _, f := range fs {
		fmt.Println("   ", perFn[f], f)
	}
}

func isIntType(t types.Type) bool {
	b, ok := t.Underlying().(*types.Basic)
	return ok && b.Info()&types.IsInteger != 0
}

func init() { properties["C02"] = propC02 }

func propC02(w *World, r *Report) {
	r.Rule("bounds: every index, slice, integer division and make in the library functions reachable from the decoder entry points and lazy accessors is shown in range by the linear prover (dominating checks, type ranges, no-wrap arithmetic, loop induction, helper contracts, memory-load identification, join case splits); what it cannot show is a reviewed-table entry with its argument, a known finding, or a violation || fieldinv / continv / outlinesinv: invariants the prover assumes about decoded structures (SimpleGlyph.NumContours >= 0, cmap.Table subtables >= 10 bytes, glyf.Outlines widths empty or one per glyph) hold at every store in library code || precond: parameter conditions under which a helper panics ((*parser.Parser).ReadBytes n > 1024, Discard n < 0, ...) are refuted at every call site in scope || panicreach: explicit panics reachable from the entries are closed type switches or reviewed || allocbound, loopterm: see those rules")
	for _, a := range boundsAssumptions {
		r.Assumes(a)
	}
	entries := mustFuncs(w, r, c02Entries...)
	reach := w.libReach(entries)
	var fns []*ssa.Function
	for f := range reach {
		fns = append(fns, f)
	}
	sort.Slice(fns, func(i, j int) bool { return fnName(fns[i]) < fnName(fns[j]) })
	br := newBoundsRun(w)
	RunCovMono(w, r, br)
	r.Conds["cmap-formats-agree"] = condFormatsAgree(w)
	r.Conds["scaler-types-agree"] = condScalerTypes(w)
	r.Conds["widths-nonnil-guarded"] = func() (bool, string) {
		fn := w.Func("(*sfnt.Font).Widths")
		if fn == nil {
			return false, "(*sfnt.Font).Widths not found"
		}
		p := br.prover(fn)
		n := 0
		for _, b := range fn.Blocks {
			for _, in := range b.Instrs {
				ia, ok := in.(*ssa.IndexAddr)
				if !ok || !strings.Contains(p.srcOf(p.canonVal(ia.X)), ".Widths") {
					continue
				}
				n++
				guarded := false
				for _, f := range p.factsAt(b) {
					for a, c := range f.e.t {
						if a.k == aNonNil && c == 1 && f.e.k == -1 && a.v == p.canonVal(ia.X) {
							guarded = true
						}
					}
				}
				if !guarded {
					return false, "outlines.Widths is indexed at " + w.Pos(ia.Pos()) + " without a dominating nil check"
				}
			}
		}
		return n > 0, "no index into outlines.Widths found"
	}
	RunBoundsControls(r)
	RunLoopControls(r)
	RunAllocControls(r)
	RunNilControls(r)
	r.Conds["elems-below:cff.readFDSelect"] = condElemsBelowLastParam(w, br, "cff.readFDSelect")
	r.Conds["monotone-stores:cff.readIndex"] = condMonotoneStores(w, br, "cff.readIndex", false)
	r.Conds["readindex-size-check"] = condReadIndexSizeCheck(w)
	r.Conds["gpos4-markcov-reconciled"] = condGpos4Reconciled(w)
	r.Conds["monotone-stores:glyf.decodeLoca"] = condMonotoneStores(w, br, "glyf.decodeLoca", true)
	r.Conds["charstring-budget"] = condGlobalBudget(w, "(*cff.decodeInfo).decodeCharString")
	r.Conds["format12-budget"] = condExpansionBudget(w, "cmap.decodeFormat12")
	r.Conds["glyphheight-guarded"] = func() (bool, string) {
		fn := w.Func("(*sfnt.Font).glyphHeight")
		if fn == nil || w.CG.Nodes[fn] == nil {
			return false, "(*sfnt.Font).glyphHeight not found"
		}
		n := 0
		for _, e := range w.CG.Nodes[fn].In {
			if e.Site == nil || !isLibPkg(fnPkgPath(e.Caller.Func)) {
				continue
			}
			n++
			pc := br.prover(e.Caller.Func)
			gid := pc.linOf(e.Site.Common().Args[1])
			ok := false
			for _, f := range pc.factsAt(e.Site.Block()) {
				// NumGlyphs() - gid - 1 >= 0
				d, good := f.e.add(gid)
				if !good || f.ne || len(d.t) != 1 || d.k != -1 {
					continue
				}
				for a, c := range d.t {
					if call, isCall := a.v.(*ssa.Call); isCall && c == 1 && a.k == aVal {
						if cal := call.Call.StaticCallee(); cal != nil && fnName(cal) == "(*sfnt.Font).NumGlyphs" {
							ok = true
						}
					}
				}
			}
			if !ok {
				return false, "call of glyphHeight at " + w.Pos(e.Site.Pos()) + " is not guarded by int(gid) < NumGlyphs()"
			}
		}
		return n > 0, "no call sites"
	}
	r.Conds["coverage-read-monotone"] = func() (bool, string) {
		for _, o := range r.Obls {
			if o.Rule == "covmono" && o.Status != StOK {
				return false, "rule covmono has an undischarged obligation at " + o.Pos
			}
		}
		return r.Counts["covmono"] >= 2, "fewer than two coverage insertions found"
	}
	total, proved := RunBounds(w, r, "bounds", br, fns)
	r.Note("bounds: %d functions in scope, %d sites, %d proved by the prover", len(fns), total, proved)
	r.Floor("bounds", 1200)
	r.Conds["read-outlines-nonnil"] = condReadOutlines(w)
	r.Conds["readers-meta-fresh"] = condReadersMeta(w)
	r.Conds["cff-glyphs-nonnil"] = func() (bool, string) {
		dc := w.Func("(*cff.decodeInfo).decodeCharString")
		cr := w.Func("cff.Read")
		if dc == nil || cr == nil {
			return false, "decodeCharString / cff.Read not found"
		}
		nbr := newBoundsRun(w)
		nbr.nilMode = true
		if !nbr.nonNilResult(dc, 0, true) {
			return false, "decodeCharString can return a nil glyph together with a nil error"
		}
		n := 0
		for _, b := range cr.Blocks {
			for _, in := range b.Instrs {
				st, ok := in.(*ssa.Store)
				if !ok {
					continue
				}
				ia, ok := st.Addr.(*ssa.IndexAddr)
				if !ok {
					continue
				}
				sl, ok := ia.X.Type().Underlying().(*types.Slice)
				if !ok || !strings.HasSuffix(sl.Elem().String(), "cff.Glyph") {
					continue
				}
				n++
				ex, ok := st.Val.(*ssa.Extract)
				if !ok {
					return false, "cff.Read stores something other than a decodeCharString result into the glyph list at " + w.Pos(st.Pos())
				}
				c, ok := ex.Tuple.(*ssa.Call)
				if !ok || c.Call.StaticCallee() != dc || ex.Index != 0 {
					return false, "cff.Read stores something other than a decodeCharString result into the glyph list at " + w.Pos(st.Pos())
				}
			}
		}
		if n == 0 {
			return false, "cff.Read does not fill the glyph list"
		}
		return true, "cff.Read fills the glyph list with results of decodeCharString, which are non-nil when the error is nil"
	}
	r.Conds["readfdselect-nonnil"] = func() (bool, string) {
		f := w.Func("cff.readFDSelect")
		if f == nil {
			return false, "cff.readFDSelect not found"
		}
		nbr := newBoundsRun(w)
		nbr.nilMode = true
		if nbr.nonNilResult(f, 0, true) {
			return true, "every return of readFDSelect with a nil error yields a function"
		}
		return false, "readFDSelect can return a nil function together with a nil error"
	}
	RunNilDeref(w, r, newBoundsRun(w), append([]*ssa.Function{}, fns...))
	r.Floor("nilderef", 60)
	RunInvariants(w, r, br, fns)
	handled := RunPreconds(w, r, br, fns)
	for _, ps := range panicSites(w, fns) {
		name := fnName(ps.fn)
		key := r.MkKey("panicreach", name, ps.desc)
		pos := w.Pos(ps.ins.Pos())
		if ok, how := closedTypeSwitchDefault(w, ps); ok {
			r.OK("panicreach", key, pos, how)
			continue
		}
		if why, ok := handled[ps.ins.Block()]; ok {
			r.OK("panicreach", key, pos, why)
			continue
		}
		r.Fail("panicreach", key, pos, ps.desc+" in "+name+" is reachable from the decoder entry points", w.PathTo(entries, ps.fn))
	}
	RunAllocBound(w, r, br, fns)
	RunNarrowArith(w, r, fns)
	RunRangeOrder(w, r, "/opentype/coverage", "/opentype/classdef", "/cff", "/cmap")
	RunLoopTerm(w, r, br, fns)
	RunReencode(w, r)
}

// RunReencode: the statement's second sentence includes re-encoding of what
// a decoder returned.  Decided here: the panics of the writers that are not
// representability limits — defaults of type switches, failed assertions and
// "not implemented" stubs — are unreachable for decoded fonts.  (Panics that
// guard a size limit with an integer comparison, e.g. "too many lookup
// tables", are not covered: whether a decoded table can exceed a limit of
// the writer's layout is value-level.)
func RunReencode(w *World, r *Report) {
	r.Rule("reencode: every panic reachable from Font.Write / WriteTrueTypePDF / WriteOpenTypeCFFPDF that is not guarded by an integer comparison (type-switch defaults, unchecked assertions, 'not implemented' stubs) is the default of a closed type switch, or reviewed, or a known finding")
	entries := mustFuncs(w, r, "(*sfnt.Font).Write", "(*sfnt.Font).WriteTrueTypePDF", "(*sfnt.Font).WriteOpenTypeCFFPDF")
	var fns []*ssa.Function
	for f := range w.libReach(entries) {
		fns = append(fns, f)
	}
	sort.Slice(fns, func(i, j int) bool { return fnName(fns[i]) < fnName(fns[j]) })
	for _, ps := range panicSites(w, fns) {
		// size-limit panics: the panic block is guarded by an integer comparison
		sizeLimit := false
		if ps.kind == "panic" {
			for _, g := range guardsOf(ps.ins.Block()) {
				if cmp, ok := g.cond.(*ssa.BinOp); ok && isIntType(cmp.X.Type()) {
					switch cmp.Op {
					case token.LSS, token.LEQ, token.GTR, token.GEQ, token.NEQ, token.EQL:
						sizeLimit = true
					}
				}
			}
		}
		if !sizeLimit && ps.kind == "panic" {
			// a disjunction of limits (a > max || b > max): every edge into
			// the panic block comes from an integer comparison
			preds := ps.ins.Block().Preds
			all := len(preds) > 0
			for _, pr := range preds {
				ok := false
				if len(pr.Instrs) > 0 {
					if ifi, isIf := pr.Instrs[len(pr.Instrs)-1].(*ssa.If); isIf {
						if cmp, isCmp := ifi.Cond.(*ssa.BinOp); isCmp && isIntType(cmp.X.Type()) {
							switch cmp.Op {
							case token.LSS, token.LEQ, token.GTR, token.GEQ, token.NEQ, token.EQL:
								ok = true
							}
						}
					}
				}
				all = all && ok
			}
			sizeLimit = all
		}
		if sizeLimit {
			continue
		}
		key := r.MkKey("reencode", fnName(ps.fn), ps.desc)
		pos := w.Pos(ps.ins.Pos())
		if ok, how := closedTypeSwitchDefault(w, ps); ok {
			r.OK("reencode", key, pos, how)
			continue
		}
		r.Fail("reencode", key, pos, ps.desc+" in "+fnName(ps.fn)+" is reachable from the font writers", w.PathTo(entries, ps.fn))
	}
	r.Floor("reencode", 8)
}

// RunInvariants checks the structure invariants the prover assumes, at every
// store in library code.
func RunInvariants(w *World, r *Report, br *boundsRun, scope []*ssa.Function) {
	nField, nCont := 0, 0
	for _, fn := range scope {
		if fn.Blocks == nil {
			continue
		}
		var p *bprover
		for _, b := range fn.Blocks {
			for _, in := range b.Instrs {
				switch x := in.(type) {
				case *ssa.Store:
					fa, ok := x.Addr.(*ssa.FieldAddr)
					if !ok {
						continue
					}
					lo, ok := fieldMin[fieldKey(fa)]
					if !ok {
						continue
					}
					if p == nil {
						p = br.prover(fn)
					}
					nField++
					key := r.MkKey("fieldinv", fnName(fn), "store to "+shortName(fieldKey(fa)))
					if p.proveAt(b, p.linOf(x.Val).addc(-lo)) {
						r.OK("fieldinv", key, w.Pos(x.Pos()), fmt.Sprintf("value >= %d", lo))
					} else {
						r.Fail("fieldinv", key, w.Pos(x.Pos()), fmt.Sprintf("the value stored into %s is not shown to be >= %d, which readers of the field rely on", fieldKey(fa), lo), nil)
					}
				case *ssa.MapUpdate:
					min, ok := containerElemMinLen[typeKey(x.Map.Type())]
					if !ok {
						continue
					}
					if p == nil {
						p = br.prover(fn)
					}
					nCont++
					key := r.MkKey("continv", fnName(fn), "store into "+shortName(typeKey(x.Map.Type())))
					if p.proveAt(b, p.lenOf(x.Value).addc(-min)) {
						r.OK("continv", key, w.Pos(x.Pos()), fmt.Sprintf("element has at least %d bytes", min))
					} else {
						r.Fail("continv", key, w.Pos(x.Pos()), fmt.Sprintf("the element stored into a %s is not shown to have at least %d bytes, which Get/GetNoLang/decodeFormat0 rely on", typeKey(x.Map.Type()), min), nil)
					}
				}
			}
		}
	}
	r.Floor("fieldinv", 1)
	r.Floor("continv", 1)
	// glyf.Outlines built by sfnt.Read: Widths is empty or has one entry per glyph
	for _, fn := range scope {
		for _, b := range fn.Blocks {
			for _, in := range b.Instrs {
				al, ok := in.(*ssa.Alloc)
				if !ok || !al.Heap {
					continue
				}
				if typeKey(al.Type().Underlying().(*types.Pointer).Elem()) != modPath+"/glyf.Outlines" {
					continue
				}
				var wv, gv ssa.Value
				var last *ssa.Store
				for _, ref := range *al.Referrers() {
					fa, ok := ref.(*ssa.FieldAddr)
					if !ok {
						continue
					}
					name := fa.X.Type().Underlying().(*types.Pointer).Elem().Underlying().(*types.Struct).Field(fa.Field).Name()
					for _, r2 := range *fa.Referrers() {
						if st, ok := r2.(*ssa.Store); ok && st.Addr == ssa.Value(fa) {
							switch name {
							case "Widths":
								wv, last = st.Val, st
							case "Glyphs":
								gv = st.Val
								if last == nil {
									last = st
								}
							}
						}
					}
				}
				key := r.MkKey("outlinesinv", fnName(fn), "glyf.Outlines literal")
				if gv == nil {
					continue
				}
				if wv == nil {
					r.OK("outlinesinv", key, w.Pos(al.Pos()), "no widths")
					continue
				}
				p := br.prover(fn)
				lw, lg := p.lenOf(wv), p.lenOf(gv)
				d, _ := lw.sub(lg)
				nd, _ := d.scale(-1)
				facts := append(append([]bfact{}, p.factsAt(last.Block())...), bfact{e: lw.addc(-1), why: "case: widths present"})
				if p.prove(facts, d, last.Block(), 3) && p.prove(facts, nd, last.Block(), 3) {
					r.OK("outlinesinv", key, w.Pos(al.Pos()), "len(Widths) == len(Glyphs) whenever Widths is not empty")
				} else {
					r.Fail("outlinesinv", key, w.Pos(al.Pos()), "a glyf.Outlines value is built whose Widths slice is not shown to be empty or to have exactly one entry per glyph; GlyphWidth, Widths and the subsetter index Widths with glyph ids below len(Glyphs)", nil)
				}
			}
		}
	}
}

// RunPreconds: a panic guarded only by conditions on the parameters is a
// precondition; it is refuted at every call site in scope.  Returns the
// panic blocks all of whose in-scope callers were discharged.
func RunPreconds(w *World, r *Report, br *boundsRun, fns []*ssa.Function) map[*ssa.BasicBlock]string {
	handled := map[*ssa.BasicBlock]string{}
	inScope := map[*ssa.Function]bool{}
	for _, f := range fns {
		inScope[f] = true
	}
	for _, fn := range fns {
		p := br.prover(fn)
		for _, b := range fn.Blocks {
			if len(b.Instrs) == 0 {
				continue
			}
			if _, ok := b.Instrs[len(b.Instrs)-1].(*ssa.Panic); !ok {
				continue
			}
			// the panic is reached iff all guards hold; usable when they are inequalities over parameters only
			var conds []blin
			paramOnly := true
			for _, g := range guardsOf(b) {
				var fs []bfact
				p.condFacts(g.cond, g.then, &fs)
				if len(fs) == 0 {
					paramOnly = false
				}
				for _, f := range fs {
					if f.ne || len(f.e.t) == 0 {
						paramOnly = false
					}
					for a := range f.e.t {
						par, isPar := a.v.(*ssa.Parameter)
						if !isPar || a.k != aVal || par.Parent() != fn {
							paramOnly = false
						}
					}
					conds = append(conds, f.e)
				}
			}
			if !paramOnly || len(conds) == 0 {
				continue
			}
			node := w.CG.Nodes[fn]
			if node == nil {
				continue
			}
			var cs []string
			for _, c := range conds {
				cs = append(cs, p.linStr(c)+" >= 0")
			}
			descr := strings.Join(cs, " and ")
			allOK, n := true, 0
			for _, e := range node.In {
				caller := e.Caller.Func
				if !inScope[caller] || e.Site == nil {
					continue
				}
				n++
				pc := br.prover(caller)
				args := e.Site.Common().Args
				ok := e.Site.Common().StaticCallee() == fn
				lift := func(c blin) (blin, bool) {
					lifted := blconst(c.k)
					for a, k := range c.t {
						idx := -1
						for i, q := range fn.Params {
							if q == a.v {
								idx = i
							}
						}
						if idx < 0 || idx >= len(args) {
							return lifted, false
						}
						sc, ok1 := pc.linOf(args[idx]).scale(k)
						var ok2 bool
						lifted, ok2 = lifted.add(sc)
						if !ok1 || !ok2 {
							return lifted, false
						}
					}
					return lifted, true
				}
				// refute the conjunction: assume all but the last, prove the negation of the last
				facts := append([]bfact{}, pc.factsAt(e.Site.Block())...)
				var goal blin
				for i, c := range conds {
					lc, lok := lift(c)
					if !lok {
						ok = false
						break
					}
					if i < len(conds)-1 {
						facts = append(facts, bfact{e: lc, why: "assumed: the callee's panic guard"})
					} else {
						neg, _ := lc.scale(-1)
						goal = neg.addc(-1)
					}
				}
				key := r.MkKey("precond", fnName(caller), "call of "+fnName(fn)+" (panics when "+descr+")")
				pos := w.Pos(e.Site.Pos())
				if ok && pc.prove(facts, goal, e.Site.Block(), 3) {
					r.OK("precond", key, pos, "the arguments cannot satisfy the callee's panic condition")
				} else {
					allOK = false
					r.Fail("precond", key, pos, fmt.Sprintf("%s panics when %s; not refuted at this call", fnName(fn), descr), nil)
				}
			}
			if allOK && n > 0 {
				handled[b] = fmt.Sprintf("parameter condition (%s) refuted at all %d call sites in scope (rule precond)", descr, n)
			}
		}
	}
	r.Floor("precond", 30)
	return handled
}

// RunCovMono: coverage.Read inserts glyph ids in strictly increasing order
// (what (coverage.Table).encInfo later insists on, with a panic).
func RunCovMono(w *World, r *Report, br *boundsRun) {
	fn := w.Func("opentype/coverage.Read")
	if fn == nil {
		r.Fatal("coverage.Read does not resolve")
		return
	}
	p := br.prover(fn)
	for _, b := range fn.Blocks {
		for _, in := range b.Instrs {
			mu, ok := in.(*ssa.MapUpdate)
			if !ok || typeKey(mu.Map.Type()) != modPath+"/opentype/coverage.Table" {
				continue
			}
			key := r.MkKey("covmono", fnName(fn), "insertion into the coverage table")
			k := p.linOf(mu.Key)
			// a loop-carried variable prev with  key > prev  here and  next prev >= key
			found := false
			for _, hb := range fn.Blocks {
				if !(hb.Dominates(b)) {
					continue
				}
				for _, hi := range hb.Instrs {
					ph, ok := hi.(*ssa.Phi)
					if !ok {
						break
					}
					if !isIntType(ph.Type()) || !isLoopPhi(ph) {
						continue
					}
					good := true
					nBack := 0
					for i, e := range ph.Edges {
						if !hb.Dominates(hb.Preds[i]) {
							continue
						}
						nBack++
						ei, isIns := e.(ssa.Instruction)
						if isIns && ei.Block() != b && !ei.Block().Dominates(b) {
							good = false
							break
						}
						d, ok := p.linOf(e).sub(k)
						if !ok || !p.proveAt(b, d) {
							good = false
						}
					}
					if !good || nBack == 0 {
						continue
					}
					d, ok := k.sub(blatom(atom{aVal, ph}))
					if ok && p.proveAt(b, d.addc(-1)) {
						found = true
					}
				}
			}
			if found {
				r.OK("covmono", key, w.Pos(mu.Pos()), "key exceeds the loop-carried maximum of earlier keys")
			} else {
				r.Fail("covmono", key, w.Pos(mu.Pos()), "the glyph id inserted is not shown to exceed every id inserted before (no loop-carried bound prev with key > prev and next prev >= key): duplicate or unordered glyph ids would be accepted and later panic in encInfo", nil)
			}
		}
	}
	r.Floor("covmono", 2)
	runCovDense(w, r, br, fn)
}

// runCovDense: the value coverage.Read stores for a glyph is the number of
// glyphs inserted before it, so that (with distinct keys, rule covmono) a
// table of n glyphs maps them onto 0..n-1.
func runCovDense(w *World, r *Report, br *boundsRun, fn *ssa.Function) {
	r.Rule("covdense: every value coverage.Read stores into the table is an insertion counter: a variable that starts at 0 and is incremented by exactly 1 once per executed insertion (the insertion and the increment are both executed exactly once in every completed iteration of the same loop, and the loop contains no other insertion) — with covmono the indices of a table with n glyphs are exactly 0..n-1, which the coverage/array pairing of the subtable readers relies on")
	loops := naturalLoops(fn)
	innermost := func(b *ssa.BasicBlock) *natLoop {
		var best *natLoop
		for _, l := range loops {
			if l.body[b] && (best == nil || len(l.body) < len(best.body)) {
				best = l
			}
		}
		return best
	}
	oncePerIter := func(l *natLoop, b *ssa.BasicBlock) bool {
		if innermost(b) != l {
			return false
		}
		for _, lt := range l.latches {
			if !b.Dominates(lt) {
				return false
			}
		}
		return true
	}
	// counterOf: "" when v is an insertion counter for the insertion mu in block b
	counterOf := func(v ssa.Value, b *ssa.BasicBlock) string {
		why := ""
		web := map[*ssa.Phi]bool{}
		var adds []*ssa.BinOp
		var visit func(v ssa.Value)
		visit = func(v ssa.Value) {
			switch x := v.(type) {
			case *ssa.Phi:
				if web[x] {
					return
				}
				web[x] = true
				for _, e := range x.Edges {
					visit(e)
				}
			case *ssa.Const:
				if c, ok := bconstInt(x); !ok || c != 0 {
					why = "the counter starts from " + x.Name() + ", not 0"
				}
			case *ssa.BinOp:
				adds = append(adds, x)
			default:
				why = "the stored value depends on " + v.Name() + " (" + v.String() + "), which is not a counter of insertions"
			}
		}
		visit(v)
		if len(web) == 0 && why == "" {
			why = "the stored value is not a loop-carried counter"
		}
		for _, a := range adds {
			if why != "" {
				break
			}
			ph, isPhi := a.X.(*ssa.Phi)
			c, isC := bconstInt(a.Y)
			if a.Op != token.ADD || !isPhi || !web[ph] || !isC || c != 1 {
				why = "the counter is updated by " + a.String() + ", not by +1"
				break
			}
			l := innermost(a.Block())
			if l == nil || !l.body[b] {
				why = "the increment is not in the loop of the insertion"
				break
			}
			if !oncePerIter(l, a.Block()) || !oncePerIter(l, b) {
				why = "the insertion and the increment of the counter are not both executed exactly once per completed iteration (one of them is conditional or in a nested loop)"
				break
			}
			n := 0
			for lb := range l.body {
				for _, li := range lb.Instrs {
					if m2, ok := li.(*ssa.MapUpdate); ok && typeKey(m2.Map.Type()) == modPath+"/opentype/coverage.Table" {
						n++
					}
				}
			}
			if n != 1 {
				why = fmt.Sprintf("the loop contains %d insertions for one increment", n)
			}
		}
		if why == "" && len(adds) == 0 {
			why = "the counter is never incremented"
		}
		return why
	}
	p := br.prover(fn)
	for _, b := range fn.Blocks {
		for _, in := range b.Instrs {
			mu, ok := in.(*ssa.MapUpdate)
			if !ok || typeKey(mu.Map.Type()) != modPath+"/opentype/coverage.Table" {
				continue
			}
			key := r.MkKey("covdense", fnName(fn), "value stored into the coverage table")
			why := counterOf(mu.Value, b)
			how := "stored value counts the insertions made so far"
			if why != "" {
				// the value may be a different expression that provably equals such a counter
				for _, hb := range fn.Blocks {
					if why == "" || !hb.Dominates(b) {
						continue
					}
					for _, hi := range hb.Instrs {
						ph, ok := hi.(*ssa.Phi)
						if !ok {
							break
						}
						if !isIntType(ph.Type()) || counterOf(ph, b) != "" {
							continue
						}
						d, ok := p.linOf(mu.Value).sub(blatom(atom{aVal, ph}))
						if !ok {
							continue
						}
						dn, ok2 := d.scale(-1)
						if ok2 && p.proveAt(b, d) && p.proveAt(b, dn) {
							why = ""
							how = "stored value is shown equal to " + ph.Comment + ", which counts the insertions made so far"
							break
						}
					}
				}
			}
			if why == "" {
				r.OK("covdense", key, w.Pos(mu.Pos()), how)
			} else {
				r.Fail("covdense", key, w.Pos(mu.Pos()), why+": the coverage indices would no longer be 0..n-1, and the subtable readers, which cut the per-index arrays to len(cov), would leave indices without an array element (panic in apply)", nil)
			}
		}
	}
	r.Floor("covdense", 2)
}

// condScalerTypes: the scaler types header.Read lets through are exactly the
// cases sfnt.Read's switch handles.
func condScalerTypes(w *World) func() (bool, string) {
	return func() (bool, string) {
		collect := func(name string, op token.Token) map[int64]bool {
			res := map[int64]bool{}
			fn := w.Func(name)
			if fn == nil {
				return nil
			}
			for _, b := range fn.Blocks {
				for _, in := range b.Instrs {
					bo, ok := in.(*ssa.BinOp)
					if !ok || bo.Op != op {
						continue
					}
					c, ok := bconstInt(bo.Y)
					if !ok || c < 0x10000 {
						continue
					}
					res[c] = true
				}
			}
			return res
		}
		accepted := collect("header.Read", token.NEQ)
		handled := collect("sfnt.Read", token.EQL)
		if len(accepted) == 0 || len(handled) == 0 {
			return false, "scaler type comparisons not found"
		}
		for c := range accepted {
			if !handled[c] {
				return false, fmt.Sprintf("header.Read accepts scaler type %#x which sfnt.Read's switch does not handle", c)
			}
		}
		return true, ""
	}
}

// condReadIndexSizeCheck: the reviewed bound of the allocation in
// cff.readIndex rests on the test that every offset read lies below the size
// of the input.
func condReadIndexSizeCheck(w *World) func() (bool, string) {
	return func() (bool, string) {
		fn := w.Func("cff.readIndex")
		if fn == nil {
			return false, "cff.readIndex does not resolve"
		}
		for _, b := range fn.Blocks {
			if len(b.Instrs) == 0 {
				continue
			}
			ifi, ok := b.Instrs[len(b.Instrs)-1].(*ssa.If)
			if !ok {
				continue
			}
			cmp, ok := ifi.Cond.(*ssa.BinOp)
			if !ok {
				continue
			}
			hasSize := func(v ssa.Value) bool {
				for x := range backSlice(v) {
					if c, ok := x.(*ssa.Call); ok && c.Call.StaticCallee() != nil && c.Call.StaticCallee().Name() == "Size" {
						return true
					}
				}
				return false
			}
			isConst := func(v ssa.Value) bool { _, ok := v.(*ssa.Const); return ok }
			// one side is the size of the input, the other a value read from the file (not a constant)
			usesSize := (hasSize(cmp.X) && !isConst(cmp.Y) && !hasSize(cmp.Y)) || (hasSize(cmp.Y) && !isConst(cmp.X) && !hasSize(cmp.X))
			if !usesSize {
				continue
			}
			for _, s := range b.Succs {
				if rt, ok := s.Instrs[len(s.Instrs)-1].(*ssa.Return); ok && len(rt.Results) == 2 {
					if c, ok := rt.Results[1].(*ssa.Const); !ok || !c.IsNil() {
						return true, ""
					}
				}
			}
		}
		return false, "no comparison of an offset with the size of the input (p.Size()) that leads to an error return is left in cff.readIndex: the data length of the INDEX is no longer bounded by the input"
	}
}

// condGpos4Reconciled: readGpos4_1 makes the mark coverage and the mark
// array the same length (prune the one or cut the other).
func condGpos4Reconciled(w *World) func() (bool, string) {
	return func() (bool, string) {
		fn := w.Func("opentype/gtab.readGpos4_1")
		if fn == nil {
			return false, "gtab.readGpos4_1 does not resolve"
		}
		isLen := func(v ssa.Value) bool {
			c, ok := v.(*ssa.Call)
			if !ok {
				return false
			}
			bi, ok := c.Call.Value.(*ssa.Builtin)
			return ok && bi.Name() == "len"
		}
		for _, b := range fn.Blocks {
			if len(b.Instrs) == 0 {
				continue
			}
			ifi, ok := b.Instrs[len(b.Instrs)-1].(*ssa.If)
			if !ok {
				continue
			}
			cmp, ok := ifi.Cond.(*ssa.BinOp)
			if !ok || !isLen(cmp.X) || !isLen(cmp.Y) {
				continue
			}
			prune, cut := false, false
			for _, s := range b.Succs {
				for _, in := range s.Instrs {
					switch x := in.(type) {
					case *ssa.Call:
						if c := x.Call.StaticCallee(); c != nil && c.Name() == "Prune" {
							prune = true
						}
					case *ssa.Slice:
						if x.High != nil && isLen(x.High) {
							cut = true
						}
					}
				}
			}
			if prune && cut {
				return true, ""
			}
		}
		return false, "the step that makes the mark coverage and the mark array the same length (Prune the coverage or cut the array, decided by comparing their lengths) is no longer in readGpos4_1: a covered mark can index past the mark array in Gpos4_1.apply"
	}
}
