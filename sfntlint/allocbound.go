package main

import (
	"fmt"
	"sort"

	"golang.org/x/tools/go/ssa"
)

const allocCap = int64(1) << 20

// RunAllocBound: the element count of every make([]T, n) / make(map, n) in
// scope is bounded by a constant (<= 2^20 elements) or by a constant
// multiple of the length of a slice already in memory (input proportional).
// Decides single allocations; the sum over loop iterations is the business
// of rule loopwork.
func RunAllocBound(w *World, r *Report, br *boundsRun, fns []*ssa.Function) {
	for _, fn := range fns {
		p := br.prover(fn)
		type site struct {
			ins ssa.Instruction
			n   ssa.Value
			txt string
		}
		var sites []site
		for _, b := range fn.Blocks {
			for _, in := range b.Instrs {
				switch x := in.(type) {
				case *ssa.MakeSlice:
					n := x.Cap
					if n == nil {
						n = x.Len
					}
					sites = append(sites, site{x, n, "make"})
				case *ssa.MakeMap:
					if x.Reserve != nil {
						sites = append(sites, site{x, x.Reserve, "make map"})
					}
				}
			}
		}
		sort.SliceStable(sites, func(i, j int) bool { return sites[i].ins.Pos() < sites[j].ins.Pos() })
		for _, s := range sites {
			if _, isConst := bconstInt(s.n); isConst {
				continue
			}
			bs := boundSite{fn: fn, ins: s.ins, kind: "makeslice"}
			if _, isMap := s.ins.(*ssa.MakeMap); isMap {
				bs.kind = "makemap"
			}
			key := r.MkKey("allocbound", fnName(fn), s.txt+" "+br.siteText(bs))
			pos := w.Pos(s.ins.Pos())
			n := p.linOf(s.n)
			b := s.ins.Block()
			neg, _ := n.scale(-1)
			if p.proveAt(b, neg.addc(allocCap)) {
				r.OK("allocbound", key, pos, fmt.Sprintf("element count <= %d", allocCap))
				continue
			}
			// proportional to something already in memory
			how := ""
			cands := map[atom]bool{}
			for a := range n.t {
				if a.k == aLen || isMapLen(a) {
					cands[a] = true
				}
			}
			isSize := func(a atom) bool {
				if a.k != aVal {
					return false
				}
				c, ok := a.v.(*ssa.Call)
				if !ok {
					return false
				}
				cal := c.Call.StaticCallee()
				return cal != nil && fnName(cal) == "(*parser.Parser).Size"
			}
			for _, f := range p.factsAt(b) {
				for a := range f.e.t {
					if a.k == aLen || isSize(a) || isMapLen(a) {
						cands[a] = true
					}
				}
			}
			var cl []atom
			for a := range cands {
				cl = append(cl, a)
			}
			sort.Slice(cl, func(i, j int) bool { return p.atomOrder(cl[i]) < p.atomOrder(cl[j]) })
			for _, a := range cl {
				lim, ok := blatom(a).scale(16)
				if !ok {
					continue
				}
				d, ok := lim.addc(allocCap).sub(n)
				if ok && p.proveAt(b, d) {
					how = "element count <= 16*" + p.atomStr(a) + " + 2^20"
					break
				}
			}
			if how == "" && br.liftable(fn) {
				g := neg.addc(allocCap)
				if br.paramOnly(fn, g) && br.provenAtCallers(fn, g) {
					how = fmt.Sprintf("element count <= %d at every call site", allocCap)
				}
			}
			if how != "" {
				r.OK("allocbound", key, pos, how)
				continue
			}
			r.Fail("allocbound", key, pos, fmt.Sprintf("the element count %s of this allocation is not shown to be bounded by %d or by a multiple of the length of data already in memory", p.linStr(n), allocCap), nil)
		}
	}
	r.Floor("allocbound", 40)
}



// isMapLen: the atom is the length of a map in memory.
func isMapLen(a atom) bool {
	mv, ok := a.v.(*memVal)
	return ok && a.k == aVal && len(mv.key) > 3 && mv.key[:3] == "ML@"
}
