package main

import (
	"go/constant"
	"go/token"
	"go/types"
	"strings"

	"golang.org/x/tools/go/ssa"
)

// RunRowWidth: the mark-to-base and mark-to-mark encoders write one anchor
// offset per element of every row of the anchor matrix, and compute the place
// of the anchors behind the offsets as 2 + 2*rows*markClassCount. The two
// agree only if markClassCount is the width of the rows, so countMarkClasses
// has to answer with the row width whenever the matrix has a row; the largest
// mark class + 1 is only right for an empty matrix.
func RunRowWidth(w *World, r *Report) {
	r.Rule("rowwidth: every return of a countMarkClasses method of a GPOS subtable either returns len(M[0]) for the anchor matrix M (the field of type slice of slices of the receiver) or is guarded by len(M) == 0: the class count written to the header and used for the anchor offsets is the width of the rows that are written")
	n := 0
	for _, fn := range w.LibFuncs() {
		if fn.Name() != "countMarkClasses" || fn.Signature.Recv() == nil || !strings.HasSuffix(fnPkgPath(fn), "/opentype/gtab") {
			continue
		}
		n++
		key := r.MkKey("rowwidth", fnName(fn), "class count against row width")
		// the matrix field
		rt := fn.Signature.Recv().Type()
		if p, ok := rt.(*types.Pointer); ok {
			rt = p.Elem()
		}
		st, ok := rt.Underlying().(*types.Struct)
		matrix := ""
		if ok {
			for i := 0; i < st.NumFields(); i++ {
				if sl, ok := st.Field(i).Type().Underlying().(*types.Slice); ok {
					if _, ok2 := sl.Elem().Underlying().(*types.Slice); ok2 {
						matrix = st.Field(i).Name()
					}
				}
			}
		}
		if matrix == "" {
			r.Fail("rowwidth", key, w.Pos(fn.Pos()), "the receiver has no anchor matrix field", nil)
			continue
		}
		isLenOfMatrix := func(v ssa.Value) bool {
			c, ok := v.(*ssa.Call)
			if !ok {
				return false
			}
			if b, ok := c.Call.Value.(*ssa.Builtin); !ok || b.Name() != "len" {
				return false
			}
			return fieldName(loadAddr(c.Call.Args[0])) == matrix
		}
		isRowWidth := func(v ssa.Value) bool {
			c, ok := v.(*ssa.Call)
			if !ok {
				return false
			}
			if b, ok := c.Call.Value.(*ssa.Builtin); !ok || b.Name() != "len" {
				return false
			}
			ld, ok := c.Call.Args[0].(*ssa.UnOp)
			if !ok {
				return false
			}
			ia, ok := ld.X.(*ssa.IndexAddr)
			if !ok {
				return false
			}
			k, ok := ia.Index.(*ssa.Const)
			if !ok || k.Value == nil || k.Value.Kind() != constant.Int || k.Int64() != 0 {
				return false
			}
			return fieldName(loadAddr(ia.X)) == matrix
		}
		emptyGuard := func(b *ssa.BasicBlock) bool {
			for _, g := range guardsOf(b) {
				bo, ok := g.cond.(*ssa.BinOp)
				if !ok {
					continue
				}
				x, y, op := bo.X, bo.Y, bo.Op
				if isLenOfMatrix(y) {
					x, y = y, x
					switch op {
					case token.LSS:
						op = token.GTR
					case token.GTR:
						op = token.LSS
					case token.LEQ:
						op = token.GEQ
					case token.GEQ:
						op = token.LEQ
					}
				}
				if !isLenOfMatrix(x) {
					continue
				}
				k, ok := y.(*ssa.Const)
				if !ok || k.Value == nil || k.Value.Kind() != constant.Int {
					continue
				}
				c := k.Int64()
				switch {
				case op == token.EQL && c == 0 && g.then, op == token.NEQ && c == 0 && !g.then,
					op == token.GTR && c == 0 && !g.then, op == token.LEQ && c == 0 && g.then,
					op == token.LSS && c == 1 && g.then, op == token.GEQ && c == 1 && !g.then:
					return true
				}
			}
			return false
		}
		bad := ""
		for _, b := range fn.Blocks {
			for _, in := range b.Instrs {
				ret, ok := in.(*ssa.Return)
				if !ok || len(ret.Results) != 1 {
					continue
				}
				if isRowWidth(ret.Results[0]) || emptyGuard(b) {
					continue
				}
				bad = w.Pos(ret.Pos())
			}
		}
		if bad == "" {
			r.OK("rowwidth", key, w.Pos(fn.Pos()), "the row width of "+matrix+" unless it is empty")
		} else {
			r.Fail("rowwidth", key, bad, "this return can be taken while "+matrix+" has rows and yields something other than their width: the encoder writes len(row) offsets per row but places the anchors at 2 + 2*rows*count, so a matrix wider than the largest mark class in use is written with offsets that point into the offset array", nil)
		}
	}
	r.Floor("rowwidth", 2)
}
