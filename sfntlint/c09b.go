package main

import (
	"fmt"
	"go/token"
	"go/types"
	"sort"
	"strings"

	"golang.org/x/tools/go/ssa"
)

// ---- macroman
//
// Subtables of platform 1 (Macintosh) map Mac Roman codes; Table.Get hands
// the translation function to the format decoder when the platform is 1.
// GetBest offers (1,0) as its last candidate, so every decoder call it can
// reach must make that choice: a path that calls a decoder with a nil
// translation for every platform returns a Mac subtable whose codes are taken
// for Unicode.
func checkMacRoman(w *World, r *Report) {
	r.Rule("macroman: every call of a cmap format decoder (a function value looked up in cmap.decoders) in a function reachable from Table.GetBest passes a translation argument that is the Mac Roman table on a branch taken when the platform id equals 1")
	best := w.Func("(cmap.Table).GetBest")
	if best == nil {
		r.Fatal("(cmap.Table).GetBest does not resolve")
		return
	}
	reach := w.libReach([]*ssa.Function{best})
	var fns []*ssa.Function
	for f := range reach {
		if strings.HasSuffix(fnPkgPath(f), "/cmap") {
			fns = append(fns, f)
		}
	}
	sort.Slice(fns, func(i, j int) bool { return fnName(fns[i]) < fnName(fns[j]) })
	fromDecoders := func(v ssa.Value) bool {
		for d := 0; d < 4; d++ {
			switch x := v.(type) {
			case *ssa.Lookup:
				if ld, ok := x.X.(*ssa.UnOp); ok && ld.Op == token.MUL {
					if g, ok := ld.X.(*ssa.Global); ok && g.Name() == "decoders" {
						return true
					}
				}
				return false
			case *ssa.Extract:
				v = x.Tuple
			case *ssa.Phi:
				if len(x.Edges) == 0 {
					return false
				}
				v = x.Edges[0]
			default:
				return false
			}
		}
		return false
	}
	isPlatformIs1 := func(c ssa.Value) (bool, bool) { // (is such a test, true branch means platform 1)
		cmp, ok := c.(*ssa.BinOp)
		if !ok || (cmp.Op != token.EQL && cmp.Op != token.NEQ) {
			return false, false
		}
		x, y := cmp.X, cmp.Y
		if _, isC := x.(*ssa.Const); isC {
			x, y = y, x
		}
		k, isC := bconstInt(y)
		if !isC || k != 1 {
			return false, false
		}
		names := func(v ssa.Value) bool {
			for d := 0; d < 4; d++ {
				switch a := v.(type) {
				case *ssa.UnOp:
					v = a.X
				case *ssa.FieldAddr:
					return strings.Contains(strings.ToLower(fieldName(a)), "platform")
				case *ssa.Field:
					st, ok := a.X.Type().Underlying().(*types.Struct)
					return ok && strings.Contains(strings.ToLower(st.Field(a.Field).Name()), "platform")
				case *ssa.Parameter:
					return strings.Contains(strings.ToLower(a.Name()), "platform")
				default:
					return false
				}
			}
			return false
		}
		if !names(x) {
			return false, false
		}
		return true, cmp.Op == token.EQL
	}
	n := 0
	for _, fn := range fns {
		for _, b := range fn.Blocks {
			for _, in := range b.Instrs {
				call, ok := in.(*ssa.Call)
				if !ok || call.Call.IsInvoke() || call.Call.StaticCallee() != nil || !fromDecoders(call.Call.Value) || len(call.Call.Args) != 2 {
					continue
				}
				n++
				key := r.MkKey("macroman", fnName(fn), "decoder call")
				arg := call.Call.Args[1]
				ph, isPhi := arg.(*ssa.Phi)
				good := false
				if isPhi {
					for i, e := range ph.Edges {
						var f *ssa.Function
						switch x := e.(type) {
						case *ssa.Function:
							f = x
						case *ssa.MakeClosure:
							f, _ = x.Fn.(*ssa.Function)
						}
						if f == nil || !callsMacDecode(f, 0) {
							continue
						}
						// the edge's block is reached on the platform==1 branch
						for q := ph.Block().Preds[i]; q != nil; q = q.Idom() {
							id := q.Idom()
							if id == nil || len(id.Instrs) == 0 {
								break
							}
							if ifi, ok := id.Instrs[len(id.Instrs)-1].(*ssa.If); ok {
								if is, eq := isPlatformIs1(ifi.Cond); is {
									if (eq && id.Succs[0] == q) || (!eq && id.Succs[1] == q) || id.Succs[0].Dominates(q) && eq || id.Succs[1].Dominates(q) && !eq {
										good = true
									}
									break
								}
							}
						}
					}
				}
				if good {
					r.OK("macroman", key, w.Pos(call.Pos()), "the translation argument is the Mac Roman table when the platform id is 1")
				} else {
					r.Fail("macroman", key, w.Pos(call.Pos()), "this decoder call is reachable from Table.GetBest, whose last candidate is the Macintosh subtable (1,0), but its translation argument is not the Mac Roman table for platform 1: the codes of a Mac subtable are returned as if they were Unicode", nil)
				}
			}
		}
	}
	r.Floor("macroman", 1)
}

// ---- explicitdelta
//
// Format4.Encode writes the per-segment fields of the chosen segments
// unconditionally; for a segment that stores glyph ids explicitly the glyph id
// array holds the ids themselves, so the field written as idDelta (added to
// every non-zero array entry by a conforming reader) must be zero.
func checkExplicitDelta(w *World, r *Report) {
	r.Rule("explicitdelta: the segment field that Format4.Encode writes for every segment without looking at the explicit-values flag and that is not a bound of the glyph-id-array loop (the idDelta) is never set in a segment whose explicit-values flag is set: such segments are built from fresh values, not copied from a delta segment")
	enc := w.Func("(cmap.Format4).Encode")
	if enc == nil {
		r.Fatal("(cmap.Format4).Encode does not resolve")
		return
	}
	// the segment struct: element type (behind a pointer) whose bool field is branched on
	var segT *types.Struct
	var segNamed types.Type
	flagField := -1
	var flagIf *ssa.If
	for _, b := range enc.Blocks {
		if len(b.Instrs) == 0 {
			continue
		}
		ifi, ok := b.Instrs[len(b.Instrs)-1].(*ssa.If)
		if !ok {
			continue
		}
		ld, ok := ifi.Cond.(*ssa.UnOp)
		if !ok || ld.Op != token.MUL {
			continue
		}
		fa, ok := ld.X.(*ssa.FieldAddr)
		if !ok {
			continue
		}
		pt := fa.X.Type().Underlying().(*types.Pointer).Elem()
		st, ok := pt.Underlying().(*types.Struct)
		if !ok {
			continue
		}
		if bt, ok := st.Field(fa.Field).Type().Underlying().(*types.Basic); !ok || bt.Kind() != types.Bool {
			continue
		}
		segT, segNamed, flagField, flagIf = st, pt, fa.Field, ifi
	}
	key0 := r.MkKey("explicitdelta", "(cmap.Format4).Encode", "fields written for every segment")
	if segT == nil {
		r.Fail("explicitdelta", key0, w.Pos(enc.Pos()), "Format4.Encode has no branch on a boolean field of the segment: cannot tell delta segments from explicit ones", nil)
		return
	}
	// fields loaded before the branch (unconditionally) vs. in the explicit branch
	uncond := map[int]bool{}
	inBranch := map[int]bool{}
	fb := flagIf.Block()
	for _, b := range enc.Blocks {
		for _, in := range b.Instrs {
			fa, ok := in.(*ssa.FieldAddr)
			if !ok || fa.Field == flagField {
				continue
			}
			if !types.Identical(fa.X.Type().Underlying().(*types.Pointer).Elem(), segNamed) {
				continue
			}
			switch {
			case b == fb || b.Dominates(fb) && sameLoop(enc, b, fb):
				uncond[fa.Field] = true
			case fb.Dominates(b):
				inBranch[fa.Field] = true
			}
		}
	}
	// values written for every segment (appended before the branch on the flag) come from
	// fields of the segment: a value computed there from the mapping itself is written for
	// explicit segments as well, where the reader of a conforming implementation adds it
	for _, b := range enc.Blocks {
		if !(b == fb || b.Dominates(fb) && sameLoop(enc, b, fb)) {
			continue
		}
		for _, in := range b.Instrs {
			st, ok := in.(*ssa.Store)
			if !ok {
				continue
			}
			ia, ok := st.Addr.(*ssa.IndexAddr)
			if !ok {
				continue
			}
			al, ok := ia.X.(*ssa.Alloc)
			if !ok || al.Comment != "varargs" {
				continue
			}
			v := st.Val
			for {
				if cv, ok := v.(*ssa.Convert); ok {
					v = cv.X
					continue
				}
				if ct, ok := v.(*ssa.ChangeType); ok {
					v = ct.X
					continue
				}
				break
			}
			fromField := false
			if ld, ok := v.(*ssa.UnOp); ok && ld.Op == token.MUL {
				if fa, ok := ld.X.(*ssa.FieldAddr); ok && types.Identical(fa.X.Type().Underlying().(*types.Pointer).Elem(), segNamed) {
					fromField = true
				}
			}
			if _, isC := v.(*ssa.Const); isC {
				fromField = true
			}
			keyv := r.MkKey("explicitdelta", "(cmap.Format4).Encode", "value written for every segment")
			if fromField {
				r.OK("explicitdelta", keyv, w.Pos(st.Pos()), "a field of the segment")
			} else {
				r.Fail("explicitdelta", keyv, w.Pos(st.Pos()), "a value that is written for every segment, explicit ones included, is computed in Encode itself rather than taken from the segment: for a segment that stores its glyph ids explicitly the idDelta must be 0, because a conforming reader adds it to every glyph id of the array", nil)
			}
		}
	}
	var deltaFields []int
	for f := range uncond {
		if !inBranch[f] {
			deltaFields = append(deltaFields, f)
		}
	}
	sort.Ints(deltaFields)
	if len(deltaFields) == 0 {
		r.OK("explicitdelta", key0, w.Pos(flagIf.Pos()), "no segment field other than the range bounds is written for explicit segments")
		r.Floor("explicitdelta", 1)
		return
	}
	var dn []string
	for _, f := range deltaFields {
		dn = append(dn, segT.Field(f).Name())
	}
	r.OK("explicitdelta", key0, w.Pos(flagIf.Pos()), "written for every segment and not a bound of the glyph id array: "+strings.Join(dn, ", "))
	isDelta := func(f int) bool {
		for _, d := range deltaFields {
			if d == f {
				return true
			}
		}
		return false
	}
	// constructors
	type allocInfo struct {
		al       *ssa.Alloc
		flagSet  bool
		deltaSet ssa.Instruction
		copies   []*ssa.Alloc // whole-struct copies from these
	}
	var fns []*ssa.Function
	for _, f := range w.LibFuncs() {
		if strings.HasSuffix(fnPkgPath(f), "/cmap") {
			fns = append(fns, f)
		}
	}
	sort.Slice(fns, func(i, j int) bool { return fnName(fns[i]) < fnName(fns[j]) })
	for _, fn := range fns {
		infos := map[*ssa.Alloc]*allocInfo{}
		var order []*ssa.Alloc
		get := func(al *ssa.Alloc) *allocInfo {
			if infos[al] == nil {
				infos[al] = &allocInfo{al: al}
				order = append(order, al)
			}
			return infos[al]
		}
		for _, b := range fn.Blocks {
			for _, in := range b.Instrs {
				st, ok := in.(*ssa.Store)
				if !ok {
					continue
				}
				switch a := st.Addr.(type) {
				case *ssa.FieldAddr:
					al, ok := a.X.(*ssa.Alloc)
					if !ok || !types.Identical(al.Type().Underlying().(*types.Pointer).Elem(), segNamed) {
						continue
					}
					ai := get(al)
					if a.Field == flagField {
						if c, ok := st.Val.(*ssa.Const); !ok || c.Value == nil || c.Value.String() != "false" {
							ai.flagSet = true
						}
					} else if isDelta(a.Field) {
						if c, ok := bconstInt(st.Val); !ok || c != 0 {
							ai.deltaSet = st
						}
					}
				case *ssa.Alloc:
					if !types.Identical(a.Type().Underlying().(*types.Pointer).Elem(), segNamed) {
						continue
					}
					ai := get(a)
					if ld, ok := st.Val.(*ssa.UnOp); ok && ld.Op == token.MUL {
						if src, ok := ld.X.(*ssa.Alloc); ok {
							ai.copies = append(ai.copies, src)
							get(src)
							continue
						}
					}
					// a whole value of unknown origin
					ai.deltaSet = st
					ai.flagSet = true
				}
			}
		}
		for _, al := range order {
			ai := infos[al]
			if !ai.flagSet {
				continue
			}
			key := r.MkKey("explicitdelta", fnName(fn), "segment with explicit values")
			bad := ai.deltaSet
			how := "is assigned"
			for _, src := range ai.copies {
				if si := infos[src]; si != nil && si.deltaSet != nil {
					bad = si.deltaSet
					how = "is copied from a segment where it is assigned"
				}
			}
			if bad != nil {
				r.Fail("explicitdelta", key, w.Pos(al.Pos()), fmt.Sprintf("a segment that stores its glyph ids explicitly is built with field %s set (it %s at %s); Format4.Encode writes that field as idDelta, which a reader adds to every explicit glyph id", strings.Join(dn, "/"), how, w.Pos(bad.Pos())), nil)
			} else {
				r.OK("explicitdelta", key, w.Pos(al.Pos()), strings.Join(dn, "/")+" stays zero")
			}
		}
	}
	r.Floor("explicitdelta", 3)
}

// sameLoop: a and b belong to the same innermost loop.
func sameLoop(fn *ssa.Function, a, b *ssa.BasicBlock) bool {
	inner := func(x *ssa.BasicBlock) *natLoop {
		var best *natLoop
		for _, l := range naturalLoops(fn) {
			if l.body[x] && (best == nil || len(l.body) < len(best.body)) {
				best = l
			}
		}
		return best
	}
	la, lb := inner(a), inner(b)
	if la == nil || lb == nil {
		return la == lb
	}
	return la.head == lb.head
}

// ---- overlapstrict
//
// cmap.Decode keeps the byte ranges [start, end) of the subtables seen so far
// and rejects a table in which a new range overlaps a neighbour.  A range
// that merely touches its neighbour (end == next start) is the normal layout
// of a font file and must be accepted: each rejecting comparison must imply a
// real overlap.
func checkOverlapStrict(w *World, r *Report, br *boundsRun) {
	r.Rule("overlapstrict: in cmap.Decode every comparison between a bound of the new subtable range [o, o+length) and a bound of a recorded neighbour range whose outcome leads to the malformed-table error implies that the two half-open ranges share a byte (new end > neighbour start, new start < neighbour end) — shown by the prover on the rejecting edge")
	fn := w.Func("cmap.Decode")
	if fn == nil {
		r.Fatal("cmap.Decode does not resolve")
		return
	}
	p := br.prover(fn)
	// the recorded range: the struct literal handed to slices.Insert (or append) whose two fields are S and E
	var S, E ssa.Value
	var segT types.Type
	for _, b := range fn.Blocks {
		for _, in := range b.Instrs {
			st, ok := in.(*ssa.Store)
			if !ok {
				continue
			}
			fa, ok := st.Addr.(*ssa.FieldAddr)
			if !ok {
				continue
			}
			al, ok := fa.X.(*ssa.Alloc)
			if !ok {
				continue
			}
			stt, ok := al.Type().Underlying().(*types.Pointer).Elem().Underlying().(*types.Struct)
			if !ok || stt.NumFields() != 2 || !isIntType(stt.Field(0).Type()) || !isIntType(stt.Field(1).Type()) {
				continue
			}
			if named, ok := al.Type().Underlying().(*types.Pointer).Elem().(*types.Named); !ok || named.Obj().Pkg() == nil || !strings.HasSuffix(named.Obj().Pkg().Path(), "/cmap") {
				continue
			}
			segT = al.Type().Underlying().(*types.Pointer).Elem()
			if fa.Field == 0 {
				S = st.Val
			} else {
				E = st.Val
			}
		}
	}
	if S == nil || E == nil {
		r.Fatal("overlapstrict: the recorded subtable range (a two-field struct of package cmap built in Decode) was not found")
		return
	}
	// rejecting comparisons
	errorBlock := func(b *ssa.BasicBlock) bool {
		for d := 0; d < 3 && b != nil; d++ {
			if len(b.Instrs) == 0 {
				return false
			}
			switch t := b.Instrs[len(b.Instrs)-1].(type) {
			case *ssa.Return:
				if len(t.Results) == 2 {
					if c, ok := t.Results[1].(*ssa.Const); ok && c.Value == nil {
						return false
					}
					return true
				}
				return false
			case *ssa.Jump:
				b = b.Succs[0]
			default:
				return false
			}
		}
		return false
	}
	neighbourField := func(v ssa.Value) (int, bool) {
		ld, ok := v.(*ssa.UnOp)
		if !ok || ld.Op != token.MUL {
			return 0, false
		}
		fa, ok := ld.X.(*ssa.FieldAddr)
		if !ok {
			return 0, false
		}
		if _, ok := fa.X.(*ssa.IndexAddr); !ok {
			return 0, false
		}
		if !types.Identical(fa.X.Type().Underlying().(*types.Pointer).Elem(), segT) {
			return 0, false
		}
		return fa.Field, true
	}
	n := 0
	for _, b := range fn.Blocks {
		if len(b.Instrs) == 0 {
			continue
		}
		ifi, ok := b.Instrs[len(b.Instrs)-1].(*ssa.If)
		if !ok {
			continue
		}
		cmp, ok := ifi.Cond.(*ssa.BinOp)
		if !ok {
			continue
		}
		switch cmp.Op {
		case token.LSS, token.LEQ, token.GTR, token.GEQ:
		default:
			continue
		}
		fx, okx := neighbourField(cmp.X)
		fy, oky := neighbourField(cmp.Y)
		if okx == oky {
			continue
		}
		field, load := fy, cmp.Y
		if okx {
			field, load = fx, cmp.X
		}
		for si, succ := range b.Succs {
			if !errorBlock(succ) {
				continue
			}
			n++
			key := r.MkKey("overlapstrict", "cmap.Decode", "rejecting comparison "+cmpText(p, cmp))
			var goal blin
			var what string
			okGoal := true
			if field == 0 { // neighbour start: overlap needs E > start
				g, ok := p.linOf(E).sub(p.linOf(load))
				goal, okGoal = g.addc(-1), ok
				what = "new end > neighbour start"
			} else { // neighbour end: overlap needs S < end
				g, ok := p.linOf(load).sub(p.linOf(S))
				goal, okGoal = g.addc(-1), ok
				what = "new start < neighbour end"
			}
			_ = si
			if okGoal && p.prove(p.edgeFacts(b, succ), goal, b, 2) {
				r.OK("overlapstrict", key, w.Pos(cmp.Pos()), "on the rejecting edge "+what)
			} else {
				r.Fail("overlapstrict", key, w.Pos(cmp.Pos()), "this comparison rejects the table although the prover cannot show "+what+": a subtable that begins exactly where another one ends (adjacent ranges, the usual layout when records are not in data order) is refused as malformed", nil)
			}
		}
	}
	r.Floor("overlapstrict", 2)
	_ = n
}

func cmpText(p *bprover, cmp *ssa.BinOp) string {
	return p.srcOf(cmp.X) + " " + cmp.Op.String() + " " + p.srcOf(cmp.Y)
}

// callsMacDecode: the function translates through package sfnt/mac (the Mac
// Roman table), directly or through one more call.
func callsMacDecode(f *ssa.Function, depth int) bool {
	if depth > 2 {
		return false
	}
	for _, b := range f.Blocks {
		for _, in := range b.Instrs {
			c, ok := in.(*ssa.Call)
			if !ok {
				continue
			}
			cal := c.Call.StaticCallee()
			if cal == nil {
				continue
			}
			if strings.HasSuffix(fnPkgPath(cal), "/sfnt/mac") {
				return true
			}
			if strings.HasSuffix(fnPkgPath(cal), "/cmap") && callsMacDecode(cal, depth+1) {
				return true
			}
		}
	}
	return false
}

// ---- percode
//
// The byte/trimmed/segmented decoders take a translation function from
// character codes to runes (Mac Roman for platform 1).  The translation is
// not linear, so it has to be applied to every code separately: the key of
// each entry stored into the result must come from a call of the translation
// function made in the same loop iteration.
func checkPerCode(w *World, r *Report) {
	r.Rule("percode: in the cmap format decoders that take a code-to-rune function, the key of every entry stored into the resulting map is computed by a call of that function inside the innermost loop around the store (the translation is applied per code, not once to the first code of a range)")
	n := 0
	for _, fn := range w.LibFuncs() {
		if !strings.HasSuffix(fnPkgPath(fn), "/cmap") || fn.Parent() != nil {
			continue
		}
		var tr *ssa.Parameter
		for _, par := range fn.Params {
			if sig, ok := par.Type().Underlying().(*types.Signature); ok && sig.Params().Len() == 1 && sig.Results().Len() == 1 {
				if b, ok := sig.Results().At(0).Type().Underlying().(*types.Basic); ok && b.Kind() == types.Int32 {
					tr = par
				}
			}
		}
		if tr == nil {
			continue
		}
		isTr := func(v ssa.Value) bool {
			seen := map[ssa.Value]bool{}
			var f func(v ssa.Value) bool
			f = func(v ssa.Value) bool {
				if seen[v] {
					return false
				}
				seen[v] = true
				switch x := v.(type) {
				case *ssa.Parameter:
					return x == tr
				case *ssa.Phi:
					for _, e := range x.Edges {
						if f(e) {
							return true
						}
					}
				}
				return false
			}
			return f(v)
		}
		loops := naturalLoops(fn)
		for _, b := range fn.Blocks {
			for _, in := range b.Instrs {
				mu, ok := in.(*ssa.MapUpdate)
				if !ok {
					continue
				}
				var loop *natLoop
				for _, l := range loops {
					if l.body[b] && (loop == nil || len(l.body) < len(loop.body)) {
						loop = l
					}
				}
				if loop == nil {
					continue
				}
				// a decoder that refuses a translation function (the store is only
				// reached when the parameter is nil) has nothing to translate
				refused := false
				for _, g := range guardsOf(b) {
					c, ok := g.cond.(*ssa.BinOp)
					if !ok || (c.Op != token.EQL && c.Op != token.NEQ) {
						continue
					}
					if (c.X == ssa.Value(tr) || c.Y == ssa.Value(tr)) && (c.Op == token.EQL) == g.then {
						refused = true
					}
				}
				if refused {
					continue
				}
				n++
				key := r.MkKey("percode", fnName(fn), "key of a stored entry")
				// backward slice of the key through arithmetic and conversions
				found, hoisted := false, false
				seen := map[ssa.Value]bool{}
				var walk func(v ssa.Value, d int)
				walk = func(v ssa.Value, d int) {
					if d > 8 || seen[v] {
						return
					}
					seen[v] = true
					switch x := v.(type) {
					case *ssa.Convert:
						walk(x.X, d+1)
					case *ssa.ChangeType:
						walk(x.X, d+1)
					case *ssa.BinOp:
						walk(x.X, d+1)
						walk(x.Y, d+1)
					case *ssa.Phi:
						for _, e := range x.Edges {
							walk(e, d+1)
						}
					case *ssa.Call:
						if isTr(x.Call.Value) {
							if loop.body[x.Block()] {
								found = true
							} else {
								hoisted = true
							}
						}
					}
				}
				walk(mu.Key, 0)
				switch {
				case found:
					r.OK("percode", key, w.Pos(mu.Pos()), "translated in the same iteration")
				case hoisted:
					r.Fail("percode", key, w.Pos(mu.Pos()), "the code-to-rune function is called once outside the loop and the keys are obtained by adding the loop index to its result: the translation (Mac Roman) is not linear, so every code above the first is mapped to the wrong character", nil)
				default:
					r.Fail("percode", key, w.Pos(mu.Pos()), "the key stored does not pass through the code-to-rune function: codes of a Macintosh subtable are taken for Unicode", nil)
				}
			}
		}
	}
	r.Floor("percode", 3)
	_ = n
}
