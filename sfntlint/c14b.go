package main

import (
	"go/token"
	"go/types"

	"golang.org/x/tools/go/ssa"
)

// RunPlatformTables: the name table keeps Macintosh and Windows strings in
// separate per-language tables (the same BCP 47 tag exists on both sides,
// nl-BE for one).  In name.Decode the *Table objects that end up in the
// result's Mac map and those that end up in its Windows map must be different
// objects: no SSA value of type *Table is stored into both.
func RunPlatformTables(w *World, r *Report) {
	r.Rule("platformtables: in name.Decode no *Table value is stored both into the map that becomes Info.Mac and into the map that becomes Info.Windows: a language tag that exists on both platforms (nl-BE) must not make the two sides share one table object")
	fn := w.Func("name.Decode")
	if fn == nil {
		r.Fatal("name.Decode does not resolve")
		return
	}
	// maps of *Table built in the function
	isTableMap := func(t types.Type) bool {
		m, ok := t.Underlying().(*types.Map)
		if !ok {
			return false
		}
		p, ok := m.Elem().(*types.Pointer)
		if !ok {
			return false
		}
		n, ok := p.Elem().(*types.Named)
		return ok && n.Obj().Name() == "Table"
	}
	root := func(v ssa.Value) ssa.Value {
		for d := 0; d < 6; d++ {
			switch x := v.(type) {
			case *ssa.ChangeType:
				v = x.X
			case *ssa.UnOp:
				if x.Op == token.MUL {
					return x.X // load of a field: the field address identifies the map
				}
				return v
			default:
				return v
			}
		}
		return v
	}
	// origins of a stored *Table value: allocations and the maps it was looked up in
	var origins func(v ssa.Value, seen map[ssa.Value]bool, out map[ssa.Value]bool)
	origins = func(v ssa.Value, seen map[ssa.Value]bool, out map[ssa.Value]bool) {
		if seen[v] {
			return
		}
		seen[v] = true
		switch x := v.(type) {
		case *ssa.Phi:
			for _, e := range x.Edges {
				origins(e, seen, out)
			}
		case *ssa.Alloc:
			out[x] = true
		case *ssa.Lookup:
			out[root(x.X)] = true
		case *ssa.Extract:
			origins(x.Tuple, seen, out)
		}
	}
	stored := map[ssa.Value]map[ssa.Value]bool{} // target map -> origins of values stored
	var pos = map[ssa.Value]token.Pos{}
	for _, b := range fn.Blocks {
		for _, in := range b.Instrs {
			mu, ok := in.(*ssa.MapUpdate)
			if !ok || !isTableMap(mu.Map.Type()) {
				continue
			}
			tgt := root(mu.Map)
			if stored[tgt] == nil {
				stored[tgt] = map[ssa.Value]bool{}
				pos[tgt] = mu.Pos()
			}
			o := map[ssa.Value]bool{}
			origins(mu.Value, map[ssa.Value]bool{}, o)
			for k := range o {
				if k != tgt { // looked up in the same map it is stored back into: fine
					stored[tgt][k] = true
				}
			}
		}
	}
	key := r.MkKey("platformtables", "name.Decode", "tables of the two platforms")
	if len(stored) < 2 {
		r.Fail("platformtables", key, w.Pos(fn.Pos()), "name.Decode fills fewer than two maps of tables: the Macintosh and Windows sides are not kept apart", nil)
		return
	}
	var tgts []ssa.Value
	for t := range stored {
		tgts = append(tgts, t)
	}
	for i := 0; i < len(tgts); i++ {
		for j := i + 1; j < len(tgts); j++ {
			for o := range stored[tgts[i]] {
				if stored[tgts[j]][o] {
					r.Fail("platformtables", key, w.Pos(pos[tgts[j]]), "a table object of one origin ("+o.Name()+") is stored into two different platform maps: when a language tag exists on both platforms the Macintosh and Windows strings end up in one shared table and overwrite each other", nil)
					return
				}
			}
		}
	}
	r.OK("platformtables", key, w.Pos(pos[tgts[0]]), "the tables stored into the platform maps have disjoint origins")
}
