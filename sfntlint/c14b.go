package main

import (
	"go/token"
	"go/types"

	"golang.org/x/tools/go/ssa"
)

// RunPlatformTables: the name table keeps Macintosh and Windows strings in
// separate per-language tables (the same BCP 47 tag exists on both sides,
// nl-BE for one).  In name.Decode the *Table objects that end up in the
// result's Mac map and those that end up in its Windows map must be different
// objects: no SSA value of type *Table is stored into both.
func RunPlatformTables(w *World, r *Report) {
	r.Rule("platformtables: in name.Decode no *Table value is stored both into the map that becomes Info.Mac and into the map that becomes Info.Windows: a language tag that exists on both platforms (nl-BE) must not make the two sides share one table object")
	fn := w.Func("name.Decode")
	if fn == nil {
		r.Fatal("name.Decode does not resolve")
		return
	}
	// maps of *Table built in the function
	isTableMap := func(t types.Type) bool {
		m, ok := t.Underlying().(*types.Map)
		if !ok {
			return false
		}
		p, ok := m.Elem().(*types.Pointer)
		if !ok {
			return false
		}
		n, ok := p.Elem().(*types.Named)
		return ok && n.Obj().Name() == "Table"
	}
	root := func(v ssa.Value) ssa.Value {
		for d := 0; d < 6; d++ {
			switch x := v.(type) {
			case *ssa.ChangeType:
				v = x.X
			case *ssa.UnOp:
				if x.Op == token.MUL {
					return x.X // load of a field: the field address identifies the map
				}
				return v
			default:
				return v
			}
		}
		return v
	}
	// origins of a stored *Table value: allocations and the maps it was looked up in
	var origins func(v ssa.Value, seen map[ssa.Value]bool, out map[ssa.Value]bool)
	origins = func(v ssa.Value, seen map[ssa.Value]bool, out map[ssa.Value]bool) {
		if seen[v] {
			return
		}
		seen[v] = true
		switch x := v.(type) {
		case *ssa.Phi:
			for _, e := range x.Edges {
				origins(e, seen, out)
			}
		case *ssa.Alloc:
			out[x] = true
		case *ssa.Lookup:
			out[root(x.X)] = true
		case *ssa.Extract:
			origins(x.Tuple, seen, out)
		}
	}
	stored := map[ssa.Value]map[ssa.Value]bool{} // target map -> origins of values stored
	var pos = map[ssa.Value]token.Pos{}
	for _, b := range fn.Blocks {
		for _, in := range b.Instrs {
			mu, ok := in.(*ssa.MapUpdate)
			if !ok || !isTableMap(mu.Map.Type()) {
				continue
			}
			tgt := root(mu.Map)
			if stored[tgt] == nil {
				stored[tgt] = map[ssa.Value]bool{}
				pos[tgt] = mu.Pos()
			}
			o := map[ssa.Value]bool{}
			origins(mu.Value, map[ssa.Value]bool{}, o)
			for k := range o {
				if k != tgt { // looked up in the same map it is stored back into: fine
					stored[tgt][k] = true
				}
			}
		}
	}
	key := r.MkKey("platformtables", "name.Decode", "tables of the two platforms")
	if len(stored) < 2 {
		r.Fail("platformtables", key, w.Pos(fn.Pos()), "name.Decode fills fewer than two maps of tables: the Macintosh and Windows sides are not kept apart", nil)
		return
	}
	var tgts []ssa.Value
	for t := range stored {
		tgts = append(tgts, t)
	}
	for i := 0; i < len(tgts); i++ {
		for j := i + 1; j < len(tgts); j++ {
			for o := range stored[tgts[i]] {
				if stored[tgts[j]][o] {
					r.Fail("platformtables", key, w.Pos(pos[tgts[j]]), "a table object of one origin ("+o.Name()+") is stored into two different platform maps: when a language tag exists on both platforms the Macintosh and Windows strings end up in one shared table and overwrite each other", nil)
					return
				}
			}
		}
	}
	r.OK("platformtables", key, w.Pos(pos[tgts[0]]), "the tables stored into the platform maps have disjoint origins")
}

// RunNameEncodingID: (*name.Info).Encode writes the Windows records with the
// encoding id it is given; name.Decode understands the Windows records of
// certain encoding ids only. Every caller inside the library passes an id the
// decoder understands, or the names it wrote come back from the (lossy)
// Macintosh records or not at all.
func RunNameEncodingID(w *World, r *Report) {
	r.Rule("nameencid: every encoding id that a call of (*name.Info).Encode inside the library can pass (a constant, or a phi of constants) is one of the constants name.Decode compares the encoding id of a record with on a path where the platform id has been found equal to 3")
	dec := w.Func("name.Decode")
	if dec == nil {
		r.Fatal("name.Decode does not resolve")
		return
	}
	accepted := map[int64]bool{}
	for _, b := range dec.Blocks {
		if len(b.Instrs) == 0 {
			continue
		}
		ifi, ok := b.Instrs[len(b.Instrs)-1].(*ssa.If)
		if !ok {
			continue
		}
		cmp, ok := ifi.Cond.(*ssa.BinOp)
		if !ok || cmp.Op != token.EQL {
			continue
		}
		k, ok := cmp.Y.(*ssa.Const)
		if !ok || k.Value == nil {
			continue
		}
		for _, g := range guardsOf(b) {
			pc, ok := g.cond.(*ssa.BinOp)
			if !ok || pc.Op != token.EQL || !g.then || pc.X == cmp.X {
				continue
			}
			if c3, ok := pc.Y.(*ssa.Const); ok && c3.Value != nil && c3.Int64() == 3 {
				accepted[k.Int64()] = true
			}
		}
	}
	if len(accepted) == 0 {
		r.Fail("nameencid", r.MkKey("nameencid", "name.Decode", "accepted Windows encoding ids"), w.Pos(dec.Pos()), "no comparison of an encoding id under platform id 3 found in name.Decode", nil)
		return
	}
	n := 0
	for _, fn := range w.LibFuncs() {
		for _, b := range fn.Blocks {
			for _, in := range b.Instrs {
				call, ok := in.(*ssa.Call)
				if !ok {
					continue
				}
				callee := call.Common().StaticCallee()
				if callee == nil || fnName(callee) != "(*name.Info).Encode" || len(call.Common().Args) != 2 {
					continue
				}
				n++
				key := r.MkKey("nameencid", fnName(fn), "call of (*name.Info).Encode")
				bad := ""
				seen := map[ssa.Value]bool{}
				var visit func(v ssa.Value)
				visit = func(v ssa.Value) {
					if seen[v] {
						return
					}
					seen[v] = true
					switch x := v.(type) {
					case *ssa.Const:
						if x.Value == nil || !accepted[x.Int64()] {
							bad = "encoding id " + x.String()
						}
					case *ssa.Phi:
						for _, e := range x.Edges {
							visit(e)
						}
					default:
						bad = "an encoding id that is not a constant"
					}
				}
				visit(call.Common().Args[1])
				if bad == "" {
					r.OK("nameencid", key, w.Pos(call.Pos()), "passes an encoding id name.Decode understands")
				} else {
					r.Fail("nameencid", key, w.Pos(call.Pos()), "the Windows name records can be written with "+bad+", which name.Decode does not decode (it understands platform 3 with the ids it tests for only): the strings come back from the Macintosh records, with every character outside Mac Roman replaced, or not at all", nil)
				}
			}
		}
	}
	if n == 0 {
		r.Fail("nameencid", r.MkKey("nameencid", "library", "calls of (*name.Info).Encode"), "-", "no call of (*name.Info).Encode found in the library", nil)
	}
}
