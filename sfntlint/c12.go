package main

import (
	"fmt"
	"go/constant"
	"go/types"
	"strings"
)

func init() { properties["C12"] = propC12 }

var c12Codecs = [][3]string{{"head", "Read", "Encode"}, {"os2", "Read", "Encode"}, {"post", "Read", "Encode"}, {"maxp", "Read", "Encode"}, {"hmtx", "Decode", "Encode"}}

// C12: metrics/header tables round-trip exactly.
func propC12(w *World, r *Report) {
	r.Rule("fieldpair: for head, OS/2, post, maxp and hhea the reader's relation 'application field <- stream bytes' (through binary.Read wire structs, whose layout is computed from go/types, or byte windows) equals the writer's relation 'stream bytes <- application field' (wire struct literals or byte literals) for every field || bitpair: for every boolean field the bits the writer sets equal the bits the reader expects || fieldcover: every field of the Info struct takes part in a pairing || wiresize: declared table lengths equal the size of the wire structs")
	r.Conds["cpr-halves-agree"] = condHalvesAgree(w)
	for _, c := range c12Codecs {
		RunFieldPairs(w, r, c[0], c[1], c[2])
		RunBitPairs(w, r, c[0], c[1], c[2])
		RunFieldCover(w, r, c[0])
	}
	pk := map[string]bool{}
	for _, c := range c12Codecs {
		pk[modPath+"/"+c[0]] = true
	}
	RunBigEndian(w, r, func(p string) bool { return pk[p] })
	RunWireSizes(w, r)
	for _, a := range boundsAssumptions {
		r.Assumes(a)
	}
	RunLosslessFor(w, r, "C12", newBoundsRun(w))
	r.Floor("fieldpair", 70)
	r.Floor("bitpair", 12)
	r.Floor("bigendian/read", 15)
	r.Floor("bigendian/write", 28)
}

// RunWireSizes: constants that announce a table length equal the encoding/binary
// size of the corresponding wire struct.
func RunWireSizes(w *World, r *Report) {
	type ws struct{ pkg, konst, typ string }
	for _, x := range []ws{{"head", "headLength", "binaryHead"}, {"hmtx", "hheaLength", "binaryHhea"}} {
		p := w.All[modPath+"/"+x.pkg]
		if p == nil {
			continue
		}
		key := r.MkKey("wiresize", x.pkg, x.konst+" vs "+x.typ)
		c, _ := p.Types.Scope().Lookup(x.konst).(*types.Const)
		t, _ := p.Types.Scope().Lookup(x.typ).(*types.TypeName)
		if c == nil || t == nil {
			// constant or type renamed: undecided for this instance only
			r.FailC("wiresize", key, []string{"missing"}, "-", fmt.Sprintf("%s.%s or %s.%s not found", x.pkg, x.konst, x.pkg, x.typ), nil)
			continue
		}
		cv, _ := constant.Int64Val(c.Val())
		sz := fixedSize(t.Type())
		if int(cv) == sz {
			r.OK("wiresize", key, w.Pos(c.Pos()), fmt.Sprintf("%s = %d = size of %s", x.konst, cv, x.typ))
		} else {
			r.Fail("wiresize", key, w.Pos(c.Pos()), fmt.Sprintf("%s = %d but encoding/binary size of %s is %d", x.konst, cv, x.typ, sz), nil)
		}
	}
	_ = strings.Join
}
