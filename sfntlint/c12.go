package main

import (
	"fmt"
	"go/token"
	"go/constant"
	"go/types"
	"strings"

	"golang.org/x/tools/go/ssa"
)

func init() { properties["C12"] = propC12 }

var c12Codecs = [][3]string{{"head", "Read", "Encode"}, {"os2", "Read", "Encode"}, {"post", "Read", "Encode"}, {"maxp", "Read", "Encode"}, {"hmtx", "Decode", "Encode"}}

// C12: metrics/header tables round-trip exactly.
func propC12(w *World, r *Report) {
	defer runDeadAccIn(w, r, "/hmtx", "/head", "/os2", "/post", "/maxp")
	defer RunSearchMonotone(w, r, "/hmtx", "/head", "/os2", "/post", "/maxp", "")
	defer RunFilterRef(w, r, "/hmtx", "/head", "/os2", "/post", "/maxp", "")
	defer RunFDMatrix(w, r)
	defer RunNoHistory(w, r, "/hmtx", "/head", "/os2", "/post", "/maxp", "/cff", "/glyf", "")
	defer RunMatrixOrder(w, r)
	r.Rule("fieldpair: for head, OS/2, post, maxp and hhea the reader's relation 'application field <- stream bytes' (through binary.Read wire structs, whose layout is computed from go/types, or byte windows) equals the writer's relation 'stream bytes <- application field' (wire struct literals or byte literals) for every field || bitpair: for every boolean field the bits the writer sets equal the bits the reader expects || fieldcover: every field of the Info struct takes part in a pairing || wiresize: declared table lengths equal the size of the wire structs")
	r.Conds["cpr-halves-agree"] = condHalvesAgree(w)
	for _, c := range c12Codecs {
		RunFieldPairs(w, r, c[0], c[1], c[2])
		RunBitPairs(w, r, c[0], c[1], c[2])
		RunFieldCover(w, r, c[0])
		RunEnumPair(w, r, c[0], c[1], c[2])
	}
	r.Floor("enumpair", 1)
	pk := map[string]bool{}
	for _, c := range c12Codecs {
		pk[modPath+"/"+c[0]] = true
	}
	RunBigEndian(w, r, func(p string) bool { return pk[p] })
	RunWireSizes(w, r)
	for _, a := range boundsAssumptions {
		r.Assumes(a)
	}
	br12 := newBoundsRun(w)
	RunLosslessFor(w, r, "C12", br12)
	runNarrowBoundIn(w, r, br12, "/hmtx", "/head", "/os2", "/post", "/maxp")
	runFlagReduceIn(w, r, "/hmtx", "/head", "/os2", "/post", "/maxp")
	RunLosslessControls(r)
	RunBBoxCorners(w, r)
	RunExtremumInit(w, r, losslessFuncs(w, r, "C12"))
	r.Floor("extremuminit", 3)
	RunBBoxRound(w, r, w.LibFuncs())
	RunExtentPairs(w, r)
	RunExtremumLocal(w, r, w.LibFuncs())
	r.Floor("extremumlocal", 6)
	RunControl(r, "extremumlocal", "ctlExtremumLocalBad", RunExtremumLocal)
	r.Floor("extremumdomain", 4)
	RunTimeInverse(w, r)
	{
		var hm []*ssa.Function
		for _, f := range w.LibFuncs() {
			if fnPkgPath(f) == modPath+"/hmtx" {
				hm = append(hm, f)
			}
		}
		RunArgminScan(w, r, hm)
		r.Floor("argminscan", 1)
	}
	r.Floor("fieldpair", 70)
	r.Floor("bitpair", 12)
	r.Floor("bigendian/read", 15)
	r.Floor("bigendian/write", 28)
}

// RunWireSizes: constants that announce a table length equal the encoding/binary
// size of the corresponding wire struct.
func RunWireSizes(w *World, r *Report) {
	type ws struct{ pkg, konst, typ string }
	for _, x := range []ws{{"head", "headLength", "binaryHead"}, {"hmtx", "hheaLength", "binaryHhea"}} {
		p := w.All[modPath+"/"+x.pkg]
		if p == nil {
			continue
		}
		key := r.MkKey("wiresize", x.pkg, x.konst+" vs "+x.typ)
		c, _ := p.Types.Scope().Lookup(x.konst).(*types.Const)
		t, _ := p.Types.Scope().Lookup(x.typ).(*types.TypeName)
		if c == nil || t == nil {
			// constant or type renamed: undecided for this instance only
			r.FailC("wiresize", key, []string{"missing"}, "-", fmt.Sprintf("%s.%s or %s.%s not found", x.pkg, x.konst, x.pkg, x.typ), nil)
			continue
		}
		cv, _ := constant.Int64Val(c.Val())
		sz := fixedSize(t.Type())
		if int(cv) == sz {
			r.OK("wiresize", key, w.Pos(c.Pos()), fmt.Sprintf("%s = %d = size of %s", x.konst, cv, x.typ))
		} else {
			r.Fail("wiresize", key, w.Pos(c.Pos()), fmt.Sprintf("%s = %d but encoding/binary size of %s is %d", x.konst, cv, x.typ, sz), nil)
		}
	}
	_ = strings.Join
}

// RunExtremumInit: a running minimum or maximum of signed values kept in a
// struct field that starts at zero is wrong when every value lies on the
// other side of zero (all right side bearings positive, all extents
// negative); the hhea extrema are defined over the glyphs that have an
// outline, so the loops take the first such glyph unconditionally
// (`first || x < min`).
func RunExtremumInit(w *World, r *Report, fns []*ssa.Function) {
	r.Rule("extremuminit: in the encoders of the metrics tables every store of the form `if x < field { field = x }` (or >) inside a loop, on a field that starts from its zero value, can also be reached without the comparison (the `first ||` escape for the first contributing element) — except where the values are non-negative by format and a maximum is taken (advance widths: reviewed)")
	for _, fn := range fns {
		if fn.Blocks == nil {
			continue
		}
		loops := naturalLoops(fn)
		for _, b := range fn.Blocks {
			inLoop := false
			for _, l := range loops {
				if l.body[b] {
					inLoop = true
				}
			}
			if !inLoop {
				continue
			}
			for _, in := range b.Instrs {
				st, ok := in.(*ssa.Store)
				if !ok {
					continue
				}
				fa, ok := st.Addr.(*ssa.FieldAddr)
				if !ok {
					continue
				}
				bt, ok := st.Val.Type().Underlying().(*types.Basic)
				if !ok || bt.Info()&types.IsInteger == 0 || bt.Info()&types.IsUnsigned != 0 {
					continue
				}
				// guarded by a comparison of the stored value with a load of the same field?
				var cmpGuard *ssa.BinOp
				for _, pr := range b.Preds {
					if len(pr.Instrs) == 0 {
						continue
					}
					ifi, ok := pr.Instrs[len(pr.Instrs)-1].(*ssa.If)
					if !ok {
						continue
					}
					cmp, ok := ifi.Cond.(*ssa.BinOp)
					if !ok || (cmp.Op != token.LSS && cmp.Op != token.GTR) {
						continue
					}
					// x < field  or  field > x  (either operand order)
					for _, pair := range [][2]ssa.Value{{cmp.X, cmp.Y}, {cmp.Y, cmp.X}} {
						if !sameValueExpr(pair[0], st.Val) {
							continue
						}
						if ld, ok := pair[1].(*ssa.UnOp); ok {
							if fa2, ok := ld.X.(*ssa.FieldAddr); ok && fa2.Field == fa.Field && fa2.X == fa.X {
								cmpGuard = cmp
							}
						}
					}
				}
				if cmpGuard == nil {
					continue
				}
				checkExtremumDomain(w, r, fn, loops, b, st, fa, cmpGuard)
				key := r.MkKey("extremuminit", fnName(fn), "running extremum "+fieldName(fa))
				if len(b.Preds) >= 2 {
					r.OK("extremuminit", key, w.Pos(st.Pos()), "the first contributing element is taken unconditionally")
				} else {
					r.Fail("extremuminit", key, w.Pos(st.Pos()), "the extremum "+fieldName(fa)+" is only updated when the new value beats the field's initial zero: if all values lie on the other side of zero the result is 0 instead of the true extremum", nil)
				}
			}
		}
	}
}

// sameValueExpr: the two values are the same SSA value or the same field
// selection / load recomputed.
func sameValueExpr(a, b ssa.Value) bool {
	if a == b {
		return true
	}
	switch x := a.(type) {
	case *ssa.Field:
		if y, ok := b.(*ssa.Field); ok {
			return x.Field == y.Field && sameValueExpr(x.X, y.X)
		}
	case *ssa.UnOp:
		if y, ok := b.(*ssa.UnOp); ok && x.Op == y.Op {
			return sameValueExpr(x.X, y.X)
		}
	case *ssa.FieldAddr:
		if y, ok := b.(*ssa.FieldAddr); ok {
			return x.Field == y.Field && sameValueExpr(x.X, y.X)
		}
	case *ssa.IndexAddr:
		if y, ok := b.(*ssa.IndexAddr); ok {
			return sameValueExpr(x.X, y.X) && sameValueExpr(x.Index, y.Index)
		}
	case *ssa.Convert:
		if y, ok := b.(*ssa.Convert); ok {
			return sameValueExpr(x.X, y.X)
		}
	}
	return false
}

// RunTimeInverse: head timestamps are seconds since 1904 in 64 bits.
// encodeTime and decodeTime are inverse to each other exactly when the only
// special case on either side is "zero time <-> 0" and the general case
// subtracts / adds the same epoch constant.
func RunTimeInverse(w *World, r *Report) {
	r.Rule("timeinverse: head.encodeTime returns 0 only for the zero time and t.Unix() - zeroTime otherwise; head.decodeTime returns the zero time only under the test t == 0 and time.Unix(zeroTime + t, 0) otherwise (no other value of the 64-bit field is special-cased), with the same constant on both sides")
	enc, dec := w.Func("head.encodeTime"), w.Func("head.decodeTime")
	if enc == nil || dec == nil {
		r.Fatal("head.encodeTime / head.decodeTime do not resolve")
		return
	}
	br := newBoundsRun(w)
	// decode: every return; the one that is not time.Unix(...) must be guarded by exactly t == 0
	key := r.MkKey("timeinverse", "head.decodeTime", "special cases")
	p := br.prover(dec)
	var epochDec int64
	bad := ""
	nRet := 0
	for _, b := range dec.Blocks {
		if len(b.Instrs) == 0 {
			continue
		}
		ret, ok := b.Instrs[len(b.Instrs)-1].(*ssa.Return)
		if !ok {
			continue
		}
		nRet++
		if call, ok := ret.Results[0].(*ssa.Call); ok && call.Call.StaticCallee() != nil && call.Call.StaticCallee().String() == "time.Unix" {
			l := p.linOf(call.Call.Args[0])
			if len(l.t) != 1 || l.t[atom{aVal, dec.Params[0]}] != 1 {
				bad = "the general case is not time.Unix(t + constant, 0)"
			}
			epochDec = l.k
			continue
		}
		// a special case: the guards of this block must be exactly t == 0
		gs := guardsOf(b)
		okGuard := len(gs) == 1
		if okGuard {
			cmp, isCmp := gs[0].cond.(*ssa.BinOp)
			c, isC := int64(0), false
			if isCmp {
				c, isC = bconstInt(cmp.Y)
			}
			okGuard = isCmp && cmp.X == ssa.Value(dec.Params[0]) && isC && c == 0 && (cmp.Op == token.EQL && gs[0].then || cmp.Op == token.NEQ && !gs[0].then)
		}
		if !okGuard {
			bad = "a return of the zero time is reached under a condition other than t == 0 (" + w.Pos(ret.Pos()) + "): such field values do not survive a round trip"
		}
	}
	if bad == "" && nRet >= 2 {
		r.OK("timeinverse", key, w.Pos(dec.Pos()), "only t == 0 is special")
	} else {
		if bad == "" {
			bad = "the expected two returns were not found"
		}
		r.Fail("timeinverse", key, w.Pos(dec.Pos()), bad, nil)
	}
	// encode: general case Unix() - epoch with the same constant
	key2 := r.MkKey("timeinverse", "head.encodeTime", "epoch")
	var epochEnc int64
	found := false
	for _, b := range enc.Blocks {
		for _, in := range b.Instrs {
			bo, ok := in.(*ssa.BinOp)
			if !ok || bo.Op != token.SUB {
				continue
			}
			if call, ok := bo.X.(*ssa.Call); ok && call.Call.StaticCallee() != nil && strings.HasSuffix(call.Call.StaticCallee().String(), "Time).Unix") {
				if c, ok := bconstInt(bo.Y); ok {
					epochEnc, found = c, true
				}
			}
		}
	}
	if found && epochEnc == epochDec {
		r.OK("timeinverse", key2, w.Pos(enc.Pos()), fmt.Sprintf("both sides use the epoch %d", epochEnc))
	} else {
		r.Fail("timeinverse", key2, w.Pos(enc.Pos()), fmt.Sprintf("encodeTime subtracts %d (found=%v), decodeTime adds %d", epochEnc, found, epochDec), nil)
	}
	r.Floor("timeinverse", 2)
}

// RunArgminScan: a loop that keeps the best candidate seen so far
// (`if d < best { best = d; ... }`) finds the optimum only if it looks at all
// candidates: leaving the loop because the current distance is "small
// enough" returns a neighbour of the optimum.  The only distance that cannot
// be improved is exactly 0.
func RunArgminScan(w *World, r *Report, fns []*ssa.Function) {
	r.Rule("argminscan: in a loop that records a running minimum of a floating-point distance (a loop-carried best value updated under d < best), no exit from the loop other than its own loop condition depends on that distance, unless it is the exact test d == 0")
	for _, fn := range fns {
		if fn.Blocks == nil {
			continue
		}
		for _, l := range naturalLoops(fn) {
			// best: a float phi at the head, one of whose back-edge sources is a value d compared with it
			for _, in := range l.head.Instrs {
				best, ok := in.(*ssa.Phi)
				if !ok {
					break
				}
				bt, ok := best.Type().Underlying().(*types.Basic)
				if !ok || bt.Info()&types.IsFloat == 0 {
					continue
				}
				var dist ssa.Value
				for b := range l.body {
					for _, bi := range b.Instrs {
						cmp, ok := bi.(*ssa.BinOp)
						if !ok || (cmp.Op != token.LSS && cmp.Op != token.GTR) {
							continue
						}
						if cmp.Y == ssa.Value(best) && cmp.Op == token.LSS {
							dist = cmp.X
						}
						if cmp.X == ssa.Value(best) && cmp.Op == token.GTR {
							dist = cmp.Y
						}
					}
				}
				if dist == nil {
					continue
				}
				key := r.MkKey("argminscan", fnName(fn), "running minimum "+best.Comment)
				bad := ""
				for b := range l.body {
					if b == l.head || len(b.Instrs) == 0 {
						continue
					}
					ifi, ok := b.Instrs[len(b.Instrs)-1].(*ssa.If)
					if !ok {
						continue
					}
					// an exit edge?
					exits := false
					for _, s := range b.Succs {
						if !l.body[s] {
							exits = true
						}
					}
					if !exits {
						continue
					}
					if !backSlice(ifi.Cond)[dist] && !backSlice(ifi.Cond)[best] {
						continue
					}
					if cmp, ok := ifi.Cond.(*ssa.BinOp); ok && cmp.Op == token.EQL {
						if c, ok := cmp.Y.(*ssa.Const); ok && c.Value != nil && constant.Sign(c.Value) == 0 {
							continue
						}
					}
					bad = "the loop is left at " + w.Pos(ifi.Cond.Pos()) + " depending on the current distance"
				}
				if bad == "" {
					r.OK("argminscan", key, w.Pos(best.Pos()), "all candidates are inspected")
				} else {
					r.Fail("argminscan", key, w.Pos(best.Pos()), bad+": candidates that come later may be closer, so the result is not the best approximation (a distance below a threshold is not optimal, only 0 is)", nil)
				}
			}
		}
	}
}

// RunBBoxCorners: the bounding box of a glyph under a font matrix is the box
// around the images of all FOUR corners of the untransformed box; with a
// matrix that rotates or shears, two opposite corners are not enough.  In
// (*glyf.Outlines).GlyphBBoxPDF the matrix must be applied to all four
// combinations {LLx,URx} x {LLy,URy}.
func RunBBoxCorners(w *World, r *Report) {
	r.Rule("bboxcorners: in (*glyf.Outlines).GlyphBBoxPDF the font matrix is applied to all four corners of the glyph's box — the (x, y) argument pairs of the Apply calls, traced back through conversions and the corner table to the fields they come from, cover {LLx,URx} x {LLy,URy}")
	fn := w.Func("(*glyf.Outlines).GlyphBBoxPDF")
	if fn == nil {
		r.Fatal("(*glyf.Outlines).GlyphBBoxPDF does not resolve")
		return
	}
	// origins of a value: names of rectangle fields it can come from; values
	// that pass through element i of a local table are tagged "i:name"
	isRectField := func(n string) bool { return n == "LLx" || n == "LLy" || n == "URx" || n == "URy" }
	var origins func(v ssa.Value, depth int) map[string]bool
	var fieldAt func(addr ssa.Value, f int, depth int) map[string]bool
	var fieldOf func(sv ssa.Value, f int, depth int) map[string]bool
	baseOf := func(v ssa.Value) ssa.Value {
		if sl, ok := v.(*ssa.Slice); ok {
			return sl.X
		}
		return v
	}
	tag := func(idx ssa.Value, m map[string]bool) map[string]bool {
		c, ok := bconstInt(idx)
		if !ok {
			return m
		}
		out := map[string]bool{}
		for k := range m {
			if strings.Contains(k, ":") {
				out[k] = true
			} else {
				out[fmt.Sprintf("%d:%s", c, k)] = true
			}
		}
		return out
	}
	merge := func(dst, src map[string]bool) {
		for k := range src {
			dst[k] = true
		}
	}
	fieldOf = func(sv ssa.Value, f int, depth int) map[string]bool {
		out := map[string]bool{}
		if depth > 10 {
			return out
		}
		switch x := sv.(type) {
		case *ssa.UnOp:
			if x.Op == token.MUL {
				merge(out, fieldAt(x.X, f, depth+1))
			}
		case *ssa.Phi:
			for _, e := range x.Edges {
				merge(out, fieldOf(e, f, depth+1))
			}
		}
		return out
	}
	fieldAt = func(addr ssa.Value, f int, depth int) map[string]bool {
		out := map[string]bool{}
		if depth > 10 {
			return out
		}
		switch a := addr.(type) {
		case *ssa.Alloc:
			for _, b := range fn.Blocks {
				for _, in := range b.Instrs {
					st, ok := in.(*ssa.Store)
					if !ok {
						continue
					}
					if st.Addr == ssa.Value(a) {
						merge(out, fieldOf(st.Val, f, depth+1))
					}
					if fa, ok := st.Addr.(*ssa.FieldAddr); ok && fa.X == ssa.Value(a) && fa.Field == f {
						merge(out, origins(st.Val, depth+1))
					}
				}
			}
		case *ssa.IndexAddr:
			base := baseOf(a.X)
			for _, b := range fn.Blocks {
				for _, in := range b.Instrs {
					st, ok := in.(*ssa.Store)
					if !ok {
						continue
					}
					if ia, ok := st.Addr.(*ssa.IndexAddr); ok && baseOf(ia.X) == base {
						merge(out, tag(ia.Index, fieldOf(st.Val, f, depth+1)))
					}
					if fa, ok := st.Addr.(*ssa.FieldAddr); ok && fa.Field == f {
						if ia, ok := fa.X.(*ssa.IndexAddr); ok && baseOf(ia.X) == base {
							merge(out, tag(ia.Index, origins(st.Val, depth+1)))
						}
					}
				}
			}
		}
		return out
	}
	origins = func(v ssa.Value, depth int) map[string]bool {
		out := map[string]bool{}
		if depth > 10 {
			return out
		}
		switch x := v.(type) {
		case *ssa.Convert:
			merge(out, origins(x.X, depth+1))
		case *ssa.ChangeType:
			merge(out, origins(x.X, depth+1))
		case *ssa.Phi:
			for _, e := range x.Edges {
				merge(out, origins(e, depth+1))
			}
		case *ssa.Field:
			st := x.X.Type().Underlying().(*types.Struct)
			if n := st.Field(x.Field).Name(); isRectField(n) {
				out[n] = true
			} else {
				merge(out, fieldOf(x.X, x.Field, depth+1))
			}
		case *ssa.UnOp:
			if x.Op != token.MUL {
				break
			}
			if fa, ok := x.X.(*ssa.FieldAddr); ok {
				if n := fieldName(fa); isRectField(n) {
					out[n] = true
				} else {
					merge(out, fieldAt(fa.X, fa.Field, depth+1))
				}
			}
		}
		return out
	}
	combos := map[string]bool{}
	calls := 0
	var pos token.Pos
	for _, b := range fn.Blocks {
		for _, in := range b.Instrs {
			c, ok := in.(*ssa.Call)
			if !ok {
				continue
			}
			cal := c.Call.StaticCallee()
			if cal == nil || cal.Name() != "Apply" || len(c.Call.Args) != 3 {
				continue
			}
			calls++
			pos = c.Pos()
			xs, ys := origins(c.Call.Args[1], 0), origins(c.Call.Args[2], 0)
			// table form: "i:field" entries pair up by i; direct form: plain names
			for x := range xs {
				for y := range ys {
					xi, xf := splitIdx(x)
					yi, yf := splitIdx(y)
					if xi == yi {
						combos[xf+"/"+yf] = true
					}
				}
			}
		}
	}
	key := r.MkKey("bboxcorners", fnName(fn), "corners transformed")
	var missing []string
	for _, c := range []string{"LLx/LLy", "URx/LLy", "URx/URy", "LLx/URy"} {
		if !combos[c] {
			missing = append(missing, c)
		}
	}
	switch {
	case calls == 0:
		r.Fail("bboxcorners", key, w.Pos(fn.Pos()), "no application of the font matrix found", nil)
	case len(missing) > 0:
		r.Fail("bboxcorners", key, w.Pos(pos), "the font matrix is not applied to the corner(s) "+strings.Join(missing, ", ")+" of the glyph's box: for a matrix that rotates or shears (an oblique font) the box around the transformed opposite corners does not contain the glyph", nil)
	default:
		r.OK("bboxcorners", key, w.Pos(pos), "all four corners are transformed")
	}
	r.Floor("bboxcorners", 1)
}

func splitIdx(s string) (string, string) {
	if i := strings.Index(s, ":"); i >= 0 {
		return s[:i], s[i+1:]
	}
	return "", s
}

// extremumDomain transcribes the OpenType definitions of the derived hhea
// fields: advanceWidthMax is the maximum over all entries of hmtx;
// minLeftSideBearing, minRightSideBearing and xMaxExtent are taken over the
// glyphs that have contours only.
var extremumDomain = map[string]bool{ // field -> "blank glyphs are skipped"
	"AdvanceWidthMax":     false,
	"MinLeftSideBearing":  true,
	"MinRightSideBearing": true,
	"XMaxExtent":          true,
}

// checkExtremumDomain: which elements take part in a running extremum.  The
// update block is control-dependent, inside the loop, on the comparison with
// the running value (and the `first` flag); any further condition skips
// elements.  advanceWidthMax must have none, the side-bearing extrema must
// skip glyphs whose extent IsZero().
func checkExtremumDomain(w *World, r *Report, fn *ssa.Function, loops []*natLoop, b *ssa.BasicBlock, st *ssa.Store, fa *ssa.FieldAddr, cmpGuard *ssa.BinOp) {
	name := fieldName(fa)
	wantSkip, known := extremumDomain[name]
	if !known {
		return
	}
	var loop *natLoop
	for _, l := range loops {
		if l.body[b] && (loop == nil || len(l.body) < len(loop.body)) {
			loop = l
		}
	}
	if loop == nil {
		return
	}
	ci := ctrlDeps(fn)
	var skips []string
	blank := false
	for _, d := range ci.dep[b] {
		if !loop.body[d] || d == loop.head {
			continue
		}
		ifi, ok := d.Instrs[len(d.Instrs)-1].(*ssa.If)
		if !ok || ifi.Cond == ssa.Value(cmpGuard) {
			continue
		}
		// the `first` flag: a boolean that is not computed from data
		if isLocalBool(ifi.Cond) {
			continue
		}
		// a nil test of a loop-invariant slice decides nothing per element
		if bo, ok := ifi.Cond.(*ssa.BinOp); ok && (isNilConst(bo.X) || isNilConst(bo.Y)) {
			continue
		}
		if call, ok := ifi.Cond.(*ssa.Call); ok && call.Call.StaticCallee() != nil && call.Call.StaticCallee().Name() == "IsZero" {
			blank = true
		}
		skips = append(skips, w.Pos(ifi.Cond.Pos()))
	}
	// the loop ranges over the whole list: its bound is len(x) of a value that
	// is not a proper re-slice x[a:b] (a prefix scan drops the glyphs behind it;
	// for advanceWidthMax a prefix up to the last distinct width is equivalent,
	// for the side bearings it is not: every glyph has its own extent)
	prefix := token.NoPos
	if wantSkip {
		for _, in := range loop.head.Instrs {
			var lenArg ssa.Value
			if c, ok := in.(*ssa.Call); ok {
				if bi, ok := c.Call.Value.(*ssa.Builtin); ok && bi.Name() == "len" {
					lenArg = c.Call.Args[0]
				}
			}
			if lenArg == nil {
				continue
			}
			if sl, ok := lenArg.(*ssa.Slice); ok && (sl.High != nil || sl.Low != nil) {
				prefix = sl.Pos()
			}
		}
		// go/ssa evaluates len(x) of a range loop before the loop
		for _, b := range fn.Blocks {
			for _, in := range b.Instrs {
				c, ok := in.(*ssa.Call)
				if !ok {
					continue
				}
				bi, ok := c.Call.Value.(*ssa.Builtin)
				if !ok || bi.Name() != "len" || c.Referrers() == nil {
					continue
				}
				usedByLoop := false
				for _, ref := range *c.Referrers() {
					if ref.Block() == loop.head {
						usedByLoop = true
					}
				}
				if !usedByLoop {
					continue
				}
				if sl, ok := c.Call.Args[0].(*ssa.Slice); ok && (sl.High != nil || sl.Low != nil) {
					prefix = sl.Pos()
				}
			}
		}
	}
	key := r.MkKey("extremumdomain", fnName(fn), "elements of "+name)
	switch {
	case prefix.IsValid():
		r.Fail("extremumdomain", key, w.Pos(st.Pos()), fmt.Sprintf("%s is taken over a re-sliced part of the glyph list (%s): the glyphs outside it are left out although each has its own extent", name, w.Pos(prefix)), nil)
	case !wantSkip && len(skips) > 0:
		r.Fail("extremumdomain", key, w.Pos(st.Pos()), fmt.Sprintf("%s is defined as the maximum over all entries, but the update is skipped for some elements (condition at %s): an element that is skipped and larger than all others is lost", name, strings.Join(skips, ", ")), nil)
	case wantSkip && !blank:
		r.Fail("extremumdomain", key, w.Pos(st.Pos()), fmt.Sprintf("%s is defined over the glyphs that have contours, but no test of an empty extent (IsZero) guards the update: blank glyphs take part", name), nil)
	default:
		r.OK("extremumdomain", key, w.Pos(st.Pos()), "the elements that take part are those of the definition")
	}
}

func isLocalBool(v ssa.Value) bool {
	switch x := v.(type) {
	case *ssa.Phi:
		for _, e := range x.Edges {
			if _, ok := e.(*ssa.Const); !ok && e != ssa.Value(x) {
				if p2, ok := e.(*ssa.Phi); !ok || !isLocalBool(p2) {
					return false
				}
			}
		}
		return true
	case *ssa.UnOp:
		if al, ok := x.X.(*ssa.Alloc); ok && x.Op == token.MUL {
			_ = al
			b, ok := x.Type().Underlying().(*types.Basic)
			return ok && b.Kind() == types.Bool
		}
	}
	return false
}
