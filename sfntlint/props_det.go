package main

import (
	"go/ast"
	"go/token"
	"go/types"
	"sort"
	"strings"

	"golang.org/x/tools/go/ssa"
	"golang.org/x/tools/go/types/typeutil"
)

// srcFuncsReachable returns the functions with source (module + same-author
// dependencies) reachable from the entries, in a stable order.
func srcFuncsReachable(w *World, entries []*ssa.Function) []*ssa.Function {
	reach := w.Reachable(entries)
	var res []*ssa.Function
	for fn := range reach {
		if fn.Syntax() == nil || fn.Synthetic != "" {
			continue
		}
		p := fnPkgPath(fn)
		if !(isModPkg(p) || isDepPkg(p)) {
			continue
		}
		if isGenericOrigin(fn) {
			continue
		}
		res = append(res, fn)
	}
	sort.Slice(res, func(i, j int) bool {
		pi, pj := w.Fset.Position(res[i].Pos()), w.Fset.Position(res[j].Pos())
		if pi.Filename != pj.Filename {
			return pi.Filename < pj.Filename
		}
		if pi.Offset != pj.Offset {
			return pi.Offset < pj.Offset
		}
		return fnName(res[i]) < fnName(res[j])
	})
	// de-duplicate instances of the same generic source function
	seen := map[string]bool{}
	out := res[:0]
	for _, f := range res {
		k := w.Pos(f.Pos()) + "|" + f.Name()
		if f.Origin() != nil {
			k = w.Pos(f.Pos()) + "|" + f.Origin().Name()
		}
		if seen[k] {
			continue
		}
		seen[k] = true
		out = append(out, f)
	}
	return out
}

func init() {
	properties["C01"] = propC01
}

func propC01(w *World, r *Report) {
	defer RunEmptyTableGate(w, r)
	defer RunNonNilTable(w, r)
	defer RunTimeCarry(w, r)
	defer RunNameEncodingID(w, r) // the strings of the name table come back: the writer uses an encoding id the reader decodes
	defer func() {
		r.Rule("macroman1 (shared with C03, C14): post format 1.0, which stores no glyph names, is chosen only for exactly the standard name list")
		checkMacRoman1(w, r)
	}()
	e := NewEffects(w)
	entries := mustFuncs(w, r, "(*sfnt.Font).Write", "(*sfnt.Font).WriteTrueTypePDF", "(*sfnt.Font).WriteOpenTypeCFFPDF", "sfnt.Read")
	fns := srcFuncsReachable(w, entries)
	r.Scope["entry_points"] = len(entries)
	r.Scope["reachable_source_functions"] = len(fns)
	r.Rule("mapdet: every range over a map, maps.Keys/Values result, clock read, random source, go statement or select reachable from the writers is order-insensitive by a recognised pattern (keyed store with index injective in the map key, idempotent constant store, commutative integer reduction, min/max, collect-then-sort with a comparator that is total on the collected keys, deletion of the current key) and contains no call with side effects")
	r.Conds["name-single-language"] = condNameSingleLanguage(w, fns)
	RunSizeAgree(w, r, nil)
	RunMapdet(w, e, r, "mapdet", fns)
	r.Floor("mapdet", 20)
	RunMapdetControls(r)
	for _, a := range boundsAssumptions {
		r.Assumes(a)
	}
	RunLosslessFor(w, r, "C01", newBoundsRun(w))
	RunSearchFields(w, r, nil)
	r.Floor("searchfields", 9)
	RunFontCarry(w, r)
	r.Floor("fontcarry", 40)
	var otFns []*ssa.Function
	for _, f := range w.LibFuncs() {
		if strings.Contains(fnPkgPath(f), "/opentype/") && !strings.Contains(fnPkgPath(f), "/builder") {
			otFns = append(otFns, f)
		}
	}
	RunStrictChoice(w, r, otFns, newBoundsRun(w))
	r.Floor("strictchoice", 1)
}

// condNameSingleLanguage: every call of (*name.Info).Encode in the given
// functions passes an Info literal whose Mac and Windows tables have exactly
// one language each, so the two language loops of name.Encode make at most
// one pass that adds strings.
func condNameSingleLanguage(w *World, fns []*ssa.Function) func() (bool, string) {
	return func() (bool, string) {
		enc := w.Func("(*name.Info).Encode")
		if enc == nil {
			return false, "(*name.Info).Encode does not resolve"
		}
		n := 0
		for _, fn := range fns {
			body, _ := funcBody(fn)
			info := w.Info(fn)
			if body == nil || info == nil {
				continue
			}
			bad := ""
			ast.Inspect(body, func(nd ast.Node) bool {
				call, ok := nd.(*ast.CallExpr)
				if !ok {
					return true
				}
				callee, _ := typeutil.Callee(info, call).(*types.Func)
				if callee == nil || w.Prog.FuncValue(callee) != enc {
					return true
				}
				n++
				sel := call.Fun.(*ast.SelectorExpr)
				id, ok := sel.X.(*ast.Ident)
				if !ok {
					bad = "receiver of name.Info.Encode is not a local variable in " + fnName(fn)
					return true
				}
				obj := info.ObjectOf(id)
				var lit *ast.CompositeLit
				assigns := 0
				ast.Inspect(body, func(m ast.Node) bool {
					switch as := m.(type) {
					case *ast.AssignStmt:
						for i, l := range as.Lhs {
							if c := baseIdentObj(info, l); c == obj {
								assigns++
								if lid, ok := l.(*ast.Ident); ok && info.ObjectOf(lid) == obj && i < len(as.Rhs) {
									e := as.Rhs[i]
									if u, ok := e.(*ast.UnaryExpr); ok && u.Op == token.AND {
										e = u.X
									}
									lit, _ = e.(*ast.CompositeLit)
								}
							}
						}
					}
					return true
				})
				if lit == nil || assigns != 1 {
					bad = "name.Info passed to Encode in " + fnName(fn) + " is not a single composite literal"
					return true
				}
				for _, el := range lit.Elts {
					kv, ok := el.(*ast.KeyValueExpr)
					if !ok {
						bad = "unkeyed name.Info literal"
						continue
					}
					k := kv.Key.(*ast.Ident).Name
					if k != "Mac" && k != "Windows" {
						continue
					}
					tl, ok := kv.Value.(*ast.CompositeLit)
					if !ok || len(tl.Elts) > 1 {
						bad = "name.Info." + k + " in " + fnName(fn) + " is not a literal with at most one language"
					}
				}
				return true
			})
			if bad != "" {
				return false, bad
			}
		}
		if n == 0 {
			return false, "no call of (*name.Info).Encode found in the entry set"
		}
		return true, ""
	}
}

func baseIdentObj(info *types.Info, e ast.Expr) types.Object {
	for {
		switch x := e.(type) {
		case *ast.Ident:
			return info.ObjectOf(x)
		case *ast.SelectorExpr:
			e = x.X
		case *ast.IndexExpr:
			e = x.X
		case *ast.StarExpr:
			e = x.X
		case *ast.ParenExpr:
			e = x.X
		default:
			return nil
		}
	}
}

const mapdetRuleText = "mapdet: every range over a map, maps.Keys/Values result, clock read, random source, go statement or select reachable from the entry set is order-insensitive by a recognised pattern (keyed store with index injective in the map key, idempotent constant store, commutative integer reduction, (filtered) min/max, collect-then-sort with an unconditional sort whose comparator is total on the collected keys, per-cell collection whose every consumer is order-insensitive, deletion of the current key) and contains no call with side effects on outer state"

// detEntries lists, per property, the API entry points whose results must not
// depend on iteration order / clock / schedule.
var detEntries = map[string][]string{
	"C07": {"(*opentype/gtab.Context).Apply", "(*sfnt.Layouter).Layout", "opentype/gtab.NewContext", "(*sfnt.Font).NewLayouter", "(*opentype/gtab.Info).FindLookups"},
	"C08": {"(*opentype/gtab.Info).Encode", "opentype/gtab.Read", "(*opentype/gdef.Table).Encode", "opentype/gdef.Read",
		"(opentype/coverage.Table).Encode", "(opentype/coverage.Table).EncodeLen", "opentype/coverage.Read",
		"(opentype/coverage.Set).ToTable", "opentype/coverage.ReadSet",
		"(opentype/classdef.Table).Append", "(opentype/classdef.Table).AppendLen", "opentype/classdef.Read"},
	"C09": {"cmap.Decode", "(cmap.Table).Encode", "(cmap.Table).Get", "(cmap.Table).GetNoLang", "(cmap.Table).GetBest",
		"(cmap.Format4).Encode", "(cmap.Format12).Encode", "(*cmap.Format0).Encode", "(*sfnt.Font).InstallCMap"},
	"C13": {"(*cff.Font).Write", "cff.Read"},
	"C15": {"(*opentype/gtab.Info).FindLookups", "(*sfnt.Font).NewLayouter", "(*sfnt.Layouter).Layout", "sfnt.standardLigatures", "sfnt.Read", "kern.Read", "(kern.Info).Encode"},
	"C20": {"(*sfnt.Font).MakeGlyphNames", "(*sfnt.Font).EnsureGlyphNames", "(*cff.Outlines).MakeSimple", "(*sfnt.Font).PostScriptName"},
}

// runDet runs the determinism clause of a property.
func runDet(w *World, r *Report, e *Effects, prop string) []*ssa.Function {
	entries := mustFuncs(w, r, detEntries[prop]...)
	fns := srcFuncsReachable(w, entries)
	r.Scope["mapdet_entry_points"] = len(entries)
	r.Scope["mapdet_reachable_source_functions"] = len(fns)
	r.Rule(mapdetRuleText)
	RunMapdet(w, e, r, "mapdet", fns)
	return fns
}
