package main

import (
	"flag"
	"fmt"
	"os"
	"sort"
	"strconv"
	"strings"
)

type propFunc func(w *World, r *Report)

var properties = map[string]propFunc{}

var proverProps = map[string]bool{"C02": true, "C05": true}

func main() {
	prop := flag.String("property", "", "property id (C01..C20)")
	tier := flag.String("tier", "quick", "quick|thorough")
	repo := flag.String("repo", "/repo", "tree to analyse")
	verif := flag.String("verif", "/verif", "verification directory")
	explain := flag.String("explain", "", "re-print a replay artefact")
	debug := flag.String("debug", "", "debug dump (internal)")
	flag.Parse()

	if *explain != "" {
		b, err := os.ReadFile(*explain)
		if err != nil {
			fmt.Println(err)
			os.Exit(2)
		}
		fmt.Printf("%s\n", b)
		fmt.Println("re-run `./check " + *prop + " quick` to re-decide the obligation against the current tree")
		return
	}
	if *debug != "" {
		minLib := 22
		if os.Getenv("SFNT_MINLIB") != "" {
			minLib = 1
		}
		w, err := LoadDir(*repo, "", false, minLib)
		if err != nil {
			fmt.Println("load:", err)
			os.Exit(2)
		}
		debugDump(w, *debug, flag.Args())
		return
	}
	if *prop == "all" || strings.Contains(*prop, ",") {
		// sweep mode (checker self-tests only, never registered as a check):
		// one load, several properties, one summary line per property
		var ids []string
		if *prop == "all" {
			for k := range properties {
				ids = append(ids, k)
			}
		} else {
			ids = strings.Split(*prop, ",")
		}
		sort.Strings(ids)
		w, err := Load(*repo, "", false)
		if err != nil {
			fmt.Println("SWEEP load-failed:", err)
			os.Exit(3)
		}
		worst := 0
		for _, id := range ids {
			pf, ok := properties[id]
			if !ok {
				continue
			}
			r := NewReport(id, *tier, *verif)
			r.W = w
			r.Variants = append(r.Variants, "native/"+w.CGKind)
			runSafely(pf, w, r)
			rc := r.Finish(0)
			fmt.Printf("SWEEP %s exit=%d\n", id, rc)
			if rc > worst {
				worst = rc
			}
		}
		os.Exit(worst)
	}
	pf, ok := properties[*prop]
	if !ok {
		var ids []string
		for k := range properties {
			ids = append(ids, k)
		}
		sort.Strings(ids)
		fmt.Println("unknown property; have:", strings.Join(ids, " "))
		os.Exit(2)
	}
	seed, _ := strconv.Atoi(os.Getenv("VERIF_SEED"))
	r := NewReport(*prop, *tier, *verif)
	type variant struct {
		arch string
		cha  bool
	}
	variants := []variant{{"", false}}
	// The prover-based properties analyse 64-bit arithmetic (assumption A1)
	// and identify memory loads through callee write sets; the coarser CHA
	// graph only loses identifications and GOARCH=386 would change the
	// meaning of int.  Their thorough tier goes deeper in other ways (wider
	// entry set, re-encoding panics, mutant self-test).
	if *tier == "thorough" && !proverProps[*prop] {
		// (a CHA call graph was tried as a second variant: it only widens
		// reachability with infeasible edges — e.g. the lookup DSL parser
		// becomes "reachable" from Font.Write — and produced false alarms)
		// (GOARCH=386 was tried as well: the repository does not type-check
		// there — cmap.go compares len(data) with math.MaxUint32 — so there
		// is nothing to analyse.)
		_ = variant{"386", false}
	}
	for _, v := range variants {
		w, err := Load(*repo, v.arch, v.cha)
		if err != nil {
			r.Fatal("cannot load %s (GOARCH=%q): %v", *repo, v.arch, err)
			continue
		}
		r.W = w
		name := "native/" + w.CGKind
		if v.arch != "" {
			name = v.arch + "/" + w.CGKind
		}
		r.Variants = append(r.Variants, name)
		r.keyCount = map[string]int{}
		if len(r.Variants) > 1 {
			// later variants re-decide the same obligations; keep only new outcomes
			sub := NewReport(*prop, *tier, *verif)
			sub.W = w
			runSafely(pf, w, sub)
			r.merge(sub, name)
		} else {
			runSafely(pf, w, r)
		}
	}
	os.Exit(r.Finish(seed))
}

func runSafely(pf propFunc, w *World, r *Report) {
	defer func() {
		if x := recover(); x != nil {
			r.Fatal("engine panic: %v", x)
		}
	}()
	pf(w, r)
}

// merge folds the result of an additional load variant into r: obligations
// with a worse status, or keys not seen before, are added.
func (r *Report) merge(sub *Report, variant string) {
	have := map[string]string{}
	for _, o := range r.Obls {
		have[o.Key] = o.Status
	}
	for _, o := range sub.Obls {
		st, ok := have[o.Key]
		if !ok {
			o.How = strings.TrimSpace(o.How + " [" + variant + "]")
			r.Obls = append(r.Obls, o)
			r.Counts[o.Rule]++
			continue
		}
		if st != StViolation && o.Status == StViolation {
			o.Detail += " [" + variant + "]"
			o.Key += "|" + variant
			r.Obls = append(r.Obls, o)
		}
	}
	for _, f := range sub.fatal {
		r.fatal = append(r.fatal, "["+variant+"] "+f)
	}
	for k, v := range sub.Scope {
		r.Scope[variant+":"+k] = v
	}
	// floors are checked per variant
	for rule, fl := range sub.Floors {
		if sub.Counts[rule] < fl {
			r.fatal = append(r.fatal, fmt.Sprintf("[%s] rule %s matched %d instances, below floor %d", variant, rule, sub.Counts[rule], fl))
		}
	}
}

// mustFuncs resolves entry functions; unresolved anchors are fatal.
func mustFuncs(w *World, r *Report, names ...string) []*ssaFn {
	var res []*ssaFn
	for _, n := range names {
		f := w.Func(n)
		if f == nil {
			r.Fatal("anchor function %q does not resolve in the analysed tree", n)
			continue
		}
		res = append(res, f)
	}
	return res
}
