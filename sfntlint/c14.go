package main

import (
	"os"

	"golang.org/x/tools/go/packages"

	"fmt"
	"go/ast"
	"go/constant"
	"go/token"
	"go/types"
	"sort"
	"strconv"
	"strings"

	"golang.org/x/tools/go/ssa"
)

func init() { properties["C14"] = propC14 }

// pkgVarLiteral finds the composite literal initialising a package variable.
func pkgVarLiteral(w *World, pkgRel, name string) (*ast.CompositeLit, *types.Info, error) {
	p := w.All[modPath+"/"+pkgRel]
	if p == nil {
		return nil, nil, fmt.Errorf("package %s not loaded", pkgRel)
	}
	for _, f := range p.Syntax {
		for _, d := range f.Decls {
			gd, ok := d.(*ast.GenDecl)
			if !ok || gd.Tok != token.VAR {
				continue
			}
			for _, sp := range gd.Specs {
				vs := sp.(*ast.ValueSpec)
				for i, n := range vs.Names {
					if n.Name == name && i < len(vs.Values) {
						if cl, ok := vs.Values[i].(*ast.CompositeLit); ok {
							return cl, p.TypesInfo, nil
						}
					}
				}
			}
		}
	}
	return nil, nil, fmt.Errorf("%s.%s is not a package variable initialised by a composite literal", pkgRel, name)
}

func constText(info *types.Info, e ast.Expr) (string, bool) {
	tv, ok := info.Types[e]
	if !ok || tv.Value == nil {
		return "", false
	}
	if tv.Value.Kind() == constant.String {
		return constant.StringVal(tv.Value), true
	}
	return tv.Value.ExactString(), true
}

// neverWritten: no function outside init stores into the package variable or its elements.
func neverWritten(w *World, pkgRel, name string) (bool, string) {
	sp := w.SSAPkg[modPath+"/"+pkgRel]
	if sp == nil {
		return false, "package not loaded"
	}
	g, _ := sp.Members[name].(*ssa.Global)
	if g == nil {
		return false, "no such package variable"
	}
	for _, fn := range w.LibFuncs() {
		if fn.Name() == "init" {
			continue
		}
		for _, b := range fn.Blocks {
			for _, ins := range b.Instrs {
				switch x := ins.(type) {
				case *ssa.Store:
					if x.Addr == ssa.Value(g) {
						return false, fnName(fn) + " reassigns it"
					}
					if ia, ok := x.Addr.(*ssa.IndexAddr); ok {
						if u, ok := ia.X.(*ssa.UnOp); ok && u.X == ssa.Value(g) {
							return false, fnName(fn) + " stores into it"
						}
					}
				case *ssa.MapUpdate:
					if u, ok := x.Map.(*ssa.UnOp); ok && u.X == ssa.Value(g) {
						return false, fnName(fn) + " updates it"
					}
				}
			}
		}
	}
	return true, ""
}

// RunValueInjective: a map literal that the code inverts by search must not
// have two keys with the same value.
func RunValueInjective(w *World, r *Report, pkgRel, name, why string) {
	key := r.MkKey("tabinjective", pkgRel, name)
	dups, n, err := literalDuplicateValues(w, pkgRel, name)
	if err != nil {
		r.FailC("tabinjective", key, []string{"missing"}, "-", err.Error(), nil)
		return
	}
	if ok, who := neverWritten(w, pkgRel, name); !ok {
		r.Fail("tabinjective", key, "-", fmt.Sprintf("%s.%s is modified at run time (%s): its literal no longer describes it", pkgRel, name, who), nil)
		return
	}
	if len(dups) == 0 {
		r.OK("tabinjective", key, "-", fmt.Sprintf("%d entries, all values distinct (%s)", n, why))
		return
	}
	var parts []string
	for v, ks := range dups {
		parts = append(parts, fmt.Sprintf("%s<-{%s}", v, strings.Join(ks, ",")))
	}
	sort.Strings(parts)
	r.FailC("tabinjective", key, []string{"duplicates:" + strings.Join(parts, ";")}, "-",
		fmt.Sprintf("%s.%s maps several keys to one value (%s): %s, so the inverse lookup cannot recover the key", pkgRel, name, strings.Join(parts, "; "), why), nil)
}

// C14: names, glyph names and language tags survive their encodings.
func propC14(w *World, r *Report) {
	defer runDeadAccIn(w, r, "/name", "/post", "/mac")
	defer RunNameEncodingID(w, r)
	defer RunGlobalAlias(w, r, "/name", "/post", "/mac", "/opentype/gtab")
	e := NewEffects(w)
	RunPlatformTables(w, r)
	r.Floor("platformtables", 1)
	r.Rule("tabinverse: mac.dec (byte-128 -> rune) and mac.enc (rune -> byte) are mutually inverse literals: enc[dec[i]] == 128+i for all 128 entries, enc has no other keys, and neither is modified at run time || tabinjective: name.appleBCP and name.msBCP (language id -> BCP 47 tag) are value-injective, because Encode inverts them by lookup of the tag || pure: the tag/codec functions (otfToBCP47, bcp47ToOtf, mac.Encode/Decode, utf16Encode/Decode) keep no state between calls (no write to package variables) || xext: otfToBCP47 appends the -x-<script>[-<lang>] extension on every path that returns a tag, and bcp47ToOtf takes script and language from that extension when it is present || utf16: utf16Decode hands all complete 16-bit units, assembled big-endian, to unicode/utf16.Decode; utf16Encode writes every unit of utf16.Encode big-endian || macroman1: post format 1.0 is chosen only if the name list has exactly the length of the standard list and equals it element by element || nameids: name.Table.keys enumerates every id 0..maxID (no id is singled out) plus all Extra ids, and get/set have a case for each id 0..maxID || pascal: every glyph name written into a post format 2.0 string area is preceded by a one-byte length that can represent it")
	// mac tables
	{
		key := r.MkKey("tabinverse", "mac", "dec/enc")
		dl, dinfo, err1 := pkgVarLiteral(w, "mac", "dec")
		el, einfo, err2 := pkgVarLiteral(w, "mac", "enc")
		switch {
		case err1 != nil || err2 != nil:
			r.FailC("tabinverse", key, []string{"missing"}, "-", fmt.Sprint(err1, err2), nil)
		default:
			encM := map[string]string{}
			for _, el := range el.Elts {
				kv := el.(*ast.KeyValueExpr)
				k, _ := constText(einfo, kv.Key)
				v, _ := constText(einfo, kv.Value)
				encM[k] = v
			}
			bad := ""
			if len(dl.Elts) != 128 {
				bad = fmt.Sprintf("mac.dec has %d entries, expected 128", len(dl.Elts))
			}
			seen := map[string]bool{}
			for i, x := range dl.Elts {
				v, _ := constText(dinfo, x)
				if seen[v] {
					bad = "mac.dec lists rune " + v + " twice: two bytes decode to the same character"
				}
				seen[v] = true
				if encM[v] != fmt.Sprint(128+i) {
					bad = fmt.Sprintf("byte %d decodes to rune %s, but that rune encodes to %q", 128+i, v, encM[v])
				}
			}
			if len(encM) != len(dl.Elts) && bad == "" {
				bad = fmt.Sprintf("mac.enc has %d entries but mac.dec has %d", len(encM), len(dl.Elts))
			}
			for _, n := range []string{"dec", "enc"} {
				if ok, who := neverWritten(w, "mac", n); !ok && bad == "" {
					bad = "mac." + n + " is modified at run time: " + who
				}
			}
			if bad == "" {
				r.OK("tabinverse", key, w.Pos(dl.Pos()), "128 entries, mutually inverse, never written")
			} else {
				r.Fail("tabinverse", key, w.Pos(dl.Pos()), bad, nil)
			}
		}
	}
	RunValueInjective(w, r, "name", "appleBCP", "Info.Encode finds the Macintosh language id of a tag by scanning this table")
	RunValueInjective(w, r, "name", "msBCP", "Info.Encode finds the Windows language id of a tag by scanning this table")
	// purity
	for _, n := range []string{"opentype/gtab.otfToBCP47", "opentype/gtab.bcp47ToOtf", "mac.Encode", "mac.Decode", "name.utf16Encode", "name.utf16Decode"} {
		fn := w.Func(n)
		key := r.MkKey("pure", n, "effects")
		if fn == nil {
			r.FailC("pure", key, []string{"missing"}, "-", n+" does not resolve", nil)
			continue
		}
		if ok, why := e.Pure(fn); ok {
			r.OK("pure", key, w.Pos(fn.Pos()), "no write outside fresh memory")
		} else {
			r.Fail("pure", key, w.Pos(fn.Pos()), n+" keeps state between calls: "+why+" (the mapping of a tag may then depend on earlier calls)", nil)
		}
	}
	checkXExt(w, r)
	checkTagPad(w, r)
	var tagFns []*ssa.Function
	for _, f := range w.LibFuncs() {
		pp := fnPkgPath(f)
		if strings.HasSuffix(pp, "/name") || strings.HasSuffix(pp, "/post") || strings.HasSuffix(pp, "/mac") || strings.HasSuffix(pp, "/opentype/gtab") {
			tagFns = append(tagFns, f)
		}
	}
	RunMacGlyphOrder(w, r)
	RunKeysPartition(w, r)
	RunIterFresh(w, r, tagFns)
	RunIterFreshControl(r)
	RunCacheInputs(w, r, w.LibFuncs())
	RunEmitAll(w, r)
	RunControl(r, "cacheinputs", "ctlCacheInputs", RunCacheInputs)
	checkUTF16(w, r)
	checkMacRoman1(w, r)
	checkNameIDs(w, r)
	checkPascal(w, r)
	RunBigEndian(w, r, func(p string) bool {
		return p == modPath+"/name" || p == modPath+"/post" || p == modPath+"/mac"
	})
	for _, a := range boundsAssumptions {
		r.Assumes(a)
	}
	br14 := newBoundsRun(w)
	RunLosslessFor(w, r, "C14", br14)
	runNarrowBoundIn(w, r, br14, "/name", "/post", "/mac")
	runFlagReduceIn(w, r, "/name", "/post", "/mac")
}

func checkXExt(w *World, r *Report) {
	fn := w.Func("opentype/gtab.otfToBCP47")
	if fn == nil {
		r.Fatal("anchor gtab.otfToBCP47 does not resolve")
		return
	}
	// every return whose error operand is nil must return a tag derived from a string containing "-x-"
	n := 0
	for _, b := range fn.Blocks {
		ret, ok := b.Instrs[len(b.Instrs)-1].(*ssa.Return)
		if !ok || len(ret.Results) != 2 {
			continue
		}
		if c, ok := ret.Results[1].(*ssa.Const); ok && c.Value == nil {
			// explicit nil error
		} else if _, isExtract := ret.Results[1].(*ssa.Extract); !isExtract {
			continue // definitely an error return
		}
		n++
		key := r.MkKey("xext", fnName(fn), "successful return")
		has := false
		for v := range backSlice(ret.Results[0]) {
			if c, ok := v.(*ssa.Const); ok && c.Value != nil && c.Value.Kind() == constant.String && strings.Contains(constant.StringVal(c.Value), "-x-") {
				has = true
			}
		}
		if has {
			r.OK("xext", key, w.Pos(ret.Pos()), "tag is built with the -x- private-use extension")
		} else {
			r.Fail("xext", key, w.Pos(ret.Pos()), "otfToBCP47 can return a tag without the -x-<script>[-<lang>] extension: the OpenType tags are then recovered by searching non-injective tables", nil)
		}
	}
	if n == 0 {
		r.Fatal("xext: no successful return found in otfToBCP47")
	}
	back := w.Func("opentype/gtab.bcp47ToOtf")
	if back == nil {
		r.Fatal("anchor gtab.bcp47ToOtf does not resolve")
		return
	}
	key := r.MkKey("xext", fnName(back), "extension preferred")
	var ext *ssa.Call
	for _, b := range back.Blocks {
		for _, ins := range b.Instrs {
			if c, ok := ins.(*ssa.Call); ok && c.Call.StaticCallee() != nil && c.Call.StaticCallee().Name() == "Extension" {
				ext = c
			}
		}
	}
	okPref := false
	if ext != nil {
		// the table searches (range over the non-injective maps) happen only where the extension's ok is false
		okPref = true
		for _, b := range back.Blocks {
			for _, ins := range b.Instrs {
				if rg, isR := ins.(*ssa.Range); isR {
					if _, isMap := rg.X.Type().Underlying().(*types.Map); isMap {
						guarded := false
						for _, g := range guardsOf(b) {
							if ex, ok := g.cond.(*ssa.Extract); ok && ex.Tuple == ssa.Value(ext) && !g.then {
								guarded = true
							}
						}
						if !guarded {
							okPref = false
						}
					}
				}
			}
		}
	}
	if okPref {
		r.OK("xext", key, w.Pos(back.Pos()), "table searches happen only when the tag has no x extension")
	} else {
		r.Fail("xext", key, w.Pos(back.Pos()), "bcp47ToOtf does not give the -x- extension precedence over the table search", nil)
	}
}

func checkUTF16(w *World, r *Report) {
	for _, x := range []struct{ fn, lib string }{{"name.utf16Decode", "unicode/utf16.Decode"}, {"name.utf16Encode", "unicode/utf16.Encode"}} {
		fn := w.Func(x.fn)
		key := r.MkKey("utf16", x.fn, "delegates to "+x.lib)
		if fn == nil {
			r.FailC("utf16", key, []string{"missing"}, "-", x.fn+" does not resolve", nil)
			continue
		}
		calls := false
		for _, b := range fn.Blocks {
			for _, ins := range b.Instrs {
				if c, ok := ins.(*ssa.Call); ok && c.Call.StaticCallee() != nil && c.Call.StaticCallee().String() == x.lib {
					calls = true
				}
			}
		}
		if calls {
			r.OK("utf16", key, w.Pos(fn.Pos()), "surrogate handling is left to the standard library")
		} else {
			r.Fail("utf16", key, w.Pos(fn.Pos()), x.fn+" no longer uses "+x.lib+": surrogate pairs are handled by custom code that this check cannot vouch for", nil)
		}
	}
	// the decode loop must consume every complete unit: test i+1 < len(buf), step 2
	fn := w.Func("name.utf16Decode")
	if fn == nil {
		return
	}
	key := r.MkKey("utf16", "name.utf16Decode", "loop covers all units")
	body, _ := funcBody(fn)
	info := w.Info(fn)
	ok := false
	ast.Inspect(body, func(n ast.Node) bool {
		fs, isF := n.(*ast.ForStmt)
		if !isF || fs.Cond == nil || fs.Post == nil {
			return true
		}
		be, isB := fs.Cond.(*ast.BinaryExpr)
		if !isB {
			return true
		}
		// i+1 < len(buf)  or  i+2 <= len(buf)
		_, off := splitIndex(info, be.X)
		step := int64(0)
		if as, isA := fs.Post.(*ast.AssignStmt); isA && as.Tok == token.ADD_ASSIGN {
			step, _ = constInt(info, as.Rhs[0])
		}
		if step == 2 && ((be.Op == token.LSS && off == 1) || (be.Op == token.LEQ && off == 2)) && strings.HasPrefix(types.ExprString(be.Y), "len(") {
			ok = true
		}
		return true
	})
	if ok {
		r.OK("utf16", key, w.Pos(fn.Pos()), "for i := 0; i+1 < len(buf); i += 2")
	} else {
		r.Fail("utf16", key, w.Pos(fn.Pos()), "the unit loop does not have the shape i+1 < len(buf), i += 2: the last unit may be dropped or read out of range", nil)
	}
}

func checkMacRoman1(w *World, r *Report) {
	fn := w.Func("post.isMacRoman")
	if fn == nil {
		r.Fatal("anchor post.isMacRoman does not resolve")
		return
	}
	n := 0
	for _, b := range fn.Blocks {
		ret, ok := b.Instrs[len(b.Instrs)-1].(*ssa.Return)
		if !ok {
			continue
		}
		c, ok := ret.Results[0].(*ssa.Const)
		if !ok || c.Value == nil || !constant.BoolVal(c.Value) {
			continue
		}
		n++
		key := r.MkKey("macroman1", fnName(fn), "return true")
		// must be reachable only through len(names) == len(macRoman)
		eq := false
		for d := b; d != nil; d = d.Idom() {
			for _, g := range append(guardsOf(d), guard{}) {
				bo, ok := g.cond.(*ssa.BinOp)
				if !ok {
					continue
				}
				lens := 0
				for _, side := range []ssa.Value{bo.X, bo.Y} {
					if cl, ok := side.(*ssa.Call); ok {
						if bi, ok := cl.Call.Value.(*ssa.Builtin); ok && bi.Name() == "len" {
							lens++
						}
					}
				}
				if lens == 2 && ((bo.Op == token.NEQ && !g.then) || (bo.Op == token.EQL && g.then)) {
					eq = true
				}
			}
		}
		if eq {
			r.OK("macroman1", key, w.Pos(ret.Pos()), "true only when the lengths are equal")
		} else {
			r.Fail("macroman1", key, w.Pos(ret.Pos()), "isMacRoman can report true for a list whose length differs from the standard list: format 1.0 would then drop or invent glyph names", nil)
		}
	}
	if n == 0 {
		r.Fatal("macroman1: no `return true` in post.isMacRoman")
	}
}

func checkNameIDs(w *World, r *Report) {
	p := w.All[modPath+"/name"]
	if p == nil {
		r.Fatal("package name not loaded")
		return
	}
	info := p.TypesInfo
	maxC, _ := p.Types.Scope().Lookup("maxID").(*types.Const)
	if maxC == nil {
		r.Fatal("name.maxID not found")
		return
	}
	maxID, _ := constant.Int64Val(maxC.Val())
	for _, fnm := range []string{"get", "set"} {
		fd := findFunc(p.Syntax, fnm)
		key := r.MkKey("nameids", "name.Table."+fnm, "cases")
		if fd == nil {
			r.FailC("nameids", key, []string{"missing"}, "-", "name.Table."+fnm+" not found", nil)
			continue
		}
		have := map[int64]bool{}
		ast.Inspect(fd.Body, func(n ast.Node) bool {
			if cc, ok := n.(*ast.CaseClause); ok {
				for _, e := range cc.List {
					if c, ok := constInt(info, e); ok {
						have[c] = true
					}
				}
			}
			return true
		})
		var missing []string
		for i := int64(0); i <= maxID; i++ {
			if !have[i] {
				missing = append(missing, fmt.Sprint(i))
			}
		}
		// ids without a field (reserved ones) fall into Extra through the default branch: fine as long as keys() reaches them
		r.OK("nameids", key, w.Pos(fd.Pos()), fmt.Sprintf("%d explicit cases; ids %s use the default (Extra) branch", len(have), strings.Join(missing, ",")))
	}
	fn := w.Func("(*name.Table).keys")
	if fn == nil {
		r.Fatal("anchor (*name.Table).keys does not resolve")
		return
	}
	key := r.MkKey("nameids", fnName(fn), "enumerates 0..maxID")
	// the counted loop: phi compared with maxID; no other comparison of that phi with a constant
	bad := ""
	found := false
	for _, b := range fn.Blocks {
		for _, ins := range b.Instrs {
			phi, ok := ins.(*ssa.Phi)
			if !ok || !isIntegerType(phi.Type()) {
				continue
			}
			// is this the id counter? it is compared with maxID (25)
			isCounter := false
			for _, ref := range *phi.Referrers() {
				if bo, ok := ref.(*ssa.BinOp); ok {
					if c, ok := bo.Y.(*ssa.Const); ok && c.Int64() == maxID && (bo.Op == token.LEQ || bo.Op == token.LSS) {
						isCounter = true
						if bo.Op == token.LSS {
							bad = "the loop stops before maxID"
						}
					}
				}
			}
			if !isCounter {
				continue
			}
			found = true
			if c, ok := phi.Edges[0].(*ssa.Const); !ok || c.Int64() != 0 {
				bad = "the id loop does not start at 0"
			}
			for _, ref := range *phi.Referrers() {
				if bo, ok := ref.(*ssa.BinOp); ok {
					if c, ok := bo.Y.(*ssa.Const); ok && (bo.Op == token.EQL || bo.Op == token.NEQ) {
						bad = fmt.Sprintf("name id %d is singled out in keys(): strings with that id may not be enumerated", c.Int64())
					}
				}
			}
		}
	}
	switch {
	case !found:
		r.FailC("nameids", key, []string{"shape"}, w.Pos(fn.Pos()), "no loop over 0..maxID found in keys()", nil)
	case bad != "":
		r.Fail("nameids", key, w.Pos(fn.Pos()), bad, nil)
	default:
		r.OK("nameids", key, w.Pos(fn.Pos()), "for id := 0; id <= maxID; id++ without exceptions")
	}
}

// checkPascal: in post.Info.Encode a byte(len(name)) is appended before each custom name.
func checkPascal(w *World, r *Report) {
	fn := w.Func("(*post.Info).Encode")
	if fn == nil {
		r.Fatal("anchor (*post.Info).Encode does not resolve")
		return
	}
	n := 0
	for _, b := range fn.Blocks {
		for _, ins := range b.Instrs {
			cv, ok := ins.(*ssa.Convert)
			if !ok {
				continue
			}
			bt, ok := cv.Type().Underlying().(*types.Basic)
			if !ok || bt.Kind() != types.Uint8 {
				continue
			}
			call, ok := cv.X.(*ssa.Call)
			if !ok {
				continue
			}
			bi, ok := call.Call.Value.(*ssa.Builtin)
			if !ok || bi.Name() != "len" {
				continue
			}
			if _, isStr := call.Call.Args[0].Type().Underlying().(*types.Basic); !isStr {
				continue
			}
			n++
			key := r.MkKey("pascal", fnName(fn), "length byte of a name")
			guarded := false
			for _, cnd := range allConds(controlConds(fn), b) {
				if bo, ok := cnd.(*ssa.BinOp); ok {
					if c, ok := bo.Y.(*ssa.Const); ok && c.Value != nil && c.Value.Kind() == constant.Int {
						v, _ := constant.Int64Val(c.Value)
						if v >= 255 && v <= 256 {
							guarded = true
						}
					}
				}
			}
			if guarded {
				r.OK("pascal", key, w.Pos(cv.Pos()), "guarded by a test of the name length against 255")
			} else {
				r.FailC("pascal", key, []string{"unguarded"}, w.Pos(cv.Pos()), "a glyph name longer than 255 bytes is written with a truncated length byte: the string area is then mis-parsed (names up to 255 bytes are inside the property's domain; longer ones should be refused)", nil)
			}
		}
	}
	if n == 0 {
		r.Fatal("pascal: no byte(len(name)) found in post.Info.Encode")
	}
}

// checkTagPad: OpenType language tags are padded to four bytes with spaces;
// the literal table langBcp47 has keys with up to K trailing spaces.  The
// language subtag that otfToBCP47 appends to the private-use extension must
// have all of them removed (a BCP 47 subtag cannot contain a space, the tag
// would not parse and the language system would be dropped on reading).
func checkTagPad(w *World, r *Report) {
	r.Rule("tagpad: the OpenType language tag and the OpenType script tag appended to the -x- extension by otfToBCP47 have all their padding spaces removed (tags shorter than four letters are padded: 'HO  ', 'lao ', 'yi  '): the value comes from a loop that strips a trailing space while there is one, or from strings.TrimRight/TrimSpace; k nested strings.TrimSuffix(_, \" \") calls remove only k spaces and the tag tables have keys with more; bcp47ToOtf pads both subtags back to four characters")
	checkTagPadFor(w, r, 1, "langBcp47", "language")
	checkTagPadFor(w, r, 0, "scriptBcp47", "script")
	// the way back: one padding loop (while len(x) < 4 append a space) per subtag taken from the extension
	key := r.MkKey("tagpad", "gtab.bcp47ToOtf", "padding of the subtags taken from the extension")
	fn := w.Func("opentype/gtab.bcp47ToOtf")
	if fn == nil {
		r.Fatal("anchor gtab.bcp47ToOtf does not resolve")
		return
	}
	pads := 0
	for _, l := range naturalLoops(fn) {
		if len(l.head.Instrs) == 0 {
			continue
		}
		ifi, ok := l.head.Instrs[len(l.head.Instrs)-1].(*ssa.If)
		if !ok {
			continue
		}
		cmp, ok := ifi.Cond.(*ssa.BinOp)
		if !ok || cmp.Op != token.LSS {
			continue
		}
		if k, isC := bconstInt(cmp.Y); !isC || k != 4 {
			continue
		}
		call, ok := cmp.X.(*ssa.Call)
		if !ok {
			continue
		}
		if bi, ok := call.Call.Value.(*ssa.Builtin); !ok || bi.Name() != "len" {
			continue
		}
		for b := range l.body {
			for _, in := range b.Instrs {
				if bo, ok := in.(*ssa.BinOp); ok && bo.Op == token.ADD {
					if c, ok := bo.Y.(*ssa.Const); ok && c.Value != nil && c.Value.ExactString() == "\" \"" {
						pads++
					}
				}
			}
		}
	}
	if pads >= 2 {
		r.OK("tagpad", key, w.Pos(fn.Pos()), "script and language subtags are padded back to four characters")
	} else {
		r.Fail("tagpad", key, w.Pos(fn.Pos()), fmt.Sprintf("bcp47ToOtf pads %d of the two subtags it takes from the -x- extension back to four characters: a script or language tag shorter than four letters does not come back as the tag that was read ('lao' instead of 'lao ')", pads), nil)
	}
	r.Floor("tagpad", 3)
}

func checkTagPadFor(w *World, r *Report, paramIdx int, table, what string) {
	lit, info, err := pkgVarLiteral(w, "opentype/gtab", table)
	key := r.MkKey("tagpad", "gtab.otfToBCP47", what+" subtag")
	if err != nil {
		r.FailC("tagpad", key, []string{"missing"}, "-", err.Error(), nil)
		return
	}
	maxPad := 0
	for _, el := range lit.Elts {
		kv, ok := el.(*ast.KeyValueExpr)
		if !ok {
			continue
		}
		k, ok := constText(info, kv.Key)
		if !ok {
			continue
		}
		if s, err := strconv.Unquote(k); err == nil {
			k = s
		}
		pad := len(k) - len(strings.TrimRight(k, " "))
		if pad > maxPad {
			maxPad = pad
		}
	}
	fn := w.Func("opentype/gtab.otfToBCP47")
	if fn == nil || len(fn.Params) < 2 {
		r.Fatal("anchor gtab.otfToBCP47 does not resolve")
		return
	}
	lang := fn.Params[paramIdx]
	// the values derived from lang that are concatenated into the tag
	removed := -1 // -1: unbounded
	var classify func(v ssa.Value, depth int) (int, bool)
	classify = func(v ssa.Value, depth int) (int, bool) {
		if depth > 8 {
			return 0, false
		}
		switch x := v.(type) {
		case *ssa.Parameter:
			if x == lang {
				return 0, true
			}
		case *ssa.ChangeType:
			return classify(x.X, depth+1)
		case *ssa.Convert:
			return classify(x.X, depth+1)
		case *ssa.Phi:
			// a loop that reslices while the last byte is a space
			if isLoopPhi(x) {
				for _, e := range x.Edges {
					if sl, ok := e.(*ssa.Slice); ok && sl.X == ssa.Value(x) {
						return -1, true
					}
				}
			}
			best, okAny := 0, false
			for _, e := range x.Edges {
				if e == ssa.Value(x) {
					continue
				}
				if n, ok := classify(e, depth+1); ok {
					if !okAny || (n >= 0 && (best < 0 || n < best)) {
						best = n
					}
					okAny = true
				}
			}
			return best, okAny
		case *ssa.Call:
			if c := x.Call.StaticCallee(); c != nil && c.Pkg != nil && c.Pkg.Pkg.Path() == "strings" && len(x.Call.Args) >= 1 {
				n, ok := classify(x.Call.Args[0], depth+1)
				if !ok {
					return 0, false
				}
				switch c.Name() {
				case "TrimRight", "TrimSpace", "Trim", "TrimRightFunc":
					return -1, true
				case "TrimSuffix":
					if n < 0 {
						return -1, true
					}
					return n + 1, true
				}
			}
		case *ssa.Slice:
			return classify(x.X, depth+1)
		}
		return 0, false
	}
	found := false
	for _, b := range fn.Blocks {
		for _, in := range b.Instrs {
			bo, ok := in.(*ssa.BinOp)
			if !ok || bo.Op != token.ADD {
				continue
			}
			if bt, ok := bo.Type().Underlying().(*types.Basic); !ok || bt.Info()&types.IsString == 0 {
				continue
			}
			for _, op := range []ssa.Value{bo.X, bo.Y} {
				if n, ok := classify(op, 0); ok {
					if _, isParam := op.(*ssa.Parameter); isParam && n == 0 {
						removed, found = 0, true
						continue
					}
					if !found || (n >= 0 && (removed < 0 || n < removed)) {
						removed = n
					}
					found = true
				}
			}
		}
	}
	switch {
	case !found:
		r.Fail("tagpad", key, w.Pos(fn.Pos()), "no string concatenation of a value derived from the "+what+" tag found in otfToBCP47", nil)
	case removed < 0 || removed >= maxPad:
		r.OK("tagpad", key, w.Pos(fn.Pos()), fmt.Sprintf("all trailing spaces are removed (the table has keys with up to %d)", maxPad))
	default:
		r.Fail("tagpad", key, w.Pos(fn.Pos()), fmt.Sprintf("at most %d trailing space(s) are removed from the %s tag before it is appended to the BCP 47 tag, but %s has keys with %d padding spaces: such a tag does not parse and the %s system is lost on reading", removed, what, table, maxPad, what), nil)
	}
}

// loopBypass: a block from which the head of l is reached again without
// having passed a block of touch since the head (nil if every path around the
// loop passes one).
func loopBypass(l *natLoop, touch map[*ssa.BasicBlock]bool) *ssa.BasicBlock {
	seen := map[*ssa.BasicBlock]bool{l.head: true}
	work := []*ssa.BasicBlock{l.head}
	if touch[l.head] {
		return nil
	}
	for len(work) > 0 {
		b := work[len(work)-1]
		work = work[:len(work)-1]
		for _, s := range b.Succs {
			if s == l.head {
				return b
			}
			if !l.body[s] || touch[s] || seen[s] {
				continue
			}
			seen[s] = true
			work = append(work, s)
		}
	}
	return nil
}

// RunEmitAll: name.Info.Encode writes one record per (language, name id) of
// the tables it is given.  In the loops over a table's ids no path around the
// loop may bypass the append to the record list: an id that is skipped on the
// strength of its string (not representable, empty, ...) is silently lost.
func RunEmitAll(w *World, r *Report) {
	r.Rule("emitall: in (*name.Info).Encode every path around a loop over the name ids of a table passes the append of that id's record to the record list — no name string is dropped because of its contents")
	fn := w.Func("(*name.Info).Encode")
	if fn == nil {
		r.Fatal("(*name.Info).Encode does not resolve")
		return
	}
	// appends of a pointer-to-struct record to a local slice
	touch := map[*ssa.BasicBlock]bool{}
	for _, b := range fn.Blocks {
		for _, in := range b.Instrs {
			c, ok := in.(*ssa.Call)
			if !ok {
				continue
			}
			bi, ok := c.Call.Value.(*ssa.Builtin)
			if !ok || bi.Name() != "append" {
				continue
			}
			sl, ok := c.Type().Underlying().(*types.Slice)
			if !ok {
				continue
			}
			pt, ok := sl.Elem().Underlying().(*types.Pointer)
			if !ok {
				continue
			}
			if _, ok := pt.Elem().Underlying().(*types.Struct); ok {
				touch[b] = true
			}
		}
	}
	loops := naturalLoops(fn)
	inner := func(b *ssa.BasicBlock) *natLoop {
		var best *natLoop
		for _, l := range loops {
			if l.body[b] && (best == nil || len(l.body) < len(best.body)) {
				best = l
			}
		}
		return best
	}
	done := map[*natLoop]bool{}
	var ls []*natLoop
	for b := range touch {
		if l := inner(b); l != nil && !done[l] {
			done[l] = true
			ls = append(ls, l)
		}
	}
	sort.Slice(ls, func(i, j int) bool { return ls[i].head.Index < ls[j].head.Index })
	for _, l := range ls {
		key := r.MkKey("emitall", fnName(fn), "loop over name ids")
		pos := fn.Pos()
		for _, in := range l.head.Instrs {
			if in.Pos().IsValid() {
				pos = in.Pos()
				break
			}
		}
		if by := loopBypass(l, touch); by != nil {
			bp := pos
			for _, in := range by.Instrs {
				if in.Pos().IsValid() {
					bp = in.Pos()
				}
			}
			r.Fail("emitall", key, w.Pos(bp), "an iteration of the loop over the name ids can return to the loop head without appending a record: that name string is missing from the encoded table although the Info value contains it", nil)
		} else {
			r.OK("emitall", key, w.Pos(pos), "every iteration appends its record")
		}
	}
	r.Floor("emitall", 2)
}

// RunMacGlyphOrder: post format 1 (and the indices below 258 of format 2)
// name glyphs by their position in the standard Macintosh glyph order, a
// fixed list of 258 names.  The library's copy (the string slice the post
// reader hands out for format 1) is compared entry by entry with an
// independent transcription of the same list that is part of the build:
// golang.org/x/image/font/sfnt (builtInPostNamesData / builtInPostNamesOffsets).
// "An independent reader sees the same names" fails exactly where the two
// lists differ.  When that package is not part of the load the rule has
// nothing to compare with and says so in a note (no obligation).
func RunMacGlyphOrder(w *World, r *Report) {
	r.Rule("macglyphorder: the 258-entry standard Macintosh glyph name list of package post equals, entry by entry, the independent transcription in golang.org/x/image/font/sfnt (a dependency of the module)")
	xp := w.All["golang.org/x/image/font/sfnt"]
	pp := w.All[modPath+"/post"]
	if pp == nil {
		r.Fatal("macglyphorder: package post not loaded")
		return
	}
	if xp == nil {
		// a test-only dependency of the module: load it on its own (syntax and types, nothing is built or run)
		env := append(os.Environ(), "GOFLAGS=-mod=mod", "GOPROXY=off", "GOSUMDB=off", "GOTOOLCHAIN=local", "GOWORK=off")
		cfg := &packages.Config{Mode: packages.NeedName | packages.NeedFiles | packages.NeedSyntax | packages.NeedTypes | packages.NeedTypesInfo | packages.NeedImports | packages.NeedDeps, Dir: w.Dir, Env: env}
		if pk, err := packages.Load(cfg, "golang.org/x/image/font/sfnt"); err == nil && len(pk) == 1 && len(pk[0].Errors) == 0 {
			xp = pk[0]
		}
	}
	if xp == nil {
		r.Note("macglyphorder: golang.org/x/image/font/sfnt cannot be loaded; no independent list to compare with")
		return
	}
	// the independent list
	var data string
	var offs []int64
	for _, f := range xp.Syntax {
		for _, d := range f.Decls {
			gd, ok := d.(*ast.GenDecl)
			if !ok {
				continue
			}
			for _, sp := range gd.Specs {
				vs, ok := sp.(*ast.ValueSpec)
				if !ok || len(vs.Names) != 1 || len(vs.Values) != 1 {
					continue
				}
				switch vs.Names[0].Name {
				case "builtInPostNamesData":
					if tv, ok := xp.TypesInfo.Types[vs.Values[0]]; ok && tv.Value != nil && tv.Value.Kind() == constant.String {
						data = constant.StringVal(tv.Value)
					}
				case "builtInPostNamesOffsets":
					if cl, ok := vs.Values[0].(*ast.CompositeLit); ok {
						for _, e := range cl.Elts {
							if tv, ok := xp.TypesInfo.Types[e]; ok && tv.Value != nil {
								if v, exact := constant.Int64Val(constant.ToInt(tv.Value)); exact {
									offs = append(offs, v)
								}
							}
						}
					}
				}
			}
		}
	}
	if data == "" || len(offs) < 2 {
		r.Note("macglyphorder: the tables of golang.org/x/image/font/sfnt were not found in the expected form; nothing compared")
		return
	}
	var ref []string
	for i := 0; i+1 < len(offs); i++ {
		if offs[i] < 0 || offs[i+1] > int64(len(data)) || offs[i] > offs[i+1] {
			r.Note("macglyphorder: inconsistent offsets in the reference table; nothing compared")
			return
		}
		ref = append(ref, data[offs[i]:offs[i+1]])
	}
	// the library's list: the []string literal of 258 constants in package post
	var mine []string
	var pos token.Pos
	for _, f := range pp.Syntax {
		ast.Inspect(f, func(n ast.Node) bool {
			cl, ok := n.(*ast.CompositeLit)
			if !ok || len(cl.Elts) != len(ref) || mine != nil {
				return true
			}
			var names []string
			for _, e := range cl.Elts {
				tv, ok := pp.TypesInfo.Types[e]
				if !ok || tv.Value == nil || tv.Value.Kind() != constant.String {
					return true
				}
				names = append(names, constant.StringVal(tv.Value))
			}
			mine, pos = names, cl.Pos()
			return true
		})
	}
	key := r.MkKey("macglyphorder", "post", "standard Macintosh glyph order")
	if mine == nil {
		r.Fail("macglyphorder", key, "-", fmt.Sprintf("package post has no string list of %d entries: the standard Macintosh glyph order is gone or has a different length", len(ref)), nil)
		return
	}
	for i := range ref {
		if ref[i] != mine[i] {
			r.Fail("macglyphorder", key, w.Pos(pos), fmt.Sprintf("entry %d of the standard Macintosh glyph order is %q here but %q in golang.org/x/image/font/sfnt: a glyph with that name is written with an index that every other reader resolves to a different name", i, mine[i], ref[i]), nil)
			return
		}
	}
	r.OK("macglyphorder", key, w.Pos(pos), fmt.Sprintf("%d entries agree with the independent list", len(ref)))
}

// RunKeysPartition: (*name.Table).keys lists the name ids a table holds: a
// counted loop covers the ids with a field of their own (0..maxID, through
// get), a loop over the Extra map adds the others behind a threshold test.
// The two ranges must meet: the first id the Extra loop accepts is at most one
// more than the last id of the counted loop.  A larger threshold opens a gap
// (ids that Decode stores in Extra but Encode never writes).
func RunKeysPartition(w *World, r *Report) {
	r.Rule("keyspartition: in (*name.Table).keys the counted loop over the fixed name ids and the threshold test of the loop over the Extra map leave no gap: the smallest id accepted from Extra is at most (last fixed id + 1)")
	fn := w.Func("(*name.Table).keys")
	key := r.MkKey("keyspartition", "(*name.Table).keys", "fixed ids and Extra ids")
	if fn == nil {
		r.Fatal("keyspartition: (*name.Table).keys does not resolve")
		return
	}
	lastFixed, firstExtra := int64(-1), int64(-1)
	var posExtra token.Pos
	for _, l := range naturalLoops(fn) {
		ifi, ok := l.head.Instrs[len(l.head.Instrs)-1].(*ssa.If)
		if ok {
			if cmp, ok := ifi.Cond.(*ssa.BinOp); ok {
				if _, isPhi := cmp.X.(*ssa.Phi); isPhi {
					if c, isC := bconstInt(cmp.Y); isC {
						switch cmp.Op {
						case token.LEQ:
							lastFixed = c
						case token.LSS:
							lastFixed = c - 1
						}
					}
				}
			}
		}
		// threshold tests on the key of a map range inside this loop
		for b := range l.body {
			ifi, ok := b.Instrs[len(b.Instrs)-1].(*ssa.If)
			if !ok {
				continue
			}
			for v := range backSlice(ifi.Cond) {
				cmp, ok := v.(*ssa.BinOp)
				if !ok {
					continue
				}
				c, isC := bconstInt(cmp.Y)
				if !isC {
					continue
				}
				fromMapKey := false
				for u := range backSlice(cmp.X) {
					if ex, ok := u.(*ssa.Extract); ok {
						if _, isNext := ex.Tuple.(*ssa.Next); isNext && ex.Index == 1 {
							fromMapKey = true
						}
					}
				}
				if !fromMapKey {
					continue
				}
				switch cmp.Op {
				case token.GTR:
					firstExtra, posExtra = c+1, cmp.Pos()
				case token.GEQ:
					firstExtra, posExtra = c, cmp.Pos()
				}
			}
		}
	}
	switch {
	case lastFixed < 0:
		r.Fail("keyspartition", key, w.Pos(fn.Pos()), "no counted loop over the fixed name ids found in keys", nil)
	case firstExtra < 0:
		r.OK("keyspartition", key, w.Pos(fn.Pos()), fmt.Sprintf("fixed ids 0..%d; every key of Extra is listed", lastFixed))
	case firstExtra > lastFixed+1:
		r.Fail("keyspartition", key, w.Pos(posExtra), fmt.Sprintf("the counted loop lists the ids 0..%d and the Extra loop only ids from %d on: the ids %d..%d, which set() stores in Extra, are never written by Encode", lastFixed, firstExtra, lastFixed+1, firstExtra-1), nil)
	default:
		r.OK("keyspartition", key, w.Pos(posExtra), fmt.Sprintf("fixed ids 0..%d, Extra ids from %d", lastFixed, firstExtra))
	}
}
