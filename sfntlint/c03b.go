package main

import (
	"go/token"
	"go/types"

	"golang.org/x/tools/go/ssa"
)

// checkWriteArgs: what header.Write hands to the destination is, for every
// table, exactly the byte slice the caller supplied — not a re-slice of it.
// Extending the slice into its capacity writes bytes that are not part of
// the table (they need not be zero, so the padding and the checksums are
// wrong); shortening it drops data.  The padding comes from a local array
// that is never written.
func checkWriteArgs(w *World, r *Report) {
	r.Rule("writeargs: every Write of header.Write on the destination passes either a table body exactly as it was taken from the table map (no re-slice: bytes beyond its length are not the table's and need not be zero), a slice of a local array that the function never stores into (the zero padding), or a buffer built in the function")
	fn := w.Func("header.Write")
	if fn == nil {
		r.Fatal("header.Write does not resolve")
		return
	}
	isTableBody := func(v ssa.Value) bool {
		// element of the tables map: a lookup (plain or comma-ok) in a map[string][]byte parameter, or the range value of it
		for d := 0; d < 4; d++ {
			switch x := v.(type) {
			case *ssa.Extract:
				v = x.Tuple
				continue
			case *ssa.Lookup:
				m, ok := x.X.Type().Underlying().(*types.Map)
				if !ok {
					return false
				}
				_, isParam := x.X.(*ssa.Parameter)
				return isParam && isByteSlice(m.Elem())
			case *ssa.Next:
				return true
			}
			return false
		}
		return false
	}
	n := 0
	for _, b := range fn.Blocks {
		for _, in := range b.Instrs {
			c, ok := in.(*ssa.Call)
			if !ok || !c.Call.IsInvoke() || c.Call.Method.Name() != "Write" || len(c.Call.Args) != 1 {
				continue
			}
			if _, isParam := c.Call.Value.(*ssa.Parameter); !isParam {
				continue
			}
			n++
			key := r.MkKey("writeargs", "header.Write", "argument of Write")
			arg := c.Call.Args[0]
			switch x := arg.(type) {
			case *ssa.Slice:
				if isTableBody(x.X) {
					r.Fail("writeargs", key, w.Pos(c.Pos()), "a table body is re-sliced before it is written: bytes beyond the table's length (spare capacity of the caller's slice) are sent to the destination as padding although they need not be zero, or bytes of the table are left out; padding has to come from the zero array", nil)
					continue
				}
				if al, ok := x.X.(*ssa.Alloc); ok {
					// local array: never stored into
					written := false
					for _, ref := range *al.Referrers() {
						switch y := ref.(type) {
						case *ssa.IndexAddr:
							for _, r2 := range *y.Referrers() {
								if st, ok := r2.(*ssa.Store); ok && st.Addr == ssa.Value(y) {
									written = true
								}
							}
						case *ssa.Store:
							if y.Addr == ssa.Value(al) {
								if cst, ok := y.Val.(*ssa.Const); !ok || cst.Value != nil {
									written = true
								}
							}
						}
					}
					if written {
						r.Fail("writeargs", key, w.Pos(c.Pos()), "the padding array is written to: padding bytes must be zero", nil)
					} else {
						r.OK("writeargs", key, w.Pos(c.Pos()), "slice of a local array that is never written (zero padding)")
					}
					continue
				}
				r.OK("writeargs", key, w.Pos(c.Pos()), "slice of a buffer built in the function")
			default:
				if isTableBody(arg) {
					r.OK("writeargs", key, w.Pos(c.Pos()), "the table body as supplied")
				} else if ph, ok := arg.(*ssa.Phi); ok {
					bad := false
					for _, e := range ph.Edges {
						if sl, ok := e.(*ssa.Slice); ok && isTableBody(sl.X) {
							bad = true
						}
					}
					if bad {
						r.Fail("writeargs", key, w.Pos(c.Pos()), "on some path a table body is re-sliced before it is written: bytes beyond the table's length (spare capacity of the caller's slice) are sent to the destination as padding although they need not be zero; padding has to come from the zero array", nil)
					} else {
						r.OK("writeargs", key, w.Pos(c.Pos()), "table body or local buffer on every path")
					}
				} else {
					r.OK("writeargs", key, w.Pos(c.Pos()), "a buffer built in the function")
				}
			}
		}
	}
	_ = token.NoPos
	if n < 3 {
		r.Fail("writeargs", r.MkKey("writeargs", "header.Write", "argument of Write"), w.Pos(fn.Pos()), "fewer than three writes to the destination found (header, table body, padding)", nil)
	}
	r.Floor("writeargs", 3)
}
