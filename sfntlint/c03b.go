package main

import (
	"fmt"
	"go/token"
	"go/types"

	"golang.org/x/tools/go/ssa"
)

// checkWriteArgs: what header.Write hands to the destination is, for every
// table, exactly the byte slice the caller supplied — not a re-slice of it.
// Extending the slice into its capacity writes bytes that are not part of
// the table (they need not be zero, so the padding and the checksums are
// wrong); shortening it drops data.  The padding comes from a local array
// that is never written.
func checkWriteArgs(w *World, r *Report) {
	r.Rule("writeargs: every Write of header.Write on the destination passes either a table body exactly as it was taken from the table map (no re-slice: bytes beyond its length are not the table's and need not be zero), a slice of a local array that the function never stores into (the zero padding), or a buffer built in the function")
	fn := w.Func("header.Write")
	if fn == nil {
		r.Fatal("header.Write does not resolve")
		return
	}
	isTableBody := func(v ssa.Value) bool {
		// element of the tables map: a lookup (plain or comma-ok) in a map[string][]byte parameter, or the range value of it
		for d := 0; d < 4; d++ {
			switch x := v.(type) {
			case *ssa.Extract:
				v = x.Tuple
				continue
			case *ssa.Lookup:
				m, ok := x.X.Type().Underlying().(*types.Map)
				if !ok {
					return false
				}
				_, isParam := x.X.(*ssa.Parameter)
				return isParam && isByteSlice(m.Elem())
			case *ssa.Next:
				return true
			}
			return false
		}
		return false
	}
	n := 0
	for _, b := range fn.Blocks {
		for _, in := range b.Instrs {
			c, ok := in.(*ssa.Call)
			if !ok || !c.Call.IsInvoke() || c.Call.Method.Name() != "Write" || len(c.Call.Args) != 1 {
				continue
			}
			if _, isParam := c.Call.Value.(*ssa.Parameter); !isParam {
				continue
			}
			n++
			key := r.MkKey("writeargs", "header.Write", "argument of Write")
			arg := c.Call.Args[0]
			switch x := arg.(type) {
			case *ssa.Slice:
				if isTableBody(x.X) {
					r.Fail("writeargs", key, w.Pos(c.Pos()), "a table body is re-sliced before it is written: bytes beyond the table's length (spare capacity of the caller's slice) are sent to the destination as padding although they need not be zero, or bytes of the table are left out; padding has to come from the zero array", nil)
					continue
				}
				if al, ok := x.X.(*ssa.Alloc); ok {
					// local array: never stored into
					written := false
					for _, ref := range *al.Referrers() {
						switch y := ref.(type) {
						case *ssa.IndexAddr:
							for _, r2 := range *y.Referrers() {
								if st, ok := r2.(*ssa.Store); ok && st.Addr == ssa.Value(y) {
									written = true
								}
							}
						case *ssa.Store:
							if y.Addr == ssa.Value(al) {
								if cst, ok := y.Val.(*ssa.Const); !ok || cst.Value != nil {
									written = true
								}
							}
						}
					}
					if written {
						r.Fail("writeargs", key, w.Pos(c.Pos()), "the padding array is written to: padding bytes must be zero", nil)
					} else {
						r.OK("writeargs", key, w.Pos(c.Pos()), "slice of a local array that is never written (zero padding)")
					}
					continue
				}
				r.OK("writeargs", key, w.Pos(c.Pos()), "slice of a buffer built in the function")
			default:
				if isTableBody(arg) {
					r.OK("writeargs", key, w.Pos(c.Pos()), "the table body as supplied")
				} else if ph, ok := arg.(*ssa.Phi); ok {
					bad := false
					for _, e := range ph.Edges {
						if sl, ok := e.(*ssa.Slice); ok && isTableBody(sl.X) {
							bad = true
						}
					}
					if bad {
						r.Fail("writeargs", key, w.Pos(c.Pos()), "on some path a table body is re-sliced before it is written: bytes beyond the table's length (spare capacity of the caller's slice) are sent to the destination as padding although they need not be zero; padding has to come from the zero array", nil)
					} else {
						r.OK("writeargs", key, w.Pos(c.Pos()), "table body or local buffer on every path")
					}
				} else {
					r.OK("writeargs", key, w.Pos(c.Pos()), "a buffer built in the function")
				}
			}
		}
	}
	_ = token.NoPos
	if n < 3 {
		r.Fail("writeargs", r.MkKey("writeargs", "header.Write", "argument of Write"), w.Pos(fn.Pos()), "fewer than three writes to the destination found (header, table body, padding)", nil)
	}
	r.Floor("writeargs", 3)
}

// checkReadAtNonEmpty: io.ReaderAt implementations may answer a read of zero
// bytes at the end of the input with io.EOF (bytes.Reader does). A table of
// length 0 that the writer lays out last sits exactly there, so a ReadAt into
// a buffer that can be empty, whose error is passed on unfiltered, turns
// "reading back returns exactly the tables written (any lengths including 0)"
// into an error. Every ReadAt in package header therefore reads into a buffer
// of constant positive length, or its error is compared with io.EOF.
func checkReadAtNonEmpty(w *World, r *Report) {
	r.Rule("readatnonempty: every call of ReadAt on an io.ReaderAt in package header reads into a buffer whose length is a positive constant (a constant-bounds slice of an array or a constant-length make), or the function compares an error with io.EOF: an empty read at the very end of the input may report io.EOF, and a zero-length table lies there")
	n := 0
	for _, fn := range w.LibFuncs() {
		if fnPkgPath(fn) != modPath+"/header" {
			continue
		}
		usesEOF := false
		for _, b := range fn.Blocks {
			for _, in := range b.Instrs {
				for _, op := range in.Operands(nil) {
					if g, ok := (*op).(*ssa.Global); ok && g.Pkg != nil && g.Pkg.Pkg.Path() == "io" && (g.Name() == "EOF" || g.Name() == "ErrUnexpectedEOF") {
						usesEOF = true
					}
				}
			}
		}
		for _, b := range fn.Blocks {
			for _, in := range b.Instrs {
				call, ok := in.(*ssa.Call)
				if !ok {
					continue
				}
				c := call.Common()
				if !c.IsInvoke() || c.Method.Name() != "ReadAt" || len(c.Args) != 2 {
					continue
				}
				n++
				key := r.MkKey("readatnonempty", fnName(fn), "ReadAt")
				if k, ok := constPositiveLen(c.Args[0]); ok {
					r.OK("readatnonempty", key, w.Pos(call.Pos()), fmt.Sprintf("reads %d byte(s)", k))
				} else if usesEOF {
					r.OK("readatnonempty", key, w.Pos(call.Pos()), "the function tells io.EOF from other errors")
				} else {
					r.Fail("readatnonempty", key, w.Pos(call.Pos()), "the buffer handed to ReadAt can be empty and the error is not compared with io.EOF: for a zero-length table at the very end of the file a conforming reader (bytes.Reader) answers io.EOF, and the table that was written does not come back", nil)
				}
			}
		}
	}
	if n == 0 {
		r.Fail("readatnonempty", r.MkKey("readatnonempty", "header", "ReadAt calls"), "-", "no ReadAt call found in package header", nil)
	}
	r.Floor("readatnonempty", 3)
}

// constPositiveLen: the slice value has a constant positive length.
func constPositiveLen(v ssa.Value) (int64, bool) {
	switch x := v.(type) {
	case *ssa.Slice:
		lo := int64(0)
		if x.Low != nil {
			c, ok := x.Low.(*ssa.Const)
			if !ok {
				return 0, false
			}
			lo = c.Int64()
		}
		if x.High == nil {
			// whole array
			if p, ok := x.X.Type().Underlying().(*types.Pointer); ok {
				if a, ok := p.Elem().Underlying().(*types.Array); ok && a.Len()-lo > 0 {
					return a.Len() - lo, true
				}
			}
			return 0, false
		}
		c, ok := x.High.(*ssa.Const)
		if !ok {
			return 0, false
		}
		if c.Int64()-lo > 0 {
			return c.Int64() - lo, true
		}
	case *ssa.MakeSlice:
		if c, ok := x.Len.(*ssa.Const); ok && c.Int64() > 0 {
			return c.Int64(), true
		}
	}
	return 0, false
}

// checkTableCountRange: header.Write refuses table counts it cannot
// describe; header.Read refuses table counts it considers implausible. Every
// count the writer accepts must be a count the reader accepts, or a container
// the writer produced cannot be read back.
func checkTableCountRange(w *World, r *Report) {
	r.Rule("tablecount: the largest table count header.Write accepts (from the comparison of the count it stores into NumTables with a constant on the way to its error return) is not larger than the largest table count header.Read accepts (from the comparison of the count it reads from bytes 4,5 with a constant on the way to its error return)")
	wf, rf := w.Func("header.Write"), w.Func("header.Read")
	if wf == nil || rf == nil {
		r.Fatal("header.Write / header.Read do not resolve")
		return
	}
	key := r.MkKey("tablecount", "header.Write/Read", "accepted table counts")
	// writer: the value converted and stored into the NumTables field
	var wcount ssa.Value
	for _, b := range wf.Blocks {
		for _, in := range b.Instrs {
			if st, ok := in.(*ssa.Store); ok && fieldName(st.Addr) == "NumTables" {
				v := st.Val
				if cv, ok := v.(*ssa.Convert); ok {
					v = cv.X
				}
				wcount = v
			}
		}
	}
	// reader: the bound of the directory loop (a value built from two bytes by shift and or)
	var rcount ssa.Value
	for _, b := range rf.Blocks {
		for _, in := range b.Instrs {
			bo, ok := in.(*ssa.BinOp)
			if !ok || bo.Op != token.OR {
				continue
			}
			if sh, ok := bo.X.(*ssa.BinOp); ok && sh.Op == token.SHL && isIntegerType(bo.Type()) && typeBits(bo.Type()) == 64 {
				if c, ok := sh.Y.(*ssa.Const); ok && c.Int64() == 8 && rcount == nil {
					rcount = bo
				}
			}
		}
	}
	if wcount == nil || rcount == nil {
		r.Fail("tablecount", key, w.Pos(wf.Pos()), "the table count of the writer (value stored into NumTables) or of the reader (16-bit value from the file header) was not found", nil)
		return
	}
	wmax, okw := rejectAbove(wf, wcount)
	rmax, okr := rejectAbove(rf, rcount)
	switch {
	case !okw:
		r.Fail("tablecount", key, w.Pos(wf.Pos()), "header.Write does not compare the table count with a constant before it stores it into the 16-bit NumTables field", nil)
	case !okr:
		r.OK("tablecount", key, w.Pos(rf.Pos()), fmt.Sprintf("the writer accepts up to %d tables, the reader any count", wmax))
	case wmax > rmax:
		r.Fail("tablecount", key, w.Pos(rf.Pos()), fmt.Sprintf("header.Write accepts up to %d tables but header.Read rejects more than %d: a container with a table count in between is written without complaint and cannot be read back", wmax, rmax), nil)
	default:
		r.OK("tablecount", key, w.Pos(rf.Pos()), fmt.Sprintf("the writer accepts up to %d tables, the reader up to %d", wmax, rmax))
	}
}

// rejectAbove: the largest value of v for which no `v > K` / `v >= K` test
// (whose true branch is taken to an error return) fires.
func rejectAbove(fn *ssa.Function, v ssa.Value) (int64, bool) {
	best, found := int64(0), false
	for _, b := range fn.Blocks {
		if len(b.Instrs) == 0 {
			continue
		}
		ifi, ok := b.Instrs[len(b.Instrs)-1].(*ssa.If)
		if !ok {
			continue
		}
		bo, ok := ifi.Cond.(*ssa.BinOp)
		if !ok || bo.X != v {
			continue
		}
		c, ok := bo.Y.(*ssa.Const)
		if !ok || c.Value == nil {
			continue
		}
		var max int64
		switch bo.Op {
		case token.GTR:
			max = c.Int64()
		case token.GEQ:
			max = c.Int64() - 1
		default:
			continue
		}
		if !found || max < best {
			best, found = max, true
		}
	}
	return best, found
}

// checkScalerSet: header.Read accepts three scaler types; header.Write writes
// whatever scaler type it is given. A container written with another scaler
// type cannot be read back.
func checkScalerSet(w *World, r *Report) {
	r.Rule("scalerset: the scaler type header.Write stores into the offset table is either tested against the constants header.Read accepts (the 32-bit value from bytes 0..3 compared with constants on the way to its error return), or the reader accepts every value")
	wf, rf := w.Func("header.Write"), w.Func("header.Read")
	if wf == nil || rf == nil {
		r.Fatal("header.Write / header.Read do not resolve")
		return
	}
	key := r.MkKey("scalerset", "header.Write/Read", "accepted scaler types")
	// reader: != comparisons of one value with constants
	accepted := map[int64]bool{}
	for _, b := range rf.Blocks {
		for _, in := range b.Instrs {
			bo, ok := in.(*ssa.BinOp)
			if !ok || (bo.Op != token.NEQ && bo.Op != token.EQL) || typeBits(bo.X.Type()) != 32 {
				continue
			}
			if c, ok := bo.Y.(*ssa.Const); ok && c.Value != nil {
				accepted[c.Int64()] = true
			}
		}
	}
	// writer: the value stored into ScalerType
	var stored ssa.Value
	for _, b := range wf.Blocks {
		for _, in := range b.Instrs {
			if st, ok := in.(*ssa.Store); ok && fieldName(st.Addr) == "ScalerType" {
				stored = st.Val
			}
		}
	}
	if stored == nil {
		r.Fail("scalerset", key, w.Pos(wf.Pos()), "no store into the ScalerType field found in header.Write", nil)
		return
	}
	if len(accepted) == 0 {
		r.OK("scalerset", key, w.Pos(rf.Pos()), "the reader does not restrict the scaler type")
		return
	}
	tested := false
	if refs := stored.Referrers(); refs != nil {
		for _, ref := range *refs {
			if bo, ok := ref.(*ssa.BinOp); ok && (bo.Op == token.EQL || bo.Op == token.NEQ) {
				tested = true
			}
		}
	}
	if tested {
		r.OK("scalerset", key, w.Pos(wf.Pos()), "the writer tests the scaler type before storing it")
	} else {
		r.Fail("scalerset", key, w.Pos(wf.Pos()), fmt.Sprintf("header.Write stores any scaler type it is given, header.Read accepts %d values only: a container written with another scaler type is reported as unsupported when it is read back", len(accepted)), nil)
	}
}
