package main

import (
	"fmt"
	"go/ast"
	"go/token"
	"go/types"
	"reflect"

	"golang.org/x/tools/go/ssa"
)

// RunXYTwins: SimpleGlyph.Decode reads the x coordinates and then the y
// coordinates with two loops over the flags that are copies of each other
// (short vector / same-or-positive flag of the axis, one or two bytes, delta
// added to the running coordinate).  The two loops must stay isomorphic: the
// same statements in the same order, up to a consistent renaming of
// identifiers and a consistent substitution of constants (the x flag masks
// for the y flag masks).  A statement dropped or changed in one of them only
// — the classic slip in duplicated code — breaks the correspondence.
func RunXYTwins(w *World, r *Report) {
	r.Rule("xytwins: in (*SimpleGlyph).Decode the loop that decodes the x coordinates and the loop that decodes the y coordinates (two consecutive loops over the same flag list) are the same code up to a consistent renaming of identifiers and constants")
	pkg := w.All[modPath+"/glyf"]
	if pkg == nil {
		r.Fatal("package glyf not loaded")
		return
	}
	fd := findMethod(pkg.Syntax, "SimpleGlyph", "Decode")
	key := r.MkKey("xytwins", "(*glyf.SimpleGlyph).Decode", "coordinate loops")
	if fd == nil {
		r.Fatal("(*glyf.SimpleGlyph).Decode not found")
		return
	}
	info := pkg.TypesInfo
	// consecutive range loops over the same operand
	var loops []*ast.RangeStmt
	for _, st := range fd.Body.List {
		if rs, ok := st.(*ast.RangeStmt); ok {
			loops = append(loops, rs)
		}
	}
	found := false
	for i := 0; i+1 < len(loops); i++ {
		a, b := loops[i], loops[i+1]
		if types.ExprString(a.X) != types.ExprString(b.X) {
			continue
		}
		found = true
		iso := &isoCmp{info: info, ids: map[types.Object]types.Object{}, rev: map[types.Object]types.Object{}, consts: map[string]string{}, crev: map[string]string{}}
		if why := iso.node(a.Body, b.Body); why != "" {
			r.Fail("xytwins", key, w.Pos(b.Pos()), "the loop over "+types.ExprString(a.X)+" that decodes the x coordinates and the one that decodes the y coordinates are no longer copies of each other: "+why+" — a step present for one axis is missing or different for the other", nil)
		} else {
			r.OK("xytwins", key, w.Pos(a.Pos()), fmt.Sprintf("isomorphic up to %d renamed identifiers and %d substituted constants", len(iso.ids), len(iso.consts)))
		}
		break
	}
	if !found {
		r.Fail("xytwins", key, w.Pos(fd.Pos()), "no two consecutive loops over the same flag list found", nil)
	}
	r.Floor("xytwins", 1)
}

type isoCmp struct {
	info   *types.Info
	ids    map[types.Object]types.Object
	rev    map[types.Object]types.Object
	consts map[string]string
	crev   map[string]string
}

// node compares two syntax trees; "" means isomorphic so far.
func (c *isoCmp) node(a, b ast.Node) string {
	if a == nil || b == nil || reflect.ValueOf(a).IsNil() || reflect.ValueOf(b).IsNil() {
		an := a == nil || reflect.ValueOf(a).IsNil()
		bn := b == nil || reflect.ValueOf(b).IsNil()
		if an != bn {
			return "one loop has a part the other lacks"
		}
		return ""
	}
	// constants first (an identifier naming a constant, a literal, a constant expression)
	if ea, ok := a.(ast.Expr); ok {
		if eb, ok := b.(ast.Expr); ok {
			ta, oka := c.info.Types[ea]
			tb, okb := c.info.Types[eb]
			if oka && okb && ta.Value != nil && tb.Value != nil {
				// named constants (the flag masks of the two axes) correspond by name, consistently;
				// literals and other constant expressions have to be equal
				ia, isA := ea.(*ast.Ident)
				ib, isB := eb.(*ast.Ident)
				if isA && isB {
					if _, ok := c.info.ObjectOf(ia).(*types.Const); ok {
						if _, ok := c.info.ObjectOf(ib).(*types.Const); ok {
							return c.constPair(ia.Name, ib.Name)
						}
					}
				}
				if ta.Value.ExactString() != tb.Value.ExactString() {
					return "constants " + ta.Value.ExactString() + " / " + tb.Value.ExactString() + " differ"
				}
				return ""
			}
			if oka && okb && (ta.Value != nil) != (tb.Value != nil) {
				return "a constant in one loop corresponds to a variable in the other (" + types.ExprString(ea) + " / " + types.ExprString(eb) + ")"
			}
		}
	}
	if reflect.TypeOf(a) != reflect.TypeOf(b) {
		return fmt.Sprintf("a %s in one loop corresponds to a %s in the other", nodeKind(a), nodeKind(b))
	}
	switch x := a.(type) {
	case *ast.Ident:
		y := b.(*ast.Ident)
		oa, ob := c.info.ObjectOf(x), c.info.ObjectOf(y)
		if oa == nil || ob == nil {
			if x.Name != y.Name {
				return "identifiers " + x.Name + " / " + y.Name + " do not correspond"
			}
			return ""
		}
		if oa == ob {
			// shared between the loops (buf, the flag list, the loop variables of an enclosing scope)
			if m, ok := c.ids[oa]; ok && m != ob {
				return "identifier " + x.Name + " is used where the other loop uses its own variable"
			}
			c.ids[oa], c.rev[ob] = ob, oa
			return ""
		}
		if m, ok := c.ids[oa]; ok && m != ob {
			return "identifier " + x.Name + " corresponds to " + m.Name() + " elsewhere but to " + y.Name + " here"
		}
		if m, ok := c.rev[ob]; ok && m != oa {
			return "identifier " + y.Name + " corresponds to " + m.Name() + " elsewhere but to " + x.Name + " here"
		}
		c.ids[oa], c.rev[ob] = ob, oa
		return ""
	case *ast.BasicLit:
		y := b.(*ast.BasicLit)
		if x.Value != y.Value {
			return "literals " + x.Value + " / " + y.Value + " differ"
		}
		return ""
	case *ast.BinaryExpr:
		y := b.(*ast.BinaryExpr)
		if x.Op != y.Op {
			return "operator " + x.Op.String() + " corresponds to " + y.Op.String()
		}
	case *ast.UnaryExpr:
		if y := b.(*ast.UnaryExpr); x.Op != y.Op {
			return "operator " + x.Op.String() + " corresponds to " + y.Op.String()
		}
	case *ast.AssignStmt:
		if y := b.(*ast.AssignStmt); x.Tok != y.Tok {
			return "assignment " + x.Tok.String() + " corresponds to " + y.Tok.String()
		}
	case *ast.IncDecStmt:
		if y := b.(*ast.IncDecStmt); x.Tok != y.Tok {
			return "statement " + x.Tok.String() + " corresponds to " + y.Tok.String()
		}
	case *ast.BranchStmt:
		if y := b.(*ast.BranchStmt); x.Tok != y.Tok {
			return "branch " + x.Tok.String() + " corresponds to " + y.Tok.String()
		}
	}
	ca, cb := isoChildren(a), isoChildren(b)
	if len(ca) != len(cb) {
		return fmt.Sprintf("a %s has %d parts in one loop and %d in the other", nodeKind(a), len(ca), len(cb))
	}
	for i := range ca {
		if why := c.node(ca[i], cb[i]); why != "" {
			return why
		}
	}
	return ""
}

func (c *isoCmp) constPair(sa, sb string) string {
	if m, ok := c.consts[sa]; ok && m != sb {
		return "constant " + sa + " corresponds to " + m + " elsewhere but to " + sb + " here"
	}
	if m, ok := c.crev[sb]; ok && m != sa {
		return "constant " + sb + " corresponds to " + m + " elsewhere but to " + sa + " here"
	}
	c.consts[sa], c.crev[sb] = sb, sa
	return ""
}

func nodeKind(n ast.Node) string {
	t := reflect.TypeOf(n).String()
	if len(t) > 5 && t[:5] == "*ast." {
		return t[5:]
	}
	return t
}

// isoChildren lists the direct children of a node in a fixed order (nil children included for optional parts).
func isoChildren(n ast.Node) []ast.Node {
	var out []ast.Node
	switch x := n.(type) {
	case *ast.BlockStmt:
		for _, s := range x.List {
			out = append(out, s)
		}
	case *ast.IfStmt:
		out = append(out, x.Init, x.Cond, x.Body, x.Else)
	case *ast.ForStmt:
		out = append(out, x.Init, x.Cond, x.Post, x.Body)
	case *ast.RangeStmt:
		out = append(out, x.Key, x.Value, x.X, x.Body)
	case *ast.AssignStmt:
		for _, e := range x.Lhs {
			out = append(out, e)
		}
		for _, e := range x.Rhs {
			out = append(out, e)
		}
	case *ast.ExprStmt:
		out = append(out, x.X)
	case *ast.IncDecStmt:
		out = append(out, x.X)
	case *ast.ReturnStmt:
		for _, e := range x.Results {
			out = append(out, e)
		}
	case *ast.DeclStmt:
		if gd, ok := x.Decl.(*ast.GenDecl); ok {
			for _, sp := range gd.Specs {
				if vs, ok := sp.(*ast.ValueSpec); ok {
					for _, nm := range vs.Names {
						out = append(out, nm)
					}
					for _, v := range vs.Values {
						out = append(out, v)
					}
				}
			}
		}
	case *ast.SwitchStmt:
		out = append(out, x.Init, x.Tag, x.Body)
	case *ast.CaseClause:
		for _, e := range x.List {
			out = append(out, e)
		}
		for _, s := range x.Body {
			out = append(out, s)
		}
	case *ast.BinaryExpr:
		out = append(out, x.X, x.Y)
	case *ast.UnaryExpr:
		out = append(out, x.X)
	case *ast.ParenExpr:
		out = append(out, x.X)
	case *ast.CallExpr:
		out = append(out, x.Fun)
		for _, e := range x.Args {
			out = append(out, e)
		}
	case *ast.IndexExpr:
		out = append(out, x.X, x.Index)
	case *ast.SliceExpr:
		out = append(out, x.X, x.Low, x.High, x.Max)
	case *ast.SelectorExpr:
		out = append(out, x.X, x.Sel)
	case *ast.StarExpr:
		out = append(out, x.X)
	case *ast.CompositeLit:
		out = append(out, x.Type)
		for _, e := range x.Elts {
			out = append(out, e)
		}
	case *ast.KeyValueExpr:
		out = append(out, x.Key, x.Value)
	case *ast.LabeledStmt:
		out = append(out, x.Stmt)
	}
	_ = token.NoPos
	return out
}

// RunComponentSize: the component record of a composite glyph is followed by
// arguments whose size the flags determine (TrueType specification, glyf
// table): two words or two bytes for the offsets (ARG_1_AND_2_ARE_WORDS),
// then one F2Dot14 for WE_HAVE_A_SCALE, two for WE_HAVE_AN_X_AND_Y_SCALE,
// four for WE_HAVE_A_TWO_BY_TWO. decodeGlyphComposite adds these sizes up
// under bit tests of the flags word; the rule reads the (mask, polarity,
// increment) triples off the code and compares them with the table.
func RunComponentSize(w *World, r *Report) {
	r.Rule("componentsize: in glyf.decodeGlyphComposite the constant increments of the argument size, each taken under its nearest bit test of the component flags, are exactly: +4 with bit 0x0001 set and +2 with it clear, +2 under 0x0008, +4 under 0x0040, +8 under 0x0080 (the sizes the TrueType specification gives for component arguments and transformations)")
	fn := w.Func("glyf.decodeGlyphComposite")
	if fn == nil {
		r.Fatal("glyf.decodeGlyphComposite does not resolve")
		return
	}
	type triple struct {
		mask int64
		set  bool
		inc  int64
	}
	want := map[triple]bool{{1, true, 4}: true, {1, false, 2}: true, {8, true, 2}: true, {0x40, true, 4}: true, {0x80, true, 8}: true}
	got := map[triple]string{}
	for _, b := range fn.Blocks {
		for _, in := range b.Instrs {
			bo, ok := in.(*ssa.BinOp)
			if !ok || bo.Op != token.ADD || !isIntegerType(bo.Type()) {
				continue
			}
			c, ok := bo.Y.(*ssa.Const)
			if !ok || c.Value == nil {
				continue
			}
			// the sum must be (part of) the size that cuts the data slice
			if !flowsToSliceBound(bo, map[ssa.Value]bool{}, 0) {
				continue
			}
			gs := guardsOf(b)
			if len(gs) == 0 {
				continue
			}
			m, setOnTrue, ok := bitTestMask(gs[0].cond)
			if !ok {
				continue
			}
			got[triple{m, setOnTrue == gs[0].then, c.Int64()}] = w.Pos(bo.Pos())
		}
	}
	name := "glyf.decodeGlyphComposite"
	for t := range want {
		key := r.MkKey("componentsize", name, fmt.Sprintf("mask %#x set=%v", t.mask, t.set))
		if pos, ok := got[t]; ok {
			r.OK("componentsize", key, pos, fmt.Sprintf("+%d", t.inc))
		} else {
			r.Fail("componentsize", key, w.Pos(fn.Pos()), fmt.Sprintf("no increment of %d bytes under component flag %#x (%s): a component with that flag is given arguments of the wrong size and the components behind it are read from the wrong place", t.inc, t.mask, map[bool]string{true: "set", false: "clear"}[t.set]), nil)
		}
	}
	for t, pos := range got {
		if !want[t] {
			key := r.MkKey("componentsize", name, fmt.Sprintf("extra mask %#x set=%v +%d", t.mask, t.set, t.inc))
			r.Fail("componentsize", key, pos, fmt.Sprintf("the argument size grows by %d bytes under component flag %#x (%s), which the specification does not provide for", t.inc, t.mask, map[bool]string{true: "set", false: "clear"}[t.set]), nil)
		}
	}
}

// flowsToSliceBound: the value reaches (through phis and additions) the low
// or high bound of a slice expression.
func flowsToSliceBound(v ssa.Value, seen map[ssa.Value]bool, depth int) bool {
	if seen[v] || depth > 12 {
		return false
	}
	seen[v] = true
	refs := v.Referrers()
	if refs == nil {
		return false
	}
	for _, ref := range *refs {
		switch x := ref.(type) {
		case *ssa.Slice:
			if x.Low == v || x.High == v {
				return true
			}
		case *ssa.Phi:
			if flowsToSliceBound(x, seen, depth+1) {
				return true
			}
		case *ssa.BinOp:
			if x.Op == token.ADD && flowsToSliceBound(x, seen, depth+1) {
				return true
			}
		}
	}
	return false
}
