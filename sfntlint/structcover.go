package main

import (
	"fmt"
	"go/token"
	"go/types"
	"sort"
	"strings"

	"golang.org/x/tools/go/ssa"
)

// RunStructCover: a table type that the reader fills field by field and the
// writer serialises field by field loses a field silently when one side stops
// mentioning it.  For the given struct type every field must be assigned in
// the reading closure (a store to the field, or the field's position in a
// composite literal — the SSA form of both is a store through a field
// address) and loaded in the writing closure.  The closures are the functions
// reachable from the named entry points inside the type's package.
func RunStructCover(w *World, r *Report, pkgRel, typeName string, readers, writers []string) {
	r.Rule("structcover: every field of " + pkgRel + "." + typeName + " is stored by the reading side (" + strings.Join(readers, ", ") + " and what they call in the package) and loaded by the writing side (" + strings.Join(writers, ", ") + "): a field that only one side mentions does not survive a write/read cycle")
	pkg := w.All[modPath+"/"+pkgRel]
	if pkg == nil {
		r.Fatal("structcover: package %s not loaded", pkgRel)
		return
	}
	tn, _ := pkg.Types.Scope().Lookup(typeName).(*types.TypeName)
	if tn == nil {
		r.Fatal("structcover: type %s.%s not found", pkgRel, typeName)
		return
	}
	st, ok := tn.Type().Underlying().(*types.Struct)
	if !ok {
		r.Fatal("structcover: %s.%s is not a struct", pkgRel, typeName)
		return
	}
	closure := func(names []string) []*ssa.Function {
		var entries []*ssa.Function
		for _, n := range names {
			if f := w.Func(n); f != nil {
				entries = append(entries, f)
			} else {
				r.Fatal("structcover: %s does not resolve", n)
			}
		}
		var out []*ssa.Function
		for f := range w.libReach(entries) {
			if fnPkgPath(f) == pkg.PkgPath {
				out = append(out, f)
			}
		}
		return out
	}
	isField := func(v ssa.Value) (int, bool) {
		switch x := v.(type) {
		case *ssa.FieldAddr:
			if p, ok := x.X.Type().Underlying().(*types.Pointer); ok && types.Identical(p.Elem(), tn.Type()) {
				return x.Field, true
			}
		case *ssa.Field:
			if types.Identical(x.X.Type(), tn.Type()) {
				return x.Field, true
			}
		}
		return 0, false
	}
	stored, loaded := map[int]bool{}, map[int]bool{}
	for _, fn := range closure(readers) {
		for _, b := range fn.Blocks {
			for _, in := range b.Instrs {
				if s, ok := in.(*ssa.Store); ok {
					if f, ok := isField(s.Addr); ok {
						// storing the zero value explicitly does not carry anything
						if c, isC := s.Val.(*ssa.Const); !isC || !c.IsNil() {
							stored[f] = true
						}
					}
				}
			}
		}
	}
	for _, fn := range closure(writers) {
		for _, b := range fn.Blocks {
			for _, in := range b.Instrs {
				switch x := in.(type) {
				case *ssa.UnOp:
					if x.Op == token.MUL {
						if f, ok := isField(x.X); ok {
							loaded[f] = true
						}
					}
				case *ssa.Field:
					if f, ok := isField(x); ok {
						loaded[f] = true
					}
				}
			}
		}
	}
	var names []string
	idx := map[string]int{}
	for i := 0; i < st.NumFields(); i++ {
		names = append(names, st.Field(i).Name())
		idx[st.Field(i).Name()] = i
	}
	sort.Strings(names)
	for _, n := range names {
		i := idx[n]
		key := r.MkKey("structcover", pkgRel+"."+typeName, "field "+n)
		var classes []string
		if !stored[i] {
			classes = append(classes, "not-read")
		}
		if !loaded[i] {
			classes = append(classes, "not-written")
		}
		if len(classes) == 0 {
			r.OK("structcover", key, w.Pos(st.Field(i).Pos()), "stored by the reader, loaded by the writer")
			continue
		}
		what := map[string]string{"not-read": "the reading side never stores it", "not-written": "the writing side never loads it"}
		var parts []string
		for _, c := range classes {
			parts = append(parts, what[c])
		}
		r.FailC("structcover", key, classes, w.Pos(st.Field(i).Pos()), fmt.Sprintf("field %s of %s.%s: %s", n, pkgRel, typeName, strings.Join(parts, " and ")), nil)
	}
}
