package main

import "golang.org/x/tools/go/ssa"

func RunAllocBound(w *World, r *Report, br *boundsRun, fns []*ssa.Function) {}
func RunLoopTerm(w *World, r *Report, br *boundsRun, fns []*ssa.Function)  {}
