package main

import (
	"fmt"
	"go/ast"
	"go/constant"
	"go/token"
	"go/types"
	"sort"
	"strings"

	"golang.org/x/tools/go/ssa"
)

func init() { properties["C03"] = propC03 }

// C03: written files are well-formed sfnt containers.
func propC03(w *World, r *Report) {
	e := NewEffects(w)
	r.Rule("countemit: in header.Write the number of directory records allocated, the NumTables field and the first table offset all derive from the length of the filtered table-name list whose elements are written (not from the size of the input map) || order: clearing the head checksum precedes every checksum computation, the directory is sorted by tag before it is serialised, the checksum patch follows the last checksum computation and precedes the first write to the destination || align: the offset increment 4·((len+3)/4) and the padding write 4-(n%4) use the same modulus || patchguard: the in-place patch touches head[8:12] only and is guarded by the head table being at least 12 bytes long || wiresize: the offset table is 12 bytes and a directory record 16 bytes, matching the constants used for offsets || readback: header.Read stores every directory record it validates (no record is skipped) || mapdet/sortfirst on header.Write and header.Read")
	fn := w.Func("header.Write")
	if fn == nil {
		r.Fatal("anchor header.Write does not resolve")
		return
	}
	checkHeaderWrite(w, r, fn)
	checkReadBack(w, r)
	checkWriteArgs(w, r)
	checkReadAtNonEmpty(w, r)
	checkTableCountRange(w, r)
	checkScalerSet(w, r)
	// what an independent parser reads as glyph offsets: the short loca format must be able to hold them
	RunLocaPair(w, r)
	RunScanOrder(w, r)
	// "an independent implementation reports the same glyph names": the format choice and the string area of the post table
	r.Rule("macroman1 / pascal (shared with C14): post format 1.0 is chosen only for exactly the standard name list; every glyph name in a format 2.0 string area is preceded by a length byte that can represent it")
	checkMacRoman1(w, r)
	checkPascal(w, r)
	// wire sizes
	p := w.All[modPath+"/header"]
	for _, x := range []struct {
		typ  string
		size int
	}{{"offsets", 12}, {"rawRecord", 16}} {
		key := r.MkKey("wiresize", "header", x.typ)
		t, _ := p.Types.Scope().Lookup(x.typ).(*types.TypeName)
		if t == nil {
			r.FailC("wiresize", key, []string{"missing"}, "-", "type header."+x.typ+" not found", nil)
			continue
		}
		if sz := fixedSize(t.Type()); sz == x.size {
			r.OK("wiresize", key, w.Pos(t.Pos()), fmt.Sprintf("encoding/binary size %d", sz))
		} else {
			r.Fail("wiresize", key, w.Pos(t.Pos()), fmt.Sprintf("encoding/binary size of %s is %d, the sfnt format needs %d", x.typ, sz, x.size), nil)
		}
	}
	entries := mustFuncs(w, r, "header.Write", "header.Read")
	fns := srcFuncsReachable(w, entries)
	RunMapdet(w, e, r, "mapdet", fns)
	RunSortedBeforeIndexed(w, r, fns)
	RunBigEndian(w, r, func(p string) bool { return p == modPath+"/header" })
	for _, a := range boundsAssumptions {
		r.Assumes(a)
	}
	br03 := newBoundsRun(w)
	RunLosslessFor(w, r, "C03", br03)
	runNarrowBoundIn(w, r, br03, "/header")
	RunSearchFields(w, r, map[string]bool{"header.Write": true})
	{
		var hw []*ssa.Function
		for _, f := range w.LibFuncs() {
			if fnPkgPath(f) == modPath+"/header" {
				hw = append(hw, f)
			}
		}
		RunInputAppend(w, r, hw)
		r.Floor("inputappend", 2)
	}
	r.Floor("searchfields", 3)
}

func callsNamed(fn *ssa.Function, name string) []*ssa.Call {
	var res []*ssa.Call
	for _, b := range fn.Blocks {
		for _, ins := range b.Instrs {
			if c, ok := ins.(*ssa.Call); ok {
				if callee := c.Call.StaticCallee(); callee != nil && (callee.Name() == name || callee.String() == name) {
					res = append(res, c)
				}
			}
		}
	}
	return res
}

// before: instruction a is executed before b on every path that executes both
// (a's block strictly precedes b's in the CFG order and b cannot reach a).
func before(a, b ssa.Instruction) bool {
	if a.Block() == b.Block() {
		return instrIndex(a.Block(), a) < instrIndex(b.Block(), b)
	}
	return reaches(a.Block(), b.Block()) && !reaches(b.Block(), a.Block())
}

func checkHeaderWrite(w *World, r *Report, fn *ssa.Function) {
	name := fnName(fn)
	// --- countemit -----------------------------------------------------------
	// the filtered name list: a []string local that is appended to under a filter
	var names ssa.Value // phi/append value of []string
	var recordsMake *ssa.MakeSlice
	for _, b := range fn.Blocks {
		for _, ins := range b.Instrs {
			if ms, ok := ins.(*ssa.MakeSlice); ok {
				if sl, ok := ms.Type().Underlying().(*types.Slice); ok {
					if n, ok := sl.Elem().(*types.Named); ok && n.Obj().Name() == "rawRecord" {
						recordsMake = ms
					}
				}
			}
		}
	}
	key := r.MkKey("countemit", name, "records allocated")
	if recordsMake == nil {
		r.Fail("countemit", key, w.Pos(fn.Pos()), "no allocation of the directory records found", nil)
	} else {
		// length must be len(x) where x is a []string (the filtered names), not len(map)
		okLen := false
		what := "its length does not derive from the filtered name list"
		for v := range backSlice(recordsMake.Len) {
			if c, ok := v.(*ssa.Call); ok {
				if bi, ok := c.Call.Value.(*ssa.Builtin); ok && bi.Name() == "len" {
					switch c.Call.Args[0].Type().Underlying().(type) {
					case *types.Slice:
						okLen = true
						names = c.Call.Args[0]
					case *types.Map:
						what = "its length is the size of the input map, which also counts entries that are skipped (nil data, names that are not 4 bytes long): the directory then announces tables that are not written"
					}
				}
			}
		}
		if okLen {
			r.OK("countemit", key, w.Pos(recordsMake.Pos()), "record count derives from the length of the filtered name list")
		} else {
			r.Fail("countemit", key, w.Pos(recordsMake.Pos()), "directory records are allocated for a count that is not the number of tables written: "+what, nil)
		}
	}
	_ = names
	// NumTables field and first offset derive from the same count as the records
	for _, b := range fn.Blocks {
		for _, ins := range b.Instrs {
			st, ok := ins.(*ssa.Store)
			if !ok || fieldName(st.Addr) != "NumTables" {
				continue
			}
			k2 := r.MkKey("countemit", name, "NumTables field")
			same := recordsMake != nil && sharesLenSource(st.Val, recordsMake.Len)
			if same {
				r.OK("countemit", k2, w.Pos(st.Pos()), "same count as the allocated records")
			} else {
				r.Fail("countemit", k2, w.Pos(st.Pos()), "the NumTables header field is not computed from the same count as the directory records", nil)
			}
		}
	}

	// --- order ------------------------------------------------------------------
	clear := callsNamed(fn, "clearChecksum")
	patch := callsNamed(fn, "patchChecksum")
	sums := callsNamed(fn, "checksum")
	var writes []*ssa.Call
	for _, b := range fn.Blocks {
		for _, ins := range b.Instrs {
			if c, ok := ins.(*ssa.Call); ok && c.Call.IsInvoke() && c.Call.Method.Name() == "Write" && !inMemorySink(c.Call.Value) {
				writes = append(writes, c)
			}
		}
	}
	k3 := r.MkKey("order", name, "clear before checksum")
	switch {
	case len(clear) == 0:
		r.Fail("order", k3, w.Pos(fn.Pos()), "the head table's checkSumAdjustment is not cleared before the checksums are computed: a head table that already carries an adjustment gives a wrong directory checksum and a wrong whole-file sum", nil)
	case len(sums) == 0:
		r.Fail("order", k3, w.Pos(fn.Pos()), "no checksum computation found", nil)
	default:
		ok := true
		for _, s := range sums {
			for _, c := range clear {
				if !before(c, s) {
					ok = false
				}
			}
		}
		if ok {
			r.OK("order", k3, w.Pos(clear[0].Pos()), fmt.Sprintf("clearChecksum precedes all %d checksum calls", len(sums)))
		} else {
			r.Fail("order", k3, w.Pos(clear[0].Pos()), "a checksum is computed before the head checksum field is cleared", nil)
		}
	}
	k4 := r.MkKey("order", name, "patch after checksums, before writes")
	switch {
	case len(patch) == 0:
		r.Fail("order", k4, w.Pos(fn.Pos()), "the head checksum adjustment is never patched", nil)
	case len(writes) == 0:
		r.Fail("order", k4, w.Pos(fn.Pos()), "no write to the destination found", nil)
	default:
		ok := true
		for _, p := range patch {
			for _, s := range sums {
				if !before(s, p) {
					ok = false
				}
			}
			for _, wr := range writes {
				if !before(p, wr) {
					ok = false
				}
			}
		}
		if ok {
			r.OK("order", k4, w.Pos(patch[0].Pos()), "patchChecksum follows every checksum computation and precedes every write")
		} else {
			r.Fail("order", k4, w.Pos(patch[0].Pos()), "patchChecksum is not between the last checksum computation and the first write", nil)
		}
	}
	// sort of records before serialisation
	k5 := r.MkKey("order", name, "directory sorted before serialised")
	var sortRec, binWrite *ssa.Call
	for _, b := range fn.Blocks {
		for _, ins := range b.Instrs {
			c, ok := ins.(*ssa.Call)
			if !ok || c.Call.StaticCallee() == nil {
				continue
			}
			cs := c.Call.StaticCallee().String()
			isRec := func(v ssa.Value) bool {
				for x := range backSlice(v) {
					if x == ssa.Value(recordsMake) {
						return true
					}
					// a captured variable: the make result is stored into the same cell
					if al, ok := x.(*ssa.Alloc); ok {
						for _, ref := range *al.Referrers() {
							if st, ok := ref.(*ssa.Store); ok && st.Val == ssa.Value(recordsMake) {
								return true
							}
						}
					}
				}
				return false
			}
			if strings.HasPrefix(cs, "sort.Slice") && recordsMake != nil && isRec(c.Call.Args[0]) {
				sortRec = c
			}
			if cs == "encoding/binary.Write" && recordsMake != nil && isRec(c.Call.Args[2]) {
				binWrite = c
			}
		}
	}
	switch {
	case sortRec == nil:
		r.Fail("order", k5, w.Pos(fn.Pos()), "the directory records are not sorted by tag", nil)
	case binWrite == nil:
		r.Fail("order", k5, w.Pos(fn.Pos()), "serialisation of the directory records not found", nil)
	case before(sortRec, binWrite):
		r.OK("order", k5, w.Pos(sortRec.Pos()), "sort.Slice(records) precedes binary.Write(records)")
	default:
		r.Fail("order", k5, w.Pos(sortRec.Pos()), "the directory is serialised before it is sorted", nil)
	}

	// --- align --------------------------------------------------------------------
	k6 := r.MkKey("align", name, "offset increment vs padding")
	var incMod, padMod int64 = -1, -1
	for _, b := range fn.Blocks {
		for _, ins := range b.Instrs {
			bo, ok := ins.(*ssa.BinOp)
			if !ok {
				continue
			}
			c, isC := bo.Y.(*ssa.Const)
			if !isC || c.Value == nil || c.Value.Kind() != constant.Int {
				continue
			}
			cv, _ := constant.Int64Val(c.Value)
			switch bo.Op {
			case token.QUO:
				// (length + k-1) / k * k
				if add, ok := bo.X.(*ssa.BinOp); ok && add.Op == token.ADD {
					if ac, ok := add.Y.(*ssa.Const); ok && ac.Int64() == cv-1 {
						incMod = cv
					}
				}
			case token.REM:
				padMod = cv
			}
		}
	}
	switch {
	case incMod < 0 || padMod < 0:
		r.FailC("align", k6, []string{"shape"}, w.Pos(fn.Pos()), "cannot find the rounded offset increment ((len+k-1)/k) and the padding modulus (n%k)", nil)
	case incMod == 4 && padMod == 4:
		r.OK("align", k6, w.Pos(fn.Pos()), "offsets advance by lengths rounded up to 4 and tables are padded to 4 bytes")
	default:
		r.Fail("align", k6, w.Pos(fn.Pos()), fmt.Sprintf("offsets are rounded to multiples of %d but tables are padded to multiples of %d (the format needs 4)", incMod, padMod), nil)
	}

	// --- patchguard -------------------------------------------------------------------
	for _, n := range []string{"header.clearChecksum", "header.patchChecksum"} {
		pf := w.Func(n)
		kk := r.MkKey("patchguard", n, "slice bounds")
		if pf == nil {
			r.FailC("patchguard", kk, []string{"missing"}, "-", n+" does not resolve", nil)
			continue
		}
		ok := false
		for _, b := range pf.Blocks {
			for _, ins := range b.Instrs {
				if sl, isSl := ins.(*ssa.Slice); isSl {
					lo, ok1 := sl.Low.(*ssa.Const)
					hi, ok2 := sl.High.(*ssa.Const)
					if ok1 && ok2 && lo.Int64() == 8 && hi.Int64() == 12 {
						ok = true
					}
				}
			}
		}
		if ok {
			r.OK("patchguard", kk, w.Pos(pf.Pos()), "touches bytes 8..11 only")
		} else {
			r.Fail("patchguard", kk, w.Pos(pf.Pos()), n+" does not restrict itself to head[8:12]", nil)
		}
	}
	for _, c := range append(append([]*ssa.Call{}, clear...), patch...) {
		kk := r.MkKey("patchguard", name, "length guard before "+c.Call.StaticCallee().Name())
		guarded := false
		for _, g := range guardsOf(c.Block()) {
			for v := range backSlice(g.cond) {
				if bo, ok := v.(*ssa.BinOp); ok {
					if cc, ok := bo.Y.(*ssa.Const); ok && cc.Value != nil && cc.Value.Kind() == constant.Int {
						n, _ := constant.Int64Val(cc.Value)
						lenSide := false
						for x := range backSlice(bo.X) {
							if call, ok := x.(*ssa.Call); ok {
								if bi, ok := call.Call.Value.(*ssa.Builtin); ok && bi.Name() == "len" {
									lenSide = true
								}
							}
						}
						if lenSide && ((bo.Op == token.GEQ && n >= 12 && g.then) || (bo.Op == token.GTR && n >= 11 && g.then) || (bo.Op == token.LSS && n >= 12 && !g.then)) {
							guarded = true
						}
					}
				}
			}
		}
		if guarded {
			r.OK("patchguard", kk, w.Pos(c.Pos()), "guarded by len(head) >= 12")
		} else {
			r.Fail("patchguard", kk, w.Pos(c.Pos()), "the head table is patched in place without checking that it has at least 12 bytes: a shorter head entry makes Write panic (the property covers tables of any length)", nil)
		}
	}
}

// sharesLenSource: both values derive from len() of the same SSA value.
func sharesLenSource(a, b ssa.Value) bool {
	src := func(v ssa.Value) map[ssa.Value]bool {
		res := map[ssa.Value]bool{}
		for x := range backSlice(v) {
			if c, ok := x.(*ssa.Call); ok {
				if bi, ok := c.Call.Value.(*ssa.Builtin); ok && bi.Name() == "len" {
					res[c] = true
				}
			}
		}
		return res
	}
	sa, sb := src(a), src(b)
	for k := range sa {
		if sb[k] {
			return true
		}
	}
	return false
}

// checkReadBack: in header.Read every validated directory record is stored.
func checkReadBack(w *World, r *Report) {
	fn := w.Func("header.Read")
	if fn == nil {
		r.Fatal("anchor header.Read does not resolve")
		return
	}
	name := fnName(fn)
	key := r.MkKey("readback", name, "store of directory record")
	var mu *ssa.MapUpdate
	for _, b := range fn.Blocks {
		for _, ins := range b.Instrs {
			if m, ok := ins.(*ssa.MapUpdate); ok && fieldName(backLoadAddr(m.Map)) == "Toc" {
				mu = m
			}
		}
	}
	if mu == nil {
		r.Fail("readback", key, w.Pos(fn.Pos()), "no store into the table of contents found", nil)
		return
	}
	// loop header: the innermost loop containing mu; every back edge must come from a block dominated by mu's block
	inLoop := loopBlocks(fn)
	if !inLoop[mu.Block().Index] {
		r.Fail("readback", key, w.Pos(mu.Pos()), "the store into the table of contents is not inside the directory loop", nil)
		return
	}
	// natural loops containing the store: for every back edge p -> h whose loop
	// contains mu's block, p must be dominated by mu's block (the record was stored)
	bad := ""
	inNatLoop := func(h, p, x *ssa.BasicBlock) bool {
		// x is in the loop of back edge p->h iff x == h or x reaches p without passing through h
		if x == h || x == p {
			return true
		}
		seen := map[*ssa.BasicBlock]bool{h: true}
		stack := []*ssa.BasicBlock{x}
		for len(stack) > 0 {
			y := stack[len(stack)-1]
			stack = stack[:len(stack)-1]
			if seen[y] {
				continue
			}
			seen[y] = true
			if y == p {
				return true
			}
			stack = append(stack, y.Succs...)
		}
		return false
	}
	for _, h := range fn.Blocks {
		for _, p := range h.Preds {
			if !h.Dominates(p) {
				continue // not a back edge
			}
			if !inNatLoop(h, p, mu.Block()) || !h.Dominates(mu.Block()) {
				continue
			}
			if p == mu.Block() || mu.Block().Dominates(p) {
				continue
			}
			bad = fmt.Sprintf("a path through the directory loop returns to the loop head (block %d -> %d) without storing the record: records can be skipped", p.Index, h.Index)
		}
	}
	if bad == "" {
		r.OK("readback", key, w.Pos(mu.Pos()), "every iteration of the directory loop that does not return an error stores its record")
	} else {
		r.Fail("readback", key, w.Pos(mu.Pos()), bad, nil)
	}
}

func backLoadAddr(v ssa.Value) ssa.Value {
	if u, ok := v.(*ssa.UnOp); ok && u.Op == token.MUL {
		return u.X
	}
	return v
}

// RunInputAppend: the byte slices a caller hands to the container writer stay
// the caller's: an append whose base is such a slice writes into its spare
// capacity, which may be the next table of the same buffer.
func RunInputAppend(w *World, r *Report, fns []*ssa.Function) {
	r.Rule("inputappend: in the container writer no append has as its base a byte slice that comes from a parameter (a value of the tables map, an element of a parameter slice): appending to caller-owned data can overwrite what follows it in the caller's buffer (padding is written separately)")
	for _, fn := range fns {
		if fn.Blocks == nil {
			continue
		}
		for _, b := range fn.Blocks {
			for _, in := range b.Instrs {
				c, ok := in.(*ssa.Call)
				if !ok {
					continue
				}
				bi, ok := c.Call.Value.(*ssa.Builtin)
				if !ok || bi.Name() != "append" || len(c.Call.Args) == 0 {
					continue
				}
				key := r.MkKey("inputappend", fnName(fn), "append")
				bad := ""
				seen := map[ssa.Value]bool{}
				var visit func(v ssa.Value, depth int)
				visit = func(v ssa.Value, depth int) {
					if seen[v] || depth > 10 || bad != "" {
						return
					}
					seen[v] = true
					switch x := v.(type) {
					case *ssa.Slice:
						visit(x.X, depth+1)
					case *ssa.Phi:
						for _, e := range x.Edges {
							visit(e, depth+1)
						}
					case *ssa.Call:
						if bi, ok := x.Call.Value.(*ssa.Builtin); ok && bi.Name() == "append" {
							visit(x.Call.Args[0], depth+1)
						}
					case *ssa.Extract:
						visit(x.Tuple, depth+1)
					case *ssa.Lookup:
						if fromParam(x.X) {
							bad = "a value of the map parameter " + x.X.Name()
						}
					case *ssa.Next:
						if rg, ok := x.Iter.(*ssa.Range); ok && fromParam(rg.X) {
							bad = "a value of the map parameter " + rg.X.Name()
						}
					case *ssa.UnOp:
						if ia, ok := x.X.(*ssa.IndexAddr); ok && fromParam(ia.X) {
							bad = "an element of the parameter " + ia.X.Name()
						}
					case *ssa.Parameter:
						if _, isSl := x.Type().Underlying().(*types.Slice); isSl && !returnsAppendStyle(fn, x) {
							bad = "the parameter " + x.Name()
						}
					}
				}
				visit(c.Call.Args[0], 0)
				if bad == "" {
					r.OK("inputappend", key, w.Pos(c.Pos()), "base is a local buffer")
				} else {
					r.Fail("inputappend", key, w.Pos(c.Pos()), "append extends "+bad+": bytes beyond its length but within its capacity belong to the caller (for adjacent sub-slices of one buffer: to the next table) and are overwritten", nil)
				}
			}
		}
	}
}

func fromParam(v ssa.Value) bool {
	switch x := v.(type) {
	case *ssa.Parameter:
		return true
	case *ssa.ChangeType:
		return fromParam(x.X)
	}
	return false
}

// returnsAppendStyle: the function returns a slice of the same type (the
// append-style API  func(buf []byte, ...) []byte ).
func returnsAppendStyle(fn *ssa.Function, par *ssa.Parameter) bool {
	res := fn.Signature.Results()
	for i := 0; i < res.Len(); i++ {
		if types.Identical(res.At(i).Type(), par.Type()) {
			return true
		}
	}
	return false
}

// RunScanOrder: header.Read sorts the byte ranges of the tables and then
// compares each range with its successor.  The comparison reads two
// different fields (the end of one, the start of the next), and table ranges
// may be empty, so the sort has to order by every field the scan reads: with
// equal starts the empty range must come first, otherwise an empty table that
// shares its offset with the next table is reported as overlapping.
func RunScanOrder(w *World, r *Report) {
	r.Rule("scanorder: where header.Read sorts a slice and then compares neighbouring elements, every field the neighbour comparison reads is also a key of the sort comparator (equal first keys are ordered by the second), so that the outcome of the scan does not depend on how sort.Slice arranges ties")
	pkg := w.All[modPath+"/header"]
	if pkg == nil {
		r.Fatal("package header not loaded")
		return
	}
	fd := findFunc(pkg.Syntax, "Read")
	if fd == nil {
		r.Fatal("header.Read not found")
		return
	}
	info := pkg.TypesInfo
	n := 0
	ast.Inspect(fd.Body, func(nd ast.Node) bool {
		call, ok := nd.(*ast.CallExpr)
		if !ok || len(call.Args) != 2 {
			return true
		}
		sel, ok := call.Fun.(*ast.SelectorExpr)
		if !ok || !(sel.Sel.Name == "Slice" || sel.Sel.Name == "SliceStable" || sel.Sel.Name == "SortFunc" || sel.Sel.Name == "SortStableFunc") {
			return true
		}
		id, ok := call.Args[0].(*ast.Ident)
		if !ok {
			return true
		}
		obj := info.ObjectOf(id)
		fl, ok := call.Args[1].(*ast.FuncLit)
		if !ok {
			return true
		}
		stable := strings.Contains(sel.Sel.Name, "Stable")
		// keys of the comparator
		keys := map[string]bool{}
		ast.Inspect(fl.Body, func(m ast.Node) bool {
			if se, ok := m.(*ast.SelectorExpr); ok {
				keys[se.Sel.Name] = true
			}
			return true
		})
		// neighbour comparisons after the sort: obj[e1].F op obj[e2].G with different index expressions
		scan := map[string]bool{}
		var scanPos token.Pos
		ast.Inspect(fd.Body, func(m ast.Node) bool {
			be, ok := m.(*ast.BinaryExpr)
			if !ok || be.Pos() < call.End() {
				return true
			}
			switch be.Op {
			case token.LSS, token.GTR, token.LEQ, token.GEQ, token.EQL, token.NEQ:
			default:
				return true
			}
			elemField := func(e ast.Expr) (string, string, bool) {
				se, ok := e.(*ast.SelectorExpr)
				if !ok {
					return "", "", false
				}
				ix, ok := se.X.(*ast.IndexExpr)
				if !ok {
					return "", "", false
				}
				if xid, ok := ix.X.(*ast.Ident); !ok || info.ObjectOf(xid) != obj {
					return "", "", false
				}
				return types.ExprString(ix.Index), se.Sel.Name, true
			}
			i1, f1, ok1 := elemField(be.X)
			i2, f2, ok2 := elemField(be.Y)
			if ok1 && ok2 && i1 != i2 {
				scan[f1], scan[f2] = true, true
				scanPos = be.Pos()
			}
			return true
		})
		if len(scan) == 0 {
			return true
		}
		n++
		key := r.MkKey("scanorder", "header.Read", "sort of "+id.Name)
		var missing []string
		for f := range scan {
			if !keys[f] {
				missing = append(missing, f)
			}
		}
		sort.Strings(missing)
		switch {
		case len(missing) == 0:
			r.OK("scanorder", key, w.Pos(call.Pos()), "the comparator orders by every field the neighbour comparison reads")
		case stable:
			r.Fail("scanorder", key, w.Pos(call.Pos()), fmt.Sprintf("the neighbour comparison at %s reads %s, which the comparator does not order by: elements with equal keys stay in directory order, which is not the order of their %s", w.Pos(scanPos), strings.Join(missing, ","), strings.Join(missing, ",")), nil)
		default:
			r.Fail("scanorder", key, w.Pos(call.Pos()), fmt.Sprintf("the neighbour comparison at %s reads %s, which the comparator does not order by: for elements with equal keys (an empty table and the table that follows it at the same offset) sort.Slice may put the longer one first, and the file is rejected as overlapping", w.Pos(scanPos), strings.Join(missing, ",")), nil)
		}
		return true
	})
	r.Floor("scanorder", 1)
	_ = n
}
