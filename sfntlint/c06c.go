package main

import (
	"fmt"
	"go/token"
	"go/types"
	"strings"

	"golang.org/x/tools/go/ssa"
)

// RunPairTarget: a value record is applied to the glyph it was selected for.
// In the apply methods of the positioning subtables every call of
// (*GposValueRecord).Apply receives the address of a sequence element; the
// index of that element is either the position the lookup is applied at (the
// method's first int parameter) or a position whose glyph took part in
// selecting the record (a load of the sequence at that index is in the
// backward slice of the record).  An index computed by arithmetic on the
// start position (a+1) names whatever glyph happens to be next, which is a
// glyph the lookup flags told the matcher to skip.
func RunPairTarget(w *World, r *Report, fns []*ssa.Function) {
	r.Rule("pairtarget: in the apply methods of package gtab each (*GposValueRecord).Apply(&seq[i]) has i equal to the position parameter of the method or to a position whose glyph was read to select the record (so the second record of a pair goes to the glyph the filter matched, not to the neighbour of the first); the record taken from the field First goes to the position parameter itself")
	for _, fn := range fns {
		if fn.Name() != "apply" || fn.Signature.Recv() == nil || !strings.HasSuffix(fnPkgPath(fn), "/opentype/gtab") {
			continue
		}
		// position parameter: the first int parameter after receiver and context
		var posParam *ssa.Parameter
		for _, p := range fn.Params {
			if b, ok := p.Type().Underlying().(*types.Basic); ok && b.Kind() == types.Int {
				posParam = p
				break
			}
		}
		for _, b := range fn.Blocks {
			for _, in := range b.Instrs {
				call, ok := in.(*ssa.Call)
				if !ok {
					continue
				}
				callee := call.Call.StaticCallee()
				if callee == nil || callee.Name() != "Apply" || callee.Signature.Recv() == nil || !strings.Contains(callee.Signature.Recv().Type().String(), "GposValueRecord") {
					continue
				}
				if len(call.Call.Args) < 2 {
					continue
				}
				recv := call.Call.Args[0]
				ia, ok := call.Call.Args[1].(*ssa.IndexAddr)
				if !ok {
					continue
				}
				fld := ""
				if ld, ok := recv.(*ssa.UnOp); ok && ld.Op == token.MUL {
					fld = fieldName(ld.X)
				}
				key := r.MkKey("pairtarget", fnName(fn), "value record "+fld)
				idx := ia.Index
				if idx == ssa.Value(posParam) && posParam != nil {
					r.OK("pairtarget", key, w.Pos(call.Pos()), "applied at the position the lookup is applied at")
					continue
				}
				if fld == "First" {
					r.Fail("pairtarget", key, w.Pos(call.Pos()), "the first value record of a pair is applied at a position other than the one the lookup is applied at", nil)
					continue
				}
				// positions whose glyph was read to select the record
				sel := false
				for v := range backSliceLocal(fn, recv) {
					if ia2, ok := v.(*ssa.IndexAddr); ok && ia2.Index == idx && sameSliceValue(ia2.X, ia.X) {
						sel = true
					}
				}
				if sel {
					r.OK("pairtarget", key, w.Pos(call.Pos()), "applied at a position whose glyph selected the record")
				} else {
					r.Fail("pairtarget", key, w.Pos(call.Pos()), fmt.Sprintf("the value record is applied to the element at index %s, which is neither the position the lookup is applied at nor a position whose glyph was read to select the record: with a lookup flag that skips glyphs the adjustment lands on a skipped glyph instead of the matched one", idx.Name()), nil)
				}
			}
		}
	}
}

// RunSkipMove: a ligature substitution replaces the first component by the
// ligature glyph and moves every glyph that the filter skipped between the
// components behind it.  In Gsub4_1.apply the skipped positions are collected
// in a list while matching (appended on the false branch of Keep); each
// element of that list must be used as the index of a sequence element that
// is copied to a position computed from the start position and the element's
// place in the list.
func RunSkipMove(w *World, r *Report) {
	r.Rule("skipmove: in (*Gsub4_1).apply the list of positions appended on the false branch of the glyph filter is traversed element by element, and for each element the sequence entry at that position is stored at an index computed from the start position and the loop counter (skipped glyphs from every gap between components end up directly behind the ligature, in order)")
	fn := w.Func("(*opentype/gtab.Gsub4_1).apply")
	if fn == nil {
		r.Fatal("(*opentype/gtab.Gsub4_1).apply does not resolve")
		return
	}
	key := r.MkKey("skipmove", fnName(fn), "skipped glyphs moved behind the ligature")
	// the skip list: values appended on the false branch of a Keep call
	family := map[ssa.Value]bool{}
	for _, b := range fn.Blocks {
		if len(b.Preds) != 1 {
			continue
		}
		p := b.Preds[0]
		ifi, ok := p.Instrs[len(p.Instrs)-1].(*ssa.If)
		if !ok || p.Succs[1] != b {
			continue
		}
		c, ok := ifi.Cond.(*ssa.Call)
		if !ok || c.Call.StaticCallee() == nil || c.Call.StaticCallee().Name() != "Keep" {
			continue
		}
		for _, in := range b.Instrs {
			if ap, ok := in.(*ssa.Call); ok {
				if bi, ok := ap.Call.Value.(*ssa.Builtin); ok && bi.Name() == "append" {
					family[ap] = true
				}
			}
		}
	}
	if len(family) == 0 {
		r.Fail("skipmove", key, w.Pos(fn.Pos()), "no list of skipped positions found (nothing is appended on the false branch of the glyph filter)", nil)
		return
	}
	// close the family over phis, re-slices and append bases
	for changed := true; changed; {
		changed = false
		add := func(v ssa.Value) {
			if v != nil && !family[v] {
				if _, ok := v.Type().Underlying().(*types.Slice); ok {
					family[v] = true
					changed = true
				}
			}
		}
		for _, b := range fn.Blocks {
			for _, in := range b.Instrs {
				switch x := in.(type) {
				case *ssa.Phi:
					hit := family[x]
					for _, e := range x.Edges {
						if family[e] {
							hit = true
						}
					}
					if hit {
						add(x)
						for _, e := range x.Edges {
							if c, isC := e.(*ssa.Const); !isC || c == nil {
								add(e)
							}
						}
					}
				case *ssa.Slice:
					if family[x] {
						add(x.X)
					}
					if family[x.X] {
						add(x)
					}
				case *ssa.Call:
					if bi, ok := x.Call.Value.(*ssa.Builtin); ok && bi.Name() == "append" && family[x] {
						add(x.Call.Args[0])
					}
				}
			}
		}
	}
	var posParam *ssa.Parameter
	for _, p := range fn.Params {
		if b, ok := p.Type().Underlying().(*types.Basic); ok && b.Kind() == types.Int {
			posParam = p
			break
		}
	}
	for _, b := range fn.Blocks {
		for _, in := range b.Instrs {
			st, ok := in.(*ssa.Store)
			if !ok {
				continue
			}
			dst, ok := st.Addr.(*ssa.IndexAddr)
			if !ok {
				continue
			}
			ld, ok := st.Val.(*ssa.UnOp)
			if !ok || ld.Op != token.MUL {
				continue
			}
			src, ok := ld.X.(*ssa.IndexAddr)
			if !ok || !sameSliceValue(src.X, dst.X) {
				continue
			}
			// source index: an element of the skip list at a loop counter
			sl, ok := src.Index.(*ssa.UnOp)
			if !ok || sl.Op != token.MUL {
				continue
			}
			el, ok := sl.X.(*ssa.IndexAddr)
			if !ok || !family[el.X] {
				continue
			}
			if _, isConst := el.Index.(*ssa.Const); isConst {
				continue
			}
			ds := backSlice(dst.Index)
			if posParam != nil && ds[posParam] && ds[el.Index] {
				r.OK("skipmove", key, w.Pos(st.Pos()), "each skipped position is copied to start + counter + constant")
				return
			}
		}
	}
	r.Fail("skipmove", key, w.Pos(fn.Pos()), "the positions skipped while matching the components are recorded, but no loop copies the sequence entry at each of them to a place computed from the start position and its rank: skipped glyphs from different gaps between the components are not all moved behind the ligature (a block copy from the first skipped position also copies the components in between)", nil)
}

// backSliceLocal is backSlice that also follows local variables: where the
// slice reaches an Alloc (or a field of one), the values stored into that
// Alloc anywhere in the function are included.
func backSliceLocal(fn *ssa.Function, v ssa.Value) map[ssa.Value]bool {
	stores := map[ssa.Value][]ssa.Value{}
	root := func(a ssa.Value) ssa.Value {
		for {
			switch x := a.(type) {
			case *ssa.FieldAddr:
				a = x.X
			case *ssa.IndexAddr:
				if _, isArr := x.X.Type().Underlying().(*types.Pointer); isArr {
					a = x.X
				} else {
					return a
				}
			default:
				return a
			}
		}
	}
	for _, b := range fn.Blocks {
		for _, in := range b.Instrs {
			if st, ok := in.(*ssa.Store); ok {
				if al, ok := root(st.Addr).(*ssa.Alloc); ok {
					stores[al] = append(stores[al], st.Val)
				}
			}
		}
	}
	seen := map[ssa.Value]bool{}
	var visit func(x ssa.Value)
	visit = func(x ssa.Value) {
		if x == nil || seen[x] {
			return
		}
		seen[x] = true
		if al, ok := x.(*ssa.Alloc); ok {
			for _, sv := range stores[al] {
				visit(sv)
			}
		}
		if ins, ok := x.(ssa.Instruction); ok {
			for _, op := range ins.Operands(nil) {
				if *op != nil {
					visit(*op)
				}
			}
		}
	}
	visit(v)
	return seen
}
