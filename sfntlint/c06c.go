package main

import (
	"fmt"
	"go/ast"
	"go/token"
	"go/types"
	"sort"
	"strings"

	"golang.org/x/tools/go/ssa"
)

// RunPairTarget: a value record is applied to the glyph it was selected for.
// In the apply methods of the positioning subtables every call of
// (*GposValueRecord).Apply receives the address of a sequence element; the
// index of that element is either the position the lookup is applied at (the
// method's first int parameter) or a position whose glyph took part in
// selecting the record (a load of the sequence at that index is in the
// backward slice of the record).  An index computed by arithmetic on the
// start position (a+1) names whatever glyph happens to be next, which is a
// glyph the lookup flags told the matcher to skip.
func RunPairTarget(w *World, r *Report, fns []*ssa.Function) {
	r.Rule("pairtarget: in the apply methods of package gtab each (*GposValueRecord).Apply(&seq[i]) has i equal to the position parameter of the method or to a position whose glyph was read to select the record (so the second record of a pair goes to the glyph the filter matched, not to the neighbour of the first); the record taken from the field First goes to the position parameter itself")
	for _, fn := range fns {
		if fn.Name() != "apply" || fn.Signature.Recv() == nil || !strings.HasSuffix(fnPkgPath(fn), "/opentype/gtab") {
			continue
		}
		// position parameter: the first int parameter after receiver and context
		var posParam *ssa.Parameter
		for _, p := range fn.Params {
			if b, ok := p.Type().Underlying().(*types.Basic); ok && b.Kind() == types.Int {
				posParam = p
				break
			}
		}
		for _, b := range fn.Blocks {
			for _, in := range b.Instrs {
				call, ok := in.(*ssa.Call)
				if !ok {
					continue
				}
				callee := call.Call.StaticCallee()
				if callee == nil || callee.Name() != "Apply" || callee.Signature.Recv() == nil || !strings.Contains(callee.Signature.Recv().Type().String(), "GposValueRecord") {
					continue
				}
				if len(call.Call.Args) < 2 {
					continue
				}
				recv := call.Call.Args[0]
				ia, ok := call.Call.Args[1].(*ssa.IndexAddr)
				if !ok {
					continue
				}
				fld := ""
				if ld, ok := recv.(*ssa.UnOp); ok && ld.Op == token.MUL {
					fld = fieldName(ld.X)
				}
				key := r.MkKey("pairtarget", fnName(fn), "value record "+fld)
				idx := ia.Index
				if idx == ssa.Value(posParam) && posParam != nil {
					r.OK("pairtarget", key, w.Pos(call.Pos()), "applied at the position the lookup is applied at")
					continue
				}
				if fld == "First" {
					r.Fail("pairtarget", key, w.Pos(call.Pos()), "the first value record of a pair is applied at a position other than the one the lookup is applied at", nil)
					continue
				}
				// positions whose glyph was read to select the record
				sel := false
				for v := range backSliceLocal(fn, recv) {
					if ia2, ok := v.(*ssa.IndexAddr); ok && ia2.Index == idx && sameSliceValue(ia2.X, ia.X) {
						sel = true
					}
				}
				if sel {
					r.OK("pairtarget", key, w.Pos(call.Pos()), "applied at a position whose glyph selected the record")
				} else {
					r.Fail("pairtarget", key, w.Pos(call.Pos()), fmt.Sprintf("the value record is applied to the element at index %s, which is neither the position the lookup is applied at nor a position whose glyph was read to select the record: with a lookup flag that skips glyphs the adjustment lands on a skipped glyph instead of the matched one", idx.Name()), nil)
				}
			}
		}
	}
}

// RunSkipMove: a ligature substitution replaces the first component by the
// ligature glyph and moves every glyph that the filter skipped between the
// components behind it.  In Gsub4_1.apply the skipped positions are collected
// in a list while matching (appended on the false branch of Keep); each
// element of that list must be used as the index of a sequence element that
// is copied to a position computed from the start position and the element's
// place in the list.
func RunSkipMove(w *World, r *Report) {
	r.Rule("skipmove: in (*Gsub4_1).apply the list of positions appended on the false branch of the glyph filter is traversed element by element, and for each element the sequence entry at that position is stored at an index computed from the start position and the loop counter (skipped glyphs from every gap between components end up directly behind the ligature, in order)")
	fn := w.Func("(*opentype/gtab.Gsub4_1).apply")
	if fn == nil {
		r.Fatal("(*opentype/gtab.Gsub4_1).apply does not resolve")
		return
	}
	key := r.MkKey("skipmove", fnName(fn), "skipped glyphs moved behind the ligature")
	// the skip list: values appended on the false branch of a Keep call
	family := map[ssa.Value]bool{}
	for _, b := range fn.Blocks {
		if len(b.Preds) != 1 {
			continue
		}
		p := b.Preds[0]
		ifi, ok := p.Instrs[len(p.Instrs)-1].(*ssa.If)
		if !ok || p.Succs[1] != b {
			continue
		}
		c, ok := ifi.Cond.(*ssa.Call)
		if !ok || c.Call.StaticCallee() == nil || c.Call.StaticCallee().Name() != "Keep" {
			continue
		}
		for _, in := range b.Instrs {
			if ap, ok := in.(*ssa.Call); ok {
				if bi, ok := ap.Call.Value.(*ssa.Builtin); ok && bi.Name() == "append" {
					family[ap] = true
				}
			}
		}
	}
	if len(family) == 0 {
		r.Fail("skipmove", key, w.Pos(fn.Pos()), "no list of skipped positions found (nothing is appended on the false branch of the glyph filter)", nil)
		return
	}
	// close the family over phis, re-slices and append bases
	for changed := true; changed; {
		changed = false
		add := func(v ssa.Value) {
			if v != nil && !family[v] {
				if _, ok := v.Type().Underlying().(*types.Slice); ok {
					family[v] = true
					changed = true
				}
			}
		}
		for _, b := range fn.Blocks {
			for _, in := range b.Instrs {
				switch x := in.(type) {
				case *ssa.Phi:
					hit := family[x]
					for _, e := range x.Edges {
						if family[e] {
							hit = true
						}
					}
					if hit {
						add(x)
						for _, e := range x.Edges {
							if c, isC := e.(*ssa.Const); !isC || c == nil {
								add(e)
							}
						}
					}
				case *ssa.Slice:
					if family[x] {
						add(x.X)
					}
					if family[x.X] {
						add(x)
					}
				case *ssa.Call:
					if bi, ok := x.Call.Value.(*ssa.Builtin); ok && bi.Name() == "append" && family[x] {
						add(x.Call.Args[0])
					}
				}
			}
		}
	}
	var posParam *ssa.Parameter
	for _, p := range fn.Params {
		if b, ok := p.Type().Underlying().(*types.Basic); ok && b.Kind() == types.Int {
			posParam = p
			break
		}
	}
	for _, b := range fn.Blocks {
		for _, in := range b.Instrs {
			st, ok := in.(*ssa.Store)
			if !ok {
				continue
			}
			dst, ok := st.Addr.(*ssa.IndexAddr)
			if !ok {
				continue
			}
			ld, ok := st.Val.(*ssa.UnOp)
			if !ok || ld.Op != token.MUL {
				continue
			}
			src, ok := ld.X.(*ssa.IndexAddr)
			if !ok || !sameSliceValue(src.X, dst.X) {
				continue
			}
			// source index: an element of the skip list at a loop counter
			sl, ok := src.Index.(*ssa.UnOp)
			if !ok || sl.Op != token.MUL {
				continue
			}
			el, ok := sl.X.(*ssa.IndexAddr)
			if !ok || !family[el.X] {
				continue
			}
			if _, isConst := el.Index.(*ssa.Const); isConst {
				continue
			}
			ds := backSlice(dst.Index)
			if posParam != nil && ds[posParam] && ds[el.Index] {
				r.OK("skipmove", key, w.Pos(st.Pos()), "each skipped position is copied to start + counter + constant")
				return
			}
		}
	}
	r.Fail("skipmove", key, w.Pos(fn.Pos()), "the positions skipped while matching the components are recorded, but no loop copies the sequence entry at each of them to a place computed from the start position and its rank: skipped glyphs from different gaps between the components are not all moved behind the ligature (a block copy from the first skipped position also copies the components in between)", nil)
}

// backSliceLocal is backSlice that also follows local variables: where the
// slice reaches an Alloc (or a field of one), the values stored into that
// Alloc anywhere in the function are included.
func backSliceLocal(fn *ssa.Function, v ssa.Value) map[ssa.Value]bool {
	stores := map[ssa.Value][]ssa.Value{}
	root := func(a ssa.Value) ssa.Value {
		for {
			switch x := a.(type) {
			case *ssa.FieldAddr:
				a = x.X
			case *ssa.IndexAddr:
				if _, isArr := x.X.Type().Underlying().(*types.Pointer); isArr {
					a = x.X
				} else {
					return a
				}
			default:
				return a
			}
		}
	}
	for _, b := range fn.Blocks {
		for _, in := range b.Instrs {
			if st, ok := in.(*ssa.Store); ok {
				if al, ok := root(st.Addr).(*ssa.Alloc); ok {
					stores[al] = append(stores[al], st.Val)
				}
			}
		}
	}
	seen := map[ssa.Value]bool{}
	var visit func(x ssa.Value)
	visit = func(x ssa.Value) {
		if x == nil || seen[x] {
			return
		}
		seen[x] = true
		if al, ok := x.(*ssa.Alloc); ok {
			for _, sv := range stores[al] {
				visit(sv)
			}
		}
		if ins, ok := x.(ssa.Instruction); ok {
			for _, op := range ins.Operands(nil) {
				if *op != nil {
					visit(*op)
				}
			}
		}
	}
	visit(v)
	return seen
}

// RunKeepPerLookup: the glyph filter a lookup is applied with is made from
// that lookup's own flags and mark filtering set.  Every store into the
// context's keep field in a function that also stores the current lookup
// runs whenever the lookup is stored (it is not skipped on a condition), or
// the condition under which it is skipped reads every field of the lookup's
// meta information that the filter reads (flags AND mark filtering set).
func RunKeepPerLookup(w *World, r *Report, fns []*ssa.Function) {
	r.Rule("keepperlookup: where the shaping context takes up a lookup (store to the lookup field), the glyph filter (keep field) is rebuilt from that lookup's meta information on every path; a filter carried over from the previous lookup is accepted only under a test that compares every meta field the filter reads (LookupFlags and MarkFilteringSet)")
	// fields of the meta information that the filter reads
	need := map[string]bool{}
	if kf := w.Func("(*opentype/gtab.keepFunc).Keep"); kf != nil {
		for _, b := range kf.Blocks {
			for _, in := range b.Instrs {
				if fa, ok := in.(*ssa.FieldAddr); ok {
					if p, ok := fa.X.Type().Underlying().(*types.Pointer); ok {
						if n, ok := p.Elem().(*types.Named); ok && n.Obj().Name() == "LookupMetaInfo" {
							need[fieldName(fa)] = true
						}
					}
				}
			}
		}
	}
	if len(need) == 0 {
		r.Fatal("keepperlookup: the meta fields read by (*keepFunc).Keep could not be determined")
		return
	}
	n := 0
	for _, fn := range fns {
		if !strings.HasSuffix(fnPkgPath(fn), "/opentype/gtab") {
			continue
		}
		var lookupStores, keepStores []*ssa.Store
		var cc map[*ssa.BasicBlock][]ssa.Value
		for _, b := range fn.Blocks {
			for _, in := range b.Instrs {
				if st, ok := in.(*ssa.Store); ok {
					fa, ok := st.Addr.(*ssa.FieldAddr)
					if !ok {
						continue
					}
					if p, ok := fa.X.Type().Underlying().(*types.Pointer); !ok || !strings.HasSuffix(p.Elem().String(), "gtab.Context") {
						continue
					}
					switch fieldName(fa) {
					case "lookup":
						lookupStores = append(lookupStores, st)
					case "keep":
						keepStores = append(keepStores, st)
					}
				}
			}
		}
		for _, ls := range lookupStores {
			n++
			key := r.MkKey("keepperlookup", fnName(fn), "filter for the lookup taken up")
			ok := false
			detail := "the context takes up a lookup here but the glyph filter is not rebuilt in this function: the lookup is applied with the filter of an earlier lookup"
			for _, ks := range keepStores {
				// same block, or the keep store's block post-dominates: approximated by "dominates every successor path": the
				// store must be in a block that the lookup store's block dominates and that is not control-dependent on anything else
				kb, lb := ks.Block(), ls.Block()
				if kb == lb {
					ok = true
					break
				}
				if !lb.Dominates(kb) {
					continue
				}
				// conditions between the two stores (control dependence, so that a || b is seen as both)
				var conds []ssa.Value
				if cc == nil {
					cc = controlConds(fn)
				}
				for _, c := range cc[kb] {
					if ci, isI := c.(ssa.Instruction); isI && ci.Block() != nil && lb.Dominates(ci.Block()) {
						conds = append(conds, c)
					}
				}
				if len(conds) == 0 {
					ok = true
					break
				}
				// a conditional rebuild: the test must read every needed meta field
				read := map[string]bool{}
				for _, c := range conds {
					for v := range backSlice(c) {
						if fa, isFA := v.(*ssa.FieldAddr); isFA {
							read[fieldName(fa)] = true
						}
					}
				}
				var missing []string
				for f := range need {
					if !read[f] {
						missing = append(missing, f)
					}
				}
				sort.Strings(missing)
				if len(missing) == 0 {
					ok = true
					break
				}
				detail = "the glyph filter is rebuilt only under a test that does not look at " + strings.Join(missing, ", ") + " of the lookup's meta information, which the filter reads: two lookups that agree on what the test compares but differ there are applied with the same filter"
			}
			if ok {
				r.OK("keepperlookup", key, w.Pos(ls.Pos()), "the filter is rebuilt from the lookup's meta information")
			} else {
				r.Fail("keepperlookup", key, w.Pos(ls.Pos()), detail, nil)
			}
		}
	}
	if n == 0 {
		r.Fail("keepperlookup", r.MkKey("keepperlookup", "opentype/gtab", "filter for the lookup taken up"), "-", "no function stores the context's current lookup", nil)
	}
	r.Floor("keepperlookup", 1)
}

// RunSkipExit: the matchers step over glyphs that the lookup flags exclude
// with loops of the form `for A && !keep.Keep(seq[p].GID) { p++ }` (or p--),
// where A keeps p inside the window.  Such a loop ends either on a glyph the
// filter keeps or because A failed; in the second case seq[p] is a glyph the
// filter did not examine (or excluded) and must not be matched.  At every
// read of seq[p] behind the loop the prover has to show that A still holds —
// which it can only if the code rejects exactly the complement of A first.
// An off-by-one between the loop's window test and the rejecting test lets
// an excluded glyph at the edge of the window take part in a match.
func RunSkipExit(w *World, r *Report, br *boundsRun, fns []*ssa.Function) {
	r.Rule("skipexit: behind every skipping loop `for A && !Keep(seq[p]) { step p }` of package gtab, each read of seq[p] (same position value) lies where the prover shows the window condition A: the loop was left on a kept glyph, not because the window ended (rejecting test and window test are complements)")
	for _, fn := range fns {
		if !strings.HasSuffix(fnPkgPath(fn), "/opentype/gtab") || fn.Blocks == nil {
			continue
		}
		var p *bprover
		for _, l := range naturalLoops(fn) {
			// head: if A goto X else exit; X: k = Keep(seq[p].GID); if k goto exit2 else body
			if len(l.head.Instrs) == 0 {
				continue
			}
			hif, ok := l.head.Instrs[len(l.head.Instrs)-1].(*ssa.If)
			if !ok {
				continue
			}
			A, ok := hif.Cond.(*ssa.BinOp)
			if !ok {
				continue
			}
			x := l.head.Succs[0]
			if !l.body[x] || len(x.Instrs) == 0 {
				continue
			}
			xif, ok := x.Instrs[len(x.Instrs)-1].(*ssa.If)
			if !ok {
				continue
			}
			kc, ok := xif.Cond.(*ssa.Call)
			if !ok || kc.Call.StaticCallee() == nil || kc.Call.StaticCallee().Name() != "Keep" {
				continue
			}
			if l.body[x.Succs[0]] { // the loop continues while Keep is false: the true edge leaves it
				continue
			}
			// the position: index of the seq element whose GID is handed to Keep
			var pos ssa.Value
			var seqv ssa.Value
			for v := range backSlice(kc.Call.Args[len(kc.Call.Args)-1]) {
				if ia, ok := v.(*ssa.IndexAddr); ok {
					pos, seqv = ia.Index, ia.X
				}
			}
			if pos == nil {
				continue
			}
			if p == nil {
				p = br.prover(fn)
			}
			// facts that make up A
			var afacts []bfact
			p.condFacts(A, true, &afacts)
			if len(afacts) == 0 {
				continue
			}
			// reads of seq[pos] outside the loop
			for _, b := range fn.Blocks {
				if l.body[b] {
					continue
				}
				for _, in := range b.Instrs {
					ia, ok := in.(*ssa.IndexAddr)
					if !ok || ia.Index != pos || !sameSliceValue(ia.X, seqv) {
						continue
					}
					if !l.head.Dominates(b) {
						continue
					}
					key := r.MkKey("skipexit", fnName(fn), "read of the element the skipping loop stopped at")
					proved := true
					for _, f := range afacts {
						if f.ne {
							continue
						}
						if !p.proveAt(b, f.e) {
							proved = false
						}
					}
					if proved {
						r.OK("skipexit", key, w.Pos(ia.Pos()), "the window condition of the loop holds here")
					} else {
						r.Fail("skipexit", key, w.Pos(ia.Pos()), "the element is read although the skipping loop at "+w.Pos(A.Pos())+" may have ended because its window condition failed rather than on a glyph the filter keeps: the test that rejects the position is not the complement of the loop's window test, so at the edge of the window a glyph the lookup flags exclude is matched", nil)
					}
				}
			}
		}
	}
}

// RunFormatField: every GSUB/GPOS subtable begins with its 16-bit format
// number, which is what the reader dispatches on.  The encoders are methods
// of types named after lookup type and format (Gsub3_1, SeqContext2,
// ChainedSeqContext3 …); the first two bytes an encode method produces must
// be (0, F) with F the format in the type's name.  The bytes are found in
// the two ways the encoders build their buffer: the first append to a buffer
// made with length 0 (or a returned byte literal), or constant-index stores
// into a buffer made with its final length (an index that is not stored
// stays 0).
func RunFormatField(w *World, r *Report) {
	r.Rule("formatfield: the first two bytes produced by the encode method of every subtable type of package gtab whose name ends in a format digit are 0 and that digit (first append to an empty buffer, returned byte literal, or constant-index stores into a buffer of final length)")
	pkg := w.All[modPath+"/opentype/gtab"]
	if pkg == nil {
		r.Fatal("package gtab not loaded")
		return
	}
	info := pkg.TypesInfo
	n := 0
	for _, f := range pkg.Syntax {
		for _, d := range f.Decls {
			fd, ok := d.(*ast.FuncDecl)
			if !ok || fd.Recv == nil || fd.Body == nil || fd.Name.Name != "encode" {
				continue
			}
			rt := fd.Recv.List[0].Type
			if st, ok := rt.(*ast.StarExpr); ok {
				rt = st.X
			}
			tn := types.ExprString(rt)
			if len(tn) < 2 || tn[len(tn)-1] < '1' || tn[len(tn)-1] > '9' {
				continue
			}
			want := int64(tn[len(tn)-1] - '0')
			if fd.Type.Results == nil || len(fd.Type.Results.List) != 1 || !isByteSlice(info.TypeOf(fd.Type.Results.List[0].Type)) {
				continue
			}
			if isPanicOnly(fd.Body) {
				continue // a "not implemented" stub (reported by reencode under C02)
			}
			n++
			key := r.MkKey("formatfield", "opentype/gtab."+tn, "format number written by encode")
			b0, b1, how, ok := firstTwoBytes(info, fd)
			switch {
			case !ok:
				r.Fail("formatfield", key, w.Pos(fd.Pos()), "the first two bytes that encode produces could not be determined ("+how+")", nil)
			case b0 == 0 && b1 == want:
				r.OK("formatfield", key, w.Pos(fd.Pos()), fmt.Sprintf("format %d, %s", want, how))
			default:
				r.Fail("formatfield", key, w.Pos(fd.Pos()), fmt.Sprintf("the subtable begins with the bytes %d, %d but the type is format %d: the reader dispatches on this number, so the subtable is read back as another format or rejected", b0, b1, want), nil)
			}
		}
	}
	if n < 15 {
		r.Fatal("formatfield: only %d encode methods of format-numbered subtable types found", n)
	}
	r.Floor("formatfield", 15)
}

func firstTwoBytes(info *types.Info, fd *ast.FuncDecl) (int64, int64, string, bool) {
	constOf := func(e ast.Expr) (int64, bool) { return constInt(info, e) }
	var bufObj types.Object
	fullLen := false
	for _, st := range fd.Body.List {
		switch x := st.(type) {
		case *ast.ReturnStmt:
			if bufObj == nil && len(x.Results) == 1 {
				if cl, ok := x.Results[0].(*ast.CompositeLit); ok && len(cl.Elts) >= 2 {
					a, ok1 := constOf(cl.Elts[0])
					b, ok2 := constOf(cl.Elts[1])
					return a, b, "returned literal", ok1 && ok2
				}
			}
		case *ast.AssignStmt:
			if len(x.Lhs) != 1 || len(x.Rhs) != 1 {
				continue
			}
			id, isID := x.Lhs[0].(*ast.Ident)
			call, isCall := x.Rhs[0].(*ast.CallExpr)
			if bufObj == nil && isID && x.Tok == token.DEFINE {
				if cl, ok := x.Rhs[0].(*ast.CompositeLit); ok && isByteSlice(info.TypeOf(cl)) && len(cl.Elts) >= 2 {
					a, ok1 := constOf(cl.Elts[0])
					b, ok2 := constOf(cl.Elts[1])
					return a, b, "byte literal", ok1 && ok2
				}
				if isCall {
					if fid, ok := call.Fun.(*ast.Ident); ok && fid.Name == "make" && len(call.Args) >= 2 && isByteSlice(info.TypeOf(call.Args[0])) {
						bufObj = info.ObjectOf(id)
						if len(call.Args) == 2 {
							fullLen = true
						} else if l, ok := constOf(call.Args[1]); !ok || l != 0 {
							fullLen = true
						}
						continue
					}
				}
			}
			if bufObj == nil {
				continue
			}
			// first append to the empty buffer
			if !fullLen && isID && info.ObjectOf(id) == bufObj && isCall {
				if fid, ok := call.Fun.(*ast.Ident); ok && fid.Name == "append" && len(call.Args) >= 3 && call.Ellipsis == token.NoPos {
					a, ok1 := constOf(call.Args[1])
					b, ok2 := constOf(call.Args[2])
					return a, b, "first append", ok1 && ok2
				}
				return 0, 0, "the first append to the buffer does not begin with two constants", false
			}
		}
	}
	if bufObj != nil && fullLen {
		// constant-index stores at 0 and 1 anywhere in the top-level list; absent = 0
		var v [2]int64
		var dyn [2]bool
		for _, st := range fd.Body.List {
			as, ok := st.(*ast.AssignStmt)
			if !ok || len(as.Lhs) != 1 || len(as.Rhs) != 1 {
				continue
			}
			ix, ok := as.Lhs[0].(*ast.IndexExpr)
			if !ok {
				continue
			}
			if bid, ok := ix.X.(*ast.Ident); !ok || info.ObjectOf(bid) != bufObj {
				continue
			}
			k, ok := constOf(ix.Index)
			if !ok || k < 0 || k > 1 {
				continue
			}
			if c, ok := constOf(as.Rhs[0]); ok {
				v[k] = c
			} else {
				dyn[k] = true
			}
		}
		if dyn[0] || dyn[1] {
			return 0, 0, "a non-constant value is stored at offset 0 or 1", false
		}
		return v[0], v[1], "stores into a buffer of final length", true
	}
	return 0, 0, "no buffer construction recognised", false
}

// RunExtType: a lookup list that does not fit 16-bit offsets wraps its
// subtables in extension subtables, whose lookup type is 7 in a GSUB table
// and 9 in a GPOS table.  In LookupList.encode the variable holding that
// type receives the constant 7 on a path through type tests for GSUB subtable
// types and the constant 9 on a path through GPOS subtable types.
func RunExtType(w *World, r *Report) {
	r.Rule("exttype: in (LookupList).encode every assignment of the extension lookup type 7 lies in a case body entered through tests for GSUB subtable types, or for the shared contextual types under a comparison that admits the lookup types 5 and 6 only; every assignment of 9 in a case body for GPOS subtable types, or contextual types under a comparison that admits 7 and 8 only (both assignments exist, neither is exchanged)")
	fn := w.Func("(opentype/gtab.LookupList).encode")
	if fn == nil {
		r.Fatal("(opentype/gtab.LookupList).encode does not resolve")
		return
	}
	key := r.MkKey("exttype", fnName(fn), "extension lookup type")
	// for each constant 7 / 9 of type uint16 flowing into a phi: which type tests guard the edge?
	got := map[int64]string{}
	for _, b := range fn.Blocks {
		for _, in := range b.Instrs {
			ph, ok := in.(*ssa.Phi)
			if !ok {
				continue
			}
			bt, ok := ph.Type().Underlying().(*types.Basic)
			if !ok || bt.Kind() != types.Uint16 {
				continue
			}
			for i, e := range ph.Edges {
				c, isC := bconstInt(e)
				if !isC || (c != 7 && c != 9) {
					continue
				}
				// the case body on the way to the predecessor: a block entered only through the true edges of type tests
				fam := ""
				var ltConds []guard
				for d := b.Preds[i]; d != nil && fam == ""; d = d.Idom() {
					fams := map[string]bool{}
					all := len(d.Preds) > 0
					for _, p := range d.Preds {
						ifi, ok := p.Instrs[len(p.Instrs)-1].(*ssa.If)
						if !ok || p.Succs[0] != d {
							all = false
							break
						}
						ex, ok := ifi.Cond.(*ssa.Extract)
						if !ok {
							all = false
							break
						}
						ta, ok := ex.Tuple.(*ssa.TypeAssert)
						if !ok {
							all = false
							break
						}
						s := ta.AssertedType.String()
						switch {
						case strings.Contains(s, "gtab.Gsub"):
							fams["GSUB"] = true
						case strings.Contains(s, "gtab.Gpos"):
							fams["GPOS"] = true
						case strings.Contains(s, "SeqContext"):
							fams["CTX"] = true
						default:
							fams["other"] = true
						}
					}
					if all && len(fams) == 1 {
						for f := range fams {
							fam = f
						}
					} else if all && len(fams) > 1 {
						fam = "mixed"
					}
					if fam == "" {
						// remember comparisons of the lookup type passed on the way up
						if id := d.Idom(); id != nil && len(id.Instrs) > 0 {
							if ifi, ok := id.Instrs[len(id.Instrs)-1].(*ssa.If); ok {
								if id.Succs[0] == d && len(d.Preds) == 1 {
									ltConds = append(ltConds, guard{ifi.Cond, true, id})
								} else if id.Succs[1] == d && len(d.Preds) == 1 {
									ltConds = append(ltConds, guard{ifi.Cond, false, id})
								}
							}
						}
					}
				}
				if fam == "CTX" {
					// contextual subtables are shared: the lookup type decides (GSUB 5, 6; GPOS 7, 8)
					fam = "contextual subtable types without a test of the lookup type"
					for _, g := range ltConds {
						bo, ok := g.cond.(*ssa.BinOp)
						if !ok || fieldName(loadAddr(bo.X)) != "LookupType" {
							continue
						}
						k, ok := bconstInt(bo.Y)
						if !ok {
							continue
						}
						sat := func(v int64) bool {
							res := false
							switch bo.Op {
							case token.LSS:
								res = v < k
							case token.LEQ:
								res = v <= k
							case token.GTR:
								res = v > k
							case token.GEQ:
								res = v >= k
							case token.EQL:
								res = v == k
							case token.NEQ:
								res = v != k
							}
							return res == g.then
						}
						gsub := sat(5) && sat(6) && !sat(7) && !sat(8)
						gpos := !sat(5) && !sat(6) && sat(7) && sat(8)
						switch {
						case gsub:
							fam = "GSUB"
						case gpos:
							fam = "GPOS"
						}
					}
				}
				if prev, ok := got[c]; ok && prev != fam && fam != "" {
					if prev == "GSUB" || prev == "GPOS" {
						if fam != "GSUB" && fam != "GPOS" {
							got[c] = fam
						} else {
							got[c] = "GSUB and GPOS"
						}
					}
					continue
				}
				got[c] = fam
			}
		}
	}
	var problems []string
	if f, ok := got[7]; !ok {
		problems = append(problems, "the extension type 7 (GSUB) is never assigned: a GSUB table that needs extension subtables is written with the wrong lookup type")
	} else if f != "GSUB" {
		problems = append(problems, "the extension type 7 is assigned on a path that tested for "+f+" subtable types")
	}
	if f, ok := got[9]; !ok {
		problems = append(problems, "the extension type 9 (GPOS) is never assigned: a GPOS table that needs extension subtables is written with the wrong lookup type")
	} else if f != "GPOS" {
		problems = append(problems, "the extension type 9 is assigned on a path that tested for "+f+" subtable types")
	}
	if len(problems) == 0 {
		r.OK("exttype", key, w.Pos(fn.Pos()), "7 behind GSUB type tests, 9 behind GPOS type tests")
	} else {
		r.Fail("exttype", key, w.Pos(fn.Pos()), strings.Join(problems, "; "), nil)
	}
	r.Floor("exttype", 1)
	// every subtable type the package defines decides the extension type: a list that holds only
	// types the switch does not know is written with extension type 0 once it needs extension records
	asserted := map[string]bool{}
	// constants assigned behind the true side of each type test
	assignedBehind := map[string]map[int64]bool{}
	for _, b := range fn.Blocks {
		for _, in := range b.Instrs {
			ta, ok := in.(*ssa.TypeAssert)
			if !ok {
				continue
			}
			tname := ta.AssertedType.String()
			asserted[tname] = true
			if !ta.CommaOk || ta.Referrers() == nil {
				continue
			}
			for _, ref := range *ta.Referrers() {
				ex, ok := ref.(*ssa.Extract)
				if !ok || ex.Index != 1 || ex.Referrers() == nil {
					continue
				}
				for _, r2 := range *ex.Referrers() {
					ifi, ok := r2.(*ssa.If)
					if !ok {
						continue
					}
					body := ifi.Block().Succs[0]
					for _, pb := range fn.Blocks {
						for _, pin := range pb.Instrs {
							ph, ok := pin.(*ssa.Phi)
							if !ok {
								break
							}
							for i, e := range ph.Edges {
								c, isC := bconstInt(e)
								if !isC || (c != 7 && c != 9) {
									continue
								}
								p := pb.Preds[i]
								if p == body || body.Dominates(p) {
									if assignedBehind[tname] == nil {
										assignedBehind[tname] = map[int64]bool{}
									}
									assignedBehind[tname][c] = true
								}
							}
						}
					}
				}
			}
		}
	}
	gp := w.All[modPath+"/opentype/gtab"]
	if gp == nil {
		return
	}
	names := gp.Types.Scope().Names()
	for _, n := range names {
		tn, ok := gp.Types.Scope().Lookup(n).(*types.TypeName)
		if !ok || n == "extensionSubtable" || n == "Subtable" {
			continue
		}
		if _, isIface := tn.Type().Underlying().(*types.Interface); isIface {
			continue
		}
		var t types.Type
		switch {
		case implementsSubtable(w, types.NewPointer(tn.Type())):
			t = types.NewPointer(tn.Type())
		}
		if implementsSubtable(w, tn.Type()) {
			t = tn.Type()
		}
		if t == nil {
			continue
		}
		k := r.MkKey("exttype", fnName(fn), "subtable type "+n)
		got7, got9 := false, false
		for _, nm := range []string{t.String(), types.NewPointer(tn.Type()).String(), tn.Type().String()} {
			if assignedBehind[nm][7] {
				got7 = true
			}
			if assignedBehind[nm][9] {
				got9 = true
			}
		}
		want7 := strings.HasPrefix(n, "Gsub") || strings.Contains(n, "SeqContext")
		want9 := strings.HasPrefix(n, "Gpos") || strings.Contains(n, "SeqContext")
		if asserted[t.String()] || asserted[types.NewPointer(tn.Type()).String()] || asserted[tn.Type().String()] {
			if (want7 && !got7) || (want9 && !got9) {
				r.FailC("exttype", k, []string{"unassigned"}, w.Pos(fn.Pos()), "subtable type "+n+" is tested for, but the case it leads to does not assign the extension lookup type this kind of subtable needs: a list that is recognised by such a subtable is written with extension lookup type 0 once it needs extension records", nil)
				continue
			}
			r.OK("exttype", k, w.Pos(fn.Pos()), "decides the extension lookup type")
		} else {
			r.FailC("exttype", k, []string{"unlisted"}, w.Pos(fn.Pos()), "subtable type "+n+" is not among the types from which (LookupList).encode derives the extension lookup type: a lookup list that holds only such subtables and is too large for 16-bit offsets is written with extension lookup type 0 and cannot be read back", nil)
		}
	}
}

// loadAddr: the address a load reads from (nil for other values).
func loadAddr(v ssa.Value) ssa.Value {
	if u, ok := v.(*ssa.UnOp); ok && u.Op == token.MUL {
		return u.X
	}
	return nil
}

// RunLookaheadSkip: the glyphs of a lookahead sequence are found by skipping
// ignored glyphs up to the end of the whole sequence — the lookahead lies
// outside the window [a,b) of the input. In every apply method that ranges
// over a Lookahead list, the test of a lookahead element is therefore
// dominated, inside that range loop, by the head of a skipping loop (a loop
// that calls Keep): the first lookahead glyph too is looked for behind the
// ignored glyphs that follow the input. The three formats of the chaining
// context subtables are siblings; one that tests first and skips afterwards
// misses a lookahead behind an ignored glyph when it runs nested (b short of
// the end of the sequence).
func RunLookaheadSkip(w *World, r *Report, fns []*ssa.Function) {
	r.Rule("lookaheadskip: in every apply method of package gtab that ranges over a field named Lookahead, on every path from the function entry, and from one test of a lookahead element to the next, the head of a skipping loop (a small loop that calls Keep and whose window condition involves the length of the sequence) is passed before a branch condition that depends on the current lookahead element: ignored glyphs are skipped up to the end of the sequence before the first lookahead element is tested, as before the others")
	n := 0
	for _, fn := range fns {
		if !strings.HasSuffix(fnPkgPath(fn), "/opentype/gtab") || fn.Name() != "apply" || len(fn.Blocks) == 0 {
			continue
		}
		loops := naturalLoops(fn)
		for _, l := range loops {
			// a range loop over a slice loaded from a field Lookahead: element loads x[idx] with idx the range index
			var elems []ssa.Value
			for b := range l.body {
				for _, in := range b.Instrs {
					ld, ok := in.(*ssa.UnOp)
					if !ok || ld.Op != token.MUL {
						continue
					}
					ia, ok := ld.X.(*ssa.IndexAddr)
					if !ok {
						continue
					}
					src := ia.X
					if l2, ok := src.(*ssa.UnOp); ok && l2.Op == token.MUL {
						if fieldName(l2.X) == "Lookahead" {
							elems = append(elems, ld)
						}
					}
				}
			}
			if len(elems) == 0 {
				continue
			}
			// innermost such loop only (the rule loop around it also contains the loads)
			inner := true
			for _, l2 := range loops {
				if l2 != l && l.body[l2.head] && len(l2.body) < len(l.body) {
					for _, e := range elems {
						if l2.body[e.(ssa.Instruction).Block()] {
							inner = false
						}
					}
				}
			}
			if !inner {
				continue
			}
			// heads of skipping loops whose window reaches to the end of the sequence (the condition involves a len)
			skipHead := map[*ssa.BasicBlock]bool{}
			for _, l2 := range loops {
				calls := false
				for b := range l2.body {
					for _, in := range b.Instrs {
						if c, ok := in.(*ssa.Call); ok && c.Call.StaticCallee() != nil && c.Call.StaticCallee().Name() == "Keep" {
							calls = true
						}
					}
				}
				if !calls || len(l2.head.Instrs) == 0 || len(l2.body) > 6 {
					continue
				}
				if ifi, ok := l2.head.Instrs[len(l2.head.Instrs)-1].(*ssa.If); ok {
					for v := range backSlice(ifi.Cond) {
						if c, ok := v.(*ssa.Call); ok {
							if bi, ok := c.Call.Value.(*ssa.Builtin); ok && bi.Name() == "len" {
								skipHead[l2.head] = true
							}
						}
					}
				}
			}
			// tests of the current lookahead element
			tests := map[*ssa.BasicBlock]*ssa.If{}
			for b := range l.body {
				if len(b.Instrs) == 0 {
					continue
				}
				ifi, ok := b.Instrs[len(b.Instrs)-1].(*ssa.If)
				if !ok {
					continue
				}
				bs := backSlice(ifi.Cond)
				for _, e := range elems {
					if bs[e] {
						tests[b] = ifi
					}
				}
			}
			// forward: can a test be reached without a skip since function entry or since the previous test?
			const stSkipped, stNot = 1, 2
			in := map[*ssa.BasicBlock]int{fn.Blocks[0]: stNot}
			work := []*ssa.BasicBlock{fn.Blocks[0]}
			unskipped := map[*ssa.BasicBlock]bool{}
			for len(work) > 0 {
				b := work[len(work)-1]
				work = work[:len(work)-1]
				out := in[b]
				if skipHead[b] {
					out = stSkipped
				}
				if _, isT := tests[b]; isT {
					if out&stNot != 0 {
						unskipped[b] = true
					}
					out = stNot
				}
				for _, sc := range b.Succs {
					if in[sc]|out != in[sc] {
						in[sc] |= out
						work = append(work, sc)
					}
				}
			}
			var tbs []*ssa.BasicBlock
			for b := range tests {
				tbs = append(tbs, b)
			}
			sort.Slice(tbs, func(i, j int) bool { return tbs[i].Index < tbs[j].Index })
			for _, b := range tbs {
				ifi := tests[b]
				n++
				key := r.MkKey("lookaheadskip", fnName(fn), "test of a lookahead element")
				if !unskipped[b] {
					r.OK("lookaheadskip", key, w.Pos(ifi.Cond.Pos()), "ignored glyphs are skipped first on every path")
				} else {
					r.Fail("lookaheadskip", key, w.Pos(ifi.Cond.Pos()), "the lookahead element can be tested against the glyph at the current position without ignored glyphs having been skipped up to the end of the sequence since the input was matched (or since the previous lookahead element): when the lookup runs nested (the input window ends before the sequence does) and an ignored glyph follows the input, the lookahead behind it is not found, while the other formats of the subtable find it", nil)
				}
			}
		}
	}
	r.Floor("lookaheadskip", 3)
}

// RunReverseScan: reverse chaining substitutions (GSUB lookup type 8) are
// processed from the end of the glyph sequence to its start, so that a
// substitution does not change the lookahead of the positions still to come.
// Context.Apply therefore distinguishes lookup type 8 and scans backwards for
// it.
func RunReverseScan(w *World, r *Report) {
	r.Rule("reversescan: (*Context).Apply compares the lookup type with 8 and has, behind that test, a scan whose position decreases: reverse chaining substitutions are applied from the end of the sequence towards its start")
	fn := w.Func("(*opentype/gtab.Context).Apply")
	if fn == nil {
		r.Fatal("(*opentype/gtab.Context).Apply does not resolve")
		return
	}
	key := r.MkKey("reversescan", fnName(fn), "lookup type 8")
	tests := false
	for _, b := range fn.Blocks {
		for _, in := range b.Instrs {
			bo, ok := in.(*ssa.BinOp)
			if !ok || (bo.Op != token.EQL && bo.Op != token.NEQ) {
				continue
			}
			if k, ok := bconstInt(bo.Y); ok && k == 8 && fieldName(loadAddr(bo.X)) == "LookupType" {
				tests = true
			}
		}
	}
	if tests {
		r.OK("reversescan", key, w.Pos(fn.Pos()), "lookup type 8 is told apart")
	} else {
		r.Fail("reversescan", key, w.Pos(fn.Pos()), "Apply scans every lookup from the start of the sequence to its end and never looks at the lookup type: a reverse chaining substitution (GSUB type 8) is applied forwards, so a glyph substituted at one position changes the lookahead context of the position before it is processed", nil)
	}
}

// RunFreshSlot: a glyph sequence that is extended in place (re-sliced beyond
// its length into the capacity of the buffer) exposes elements that still
// hold whatever an earlier call left there. Behind the extension an element
// is therefore written as a whole (seq[i] = glyph.Info{...}); setting
// single fields of it lets the advance and offsets of an earlier call shine
// through.
func RunFreshSlot(w *World, r *Report, fns []*ssa.Function) {
	r.Rule("freshslot: in the functions of package gtab that extend a []glyph.Info in place (a slice expression whose upper bound is computed from len of the same slice plus something), no field of an element of that slice is stored behind the extension unless the same block also stores the whole element: inserted glyphs do not inherit fields from an earlier use of the buffer")
	n := 0
	for _, fn := range fns {
		if !strings.HasSuffix(fnPkgPath(fn), "/opentype/gtab") || len(fn.Blocks) == 0 {
			continue
		}
		// growth: Slice with High = len(X) + ... over a []glyph.Info
		var grow []*ssa.Slice
		for _, b := range fn.Blocks {
			for _, in := range b.Instrs {
				sl, ok := in.(*ssa.Slice)
				if !ok || sl.High == nil || !strings.HasSuffix(sl.Type().String(), "glyph.Info") {
					continue
				}
				add, ok := sl.High.(*ssa.BinOp)
				if !ok || (add.Op != token.ADD && add.Op != token.SUB) {
					continue
				}
				hasLen := false
				for v := range backSlice(add) {
					if c, ok := v.(*ssa.Call); ok {
						if bi, ok := c.Call.Value.(*ssa.Builtin); ok && bi.Name() == "len" {
							hasLen = true
						}
					}
				}
				if hasLen {
					grow = append(grow, sl)
				}
			}
		}
		for _, g := range grow {
			n++
			key := r.MkKey("freshslot", fnName(fn), "sequence extended in place")
			bad := ""
			for _, b := range fn.Blocks {
				if !(g.Block() == b || g.Block().Dominates(b)) {
					continue
				}
				whole := map[ssa.Value]bool{} // index values whose element is stored whole in this block
				for _, in := range b.Instrs {
					if st, ok := in.(*ssa.Store); ok {
						if ia, ok := st.Addr.(*ssa.IndexAddr); ok && ia.X == ssa.Value(g) {
							whole[ia.Index] = true
						}
					}
				}
				for _, in := range b.Instrs {
					st, ok := in.(*ssa.Store)
					if !ok {
						continue
					}
					fa, ok := st.Addr.(*ssa.FieldAddr)
					if !ok {
						continue
					}
					ia, ok := fa.X.(*ssa.IndexAddr)
					if !ok || ia.X != ssa.Value(g) {
						continue
					}
					if !whole[ia.Index] {
						bad = w.Pos(st.Pos())
					}
				}
			}
			if bad != "" {
				r.Fail("freshslot", key, bad, "a single field of an element of the extended sequence is set here, and the element is not written as a whole in the same place: the other fields (advance, offsets, text) keep what an earlier call on the same buffer left in that slot, so the result depends on the history of the Context or Layouter", nil)
			} else {
				r.OK("freshslot", key, w.Pos(g.Pos()), "elements behind the extension are written whole")
			}
		}
	}
	r.Floor("freshslot", 1)
}
