package main

import (
	"fmt"
	"go/token"
	"go/types"
	"os"
	"sort"
	"strings"
	"time"

	"golang.org/x/tools/go/ssa"
)

// boundSite is one operation that panics when a linear condition fails.
type boundSite struct {
	fn    *ssa.Function
	ins   ssa.Instruction
	kind  string // index, slice, div, makeslice
	descr string
	goals []blin // each must be >= 0
	gtext []string
}

// sitesOf enumerates the bounds obligations of a function.
func (p *bprover) sitesOf() []boundSite {
	var res []boundSite
	fn := p.fn
	for _, b := range fn.Blocks {
		for _, in := range b.Instrs {
			switch x := in.(type) {
			case *ssa.IndexAddr:
				res = append(res, p.indexSite(x, x.X, x.Index))
			case *ssa.Index:
				res = append(res, p.indexSite(x, x.X, x.Index))
			case *ssa.Lookup:
				if bIsString(x.X.Type().Underlying()) {
					res = append(res, p.indexSite(x, x.X, x.Index))
				}
			case *ssa.Slice:
				res = append(res, p.sliceSite(x))
			case *ssa.BinOp:
				if (x.Op == token.QUO || x.Op == token.REM) && isIntType(x.Type()) {
					if c, ok := bconstInt(x.Y); ok && c != 0 {
						continue
					}
					y := p.linOf(x.Y)
					res = append(res, boundSite{fn: fn, ins: x, kind: "div", descr: "divisor " + p.linStr(y),
						goals: []blin{y.addc(-1)}, gtext: []string{"divisor >= 1"}})
				}
			case *ssa.MakeSlice:
				l := p.linOf(x.Len)
				s := boundSite{fn: fn, ins: x, kind: "makeslice", descr: "make len " + p.linStr(l),
					goals: []blin{l}, gtext: []string{"len >= 0"}}
				if x.Cap != nil && x.Cap != x.Len {
					c := p.linOf(x.Cap)
					if d, ok := c.sub(l); ok {
						s.goals = append(s.goals, d)
						s.gtext = append(s.gtext, "len <= cap")
					}
				}
				res = append(res, s)
			}
		}
	}
	return res
}

func (p *bprover) indexSite(in ssa.Instruction, x, idx ssa.Value) boundSite {
	i := p.linOf(idx)
	n := p.lenOf(x)
	s := boundSite{fn: p.fn, ins: in, kind: "index",
		descr: fmt.Sprintf("%s[%s] with len %s", p.srcOf(p.canonVal(x)), p.linStr(i), p.linStr(n))}
	s.goals = append(s.goals, i)
	s.gtext = append(s.gtext, "index >= 0")
	if d, ok := n.sub(i); ok {
		s.goals = append(s.goals, d.addc(-1))
		s.gtext = append(s.gtext, "index < len")
	} else {
		s.goals = append(s.goals, blconst(-1))
		s.gtext = append(s.gtext, "index < len (unrepresentable)")
	}
	return s
}

func (p *bprover) sliceSite(x *ssa.Slice) boundSite {
	s := boundSite{fn: p.fn, ins: x, kind: "slice"}
	lo := blconst(0)
	if x.Low != nil {
		lo = p.linOf(x.Low)
	}
	// upper limit: cap for slices, len for strings and arrays
	var limit blin
	_, isSlice := x.X.Type().Underlying().(*types.Slice)
	n := p.lenOf(x.X)
	limit = n
	hasHi := x.High != nil
	hi := n
	if hasHi {
		hi = p.linOf(x.High)
	}
	s.descr = fmt.Sprintf("%s[%s:%s] with len %s", p.srcOf(p.canonVal(x.X)), p.linStr(lo), p.linStr(hi), p.linStr(n))
	if x.Low != nil {
		s.goals = append(s.goals, lo)
		s.gtext = append(s.gtext, "low >= 0")
	}
	if d, ok := hi.sub(lo); ok {
		s.goals = append(s.goals, d)
		s.gtext = append(s.gtext, "low <= high")
	}
	if hasHi {
		if d, ok := limit.sub(hi); ok {
			s.goals = append(s.goals, d)
			if isSlice {
				s.gtext = append(s.gtext, "high <= len (cap not tracked)")
			} else {
				s.gtext = append(s.gtext, "high <= len")
			}
		}
	}
	if x.Max != nil {
		// three-index slices: max <= cap is not tracked
		s.goals = append(s.goals, blconst(-1))
		s.gtext = append(s.gtext, "max <= cap (not tracked)")
	}
	return s
}

// decide proves all goals of a site; returns the text of the first goal that fails.
func (p *bprover) decide(s boundSite) (bool, string) {
	b := s.ins.Block()
	// facts at the instruction: guards of the block (conditions are only at block ends)
	for i, g := range s.goals {
		if s.kind == "slice" && s.gtext[i] == "high <= len (cap not tracked)" {
			if p.proveAt(b, g) {
				continue
			}
			// retry against the capacity
			sl := s.ins.(*ssa.Slice)
			if cg, ok := p.capGoal(sl); ok && p.proveAt(b, cg) {
				continue
			}
			return false, s.gtext[i]
		}
		if !p.proveAt(b, g) {
			return false, s.gtext[i]
		}
	}
	return true, ""
}

// capGoal: cap(x) - high >= 0 where cap is known.
func (p *bprover) capGoal(sl *ssa.Slice) (blin, bool) {
	c, ok := p.capOf(sl.X, 0)
	if !ok {
		return blin{}, false
	}
	d, ok := c.sub(p.linOf(sl.High))
	return d, ok
}

func (p *bprover) capOf(v ssa.Value, depth int) (blin, bool) {
	if depth > 5 {
		return blin{}, false
	}
	v = p.canonVal(v)
	switch x := v.(type) {
	case *ssa.Call:
		// slices.Grow(s, n): capacity at least len(s)+n (a lower bound suffices for "high <= cap")
		if c := x.Call.StaticCallee(); isSlicesGrow(c) && len(x.Call.Args) == 2 {
			return p.lenOf(x.Call.Args[0]).add(p.linOf(x.Call.Args[1]))
		}
	case *ssa.MakeSlice:
		return p.linOf(x.Cap), true
	case *ssa.Slice:
		if n, ok := arrayLen(x.X.Type()); ok {
			lo := blconst(0)
			if x.Low != nil {
				lo = p.linOf(x.Low)
			}
			return blconst(n).sub(lo)
		}
		if x.Max != nil {
			break
		}
		c, ok := p.capOf(x.X, depth+1)
		if !ok {
			return blin{}, false
		}
		lo := blconst(0)
		if x.Low != nil {
			lo = p.linOf(x.Low)
		}
		return c.sub(lo)
	}
	return blin{}, false
}

func siteLess(w *World, a, b boundSite) bool {
	pa, pb := w.Fset.Position(a.ins.Pos()), w.Fset.Position(b.ins.Pos())
	if pa.Filename != pb.Filename {
		return pa.Filename < pb.Filename
	}
	if pa.Line != pb.Line {
		return pa.Line < pb.Line
	}
	return pa.Column < pb.Column
}

func debugBounds(w *World, names []string) {
	t0 := time.Now()
	br := newBoundsRun(w)
	defer func() { fmt.Println("total", time.Since(t0)) }()
	var fns []*ssa.Function
	if len(names) > 0 && names[0] == "reach" {
		var entries []*ssa.Function
		for _, n := range names[1:] {
			if fn := w.Func(n); fn != nil {
				entries = append(entries, fn)
			} else {
				fmt.Println("unresolved entry", n)
			}
		}
		for fn := range w.libReach(entries) {
			fns = append(fns, fn)
		}
	} else if len(names) == 0 {
		var entries []*ssa.Function
		for _, n := range c02Entries {
			if fn := w.Func(n); fn != nil {
				entries = append(entries, fn)
			} else {
				fmt.Println("unresolved entry", n)
			}
		}
		for fn := range w.libReach(entries) {
			fns = append(fns, fn)
		}
	} else {
		for _, n := range names {
			if fn := w.Func(n); fn != nil {
				fns = append(fns, fn)
				fns = append(fns, fn.AnonFuncs...)
			} else {
				fmt.Println("unresolved", n)
			}
		}
	}
	sort.Slice(fns, func(i, j int) bool { return fnName(fns[i]) < fnName(fns[j]) })
	results := br.analyse(fns)
	total, proved := 0, 0
	for _, fn := range fns {
		for _, res := range results[fn] {
			total++
			if res.ok {
				proved++
				if d := os.Getenv("SFNT_BTRACE_OK"); d != "" && strings.Contains(w.Pos(res.site.ins.Pos()), d) {
					p := br.prover(fn)
					fmt.Println("PROVED", w.Pos(res.site.ins.Pos()), res.site.descr)
					for _, f := range p.factsAt(res.site.ins.Block()) {
						fmt.Println("      fact", p.linStr(f.e), map[bool]string{true: "!= 0", false: ">= 0"}[f.ne], f.why)
					}
					p.trace = true
					p.decide(res.site)
					p.trace = false
				}
				continue
			}
			s := res.site
			fmt.Printf("%s: %s %s [%s]: %s — unproven: %s\n", w.Pos(s.ins.Pos()), fnName(fn), s.kind, br.siteText(s), s.descr, res.failed)
			if d := os.Getenv("SFNT_BDEBUG"); d != "" && strings.Contains(w.Pos(s.ins.Pos()), d) {
				p := br.prover(fn)
				for _, f := range p.factsAt(s.ins.Block()) {
					fmt.Println("      fact", p.linStr(f.e), map[bool]string{true: "!= 0", false: ">= 0"}[f.ne], f.why)
				}
				if os.Getenv("SFNT_BTRACE") != "" {
					p.trace = true
					p.decide(s)
					p.trace = false
				}
				for i, g := range s.goals {
					fmt.Println("      goal", s.gtext[i], ":", p.linStr(g), ">= 0")
					for a := range g.t {
						fmt.Printf("         atom %s = %T %s range %+v\n", p.atomStr(a), a.v, a.v.String(), p.atomRange(a))
					}
				}
			}
		}
	}
	fmt.Printf("functions %d, sites %d, proved %d, unproven %d\n", len(fns), total, proved, total-proved)
}

func debugContracts(w *World, names []string) {
	br := newBoundsRun(w)
	for _, n := range names {
		fn := w.Func(n)
		if fn == nil {
			fmt.Println("unresolved", n)
			continue
		}
		lc, ok := br.lenContract(fn)
		fmt.Println(n, lc, ok)
		p := br.prover(fn)
		for _, b := range fn.Blocks {
			if ret, ok := b.Instrs[len(b.Instrs)-1].(*ssa.Return); ok {
				fmt.Println("  return", w.Pos(ret.Pos()), "len(ret0) =", p.linStr(p.lenOf(ret.Results[0])))
				for _, f := range p.factsAt(b) {
					fmt.Println("     fact", p.linStr(f.e), f.ne, f.why)
				}
			}
		}
	}
}

func debugLoops(w *World, names []string) {
	br := newBoundsRun(w)
	for _, n := range names {
		fn := w.Func(n)
		if fn == nil {
			fmt.Println("unresolved", n)
			continue
		}
		p := br.prover(fn)
		for _, l := range naturalLoops(fn) {
			arg, notes := p.findLoopArg(l)
			fmt.Printf("loop head b%d %s latches %d body %d: %+v %v\n", l.head.Index, w.Pos(loopPos(w, l)), len(l.latches), len(l.body), arg.kind+" "+arg.detail, notes)
			for _, f := range p.stayFacts(l) {
				fmt.Println("    stay:", p.linStr(f.e), f.ne)
			}
			for _, in := range l.head.Instrs {
				if ph, ok := in.(*ssa.Phi); ok {
					fmt.Println("    phi", ph.Name(), ph.Comment, ph.String())
				}
			}
		}
	}
}

func debugPanics(w *World, names []string) {
	var entries []*ssa.Function
	for _, n := range names {
		if fn := w.Func(n); fn != nil {
			entries = append(entries, fn)
		} else {
			fmt.Println("unresolved", n)
		}
	}
	var fns []*ssa.Function
	for f := range w.libReach(entries) {
		fns = append(fns, f)
	}
	sort.Slice(fns, func(i, j int) bool { return fnName(fns[i]) < fnName(fns[j]) })
	for _, ps := range panicSites(w, fns) {
		ok, how := closedTypeSwitchDefault(w, ps)
		fmt.Printf("%s: %s %s closed=%v %s\n", w.Pos(ps.ins.Pos()), fnName(ps.fn), ps.desc, ok, how)
	}
	fmt.Println("functions", len(fns))
}

func debugWrites(w *World, names []string) {
	m := newMemInfo(w)
	for _, n := range names {
		fn := w.Func(n)
		if fn == nil {
			fmt.Println("unresolved", n)
			continue
		}
		cats := m.writeCats(fn)
		sort.Strings(cats)
		fmt.Println(n, len(cats))
		for _, c := range cats {
			if strings.HasPrefix(c, "M:") || c == "*" {
				fmt.Println("   ", c)
			}
		}
	}
}

func debugCallKills(w *World, names []string) {
	m := newMemInfo(w)
	fn := w.Func(names[0])
	e := memEntry{cat: names[1]}
	for _, b := range fn.Blocks {
		for _, in := range b.Instrs {
			c, ok := in.(ssa.CallInstruction)
			if !ok {
				continue
			}
			if _, isB := c.Common().Value.(*ssa.Builtin); isB {
				continue
			}
			for _, cal := range w.Callees(c) {
				for _, cat := range m.writeCats(cal) {
					if killMatches(e, cat, false) {
						fmt.Printf("%s: call of %s kills via %s\n", w.Pos(in.Pos()), fnName(cal), cat)
					}
				}
			}
		}
	}
}
