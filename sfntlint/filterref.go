package main

// filterref: a loop over the elements of a slice that skips some of them
// (`if w == 0 { continue }`) and compares the remaining ones with a reference
// value must take that reference from the elements that pass the filter. A
// reference read from the same slice outside the loop (ww[0]) bypasses the
// filter: when that element is one the loop would have skipped, every other
// element is compared with the wrong value.

import (
	"fmt"
	"go/constant"
	"go/token"

	"golang.org/x/tools/go/ssa"
)

func sliceRoot(v ssa.Value) ssa.Value {
	for {
		switch x := v.(type) {
		case *ssa.Slice:
			v = x.X
		case *ssa.ChangeType:
			v = x.X
		default:
			return v
		}
	}
}

func filterRefIn(w *World, r *Report, fns []*ssa.Function) {
	for _, fn := range fns {
		if len(fn.Blocks) == 0 {
			continue
		}
		for _, h := range fn.Blocks {
			isHeader := false
			for _, p := range h.Preds {
				if h.Dominates(p) {
					isHeader = true
				}
			}
			if !isHeader {
				continue
			}
			body := naturalLoop(h)
			// element loads inside the loop
			for _, b := range fn.Blocks {
				if !body[b] || len(b.Instrs) == 0 {
					continue
				}
				ifi, ok := b.Instrs[len(b.Instrs)-1].(*ssa.If)
				if !ok {
					continue
				}
				bo, ok := ifi.Cond.(*ssa.BinOp)
				if !ok || (bo.Op != token.EQL && bo.Op != token.NEQ) {
					continue
				}
				k, ok := bo.Y.(*ssa.Const)
				if !ok || k.Value == nil || (k.Value.Kind() != constant.Int && k.Value.Kind() != constant.Float) {
					continue
				}
				ld, ok := bo.X.(*ssa.UnOp)
				if !ok || ld.Op != token.MUL || !body[ld.Block()] {
					continue
				}
				ia, ok := ld.X.(*ssa.IndexAddr)
				if !ok {
					continue
				}
				root := sliceRoot(ia.X)
				// the "equal" side continues with the next element
				skip := b.Succs[0]
				if bo.Op == token.NEQ {
					skip = b.Succs[1]
				}
				if !skipsToHeader(skip, h) {
					continue
				}
				key := r.MkKey("filterref", fnName(fn), "loop skipping elements equal to "+k.Value.ExactString())
				// a condition in the loop that combines the element with an element of the same slice read outside the loop
				bad := ""
				for _, b2 := range fn.Blocks {
					if !body[b2] || len(b2.Instrs) == 0 {
						continue
					}
					if2, ok := b2.Instrs[len(b2.Instrs)-1].(*ssa.If)
					if !ok || if2 == ifi {
						continue
					}
					bs := backSlice(if2.Cond)
					if !bs[ld] {
						continue
					}
					for v := range bs {
						ld2, ok := v.(*ssa.UnOp)
						if !ok || ld2.Op != token.MUL || body[ld2.Block()] {
							continue
						}
						ia2, ok := ld2.X.(*ssa.IndexAddr)
						if !ok || sliceRoot(ia2.X) != root {
							continue
						}
						if testedAgainst(fn, ld2, k) {
							continue
						}
						bad = w.Pos(ld2.Pos())
						if bad == "-" || bad == "" {
							bad = w.Pos(ia2.Pos())
						}
					}
				}
				if bad != "" {
					r.Fail("filterref", key, w.Pos(ifi.Cond.Pos()), fmt.Sprintf("the loop skips elements equal to %s but compares the others with the element read at %s, which was not put through that test: when that element is one the loop would skip, every other element is compared with the wrong reference", k.Value.ExactString(), bad), nil)
				} else {
					r.OK("filterref", key, w.Pos(ifi.Cond.Pos()), "no reference element bypasses the filter")
				}
			}
		}
	}
}

// skipsToHeader: from b the loop header is reached without any effect or
// branch (a `continue`).
func skipsToHeader(b, h *ssa.BasicBlock) bool {
	for n := 0; n < 4; n++ {
		if b == h {
			return true
		}
		for _, in := range b.Instrs {
			switch in.(type) {
			case *ssa.Store, *ssa.Call, *ssa.MapUpdate, *ssa.If, *ssa.Return, *ssa.Panic, *ssa.Send, *ssa.Go, *ssa.Defer:
				return false
			}
		}
		if len(b.Succs) != 1 {
			return false
		}
		b = b.Succs[0]
	}
	return false
}

// testedAgainst: the value is compared with the same constant in some branch
// condition of the function.
func testedAgainst(fn *ssa.Function, v ssa.Value, k *ssa.Const) bool {
	for _, b := range fn.Blocks {
		for _, in := range b.Instrs {
			bo, ok := in.(*ssa.BinOp)
			if !ok {
				continue
			}
			if bo.X != v {
				continue
			}
			if c, ok := bo.Y.(*ssa.Const); ok && c.Value != nil && constant.Compare(c.Value, token.EQL, k.Value) {
				return true
			}
		}
	}
	return false
}

func RunFilterRef(w *World, r *Report, pkgRels ...string) {
	r.Rule("filterref: where a loop over the elements of a slice skips the elements equal to a constant and a branch condition in the loop combines the current element with another element of the same slice read outside the loop, that other element is itself tested against the constant (otherwise the reference bypasses the filter the loop applies)")
	in := map[string]bool{}
	for _, p := range pkgRels {
		in[modPath+p] = true
	}
	var fns []*ssa.Function
	for _, fn := range w.LibFuncs() {
		if in[fnPkgPath(fn)] {
			fns = append(fns, fn)
		}
	}
	filterRefIn(w, r, fns)
	RunControl(r, "filterref", "ctlFilterRefBad", filterRefIn)
	r.Floor("filterref", 1)
}
