package main

import (
	"go/constant"
	"go/token"
	"strings"

	"golang.org/x/tools/go/ssa"
)

// RunAbsentList: (*gtab.Info).Encode writes offset 0 for each of the script,
// feature and lookup lists that is absent (the offset variables start at zero
// and are set only when the encoded list is non-nil). The reader has to take
// each zero offset as "this list is absent" on its own: a reader that gives up
// on all lists when one offset is zero, or that rejects a zero offset as out
// of range, loses or refuses tables the library wrote itself (lookups without
// a script list, scripts and features without lookups, no feature list).
func RunAbsentList(w *World, r *Report) {
	r.Rule("absentlist: in gtab.readGtab (a) the call that reads the script list, the feature list or the lookup list is not control-dependent on a zero test of the header offset of another list, and (b) the range check that rejects a header offset is guarded by a test that this offset is not zero: Info.Encode writes offset 0 for every absent list, independently of the others")
	fn := w.Func("opentype/gtab.readGtab")
	if fn == nil {
		r.Fatal("opentype/gtab.readGtab does not resolve")
		return
	}
	offsetField := func(v ssa.Value) string {
		ld, ok := v.(*ssa.UnOp)
		if !ok || ld.Op != token.MUL {
			return ""
		}
		fa, ok := ld.X.(*ssa.FieldAddr)
		if !ok {
			return ""
		}
		if n := fieldName(fa); strings.HasSuffix(n, "ListOffset") {
			return n
		}
		return ""
	}
	fieldsIn := func(v ssa.Value) map[string]bool {
		res := map[string]bool{}
		for x := range backSlice(v) {
			if f := offsetField(x); f != "" {
				res[f] = true
			}
		}
		return res
	}
	isZero := func(v ssa.Value) bool {
		c, ok := v.(*ssa.Const)
		if !ok || c.Value == nil || c.Value.Kind() != constant.Int {
			return false
		}
		k, ok := constant.Int64Val(c.Value)
		return ok && k == 0
	}
	// (a)
	readers := map[string]string{"readScriptList": "ScriptListOffset", "readFeatureList": "FeatureListOffset", "readLookupList": "LookupListOffset"}
	found := 0
	for _, b := range fn.Blocks {
		for _, in := range b.Instrs {
			call, ok := in.(*ssa.Call)
			if !ok {
				continue
			}
			callee := call.Common().StaticCallee()
			if callee == nil || readers[callee.Name()] == "" {
				continue
			}
			own := readers[callee.Name()]
			found++
			key := r.MkKey("absentlist", fnName(fn), "call of "+callee.Name())
			foreign := ""
			for _, g := range guardsOf(b) {
				bo, ok := g.cond.(*ssa.BinOp)
				if !ok || (bo.Op != token.EQL && bo.Op != token.NEQ) || !(isZero(bo.X) || isZero(bo.Y)) {
					continue
				}
				for f := range fieldsIn(bo) {
					if f != own {
						foreign = f
					}
				}
			}
			if foreign == "" {
				r.OK("absentlist", key, w.Pos(call.Pos()), "depends on its own offset only")
			} else {
				r.FailC("absentlist", key, []string{"foreign"}, w.Pos(call.Pos()), "whether this list is read depends on "+foreign+" being non-zero: Info.Encode writes a zero offset for an absent list independently of the others, so a table with this list but without the other one comes back without either", nil)
			}
		}
	}
	if found != 3 {
		r.Fatal("absentlist: expected the three list readers in readGtab, found %d", found)
	}
	// (b) range checks on values taken from an array that holds the offsets
	for _, b := range fn.Blocks {
		if len(b.Instrs) == 0 {
			continue
		}
		ifi, ok := b.Instrs[len(b.Instrs)-1].(*ssa.If)
		if !ok {
			continue
		}
		bo, ok := ifi.Cond.(*ssa.BinOp)
		if !ok || (bo.Op != token.LSS && bo.Op != token.GTR && bo.Op != token.LEQ && bo.Op != token.GEQ) {
			continue
		}
		var off ssa.Value
		for _, side := range []ssa.Value{bo.X, bo.Y} {
			if holdsOffsets(side, offsetField) {
				off = side
			}
		}
		if off == nil {
			continue
		}
		// lower-bound test: the other side is not derived from the file size (a call)
		other := bo.X
		if other == off {
			other = bo.Y
		}
		isCallDerived := false
		for x := range backSlice(other) {
			if _, ok := x.(*ssa.Call); ok {
				isCallDerived = true
			}
		}
		if isCallDerived {
			continue
		}
		key := r.MkKey("absentlist", fnName(fn), "lower range check of a header offset")
		guarded := false
		for _, g := range append(guardsOf(b), guard{}) {
			gb, ok := g.cond.(*ssa.BinOp)
			if !ok || (gb.Op != token.EQL && gb.Op != token.NEQ) {
				continue
			}
			if (gb.X == off && isZero(gb.Y) || gb.Y == off && isZero(gb.X)) && (gb.Op == token.NEQ) == g.then {
				guarded = true
			}
		}
		if guarded {
			r.OK("absentlist", key, w.Pos(bo.Pos()), "a zero offset is not range-checked")
		} else {
			r.FailC("absentlist", key, []string{"zero"}, w.Pos(bo.Pos()), "a header offset of zero fails this range check and the table is rejected: Info.Encode writes offset 0 for an absent list (for instance a table without features), which the reader then refuses", nil)
		}
	}
	r.Floor("absentlist", 4)
}

// holdsOffsets: v is loaded from an element of a local array into which a
// value derived from a header offset field is stored.
func holdsOffsets(v ssa.Value, offsetField func(ssa.Value) string) bool {
	ld, ok := v.(*ssa.UnOp)
	if !ok || ld.Op != token.MUL {
		return false
	}
	ia, ok := ld.X.(*ssa.IndexAddr)
	if !ok {
		return false
	}
	base := ia.X
	if sl, ok := base.(*ssa.Slice); ok {
		base = sl.X
	}
	al, ok := base.(*ssa.Alloc)
	if !ok || al.Referrers() == nil {
		return false
	}
	for _, ref := range *al.Referrers() {
		ia2, ok := ref.(*ssa.IndexAddr)
		if !ok || ia2.Referrers() == nil {
			continue
		}
		for _, r2 := range *ia2.Referrers() {
			if st, ok := r2.(*ssa.Store); ok {
				for x := range backSlice(st.Val) {
					if offsetField(x) != "" {
						return true
					}
				}
			}
		}
	}
	return false
}
