package main

import (
	"fmt"
	"go/ast"
	"go/token"
	"go/types"
	"golang.org/x/tools/go/ssa"
	"strings"
)

// locapair: the loca writer and reader agree on formats, scaling and range.
func RunLocaPair(w *World, r *Report) {
	r.Rule("locapair: glyf.encodeLoca chooses the short format only under a bound T on the last offset with T/2 <= 0xFFFF, stores offset/2 in the branch that announces format 0 and the plain offset in the branch that announces format 1; glyf.decodeLoca multiplies by 2 exactly in its case 0 and handles exactly the formats the writer can announce || prefixsum: Glyphs.Encode builds the offsets as prefix sums of encodeLen() of the glyphs it then appends in the same order")
	enc := w.Func("glyf.encodeLoca")
	dec := w.Func("glyf.decodeLoca")
	if enc == nil || dec == nil {
		r.Fatal("anchors glyf.encodeLoca / glyf.decodeLoca do not resolve")
		return
	}
	info := w.Info(enc)
	ebody, _ := funcBody(enc)
	dbody, _ := funcBody(dec)
	key := r.MkKey("locapair", "glyf.encodeLoca", "format choice")
	var problems []string
	formats := map[int64]bool{}
	found := false
	hasScale := func(n ast.Node, ops ...string) bool {
		hit := false
		ast.Inspect(n, func(m ast.Node) bool {
			if be, ok := m.(*ast.BinaryExpr); ok {
				for _, side := range []ast.Expr{be.X, be.Y} {
					if c, ok := constInt(info, side); ok {
						for _, op := range ops {
							if be.Op.String() == op[:len(op)-1] && fmt.Sprint(c) == op[len(op)-1:] {
								hit = true
							}
						}
					}
				}
			}
			return true
		})
		return hit
	}
	formatAssigned := func(n ast.Node) (int64, bool) {
		var v int64
		ok := false
		ast.Inspect(n, func(m ast.Node) bool {
			if as, isA := m.(*ast.AssignStmt); isA && len(as.Lhs) == 1 && len(as.Rhs) == 1 {
				if id, isId := as.Lhs[0].(*ast.Ident); isId && strings.Contains(strings.ToLower(id.Name), "format") {
					if c, isC := constInt(info, as.Rhs[0]); isC {
						v, ok = c, true
					}
				}
			}
			return true
		})
		return v, ok
	}
	ast.Inspect(ebody, func(n ast.Node) bool {
		ifs, ok := n.(*ast.IfStmt)
		if !ok || found {
			return true
		}
		be, ok := ifs.Cond.(*ast.BinaryExpr)
		if !ok {
			return true
		}
		t, ok := constInt(info, be.Y)
		if !ok {
			return true
		}
		// the branch taken for last offsets up to maxShort, and the other one
		var bounded, unbounded ast.Node
		var maxShort int64
		switch be.Op {
		case token.LEQ:
			bounded, unbounded, maxShort = ifs.Body, ifs.Else, t
		case token.LSS:
			bounded, unbounded, maxShort = ifs.Body, ifs.Else, t-1
		case token.GTR:
			bounded, unbounded, maxShort = ifs.Else, ifs.Body, t
		case token.GEQ:
			bounded, unbounded, maxShort = ifs.Else, ifs.Body, t-1
		default:
			return true
		}
		found = true
		if bounded == nil || bounded == ast.Node((*ast.BlockStmt)(nil)) || unbounded == nil {
			problems = append(problems, "no long-format branch")
			return true
		}
		if maxShort > 0x1FFFE {
			problems = append(problems, fmt.Sprintf("short format chosen for last offsets up to %#x, but offset/2 must fit 16 bits (limit %#x)", maxShort, 0x1FFFE))
		}
		if f, ok := formatAssigned(bounded); !ok || f != 0 {
			problems = append(problems, "the bounded branch does not announce format 0")
		} else {
			formats[f] = true
		}
		if !hasScale(bounded, "/2", ">>1") {
			problems = append(problems, "the format-0 branch does not store offset/2")
		}
		if f, ok := formatAssigned(unbounded); !ok || f != 1 {
			problems = append(problems, "the unbounded branch does not announce format 1")
		} else {
			formats[f] = true
		}
		if hasScale(unbounded, "/2", ">>1") {
			problems = append(problems, "the format-1 branch scales the offsets")
		}
		return true
	})
	if !found {
		problems = append(problems, "no bound on the last offset found before choosing the short format")
	}
	// reader
	dinfo := w.Info(dec)
	cases := map[int64]*ast.CaseClause{}
	ast.Inspect(dbody, func(n ast.Node) bool {
		sw, ok := n.(*ast.SwitchStmt)
		if !ok || sw.Tag == nil || !strings.Contains(types.ExprString(sw.Tag), "LocaFormat") {
			return true
		}
		for _, cc := range sw.Body.List {
			cl := cc.(*ast.CaseClause)
			for _, e := range cl.List {
				if c, ok := constInt(dinfo, e); ok {
					cases[c] = cl
				}
			}
		}
		return true
	})
	for f := range formats {
		if cases[f] == nil {
			problems = append(problems, fmt.Sprintf("decodeLoca has no case for format %d announced by the writer", f))
		}
	}
	mulBy2 := func(cl *ast.CaseClause) bool {
		hit := false
		for _, s := range cl.Body {
			ast.Inspect(s, func(m ast.Node) bool {
				if be, ok := m.(*ast.BinaryExpr); ok && (be.Op == token.MUL || be.Op == token.SHL) {
					for _, side := range []ast.Expr{be.X, be.Y} {
						if c, ok := constInt(dinfo, side); ok && ((be.Op == token.MUL && c == 2) || (be.Op == token.SHL && c == 1 && side == be.Y)) {
							// exclude index arithmetic like LocaData[2*i]
							hit = hit || !insideIndex(cl, be)
						}
					}
				}
				return true
			})
		}
		return hit
	}
	if c0 := cases[0]; c0 != nil && !mulBy2(c0) {
		problems = append(problems, "decodeLoca case 0 does not multiply the stored value by 2")
	}
	if c1 := cases[1]; c1 != nil && mulBy2(c1) {
		problems = append(problems, "decodeLoca case 1 scales the stored value")
	}
	if len(problems) == 0 {
		r.OK("locapair", key, w.Pos(enc.Pos()), "short format bound, announced formats {0,1}, /2 vs ×2 scaling agree between writer and reader")
	} else {
		r.Fail("locapair", key, w.Pos(enc.Pos()), strings.Join(problems, "; "), nil)
	}

	// prefix sums
	encFn := w.Func("(glyf.Glyphs).Encode")
	if encFn == nil {
		r.Fatal("anchor (glyf.Glyphs).Encode does not resolve")
		return
	}
	key2 := r.MkKey("prefixsum", fnName(encFn), "offsets")
	// offs[i+1] = offs[i] + gg[i].encodeLen() for the loop counter i, and the glyphs are appended
	// from the same list; decided on the SSA form, so neither names nor the kind of loop matter
	okSum, okAppend := false, false
	var ggParam ssa.Value
	if len(encFn.Params) > 0 {
		ggParam = encFn.Params[0]
	}
	elemOfGG := func(v ssa.Value) (ssa.Value, bool) { // v = gg[idx] (a load) -> idx
		for d := 0; d < 4; d++ {
			switch x := v.(type) {
			case *ssa.UnOp:
				if x.Op == token.MUL {
					if ia, ok := x.X.(*ssa.IndexAddr); ok && ia.X == ggParam {
						return ia.Index, true
					}
					v = x.X
					continue
				}
			case *ssa.MakeInterface:
				v = x.X
				continue
			case *ssa.IndexAddr:
				if x.X == ggParam {
					return x.Index, true
				}
			}
			return nil, false
		}
		return nil, false
	}
	for _, b := range encFn.Blocks {
		for _, in := range b.Instrs {
			switch x := in.(type) {
			case *ssa.Store:
				dst, ok := x.Addr.(*ssa.IndexAddr)
				if !ok {
					continue
				}
				next, ok := dst.Index.(*ssa.BinOp)
				if !ok || next.Op != token.ADD {
					continue
				}
				one, isC := bconstInt(next.Y)
				if !isC || one != 1 {
					continue
				}
				i := next.X
				sum, ok := x.Val.(*ssa.BinOp)
				if !ok || sum.Op != token.ADD {
					continue
				}
				for _, pair := range [][2]ssa.Value{{sum.X, sum.Y}, {sum.Y, sum.X}} {
					ld, ok := pair[0].(*ssa.UnOp)
					if !ok || ld.Op != token.MUL {
						continue
					}
					src, ok := ld.X.(*ssa.IndexAddr)
					if !ok || src.Index != i || !sameSliceValue(src.X, dst.X) {
						continue
					}
					c, ok := pair[1].(*ssa.Call)
					if !ok || c.Call.StaticCallee() == nil || c.Call.StaticCallee().Name() != "encodeLen" || len(c.Call.Args) == 0 {
						continue
					}
					if idx, ok := elemOfGG(c.Call.Args[0]); ok && idx == i {
						okSum = true
					}
				}
			case *ssa.Call:
				if callee := x.Call.StaticCallee(); callee != nil && callee.Name() == "append" && callee.Signature.Recv() != nil && len(x.Call.Args) > 0 {
					if _, ok := elemOfGG(x.Call.Args[0]); ok {
						okAppend = true
					}
				}
			}
		}
	}
	if okSum && okAppend {
		r.OK("prefixsum", key2, w.Pos(encFn.Pos()), "offs[i+1] = offs[i] + gg[i].encodeLen(); the glyphs of the same list are appended")
	} else {
		r.Fail("prefixsum", key2, w.Pos(encFn.Pos()), "Glyphs.Encode no longer builds loca offsets as prefix sums of encodeLen() of the glyphs it appends", nil)
	}
}

func insideIndex(root ast.Node, target ast.Node) bool {
	inside := false
	ast.Inspect(root, func(n ast.Node) bool {
		if ix, ok := n.(*ast.IndexExpr); ok {
			if ix.Index.Pos() <= target.Pos() && target.End() <= ix.Index.End() {
				inside = true
			}
		}
		return true
	})
	return inside
}

// nodeText returns the source text of a node.
func nodeText(w *World, n ast.Node) string {
	p := w.Fset.Position(n.Pos())
	e := w.Fset.Position(n.End())
	b, err := readFileCached(p.Filename)
	if err != nil || e.Offset > len(b) {
		return ""
	}
	return string(b[p.Offset:e.Offset])
}

// RunReadOnly: the named functions do not write memory reachable from the
// given parameter (receiver = 0).
func RunReadOnly(w *World, r *Report, e *Effects, rule string, names []string, param int) {
	for _, n := range names {
		fn := w.Func(n)
		if fn == nil {
			r.Fatal("anchor %s does not resolve", n)
			continue
		}
		key := r.MkKey(rule, fnName(fn), "writes through parameter")
		bad := ""
		for _, l := range e.sortedWrites(fn) {
			ri := e.roots[l.root()]
			if (ri.kind == rkParam || ri.kind == rkParamVia) && ri.idx == param {
				ffn, fw, _ := e.FinalWrite(fn, l)
				bad = fmt.Sprintf("%s writes %s: %s in %s at %s", fnName(fn), e.locStr(fn, l), fw.what, fnName(ffn), w.Pos(fw.pos))
				break
			}
			if ri.kind == rkUnknown {
				bad = fnName(fn) + " has an undecided write effect"
			}
		}
		if bad == "" {
			r.OK(rule, key, w.Pos(fn.Pos()), "no write to memory reachable from its receiver")
		} else {
			r.Fail(rule, key, w.Pos(fn.Pos()), bad, nil)
		}
	}
}
