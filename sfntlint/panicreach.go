package main

import (
	"fmt"
	"go/constant"
	"go/types"
	"sort"
	"strings"

	"golang.org/x/tools/go/ssa"
)

// E4 panicreach: inventory of explicit panics, unchecked type assertions and
// calls of function values taken from maps, reachable from an entry set.

type panicSite struct {
	fn   *ssa.Function
	ins  ssa.Instruction
	kind string
	desc string
}

func panicSites(w *World, fns []*ssa.Function) []panicSite {
	var res []panicSite
	for _, fn := range fns {
		for _, b := range fn.Blocks {
			for _, ins := range b.Instrs {
				switch x := ins.(type) {
				case *ssa.Panic:
					msg := "panic"
					for v := range backSlice(x.X) {
						if c, ok := v.(*ssa.Const); ok && c.Value != nil && c.Value.Kind() == constant.String {
							msg = "panic " + fmt.Sprintf("%q", constant.StringVal(c.Value))
						}
					}
					res = append(res, panicSite{fn, ins, "panic", msg})
				case *ssa.TypeAssert:
					if !x.CommaOk {
						// type switches are lowered to comma-ok asserts; a bare assert panics on mismatch
						res = append(res, panicSite{fn, ins, "assert", "type assertion to " + types.TypeString(x.AssertedType, func(p *types.Package) string { return p.Name() })})
					}
				case *ssa.Call:
					if lk, ok := x.Call.Value.(*ssa.Lookup); ok && !lk.CommaOk {
						if _, isMap := lk.X.Type().Underlying().(*types.Map); isMap {
							res = append(res, panicSite{fn, ins, "mapcall", "call of function value loaded from map " + describeAddr(lk.X)})
						}
					}
					if u, ok := x.Call.Value.(*ssa.UnOp); ok {
						_ = u
					}
				}
			}
		}
	}
	sort.SliceStable(res, func(i, j int) bool { return res[i].ins.Pos() < res[j].ins.Pos() })
	return res
}

// RunPanicReach records one obligation per reachable panic site. Sites are
// discharged automatically when they are the default branch of a type switch
// over a closed set (all implementers in the module are listed as cases), or
// by a reviewed-table entry (possibly with a machine-checked side condition).
func RunPanicReach(w *World, r *Report, rule string, entries []*ssa.Function, fns []*ssa.Function) {
	for _, ps := range panicSites(w, fns) {
		name := fnName(ps.fn)
		key := r.MkKey(rule, name, ps.desc)
		pos := w.Pos(ps.ins.Pos())
		ok, how := closedTypeSwitchDefault(w, ps)
		if ok {
			r.OK(rule, key, pos, how)
			continue
		}
		path := w.PathTo(entries, ps.fn)
		if how != "" {
			how = " (" + how + ")"
		}
		r.Fail(rule, key, pos, ps.desc+" in "+name+" is reachable from the entry set"+how, path)
	}
}

// closedTypeSwitchDefault: the panic is the default of a type switch whose
// cases cover every type in the module that implements the switched
// interface.
func closedTypeSwitchDefault(w *World, ps panicSite) (bool, string) {
	if ps.kind != "panic" {
		return false, ""
	}
	b := ps.ins.Block()
	// walk up single-predecessor chain of failed comma-ok type asserts
	var asserted []types.Type
	var iface types.Type
	cur := b
	for {
		if len(cur.Preds) != 1 {
			break
		}
		p := cur.Preds[0]
		ifi, ok := p.Instrs[len(p.Instrs)-1].(*ssa.If)
		if !ok || p.Succs[1] != cur {
			break
		}
		ex, ok := ifi.Cond.(*ssa.Extract)
		if !ok {
			break
		}
		ta, ok := ex.Tuple.(*ssa.TypeAssert)
		if !ok || !ta.CommaOk {
			break
		}
		asserted = append(asserted, ta.AssertedType)
		iface = ta.X.Type()
		cur = p
	}
	if len(asserted) == 0 || iface == nil {
		return false, ""
	}
	it, ok := iface.Underlying().(*types.Interface)
	if !ok || it.NumMethods() == 0 {
		return false, ""
	}
	// all named types of module packages implementing the interface
	var missing []string
	n := 0
	for path, p := range w.All {
		if !isLibPkg(path) {
			continue
		}
		sc := p.Types.Scope()
		for _, nm := range sc.Names() {
			tn, ok := sc.Lookup(nm).(*types.TypeName)
			if !ok || tn.IsAlias() {
				continue
			}
			t := tn.Type()
			if _, isI := t.Underlying().(*types.Interface); isI {
				continue
			}
			for _, cand := range []types.Type{t, types.NewPointer(t)} {
				if types.Implements(cand, it) {
					n++
					found := false
					for _, a := range asserted {
						if types.Identical(a, cand) {
							found = true
						}
					}
					// a value type in the case list also covers... no: must match exactly
					if !found {
						// pointer receiver types: T does not implement but *T does; value types implement both
						if _, isPtr := cand.(*types.Pointer); isPtr && types.Implements(t, it) {
							// *T of a value-receiver type: only flagged if T is not listed either
							listedT := false
							for _, a := range asserted {
								if types.Identical(a, t) {
									listedT = true
								}
							}
							if listedT {
								continue
							}
						}
						missing = append(missing, types.TypeString(cand, func(p *types.Package) string { return p.Name() }))
					}
				}
			}
		}
	}
	if len(missing) > 0 {
		// second chance: the switched value is loaded from a struct field, and every
		// store into that field anywhere in the library stores one of the listed types
		if ok, how := closedByStores(w, cur, asserted); ok {
			return true, how
		}
		return false, "type switch does not list " + strings.Join(missing, ", ") + " and the switched value is not a field with a closed set of stored types"
	}
	return true, fmt.Sprintf("default branch of a type switch whose %d cases cover every implementation of %s in the module (closed set)", len(asserted), types.TypeString(iface, func(p *types.Package) string { return p.Name() }))
}

// closedByStores: blk contains the first type assertion of the switch; its
// operand is loaded from field F of struct T. Every store into T.F in the
// library must store a value of one of the asserted types (or nil).
func closedByStores(w *World, blk *ssa.BasicBlock, asserted []types.Type) (bool, string) {
	var ta *ssa.TypeAssert
	for _, ins := range blk.Instrs {
		if x, ok := ins.(*ssa.TypeAssert); ok && ta == nil {
			ta = x
		}
	}
	if ta == nil {
		return false, ""
	}
	u, ok := ta.X.(*ssa.UnOp)
	if !ok {
		return false, ""
	}
	fa, ok := u.X.(*ssa.FieldAddr)
	if !ok {
		return false, ""
	}
	st := fa.X.Type().Underlying().(*types.Pointer).Elem()
	n := 0
	for _, fn := range w.LibFuncs() {
		for _, b := range fn.Blocks {
			for _, ins := range b.Instrs {
				s, ok := ins.(*ssa.Store)
				if !ok {
					continue
				}
				fa2, ok := s.Addr.(*ssa.FieldAddr)
				if !ok || fa2.Field != fa.Field {
					continue
				}
				if !types.Identical(fa2.X.Type().Underlying().(*types.Pointer).Elem(), st) {
					continue
				}
				n++
				okStore := false
				var check func(v ssa.Value, depth int) bool
				check = func(v ssa.Value, depth int) bool {
					if depth > 6 {
						return false
					}
					switch x := v.(type) {
					case *ssa.Const:
						return x.Value == nil
					case *ssa.MakeInterface:
						for _, a := range asserted {
							if types.Identical(a, x.X.Type()) {
								return true
							}
						}
						return false
					case *ssa.Phi:
						for _, e := range x.Edges {
							if !check(e, depth+1) {
								return false
							}
						}
						return true
					case *ssa.ChangeInterface:
						return check(x.X, depth+1)
					case *ssa.UnOp:
						// copy of the same field of another value of the same struct type
						if f3, ok := x.X.(*ssa.FieldAddr); ok && f3.Field == fa.Field && types.Identical(f3.X.Type().Underlying().(*types.Pointer).Elem(), st) {
							return true
						}
					}
					return false
				}
				okStore = check(s.Val, 0)
				if !okStore {
					return false, ""
				}
			}
		}
	}
	if n == 0 {
		return false, ""
	}
	return true, fmt.Sprintf("default branch of a type switch over field %s: all %d stores into this field in the library store one of the %d listed types (closed set by who-may-write)", fieldName(fa), n, len(asserted))
}

// condExtensionResolved: readLookupList rejects an extension subtable that
// points at the extension lookup type again, before it decodes the target
// subtables; therefore no *extensionSubtable remains in a LookupTable the
// reader returns and extensionSubtable.apply is never dispatched.
func condExtensionResolved(w *World) func() (bool, string) {
	return func() (bool, string) {
		fn := w.Func("opentype/gtab.readLookupList")
		if fn == nil {
			return false, "gtab.readLookupList does not resolve"
		}
		var sr *ssa.Parameter
		for _, p := range fn.Params {
			if _, ok := p.Type().Underlying().(*types.Signature); ok {
				sr = p
			}
		}
		if sr == nil {
			return false, "readLookupList has no subtable-reader parameter"
		}
		var calls []*ssa.Call
		for _, b := range fn.Blocks {
			for _, ins := range b.Instrs {
				if c, ok := ins.(*ssa.Call); ok && c.Call.Value == ssa.Value(sr) {
					calls = append(calls, c)
				}
			}
		}
		if len(calls) < 2 {
			return false, "expected two calls of the subtable reader (direct and through the extension record)"
		}
		// the call whose position argument depends on ExtensionOffset
		var second *ssa.Call
		for _, c := range calls {
			for _, a := range c.Call.Args {
				if sliceHasField(backSlice(a), "ExtensionOffset") {
					second = c
				}
			}
		}
		if second == nil {
			return false, "no subtable-reader call uses the extension offset"
		}
		for _, b := range fn.Blocks {
			if !b.Dominates(second.Block()) || len(b.Instrs) == 0 {
				continue
			}
			ifi, ok := b.Instrs[len(b.Instrs)-1].(*ssa.If)
			if !ok {
				continue
			}
			bo, ok := ifi.Cond.(*ssa.BinOp)
			if !ok || bo.Op.String() != "==" {
				continue
			}
			sx, sy := backSlice(bo.X), backSlice(bo.Y)
			isExt := func(sl map[ssa.Value]bool) bool {
				if sliceHasField(sl, "ExtensionLookupType") {
					return true
				}
				for v := range sl {
					if c, ok := v.(*ssa.Call); ok && c.Call.StaticCallee() != nil && c.Call.StaticCallee().Name() == "isExtension" {
						return true
					}
				}
				return false
			}
			if !((isExt(sx) && sliceHasField(sy, "LookupType")) || (isExt(sy) && sliceHasField(sx, "LookupType"))) {
				continue
			}
			t := b.Succs[0]
			if ret, ok := t.Instrs[len(t.Instrs)-1].(*ssa.Return); ok && len(ret.Results) == 2 && !isNilConst(ret.Results[1]) {
				return true, ""
			}
		}
		return false, "readLookupList no longer rejects an extension subtable whose extension type is the extension lookup type itself before decoding through it"
	}
}
