package main

import (
	"fmt"
	"go/constant"
	"go/token"
	"go/types"
	"strings"

	"golang.org/x/tools/go/ssa"
)

// RunExtremumLocal is extremuminit for running extrema kept in local
// variables: a loop-carried variable that starts at the zero value and is
// replaced by x only when x < v (or x > v, or through the builtins min/max)
// yields 0 instead of the true extremum when every x lies on the other side
// of zero.  Accepted: an additional way to reach the assignment that does not
// pass the comparison (the `first ||` escape); a maximum over values that
// cannot be negative (lengths, unsigned values and conversions of them).
func RunExtremumLocal(w *World, r *Report, fns []*ssa.Function) {
	r.Rule("extremumlocal: a loop-carried local of signed or floating type whose value on entry is the constant 0 and which is updated only as a running minimum/maximum (assignment under x < v or x > v, or v = min(v, x) / max(v, x)) has a way to take the first contributing value unconditionally, unless a maximum is taken over values that are non-negative by type")
	for _, fn := range fns {
		if fn.Blocks == nil {
			continue
		}
		loops := naturalLoops(fn)
		for _, l := range loops {
			for _, in := range l.head.Instrs {
				ph, ok := in.(*ssa.Phi)
				if !ok {
					break
				}
				bt, ok := ph.Type().Underlying().(*types.Basic)
				if !ok || bt.Info()&types.IsNumeric == 0 || bt.Info()&types.IsUnsigned != 0 {
					continue
				}
				// entry edges constant zero, latch edges inside the loop
				zeroEntry, hasLatch := true, false
				var latchVals []ssa.Value
				for i, e := range ph.Edges {
					if l.body[l.head.Preds[i]] {
						hasLatch = true
						latchVals = append(latchVals, e)
						continue
					}
					c, ok := e.(*ssa.Const)
					if !ok || c.Value == nil || !isZeroConst(c) {
						zeroEntry = false
					}
				}
				if !zeroEntry || !hasLatch {
					continue
				}
				// every in-loop definition reaching the latch is the variable itself or an extremum update
				kind, escape, nonneg, pos, ok := extremumUpdates(ph, latchVals, l)
				if !ok || kind == "" {
					continue
				}
				name := ph.Comment
				if name == "" {
					name = ph.Name()
				}
				key := r.MkKey("extremumlocal", fnName(fn), "running "+kind+" "+name)
				switch {
				case escape:
					r.OK("extremumlocal", key, w.Pos(pos), "the first contributing value is taken unconditionally")
				case kind == "maximum" && nonneg:
					r.OK("extremumlocal", key, w.Pos(pos), "maximum over values that are non-negative by type")
				default:
					r.Fail("extremumlocal", key, w.Pos(pos), fmt.Sprintf("the running %s %s starts at 0 and is only replaced by values that beat it: if every value lies on the other side of zero the result is 0 instead of the true %s", kind, name, kind), nil)
				}
			}
		}
	}
}

func isZeroConst(c *ssa.Const) bool {
	switch c.Value.Kind() {
	case constant.Int, constant.Float:
		return constant.Sign(c.Value) == 0
	}
	return false
}

// extremumUpdates classifies the in-loop updates of the loop-carried phi.
func extremumUpdates(ph *ssa.Phi, latch []ssa.Value, l *natLoop) (kind string, escape, nonneg bool, pos token.Pos, ok bool) {
	nonneg = true
	seen := map[ssa.Value]bool{}
	var walk func(v ssa.Value) bool
	walk = func(v ssa.Value) bool {
		if v == ssa.Value(ph) || seen[v] {
			return true
		}
		seen[v] = true
		switch x := v.(type) {
		case *ssa.Phi:
			if !l.body[x.Block()] {
				return false
			}
			for i, e := range x.Edges {
				if e == ssa.Value(ph) || seen[e] {
					continue
				}
				if ep, isPhi := e.(*ssa.Phi); isPhi && l.body[ep.Block()] && ep != ph && phiReaches(ep, ph, l, map[ssa.Value]bool{}) {
					if !walk(e) {
						return false
					}
					continue
				}
				if c, isCall := e.(*ssa.Call); isCall {
					if _, isB := c.Call.Value.(*ssa.Builtin); isB {
						if !walk(e) {
							return false
						}
						continue
					}
				}
				// e is a new value x assigned on the edge from pred i: guarded by a comparison with the variable?
				p := x.Block().Preds[i]
				k, viaCmpOnly, found := cmpGuardOf(p, e, ph, x, l)
				if !found {
					return false // assigned without any relation to the old value: not an extremum
				}
				if kind != "" && kind != k {
					return false
				}
				kind = k
				if !viaCmpOnly {
					escape = true
				}
				if !nonNegByType(e) {
					nonneg = false
				}
				if !pos.IsValid() {
					pos = x.Pos()
					if in, ok := e.(ssa.Instruction); ok && in.Pos().IsValid() {
						pos = in.Pos()
					}
				}
			}
			return true
		case *ssa.Call:
			bi, isB := x.Call.Value.(*ssa.Builtin)
			if !isB || (bi.Name() != "min" && bi.Name() != "max") {
				return false
			}
			k := "minimum"
			if bi.Name() == "max" {
				k = "maximum"
			}
			if kind != "" && kind != k {
				return false
			}
			kind = k
			if !pos.IsValid() {
				pos = x.Pos()
			}
			carries := false
			for _, a := range x.Call.Args {
				if a == ssa.Value(ph) {
					carries = true
					continue
				}
				if ap, isPhi := a.(*ssa.Phi); isPhi && l.body[ap.Block()] {
					// v' = phi(first ? x : v): an escape if some edge is not the variable
					all := true
					for _, e := range ap.Edges {
						if e != ssa.Value(ph) {
							all = false
						}
					}
					if all {
						carries = true
						continue
					} else if phiReaches(ap, ph, l, map[ssa.Value]bool{}) {
						carries = true
						escape = true
						continue
					}
				}
				if !nonNegByType(a) {
					nonneg = false
				}
			}
			return carries
		}
		return false
	}
	for _, v := range latch {
		if !walk(v) {
			return "", false, false, pos, false
		}
	}
	return kind, escape, nonneg, pos, true
}

func phiReaches(v ssa.Value, ph *ssa.Phi, l *natLoop, seen map[ssa.Value]bool) bool {
	if v == ssa.Value(ph) {
		return true
	}
	if seen[v] {
		return false
	}
	seen[v] = true
	if p, ok := v.(*ssa.Phi); ok && l.body[p.Block()] {
		for _, e := range p.Edges {
			if phiReaches(e, ph, l, seen) {
				return true
			}
		}
	}
	return false
}

// cmpGuardOf: block p (from which the update phi takes the new value e) is
// entered through the true edge of a comparison between e and the variable.
// viaCmpOnly is false when p can also be entered another way.
func cmpGuardOf(p *ssa.BasicBlock, e ssa.Value, ph *ssa.Phi, upd *ssa.Phi, l *natLoop) (kind string, viaCmpOnly, found bool) {
	viaCmpOnly = true
	isVar := func(v ssa.Value) bool {
		return v == ssa.Value(ph) || phiReaches(v, ph, l, map[ssa.Value]bool{})
	}
	// p may be the assigning block itself or an empty block behind it
	cands := []*ssa.BasicBlock{p}
	for _, q := range cands {
		for _, pr := range q.Preds {
			if len(pr.Instrs) == 0 {
				continue
			}
			ifi, ok := pr.Instrs[len(pr.Instrs)-1].(*ssa.If)
			if !ok {
				viaCmpOnly = false
				continue
			}
			cmp, ok := ifi.Cond.(*ssa.BinOp)
			if !ok {
				viaCmpOnly = false
				continue
			}
			var k string
			switch {
			case sameValueExpr(cmp.X, e) && isVar(cmp.Y):
				switch cmp.Op {
				case token.LSS, token.LEQ:
					k = "minimum"
				case token.GTR, token.GEQ:
					k = "maximum"
				}
			case sameValueExpr(cmp.Y, e) && isVar(cmp.X):
				switch cmp.Op {
				case token.LSS, token.LEQ:
					k = "maximum"
				case token.GTR, token.GEQ:
					k = "minimum"
				}
			}
			if k == "" || pr.Succs[0] != q {
				viaCmpOnly = false
				continue
			}
			kind, found = k, true
		}
	}
	return
}

// nonNegByType: lengths, unsigned values, and widening conversions of them.
func nonNegByType(v ssa.Value) bool {
	switch x := v.(type) {
	case *ssa.Call:
		if bi, ok := x.Call.Value.(*ssa.Builtin); ok && (bi.Name() == "len" || bi.Name() == "cap") {
			return true
		}
	case *ssa.Convert:
		if b, ok := x.X.Type().Underlying().(*types.Basic); ok && b.Info()&types.IsUnsigned != 0 {
			if tb, ok := x.Type().Underlying().(*types.Basic); ok && tb.Info()&types.IsInteger != 0 {
				return true
			}
		}
		return nonNegByType(x.X)
	case *ssa.Const:
		return x.Value != nil && (x.Value.Kind() == constant.Int || x.Value.Kind() == constant.Float) && constant.Sign(x.Value) >= 0
	case *ssa.BinOp:
		if x.Op == token.ADD || x.Op == token.MUL {
			return nonNegByType(x.X) && nonNegByType(x.Y)
		}
	}
	if b, ok := v.Type().Underlying().(*types.Basic); ok && b.Info()&types.IsUnsigned != 0 {
		return true
	}
	return false
}

// RunBBoxRound: a bounding box in integer font units must enclose the
// outline, whose coordinates are real numbers: wherever a float is converted
// to an integer that is stored into LLx/LLy it is rounded down (math.Floor)
// and into URx/URy rounded up (math.Ceil).  A plain conversion truncates
// towards zero, which moves a negative lower-left corner inwards.
func RunBBoxRound(w *World, r *Report, fns []*ssa.Function) {
	r.Rule("bboxround: every floating-point value converted to an integer and stored into the LLx/LLy field of a rectangle passes through math.Floor, into URx/URy through math.Ceil (outward rounding, so the box encloses the outline also for negative and fractional coordinates)")
	want := map[string]string{"LLx": "Floor", "LLy": "Floor", "URx": "Ceil", "URy": "Ceil"}
	for _, fn := range fns {
		for _, b := range fn.Blocks {
			for _, in := range b.Instrs {
				st, ok := in.(*ssa.Store)
				if !ok {
					continue
				}
				f := fieldName(st.Addr)
				fnWant, ok := want[f]
				if !ok {
					continue
				}
				cv, ok := st.Val.(*ssa.Convert)
				if !ok {
					continue
				}
				bt, ok := cv.X.Type().Underlying().(*types.Basic)
				if !ok || bt.Info()&types.IsFloat == 0 {
					continue
				}
				key := r.MkKey("bboxround", fnName(fn), "corner "+f)
				got := ""
				if c, ok := cv.X.(*ssa.Call); ok {
					if callee := c.Call.StaticCallee(); callee != nil && fnPkgPath(callee) == "math" {
						got = callee.Name()
					}
				}
				if got == fnWant {
					r.OK("bboxround", key, w.Pos(st.Pos()), "rounded outwards with math."+fnWant)
				} else {
					how := "converted directly (truncation towards zero)"
					if got != "" {
						how = "rounded with math." + got
					}
					r.Fail("bboxround", key, w.Pos(st.Pos()), fmt.Sprintf("%s is computed from a floating-point coordinate that is %s instead of math.%s: for a negative or fractional coordinate the corner moves inside the outline, so the box no longer encloses the glyph", f, how, fnWant), nil)
				}
			}
		}
	}
	r.Floor("bboxround", 4)
}

// RunExtentPairs: Glyph.Extent takes the end point of every drawing command
// as a pair of consecutive arguments (Args[0], Args[1] for moves and lines,
// Args[4], Args[5] for curves).  The two float variables that receive them
// are, at the join behind the switch over the command kind, phis whose
// operands come from the same command's argument list at indices k and k+1
// on every incoming edge: a case that sets only one coordinate leaves the
// other at 0 (or at the previous command's value) and the box is wrong.
func RunExtentPairs(w *World, r *Report) {
	r.Rule("extentpairs: in (*cff.Glyph).Extent the x and y coordinate of a command's end point are taken, on every case of the switch over the command kind, from consecutive elements Args[k], Args[k+1] of the same argument list")
	fn := w.Func("(*cff.Glyph).Extent")
	if fn == nil {
		r.Fatal("(*cff.Glyph).Extent does not resolve")
		return
	}
	key := r.MkKey("extentpairs", fnName(fn), "end point of a command")
	argIdx := func(v ssa.Value) (int64, bool) {
		ld, ok := v.(*ssa.UnOp)
		if !ok || ld.Op != token.MUL {
			return 0, false
		}
		ia, ok := ld.X.(*ssa.IndexAddr)
		if !ok {
			return 0, false
		}
		if base, ok := ia.X.(*ssa.UnOp); !ok || fieldName(base.X) != "Args" {
			return 0, false
		}
		return bconstIntOK(ia.Index)
	}
	for _, b := range fn.Blocks {
		var phis []*ssa.Phi
		for _, in := range b.Instrs {
			ph, ok := in.(*ssa.Phi)
			if !ok {
				break
			}
			n := 0
			for _, e := range ph.Edges {
				if _, ok := argIdx(e); ok {
					n++
				}
			}
			if n >= 2 {
				phis = append(phis, ph)
			}
		}
		if len(phis) == 0 {
			continue
		}
		if len(phis) != 2 {
			r.Fail("extentpairs", key, w.Pos(phis[0].Pos()), fmt.Sprintf("%d variables receive command arguments at the join behind the switch, expected the two coordinates", len(phis)), nil)
			r.Floor("extentpairs", 1)
			return
		}
		x, y := phis[0], phis[1]
		for i := range x.Edges {
			kx, okx := argIdx(x.Edges[i])
			ky, oky := argIdx(y.Edges[i])
			if !okx && !oky {
				continue // an edge that carries no command (default case)
			}
			if okx != oky {
				r.Fail("extentpairs", key, w.Pos(x.Pos()), "on one case of the switch only one of the two coordinates is taken from the command's arguments: the other keeps its zero value, so the bounding box does not contain that end point", nil)
				r.Floor("extentpairs", 1)
				return
			}
			if ky != kx+1 && kx != ky+1 {
				r.Fail("extentpairs", key, w.Pos(x.Pos()), fmt.Sprintf("the coordinates of one case come from Args[%d] and Args[%d], which are not a pair of consecutive arguments", kx, ky), nil)
				r.Floor("extentpairs", 1)
				return
			}
		}
		r.OK("extentpairs", key, w.Pos(x.Pos()), "consecutive arguments on every case")
		r.Floor("extentpairs", 1)
		return
	}
	r.Fail("extentpairs", key, w.Pos(fn.Pos()), "no join of command arguments found in Extent", nil)
	r.Floor("extentpairs", 1)
}

func bconstIntOK(v ssa.Value) (int64, bool) {
	return bconstInt(v)
}

// RunFDMatrix: in a CID-keyed CFF font every font dictionary has its own
// matrix, which applies before the font matrix. A metric query of sfnt.Font
// that scales by f.FontMatrix therefore also consults the FontMatrices of the
// outlines (directly or through a callee), or excludes CID-keyed fonts; one
// that does neither disagrees with its siblings for such fonts.
func RunFDMatrix(w *World, r *Report) {
	r.Rule("fdmatrix: every method of sfnt.Font and cff.Font that reads the field FontMatrix also reaches (itself or through static callees inside the module) a read of the field FontMatrices of the CFF outlines or a call of IsCIDKeyed: the per-font-dictionary matrices of CID-keyed fonts are taken into account by all metric queries alike")
	reads := func(fn *ssa.Function, field string) bool {
		for _, b := range fn.Blocks {
			for _, in := range b.Instrs {
				if fa, ok := in.(*ssa.FieldAddr); ok && fieldName(fa) == field {
					return true
				}
				if f, ok := in.(*ssa.Field); ok && fieldNameOfField(f) == field {
					return true
				}
			}
		}
		return false
	}
	var reaches func(fn *ssa.Function, seen map[*ssa.Function]bool) bool
	reaches = func(fn *ssa.Function, seen map[*ssa.Function]bool) bool {
		if seen[fn] || len(fn.Blocks) == 0 {
			return false
		}
		seen[fn] = true
		if reads(fn, "FontMatrices") {
			return true
		}
		for _, b := range fn.Blocks {
			for _, in := range b.Instrs {
				c, ok := in.(*ssa.Call)
				if !ok {
					continue
				}
				callee := c.Call.StaticCallee()
				if callee == nil {
					if c.Call.IsInvoke() && c.Call.Method.Name() == "IsCIDKeyed" {
						return true
					}
					continue
				}
				if callee.Name() == "IsCIDKeyed" {
					return true
				}
				if isLibPkg(fnPkgPath(callee)) && reaches(callee, seen) {
					return true
				}
			}
		}
		return false
	}
	n := 0
	for _, fn := range w.LibFuncs() {
		if (fnPkgPath(fn) != modPath && fnPkgPath(fn) != modPath+"/cff") || fn.Signature.Recv() == nil || fn.Parent() != nil {
			continue
		}
		if rt := fn.Signature.Recv().Type().String(); !strings.HasSuffix(rt, "sfnt.Font") && !strings.HasSuffix(rt, "cff.Font") {
			continue
		}
		if !reads(fn, "FontMatrix") {
			continue
		}
		// writers and readers of the whole font copy the matrix; the rule is about queries that scale by it
		scales := false
		for _, b := range fn.Blocks {
			for _, in := range b.Instrs {
				if bo, ok := in.(*ssa.BinOp); ok && (bo.Op == token.MUL || bo.Op == token.QUO) {
					if _, isF := bo.Type().Underlying().(*types.Basic); isF && bo.Type().Underlying().(*types.Basic).Info()&types.IsFloat != 0 {
						for v := range backSlice(bo) {
							if fa, ok := v.(*ssa.FieldAddr); ok && fieldName(fa) == "FontMatrix" {
								scales = true
							}
						}
					}
				}
			}
		}
		if !scales {
			continue
		}
		n++
		key := r.MkKey("fdmatrix", fnName(fn), "scaling by FontMatrix")
		if reaches(fn, map[*ssa.Function]bool{}) {
			r.OK("fdmatrix", key, w.Pos(fn.Pos()), "the font dictionary matrices are consulted (or CID-keyed fonts excluded)")
		} else {
			r.Fail("fdmatrix", key, w.Pos(fn.Pos()), "this query scales by f.FontMatrix without looking at the FontMatrices of the font dictionaries and without excluding CID-keyed fonts: for a CID-keyed font whose font dictionaries carry their own matrix it disagrees with the queries that do", nil)
		}
	}
	r.Floor("fdmatrix", 1)
	// the font dictionary is a property of the glyph: a query that asks for the font dictionary of
	// one fixed glyph applies that glyph's matrix to all the others
	r.Rule("fdglyph: no call of the FDSelect function of CFF outlines in the library passes a constant glyph id: the font dictionary (and with it the matrix and the private dictionary) is chosen per glyph")
	m := 0
	for _, fn := range w.LibFuncs() {
		for _, b := range fn.Blocks {
			for _, in := range b.Instrs {
				c, ok := in.(*ssa.Call)
				if !ok || c.Call.IsInvoke() || c.Call.StaticCallee() != nil || len(c.Call.Args) != 1 {
					continue
				}
				ld, ok := c.Call.Value.(*ssa.UnOp)
				if !ok {
					continue
				}
				fa, ok := ld.X.(*ssa.FieldAddr)
				if !ok || fieldName(fa) != "FDSelect" {
					continue
				}
				m++
				key := r.MkKey("fdglyph", fnName(fn), "FDSelect("+valueText(c.Call.Args[0])+")")
				if _, isConst := c.Call.Args[0].(*ssa.Const); isConst {
					r.Fail("fdglyph", key, w.Pos(c.Pos()), "the font dictionary is looked up for one fixed glyph: whatever is derived from it (matrix, private dictionary) is applied to glyphs of other font dictionaries too", nil)
				} else {
					r.OK("fdglyph", key, w.Pos(c.Pos()), "the glyph id is a variable")
				}
			}
		}
	}
	r.Floor("fdglyph", 5)
}

// RunMatrixOrder: glyph coordinates of a CID-keyed font pass through the
// matrix of the glyph's font dictionary first and through the font matrix
// second. With the library's convention (a.Mul(b) applies a, then b) the
// font dictionary matrix is therefore the receiver of the product; all sites
// that combine the two agree on this.
func RunMatrixOrder(w *World, r *Report) {
	r.Rule("matrixorder: in every call of (matrix.Matrix).Mul in the library one of whose operands derives from the FontMatrices of the outlines and the other does not, the FontMatrices operand is the receiver (the font dictionary matrix is applied before the font matrix and any scaling)")
	n := 0
	for _, fn := range w.LibFuncs() {
		for _, b := range fn.Blocks {
			for _, in := range b.Instrs {
				call, ok := in.(*ssa.Call)
				if !ok {
					continue
				}
				callee := call.Common().StaticCallee()
				if callee == nil || callee.Name() != "Mul" || callee.Pkg == nil || !strings.HasSuffix(callee.Pkg.Pkg.Path(), "/matrix") || len(call.Common().Args) != 2 {
					continue
				}
				fromFD := func(v ssa.Value) bool {
					for x := range backSliceLocal(fn, v) {
						if fa, ok := x.(*ssa.FieldAddr); ok && fieldName(fa) == "FontMatrices" {
							return true
						}
						if f, ok := x.(*ssa.Field); ok && fieldNameOfField(f) == "FontMatrices" {
							return true
						}
					}
					return false
				}
				a, bb := fromFD(call.Common().Args[0]), fromFD(call.Common().Args[1])
				if a == bb {
					continue
				}
				n++
				key := r.MkKey("matrixorder", fnName(fn), "product with a font dictionary matrix")
				if a {
					r.OK("matrixorder", key, w.Pos(call.Pos()), "the font dictionary matrix is applied first")
				} else {
					r.Fail("matrixorder", key, w.Pos(call.Pos()), "the font dictionary matrix is the argument, not the receiver, of this product: it is applied after the font matrix (and the scaling) instead of before; unless the matrices commute, boxes and widths of CID-keyed fonts come out wrong and disagree with the other queries", nil)
				}
			}
		}
	}
	r.Floor("matrixorder", 2)
}
