package main

// Interval pre-pass for the bounds prover: a classic forward interval
// analysis over the integer SSA values of one function, with widening at
// phis and two narrowing passes.  Branch conditions are not used here (the
// prover adds them); the pass supplies what holds on every path, in
// particular lower bounds of counters that are advanced on several back
// edges of nested loops.

import (
	"go/token"
	"go/types"

	"golang.org/x/tools/go/ssa"
)

type ivState struct {
	r   map[ssa.Value]irange
	bot map[ssa.Value]bool
}

func hullRange(a, b irange) irange {
	r := a
	if !b.hasLo {
		r.hasLo = false
	} else if r.hasLo && b.lo < r.lo {
		r.lo = b.lo
	}
	if !b.hasHi {
		r.hasHi = false
	} else if r.hasHi && b.hi > r.hi {
		r.hi = b.hi
	}
	return r
}

func meetRange(a, b irange) irange {
	r := a
	if b.hasLo && (!r.hasLo || b.lo > r.lo) {
		r.lo, r.hasLo = b.lo, true
	}
	if b.hasHi && (!r.hasHi || b.hi < r.hi) {
		r.hi, r.hasHi = b.hi, true
	}
	return r
}

func clampToType(r irange, t types.Type) irange {
	tr := typeRange(t)
	if r.within(tr) {
		return r
	}
	if is64(t) && !tr.hasLo {
		return r // A1: signed 64-bit values do not wrap
	}
	if is64(t) {
		// unsigned 64-bit: a negative lower bound means a possible wrap
		if r.hasLo && r.lo >= 0 {
			return r
		}
		return tr
	}
	return tr
}

func intervalPass(fn *ssa.Function) map[ssa.Value]irange {
	res := map[ssa.Value]irange{}
	known := map[ssa.Value]bool{}
	get := func(v ssa.Value) (irange, bool) {
		if c, ok := bconstInt(v); ok {
			return irange{c, c, true, true}, true
		}
		if _, ok := v.(ssa.Instruction); ok {
			if !isIntType(v.Type()) {
				return irange{}, true
			}
			r, ok := res[v]
			return r, ok && known[v]
		}
		return typeRange(v.Type()), true
	}
	nonneg := func(r irange) bool { return r.hasLo && r.lo >= 0 }
	transfer := func(v ssa.Value) (irange, bool) {
		tr := typeRange(v.Type())
		switch x := v.(type) {
		case *ssa.Phi:
			var h irange
			any := false
			for _, e := range x.Edges {
				r, ok := get(e)
				if !ok {
					continue
				}
				if !any {
					h, any = r, true
				} else {
					h = hullRange(h, r)
				}
			}
			return h, any
		case *ssa.BinOp:
			a, ok1 := get(x.X)
			b, ok2 := get(x.Y)
			if !ok1 || !ok2 {
				return irange{}, false
			}
			switch x.Op {
			case token.ADD:
				var r irange
				r.lo, r.hasLo = satAdd(a.lo, b.lo, a.hasLo && b.hasLo)
				r.hi, r.hasHi = satAdd(a.hi, b.hi, a.hasHi && b.hasHi)
				return clampToType(r, x.Type()), true
			case token.SUB:
				var r irange
				r.lo, r.hasLo = satAdd(a.lo, -b.hi, a.hasLo && b.hasHi)
				r.hi, r.hasHi = satAdd(a.hi, -b.lo, a.hasHi && b.hasLo)
				return clampToType(r, x.Type()), true
			case token.MUL:
				if a.hasLo && a.hasHi && b.hasLo && b.hasHi {
					var lo, hi int64
					first := true
					for _, m := range [][2]int64{{a.lo, b.lo}, {a.lo, b.hi}, {a.hi, b.lo}, {a.hi, b.hi}} {
						r, ok := satMul(m[0], m[1], true)
						if !ok {
							return tr, true
						}
						if first || r < lo {
							lo = r
						}
						if first || r > hi {
							hi = r
						}
						first = false
					}
					return clampToType(irange{lo, hi, true, true}, x.Type()), true
				}
				if nonneg(a) && nonneg(b) && is64(x.Type()) {
					return irange{0, 0, true, false}, true
				}
				return tr, true
			case token.SHL:
				if c, ok := bconstInt(x.Y); ok && c >= 0 && c < 40 && a.hasLo && a.hasHi {
					lo, ok1 := satMul(a.lo, int64(1)<<uint(c), true)
					hi, ok2 := satMul(a.hi, int64(1)<<uint(c), true)
					if ok1 && ok2 {
						return clampToType(irange{lo, hi, true, true}, x.Type()), true
					}
				}
				if nonneg(a) && is64(x.Type()) {
					return irange{0, 0, true, false}, true
				}
				return tr, true
			case token.SHR:
				if nonneg(a) {
					r := irange{0, a.hi, true, a.hasHi}
					if c, ok := bconstInt(x.Y); ok && c >= 0 && c < 63 && a.hasHi {
						r.hi = a.hi >> uint(c)
					}
					return r, true
				}
				return tr, true
			case token.AND:
				r := tr
				if nonneg(a) && a.hasHi {
					r = irange{0, a.hi, true, true}
				}
				if nonneg(b) && b.hasHi && (!r.hasHi || b.hi < r.hi || !nonneg(r)) {
					r = irange{0, b.hi, true, true}
				}
				return r, true
			case token.OR, token.XOR:
				if nonneg(a) && nonneg(b) && a.hasHi && b.hasHi {
					m := a.hi
					if b.hi > m {
						m = b.hi
					}
					return irange{0, pow2above(m), true, true}, true
				}
				if nonneg(a) && nonneg(b) {
					return irange{0, 0, true, false}, true
				}
				return tr, true
			case token.REM:
				if c, ok := bconstInt(x.Y); ok && c > 0 {
					if nonneg(a) {
						return irange{0, c - 1, true, true}, true
					}
					return irange{-(c - 1), c - 1, true, true}, true
				}
				if nonneg(a) && nonneg(b) {
					return irange{0, b.hi, true, b.hasHi}, true
				}
				return tr, true
			case token.QUO:
				if c, ok := bconstInt(x.Y); ok && c > 0 && nonneg(a) {
					r := irange{0, 0, true, false}
					if a.hasHi {
						r.hi, r.hasHi = a.hi/c, true
					}
					return r, true
				}
				if nonneg(a) && nonneg(b) {
					return irange{0, a.hi, true, a.hasHi}, true
				}
				return tr, true
			}
			return tr, true
		case *ssa.Convert:
			if !isIntType(x.X.Type()) {
				return tr, true
			}
			a, ok := get(x.X)
			if !ok {
				return irange{}, false
			}
			if a.within(tr) {
				return a, true
			}
			if is64(x.Type()) && !tr.hasLo {
				return a, true
			}
			return tr, true
		case *ssa.ChangeType:
			return get(x.X)
		case *ssa.UnOp:
			if x.Op == token.SUB {
				a, ok := get(x.X)
				if !ok {
					return irange{}, false
				}
				r := irange{-a.hi, -a.lo, a.hasHi, a.hasLo}
				return clampToType(r, x.Type()), true
			}
			if x.Op == token.MUL {
				if fa, ok := x.X.(*ssa.FieldAddr); ok {
					if lo, ok := fieldMin[fieldKey(fa)]; ok && (!tr.hasLo || tr.lo < lo) {
						r := tr
						r.lo, r.hasLo = lo, true
						return r, true
					}
				}
			}
			return tr, true
		case *ssa.Call:
			if b, ok := x.Call.Value.(*ssa.Builtin); ok {
				switch b.Name() {
				case "len", "cap":
					if n, ok := arrayLen(x.Call.Args[0].Type()); ok {
						return irange{n, n, true, true}, true
					}
					return irange{0, 0, true, false}, true
				case "copy":
					return irange{0, 0, true, false}, true
				case "min", "max":
					var r irange
					for i, arg := range x.Call.Args {
						ar, ok := get(arg)
						if !ok {
							return irange{}, false
						}
						if i == 0 {
							r = ar
							continue
						}
						if b.Name() == "min" {
							if ar.hasHi && (!r.hasHi || ar.hi < r.hi) {
								r.hi, r.hasHi = ar.hi, true
							}
							if !ar.hasLo {
								r.hasLo = false
							} else if r.hasLo && ar.lo < r.lo {
								r.lo = ar.lo
							}
						} else {
							if ar.hasLo && (!r.hasLo || ar.lo > r.lo) {
								r.lo, r.hasLo = ar.lo, true
							}
							if !ar.hasHi {
								r.hasHi = false
							} else if r.hasHi && ar.hi > r.hi {
								r.hi = ar.hi
							}
						}
					}
					return r, true
				}
			}
			return tr, true
		}
		return tr, true
	}
	var order []*ssa.BasicBlock
	order = fn.DomPreorder()
	setv := func(v ssa.Value, r irange) bool {
		r = meetRange(r, typeRange(v.Type()))
		if known[v] && res[v] == r {
			return false
		}
		res[v], known[v] = r, true
		return true
	}
	for pass := 0; pass < 14; pass++ {
		changed := false
		for _, b := range order {
			for _, in := range b.Instrs {
				v, ok := in.(ssa.Value)
				if !ok || !isIntType(v.Type()) {
					continue
				}
				r, ok := transfer(v)
				if !ok {
					continue
				}
				if _, isPhi := v.(*ssa.Phi); isPhi && known[v] && pass >= 3 {
					old := res[v]
					if old.hasLo && (!r.hasLo || r.lo < old.lo) {
						r.hasLo = false
					}
					if old.hasHi && (!r.hasHi || r.hi > old.hi) {
						r.hasHi = false
					}
					r = hullRange(old, r)
				}
				if setv(v, r) {
					changed = true
				}
			}
		}
		if !changed {
			break
		}
		if pass == 13 {
			// not converged: give up on phis
			for v := range res {
				if _, isPhi := v.(*ssa.Phi); isPhi {
					res[v] = typeRange(v.Type())
				}
			}
			for _, b := range order {
				for _, in := range b.Instrs {
					if v, ok := in.(ssa.Value); ok && isIntType(v.Type()) {
						if _, isPhi := v.(*ssa.Phi); !isPhi {
							if r, ok := transfer(v); ok {
								res[v] = meetRange(r, typeRange(v.Type()))
							}
						}
					}
				}
			}
			return res
		}
	}
	// narrowing: recompute without widening, keep results that stay inside
	for pass := 0; pass < 2; pass++ {
		for _, b := range order {
			for _, in := range b.Instrs {
				v, ok := in.(ssa.Value)
				if !ok || !isIntType(v.Type()) {
					continue
				}
				if r, ok := transfer(v); ok {
					r = meetRange(r, typeRange(v.Type()))
					if r.within(res[v]) {
						res[v] = r
					}
				}
			}
		}
	}
	return res
}
