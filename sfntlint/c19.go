package main

import (
	"fmt"
	"go/ast"
	"go/constant"
	"go/token"
	"go/types"
	"sort"
	"strings"

	"golang.org/x/tools/go/ssa"
	"golang.org/x/tools/go/types/typeutil"
)

func init() { properties["C19"] = propC19 }

const builderPkg = modPath + "/opentype/gtab/builder"

// C19: the lookup description language is a faithful, total notation (E11).
func propC19(w *World, r *Report) {
	p := w.All[builderPkg]
	if p == nil {
		r.Fatal("package opentype/gtab/builder not loaded")
		return
	}
	r.Rule("flagnames: the lookup-flag names the printer writes are exactly the names the parser accepts, for the same flag constants || headers: each lookup header GSUBn/GPOSn the parser dispatches on leads to a reader that builds a lookup of type n, and the printer writes headers from the lookup type with the same prefixes || exhaustive: every gtab.Subtable type the parser can construct has a case in the printer's type switches || goroutine: every goroutine started in the package closes the channel it feeds on its single exit path; every `range` over such a channel has no non-local exit (return, outer break, goto, call of a function that never returns); Parse's deferred recovery drains the token channel the parser reads, converts only *parseError and re-panics everything else || lineinfo: every lexer item that is sent carries the line number || unsignedcountdown: no down-counting loop on an unsigned variable with a >= test (cannot terminate at 0) || dupassign: no statement list repeats an identical pure assignment (copy-paste reset of the wrong variable) || stablesort: where the printer sorts rules by a projection of their key, the sort is stable (rule priority is preserved) || panicreach: panics reachable from Parse are *parseError values or reviewed")
	info := p.TypesInfo
	var fns []*ssa.Function
	for _, fn := range w.LibFuncs() {
		if fnPkgPath(fn) == builderPkg {
			fns = append(fns, fn)
		}
	}
	checkFlagNames(w, r, p.Syntax, info)
	checkHeaders(w, r, p.Syntax, info)
	checkExhaustive(w, r, p.Syntax, info)
	checkGoroutines(w, r, fns)
	checkItemLines(w, r, p.Syntax, info)
	checkErrLine(w, r)
	checkLeakWindow(w, r)
	RunUnsignedCountdown(w, r, fns)
	RunDupAssign(w, r, fns)
	checkStableSort(w, r, fns)
	RunTokenSep(w, r, []string{"opentype/gtab/builder.ExplainGsub", "opentype/gtab/builder.ExplainGpos"})
	RunBlankLine(w, r, []string{"opentype/gtab/builder.ExplainGsub", "opentype/gtab/builder.ExplainGpos"})
	RunEscapeLookBehind(w, r)
	r.Floor("tokensep", 12)
	RunPrinterKeywords(w, r, []string{"opentype/gtab/builder.ExplainGsub", "opentype/gtab/builder.ExplainGpos"}, "opentype/gtab/builder.Parse")
	r.Floor("keywords", 8)
	RunRangeStart(w, r, fns)
	RunRangeForm(w, r)
	RunQuoteEscape(w, r, []string{"opentype/gtab/builder.ExplainGsub", "opentype/gtab/builder.ExplainGpos"})
	for _, a := range boundsAssumptions {
		r.Assumes(a)
	}
	br19 := newBoundsRun(w)
	RunTokenProgress(w, r, br19, append([]*ssa.Function{}, fns...), "/opentype/gtab/builder")
	RunNarrowSucc(w, r, fns, br19)
	RunNarrowSuccControl(r)
	r.Floor("goroutine", 2)
	// "never a panic": index and slice expressions of the parser and the lexer
	{
		r.Rule("bounds (parser): every index, slice and make expression in the functions of parser.go and lexer.go reachable from builder.Parse is within bounds, by the linear prover (dominating checks — including tests whose failing branch calls p.fatal, which never returns —, type ranges, loop induction) or a reviewed entry; a run-time panic there would escape Parse's recovery, which converts *parseError only")
		var pf []*ssa.Function
		for _, fn := range srcFuncsReachable(w, mustFuncs(w, r, "opentype/gtab/builder.Parse")) {
			if fnPkgPath(fn) != builderPkg {
				continue
			}
			file := w.Fset.Position(fn.Pos()).Filename
			if strings.HasSuffix(file, "/parser.go") || strings.HasSuffix(file, "/lexer.go") {
				pf = append(pf, fn)
			}
		}
		sort.Slice(pf, func(i, j int) bool { return fnName(pf[i]) < fnName(pf[j]) })
		r.Conds["covtable-dense"] = condCovTableDense(w)
		RunBounds(w, r, "bounds", br19, pf)
		r.Floor("bounds", 250)
	}
}

// condCovTableDense: builder.makeCoverageTable hands out the coverage indices
// 0..n-1: its only map update stores the range index of a loop over the
// de-duplicated key list under the key at that index, and the map is the one
// returned.
func condCovTableDense(w *World) func() (bool, string) {
	return func() (bool, string) {
		fn := w.Func("opentype/gtab/builder.makeCoverageTable")
		if fn == nil {
			return false, "builder.makeCoverageTable does not resolve"
		}
		n := 0
		for _, b := range fn.Blocks {
			for _, in := range b.Instrs {
				mu, ok := in.(*ssa.MapUpdate)
				if !ok {
					continue
				}
				n++
				// value: the loop counter (rangeindex phi + 1 form)
				idx := mu.Value
				if cv, ok := idx.(*ssa.Convert); ok {
					idx = cv.X
				}
				// key: element of a slice at that same index
				ld, ok := mu.Key.(*ssa.UnOp)
				if !ok {
					return false, "the key stored at " + w.Pos(mu.Pos()) + " is not an element of the key list"
				}
				ia, ok := ld.X.(*ssa.IndexAddr)
				if !ok || ia.Index != idx {
					return false, "the index stored at " + w.Pos(mu.Pos()) + " is not the position of its key in the key list"
				}
				// the list is the result of the de-duplication helper
				list := ia.X
				if ld2, ok := list.(*ssa.UnOp); ok && ld2.Op == token.MUL {
					// the list lives in a cell (it is captured by the sort closure): its last assignment counts
					if cell, ok := ld2.X.(*ssa.Alloc); ok {
						var last ssa.Value
						single := true
						for _, b2 := range fn.Blocks {
							for _, in2 := range b2.Instrs {
								if st, ok := in2.(*ssa.Store); ok && st.Addr == ssa.Value(cell) {
									if b2 != fn.Blocks[0] {
										single = false
									}
									last = st.Val
								}
							}
						}
						if single && last != nil {
							list = last
						}
					}
				}
				c, ok := list.(*ssa.Call)
				if !ok || c.Call.StaticCallee() == nil || !strings.HasPrefix(c.Call.StaticCallee().Name(), "unique") {
					return false, "the key list ranged over at " + w.Pos(mu.Pos()) + " is not the result of unique(): equal keys would leave gaps in the index range"
				}
			}
		}
		if n != 1 {
			return false, fmt.Sprintf("makeCoverageTable has %d map updates, expected one", n)
		}
		return true, "indices are positions in the sorted, de-duplicated key list"
	}
}

func findFunc(files []*ast.File, name string) *ast.FuncDecl {
	for _, f := range files {
		for _, d := range f.Decls {
			if fd, ok := d.(*ast.FuncDecl); ok && fd.Name.Name == name && fd.Body != nil {
				return fd
			}
		}
	}
	return nil
}

func checkFlagNames(w *World, r *Report, files []*ast.File, info *types.Info) {
	rd := findFunc(files, "readLookupFlags")
	ex := findFunc(files, "explainFlags")
	if rd == nil || ex == nil {
		r.Fatal("builder: readLookupFlags / explainFlags not found")
		return
	}
	accepted := map[string]string{} // name -> flag constant
	dispA := map[string]string{}
	ast.Inspect(rd.Body, func(n ast.Node) bool {
		cc, ok := n.(*ast.CaseClause)
		if !ok {
			return true
		}
		for _, e := range cc.List {
			tv, ok := info.Types[e]
			if !ok || tv.Value == nil || tv.Value.Kind() != constant.String {
				continue
			}
			name := constant.StringVal(tv.Value)
			for _, s := range cc.Body {
				ast.Inspect(s, func(m ast.Node) bool {
					if as, ok := m.(*ast.AssignStmt); ok && as.Tok == token.OR_ASSIGN && len(as.Rhs) == 1 {
						accepted[name] = flagID(info, as.Rhs[0])
						if _, seen := dispA[accepted[name]]; !seen {
							dispA[accepted[name]] = types.ExprString(as.Rhs[0])
						}
					}
					return true
				})
			}
		}
		return true
	})
	written := map[string]string{} // flag constant -> name
	bare := map[string]bool{}      // flags whose name literal carries no dash
	disp := map[string]string{}    // flag constant -> how the source spells it
	ast.Inspect(ex.Body, func(n ast.Node) bool {
		ifs, ok := n.(*ast.IfStmt)
		if !ok {
			return true
		}
		// flags&gtab.X != 0
		flag := ""
		ast.Inspect(ifs.Cond, func(m ast.Node) bool {
			if be, ok := m.(*ast.BinaryExpr); ok && be.Op == token.AND {
				if _, isConst := constInt(info, be.Y); isConst {
					flag = flagID(info, be.Y)
					disp[flag] = types.ExprString(be.Y)
				}
			}
			return true
		})
		if flag == "" {
			return true
		}
		ast.Inspect(ifs.Body, func(m ast.Node) bool {
			if bl, ok := m.(*ast.BasicLit); ok && bl.Kind == token.STRING {
				if tv, ok := info.Types[bl]; ok && tv.Value != nil {
					s := strings.TrimSpace(constant.StringVal(tv.Value))
					written[flag] = strings.TrimPrefix(s, "-")
					if !strings.HasPrefix(s, "-") {
						bare[flag] = true
					}
				}
			}
			return true
		})
		return true
	})
	// a name written without its dash must get one when the collected names are emitted:
	// strings.Join(names, sep) with a dash in sep (and in front of the first name)
	if len(bare) > 0 {
		dashed := false
		ast.Inspect(ex.Body, func(n ast.Node) bool {
			call, ok := n.(*ast.CallExpr)
			if !ok || len(call.Args) != 2 {
				return true
			}
			if sel, ok := call.Fun.(*ast.SelectorExpr); !ok || sel.Sel.Name != "Join" {
				return true
			}
			if tv, ok := info.Types[call.Args[1]]; ok && tv.Value != nil && tv.Value.Kind() == constant.String && strings.Contains(constant.StringVal(tv.Value), "-") {
				dashed = true
			}
			return true
		})
		if !dashed {
			var fl []string
			for f := range bare {
				fl = append(fl, written[f])
			}
			sort.Strings(fl)
			r.Fail("flagnames", r.MkKey("flagnames", "builder.explainFlags", "dash in front of every flag name"), w.Pos(ex.Pos()), fmt.Sprintf("the flag names %s are written without a leading '-' of their own and are not joined with one: from the second flag on the parser reads a bare word, which is a glyph name (or an error), not a flag", strings.Join(fl, ", ")), nil)
		}
	}
	// table form: for i, name := range TABLE { if flags&(1<<i) != 0 { write(" -" + name) } }
	ast.Inspect(ex.Body, func(n ast.Node) bool {
		rs, ok := n.(*ast.RangeStmt)
		if !ok {
			return true
		}
		keyID, ok1 := rs.Key.(*ast.Ident)
		tid, ok2 := rs.X.(*ast.Ident)
		if !ok1 || !ok2 {
			return true
		}
		tbl := pkgStringTable(w, info, tid)
		if tbl == nil {
			return true
		}
		usesShift := false
		ast.Inspect(rs.Body, func(m ast.Node) bool {
			if be, ok := m.(*ast.BinaryExpr); ok && be.Op == token.SHL {
				if one, ok := constInt(info, be.X); ok && one == 1 {
					if id, ok := be.Y.(*ast.Ident); ok && info.ObjectOf(id) == info.ObjectOf(keyID) {
						usesShift = true
					}
				}
			}
			return true
		})
		if !usesShift {
			return true
		}
		for i, nm := range tbl {
			written[fmt.Sprintf("flag %#x", 1<<uint(i))] = strings.TrimPrefix(strings.TrimSpace(nm), "-")
		}
		return true
	})
	if len(accepted) < 3 || len(written) < 3 {
		r.Fatal("flagnames: could not extract the flag tables (accepted %d, written %d)", len(accepted), len(written))
		return
	}
	var flags []string
	for f := range written {
		flags = append(flags, f)
	}
	sort.Strings(flags)
	for _, f := range flags {
		name := written[f]
		show := func(id string) string {
			if d, ok := disp[id]; ok {
				return d
			}
			if d, ok := dispA[id]; ok {
				return d
			}
			return id
		}
		key := r.MkKey("flagnames", "builder.explainFlags", "flag "+show(f))
		if got, ok := accepted[name]; !ok {
			r.FailC("flagnames", key, []string{"unparsable"}, w.Pos(ex.Pos()), fmt.Sprintf("the printer writes lookup flag %s as -%s, which the parser does not accept (it accepts %s)", show(f), name, keysOf(accepted)), nil)
		} else if got != f {
			r.Fail("flagnames", key, w.Pos(ex.Pos()), fmt.Sprintf("the printer writes %s as -%s, but the parser reads -%s as %s", show(f), name, name, show(got)), nil)
		} else {
			r.OK("flagnames", key, w.Pos(ex.Pos()), "written as -"+name+", parsed back to the same flag")
		}
	}
	var names []string
	for n := range accepted {
		names = append(names, n)
	}
	sort.Strings(names)
	for _, n := range names {
		key := r.MkKey("flagnames", "builder.readLookupFlags", "name "+n)
		if written[accepted[n]] == n {
			r.OK("flagnames", key, w.Pos(rd.Pos()), "the printer writes this name for "+accepted[n])
		} else {
			r.Fail("flagnames", key, w.Pos(rd.Pos()), fmt.Sprintf("the parser accepts -%s for %s but the printer writes -%s for that flag", n, accepted[n], written[accepted[n]]), nil)
		}
	}
}

func keysOf(m map[string]string) string {
	var ks []string
	for k := range m {
		ks = append(ks, "-"+k)
	}
	sort.Strings(ks)
	return strings.Join(ks, " ")
}

func checkHeaders(w *World, r *Report, files []*ast.File, info *types.Info) {
	pf := findFunc(files, "parse")
	if pf == nil {
		r.Fatal("builder: (*parser).parse not found")
		return
	}
	n := 0
	ast.Inspect(pf.Body, func(nd ast.Node) bool {
		cc, ok := nd.(*ast.CaseClause)
		if !ok || len(cc.List) != 1 {
			return true
		}
		call, ok := cc.List[0].(*ast.CallExpr)
		if !ok || types.ExprString(call.Fun) != "isIdentifier" || len(call.Args) != 2 {
			return true
		}
		tv, ok := info.Types[call.Args[1]]
		if !ok || tv.Value == nil {
			return true
		}
		hdr := constant.StringVal(tv.Value)
		if len(hdr) != 5 || (hdr[:4] != "GSUB" && hdr[:4] != "GPOS") {
			return true
		}
		want := int64(hdr[4] - '0')
		n++
		key := r.MkKey("headers", "builder.parse", "header "+hdr)
		// the reader called in this case
		var rdCall *ast.CallExpr
		for _, s := range cc.Body {
			ast.Inspect(s, func(m ast.Node) bool {
				if c, ok := m.(*ast.CallExpr); ok && rdCall == nil {
					if sel, ok := c.Fun.(*ast.SelectorExpr); ok && strings.HasPrefix(sel.Sel.Name, "read") {
						rdCall = c
					}
				}
				return true
			})
		}
		if rdCall == nil {
			r.Fail("headers", key, w.Pos(cc.Pos()), "no reader is called for header "+hdr, nil)
			return true
		}
		rdName := rdCall.Fun.(*ast.SelectorExpr).Sel.Name
		fd := findFunc(files, rdName)
		if fd == nil {
			r.Fail("headers", key, w.Pos(cc.Pos()), "reader "+rdName+" not found", nil)
			return true
		}
		// LookupType: <const> or <param> with the call's constant argument
		got := int64(-1)
		ast.Inspect(fd.Body, func(m ast.Node) bool {
			kv, ok := m.(*ast.KeyValueExpr)
			if !ok {
				return true
			}
			if id, ok := kv.Key.(*ast.Ident); !ok || id.Name != "LookupType" {
				return true
			}
			if c, ok := constInt(info, kv.Value); ok {
				got = c
			} else if len(rdCall.Args) == 1 {
				if c, ok := constInt(info, rdCall.Args[0]); ok {
					got = c
				}
			}
			return true
		})
		if got == want {
			r.OK("headers", key, w.Pos(cc.Pos()), fmt.Sprintf("%s -> %s builds lookup type %d", hdr, rdName, got))
		} else {
			r.Fail("headers", key, w.Pos(cc.Pos()), fmt.Sprintf("header %s is read by %s, which builds lookup type %d", hdr, rdName, got), nil)
		}
		return true
	})
	if n < 8 {
		r.Fatal("headers: only %d lookup headers found in parse (expected >= 8)", n)
	}
	// the printer writes the header from the lookup type with the same prefixes
	for _, pre := range []string{"GSUB", "GPOS"} {
		key := r.MkKey("headers", "builder.Explain", "prefix "+pre)
		found := false
		for _, f := range files {
			ast.Inspect(f, func(m ast.Node) bool {
				if bl, ok := m.(*ast.BasicLit); ok && bl.Kind == token.STRING && strings.HasPrefix(bl.Value, `"`+pre+`%d:`) {
					found = true
				}
				return true
			})
		}
		if found {
			r.OK("headers", key, "-", "printer writes "+pre+"<LookupType>:")
		} else {
			r.Fail("headers", key, "-", "the printer no longer writes lookup headers as "+pre+"%d:", nil)
		}
	}
}

func checkExhaustive(w *World, r *Report, files []*ast.File, info *types.Info) {
	built := map[string]token.Pos{}
	explained := map[string]bool{}
	for _, f := range files {
		fname := w.Fset.Position(f.Pos()).Filename
		ast.Inspect(f, func(n ast.Node) bool {
			switch x := n.(type) {
			case *ast.CompositeLit:
				if strings.HasSuffix(fname, "parser.go") {
					t := info.TypeOf(x)
					if t == nil {
						return true
					}
					if n, ok := derefType(t).(*types.Named); ok && n.Obj().Pkg() != nil && strings.HasSuffix(n.Obj().Pkg().Path(), "/gtab") {
						if implementsSubtable(w, t) || implementsSubtable(w, types.NewPointer(t)) {
							built[n.Obj().Name()] = x.Pos()
						}
					}
				}
			case *ast.TypeSwitchStmt:
				if strings.HasSuffix(fname, "explain.go") {
					for _, cc := range x.Body.List {
						for _, e := range cc.(*ast.CaseClause).List {
							s := types.ExprString(e)
							s = strings.TrimPrefix(s, "*")
							s = strings.TrimPrefix(s, "gtab.")
							explained[s] = true
						}
					}
				}
			}
			return true
		})
	}
	var names []string
	for n := range built {
		names = append(names, n)
	}
	sort.Strings(names)
	if len(names) < 10 {
		r.Fatal("exhaustive: only %d subtable types constructed by the parser found", len(names))
	}
	for _, n := range names {
		key := r.MkKey("exhaustive", "builder", "subtable type "+n)
		if explained[n] {
			r.OK("exhaustive", key, w.Pos(built[n]), "constructed by the parser and handled by the printer")
		} else {
			r.Fail("exhaustive", key, w.Pos(built[n]), "the parser can construct gtab."+n+" but the printer has no case for it", nil)
		}
	}
}

func implementsSubtable(w *World, t types.Type) bool {
	gp := w.All[modPath+"/opentype/gtab"]
	if gp == nil {
		return false
	}
	st, _ := gp.Types.Scope().Lookup("Subtable").(*types.TypeName)
	if st == nil {
		return false
	}
	it, ok := st.Type().Underlying().(*types.Interface)
	return ok && types.Implements(t, it)
}

// neverReturns: the function has no reachable return (all paths panic).
func neverReturns(fn *ssa.Function) bool {
	if len(fn.Blocks) == 0 {
		return false
	}
	for _, b := range fn.Blocks {
		if len(b.Instrs) == 0 {
			continue
		}
		if _, ok := b.Instrs[len(b.Instrs)-1].(*ssa.Return); ok {
			return false
		}
	}
	return true
}

func checkGoroutines(w *World, r *Report, fns []*ssa.Function) {
	// goroutine bodies
	goFns := map[*ssa.Function]bool{}
	for _, fn := range fns {
		for _, b := range fn.Blocks {
			for _, ins := range b.Instrs {
				g, ok := ins.(*ssa.Go)
				if !ok {
					continue
				}
				for _, callee := range w.Callees(g) {
					goFns[callee] = true
				}
				if mc, ok := g.Call.Value.(*ssa.MakeClosure); ok {
					goFns[mc.Fn.(*ssa.Function)] = true
				}
			}
		}
	}
	var gl []*ssa.Function
	for f := range goFns {
		gl = append(gl, f)
	}
	sort.Slice(gl, func(i, j int) bool { return fnName(gl[i]) < fnName(gl[j]) })
	for _, gf := range gl {
		name := fnName(gf)
		key := r.MkKey("goroutine", name, "closes its channel on exit")
		rets := 0
		var retBlk *ssa.BasicBlock
		for _, b := range gf.Blocks {
			if _, ok := b.Instrs[len(b.Instrs)-1].(*ssa.Return); ok {
				rets++
				retBlk = b
			}
		}
		closed := false
		for _, b := range gf.Blocks {
			for _, ins := range b.Instrs {
				if c, ok := ins.(*ssa.Call); ok {
					if bi, ok := c.Call.Value.(*ssa.Builtin); ok && bi.Name() == "close" && retBlk != nil && (b == retBlk || b.Dominates(retBlk)) {
						closed = true
					}
				}
			}
		}
		if rets == 1 && closed {
			r.OK("goroutine", key, w.Pos(gf.Pos()), "single exit, dominated by close()")
		} else {
			r.Fail("goroutine", key, w.Pos(gf.Pos()), fmt.Sprintf("goroutine %s does not close its channel on every exit (%d returns, close dominates: %v): the consumer can block forever", name, rets, closed), nil)
		}
	}
	// ranges over channels: no non-local exit
	for _, fn := range fns {
		body, _ := funcBody(fn)
		info := w.Info(fn)
		if body == nil || fn.Parent() != nil {
			continue
		}
		name := fnName(fn)
		ast.Inspect(body, func(n ast.Node) bool {
			rs, ok := n.(*ast.RangeStmt)
			if !ok {
				return true
			}
			if _, isChan := info.TypeOf(rs.X).Underlying().(*types.Chan); !isChan {
				return true
			}
			key := r.MkKey("goroutine", name, "range over channel "+types.ExprString(rs.X))
			bad := ""
			ast.Inspect(rs.Body, func(m ast.Node) bool {
				switch x := m.(type) {
				case *ast.FuncLit:
					return false
				case *ast.ReturnStmt:
					bad = "return inside the loop at " + w.Pos(x.Pos())
				case *ast.BranchStmt:
					if x.Tok == token.GOTO || (x.Tok == token.BREAK && x.Label != nil) {
						bad = x.Tok.String() + " out of the loop at " + w.Pos(x.Pos())
					}
					if x.Tok == token.BREAK && x.Label == nil {
						// a plain break leaves this loop unless it is inside an inner for/switch/select
						inner := false
						for _, p := range enclosing(rs.Body, x.Pos()) {
							switch p.(type) {
							case *ast.ForStmt, *ast.RangeStmt, *ast.SwitchStmt, *ast.TypeSwitchStmt, *ast.SelectStmt:
								inner = true
							}
						}
						if !inner {
							bad = "break out of the loop at " + w.Pos(x.Pos())
						}
					}
				case *ast.CallExpr:
					if callee, ok := typeutil.Callee(info, x).(*types.Func); ok {
						if f := w.Prog.FuncValue(callee); f != nil && neverReturns(f) {
							bad = "call of " + fnName(f) + ", which never returns (it panics), at " + w.Pos(x.Pos())
						}
					}
					if id, ok := x.Fun.(*ast.Ident); ok && id.Name == "panic" {
						bad = "panic inside the loop at " + w.Pos(x.Pos())
					}
				}
				return true
			})
			if bad == "" {
				r.OK("goroutine", key, w.Pos(rs.Pos()), "the channel is always read to the end")
			} else {
				r.Fail("goroutine", key, w.Pos(rs.Pos()), "the loop over a goroutine-fed channel can be left early ("+bad+"): the producing goroutine stays blocked on its next send forever", nil)
			}
			return true
		})
	}
	// Parse: deferred recovery drains the token channel
	parse := w.Func("opentype/gtab/builder.Parse")
	if parse == nil {
		r.Fatal("anchor builder.Parse does not resolve")
		return
	}
	key := r.MkKey("goroutine", fnName(parse), "recover drains the lexer")
	body, _ := funcBody(parse)
	info := w.Info(parse)
	// the channel handed to the parser
	var chanObj types.Object
	ast.Inspect(body, func(n ast.Node) bool {
		if kv, ok := n.(*ast.KeyValueExpr); ok {
			if id, ok := kv.Key.(*ast.Ident); ok && id.Name == "tokens" {
				if v, ok := kv.Value.(*ast.Ident); ok {
					chanObj = info.ObjectOf(v)
				}
			}
		}
		return true
	})
	drains, recovers, repanics, converts := false, false, false, false
	ast.Inspect(body, func(n ast.Node) bool {
		ds, ok := n.(*ast.DeferStmt)
		if !ok {
			return true
		}
		fl, ok := ds.Call.Fun.(*ast.FuncLit)
		if !ok {
			return true
		}
		ast.Inspect(fl.Body, func(m ast.Node) bool {
			switch x := m.(type) {
			case *ast.CallExpr:
				if id, ok := x.Fun.(*ast.Ident); ok {
					if id.Name == "recover" {
						recovers = true
					}
					if id.Name == "panic" {
						repanics = true
					}
				}
			case *ast.RangeStmt:
				if id, ok := x.X.(*ast.Ident); ok && chanObj != nil && info.ObjectOf(id) == chanObj && len(x.Body.List) == 0 {
					drains = true
				}
			case *ast.TypeAssertExpr:
				if x.Type != nil && strings.Contains(types.ExprString(x.Type), "parseError") {
					converts = true
				}
			}
			return true
		})
		return true
	})
	if !drains {
		drains = drainsBySSA(parse)
		if drains && chanObj == nil {
			chanObj = types.NewVar(token.NoPos, nil, "tokens", nil) // identified on the SSA form
		}
	}
	switch {
	case chanObj == nil:
		r.Fail("goroutine", key, w.Pos(parse.Pos()), "cannot identify the token channel handed to the parser", nil)
	case !recovers:
		r.Fail("goroutine", key, w.Pos(parse.Pos()), "Parse has no deferred recover: parse errors (panics of *parseError) escape to the caller", nil)
	case !drains:
		r.Fail("goroutine", key, w.Pos(parse.Pos()), "after recovering from a parse error, Parse does not read the token channel to its end: the lexer goroutine stays blocked on its next send", nil)
	case !converts || !repanics:
		r.Fail("goroutine", key, w.Pos(parse.Pos()), "the recovery does not single out *parseError and re-panic everything else", nil)
	default:
		r.OK("goroutine", key, w.Pos(parse.Pos()), "recover → drain token channel → *parseError becomes the error, anything else is re-panicked")
	}
}

func checkItemLines(w *World, r *Report, files []*ast.File, info *types.Info) {
	n := 0
	for _, f := range files {
		ast.Inspect(f, func(nd ast.Node) bool {
			cl, ok := nd.(*ast.CompositeLit)
			if !ok {
				return true
			}
			nt, ok := info.TypeOf(cl).(*types.Named)
			if !ok || nt.Obj().Name() != "item" || len(cl.Elts) == 0 {
				return true
			}
			hasTyp, hasLine := false, false
			for _, el := range cl.Elts {
				if kv, ok := el.(*ast.KeyValueExpr); ok {
					if id, ok := kv.Key.(*ast.Ident); ok {
						if id.Name == "typ" {
							hasTyp = true
						}
						if id.Name == "line" {
							hasLine = true
						}
					}
				}
			}
			if !hasTyp {
				return true
			}
			n++
			fn := ""
			for _, p := range enclosing(f, cl.Pos()) {
				if fd, ok := p.(*ast.FuncDecl); ok {
					fn = fd.Name.Name
				}
			}
			key := r.MkKey("lineinfo", "builder."+fn, "item literal")
			if hasLine {
				r.OK("lineinfo", key, w.Pos(cl.Pos()), "carries the line number")
			} else {
				r.Fail("lineinfo", key, w.Pos(cl.Pos()), "a lexer item is created without a line number: the resulting error message reports line 0", nil)
			}
			return true
		})
	}
	if n < 2 {
		r.Fatal("lineinfo: only %d item literals found", n)
	}
}

// RunUnsignedCountdown: for i := …; i >= x; i-- on an unsigned i.
func RunUnsignedCountdown(w *World, r *Report, fns []*ssa.Function) {
	for _, fn := range fns {
		body, _ := funcBody(fn)
		info := w.Info(fn)
		if body == nil || fn.Parent() != nil {
			continue
		}
		name := fnName(fn)
		ast.Inspect(body, func(n ast.Node) bool {
			fs, ok := n.(*ast.ForStmt)
			if !ok || fs.Cond == nil || fs.Post == nil {
				return true
			}
			be, ok := fs.Cond.(*ast.BinaryExpr)
			if !ok {
				return true
			}
			inc, ok := fs.Post.(*ast.IncDecStmt)
			if !ok || inc.Tok != token.DEC {
				return true
			}
			key := r.MkKey("unsignedcountdown", name, "loop on "+types.ExprString(inc.X))
			t := info.TypeOf(inc.X)
			b, isB := t.Underlying().(*types.Basic)
			unsigned := isB && b.Info()&types.IsUnsigned != 0
			// counter >= bound; with a non-constant bound the comparison is normalised to bound <= counter
			ctr := types.ExprString(inc.X)
			if unsigned && (be.Op == token.GEQ && types.ExprString(be.X) == ctr || be.Op == token.LEQ && types.ExprString(be.Y) == ctr) {
				r.Fail("unsignedcountdown", key, w.Pos(fs.Pos()), fmt.Sprintf("down-counting loop on the unsigned variable %s with test %s: when the bound is 0 the test is always true and the counter wraps around (the loop never terminates)", types.ExprString(inc.X), types.ExprString(be)), nil)
			} else {
				r.OK("unsignedcountdown", key, w.Pos(fs.Pos()), "signed counter or strict test")
			}
			return true
		})
	}
}

// RunDupAssign: an identical reset statement repeated in one statement list
// (pure assignment, maps.Clear, clear): the second one is dead and a
// different variable was probably meant.
func RunDupAssign(w *World, r *Report, fns []*ssa.Function) {
	for _, fn := range fns {
		body, _ := funcBody(fn)
		if body == nil || fn.Parent() != nil {
			continue
		}
		name := fnName(fn)
		ast.Inspect(body, func(n ast.Node) bool {
			var list []ast.Stmt
			switch x := n.(type) {
			case *ast.BlockStmt:
				list = x.List
			case *ast.CaseClause:
				list = x.Body
			default:
				return true
			}
			seen := map[string]token.Pos{}
			dup := token.NoPos
			nReset := 0
			var resetVars []*ast.Ident
			for _, s := range list {
				var ts []string
				switch x := s.(type) {
				case *ast.AssignStmt:
					if x.Tok != token.ASSIGN || len(x.Lhs) != len(x.Rhs) {
						// any other statement between two resets ends the group
						seen = map[string]token.Pos{}
						continue
					}
					pure := true
					for _, rhs := range x.Rhs {
						ast.Inspect(rhs, func(m ast.Node) bool {
							if c, ok := m.(*ast.CallExpr); ok {
								if id, ok := c.Fun.(*ast.Ident); !ok || id.Name != "make" {
									pure = false
								}
							}
							return true
						})
					}
					if !pure {
						seen = map[string]token.Pos{}
						continue
					}
					// a, b = x, y resets a and b
					for i := range x.Lhs {
						ts = append(ts, types.ExprString(x.Lhs[i])+" = "+types.ExprString(x.Rhs[i]))
					}
				case *ast.ExprStmt:
					c, ok := x.X.(*ast.CallExpr)
					if !ok {
						seen = map[string]token.Pos{}
						continue
					}
					f := types.ExprString(c.Fun)
					if f != "maps.Clear" && f != "clear" {
						seen = map[string]token.Pos{}
						continue
					}
					ts = append(ts, types.ExprString(c))
				default:
					seen = map[string]token.Pos{}
					continue
				}
				for _, t := range ts {
					nReset++
					if _, ok := seen[t]; ok {
						dup = s.Pos()
					}
					seen[t] = s.Pos()
				}
				// the variables this statement resets
				switch x := s.(type) {
				case *ast.AssignStmt:
					for _, l := range x.Lhs {
						if id, ok := l.(*ast.Ident); ok {
							resetVars = append(resetVars, id)
						}
					}
				case *ast.ExprStmt:
					if c, ok := x.X.(*ast.CallExpr); ok && len(c.Args) == 1 {
						if id, ok := c.Args[0].(*ast.Ident); ok {
							resetVars = append(resetVars, id)
						}
					}
				}
			}
			if nReset >= 3 && dup == token.NoPos {
				checkSiblingReset(w, r, fn, body, list, resetVars)
			}
			if nReset >= 2 {
				key := r.MkKey("dupassign", name, fmt.Sprintf("reset group of %d statements", nReset))
				if dup != token.NoPos {
					r.Fail("dupassign", key, w.Pos(dup), "the same reset statement is repeated in one block: the second is dead and a different variable was probably meant (state leaks from one subtable into the next)", nil)
				} else {
					r.OK("dupassign", key, w.Pos(list[0].Pos()), "all reset statements in the block are distinct")
				}
			}
			return true
		})
	}
}

// checkStableSort: in the printer, a sort whose comparator looks only at a
// projection of the elements must be stable.
func checkStableSort(w *World, r *Report, fns []*ssa.Function) {
	for _, fn := range fns {
		body, _ := funcBody(fn)
		info := w.Info(fn)
		if body == nil || fn.Parent() != nil {
			continue
		}
		if !strings.HasSuffix(w.Fset.Position(fn.Pos()).Filename, "explain.go") {
			continue
		}
		name := fnName(fn)
		ast.Inspect(body, func(n ast.Node) bool {
			call, ok := n.(*ast.CallExpr)
			if !ok || len(call.Args) != 2 {
				return true
			}
			callee := typeutil.Callee(info, call)
			if callee == nil || callee.Pkg() == nil || callee.Pkg().Path() != "sort" {
				return true
			}
			if callee.Name() != "Slice" && callee.Name() != "SliceStable" {
				return true
			}
			fl, ok := call.Args[1].(*ast.FuncLit)
			if !ok {
				return true
			}
			// projection: the comparator indexes into a field of the element (x[i].f[0]) or compares a single field
			proj := false
			ast.Inspect(fl.Body, func(m ast.Node) bool {
				if sel, ok := m.(*ast.SelectorExpr); ok {
					if _, isIx := sel.X.(*ast.IndexExpr); isIx {
						proj = true
					}
				}
				return true
			})
			if !proj {
				return true
			}
			key := r.MkKey("stablesort", name, "sort of "+types.ExprString(call.Args[0]))
			if callee.Name() == "SliceStable" {
				r.OK("stablesort", key, w.Pos(call.Pos()), "stable sort by a projection keeps the order of rules with equal keys")
			} else if elemFieldsAllCompared(info, fl) {
				r.OK("stablesort", key, w.Pos(call.Pos()), "comparator looks at the whole element")
			} else {
				r.Fail("stablesort", key, w.Pos(call.Pos()), "rules are sorted by a projection of their key with an unstable sort: rules with equal keys (e.g. ligatures with the same first glyph) can change their priority order", nil)
			}
			return true
		})
	}
}

// elemFieldsAllCompared: the comparator mentions every field of the element struct.
func elemFieldsAllCompared(info *types.Info, fl *ast.FuncLit) bool {
	fields := map[string]bool{}
	var st *types.Struct
	ast.Inspect(fl.Body, func(m ast.Node) bool {
		if sel, ok := m.(*ast.SelectorExpr); ok {
			if ix, isIx := sel.X.(*ast.IndexExpr); isIx {
				fields[sel.Sel.Name] = true
				if s, ok := derefType(info.TypeOf(ix)).Underlying().(*types.Struct); ok {
					st = s
				}
			}
		}
		return true
	})
	if st == nil {
		return false
	}
	for i := 0; i < st.NumFields(); i++ {
		if !fields[st.Field(i).Name()] {
			return false
		}
	}
	// comparing by first elements of slices is still a projection
	proj := false
	ast.Inspect(fl.Body, func(m ast.Node) bool {
		if ix, ok := m.(*ast.IndexExpr); ok {
			if _, isSel := ix.X.(*ast.SelectorExpr); isSel {
				proj = true
			}
		}
		return true
	})
	return !proj
}

// checkErrLine: "an error that carries a line number".  Two structural
// conditions in package builder: (errkind) Parse returns no error other than
// the *parseError it recovers — in particular nothing is returned before the
// input has been looked at; (errline) the item whose line goes into a
// parseError is checked for the zero line (what a receive from the closed
// token channel yields after the lexer has stopped) and given the line of
// the last item received instead.
func checkErrLine(w *World, r *Report) {
	r.Rule("errkind: every non-nil error returned by builder.Parse is the *parseError recovered from the parser (no early return of some other error, which would carry no line) || errline: in (*parser).fatal the item stored in the parseError has its line replaced when it is zero (closed token channel), by a parser field that readItem updates from the items it receives")
	parse := w.Func("opentype/gtab/builder.Parse")
	if parse == nil {
		r.Fatal("builder.Parse does not resolve")
		return
	}
	n := 0
	for _, b := range parse.Blocks {
		if len(b.Instrs) == 0 {
			continue
		}
		ret, ok := b.Instrs[len(b.Instrs)-1].(*ssa.Return)
		if !ok || len(ret.Results) != 2 {
			continue
		}
		n++
		key := r.MkKey("errkind", "builder.Parse", "return")
		ev := ret.Results[1]
		okErr := false
		var why string
		switch x := ev.(type) {
		case *ssa.Const:
			okErr = x.Value == nil
		case *ssa.UnOp:
			// load of the named result err: every store to it is nil or a converted *parseError
			okErr = true
			if al, ok := x.X.(*ssa.Alloc); ok && al.Referrers() != nil {
				for _, ref := range *al.Referrers() {
					st, ok := ref.(*ssa.Store)
					if !ok {
						continue
					}
					if c, ok := st.Val.(*ssa.Const); ok && c.Value == nil {
						continue
					}
					if mi, ok := st.Val.(*ssa.MakeInterface); ok && strings.HasSuffix(mi.X.Type().String(), "builder.parseError") {
						continue
					}
					okErr = false
					why = "the result err is assigned " + st.Val.String() + " at " + w.Pos(st.Pos())
				}
			}
			// stores may also happen in the deferred closure (free variable)
		}
		if okErr {
			r.OK("errkind", key, w.Pos(ret.Pos()), "nil or the recovered *parseError")
		} else {
			if why == "" {
				why = "the error value is " + ev.String()
			}
			r.Fail("errkind", key, w.Pos(ret.Pos()), "Parse can return an error that is not a *parseError ("+why+"): such an error carries no line number", nil)
		}
	}
	// the deferred closure: stores to the captured err
	for _, af := range parse.AnonFuncs {
		for _, b := range af.Blocks {
			for _, in := range b.Instrs {
				st, ok := in.(*ssa.Store)
				if !ok {
					continue
				}
				fv, ok := st.Addr.(*ssa.FreeVar)
				if !ok || fv.Name() != "err" {
					continue
				}
				n++
				key := r.MkKey("errkind", "builder.Parse", "recovered error")
				if mi, ok := st.Val.(*ssa.MakeInterface); ok && strings.HasSuffix(mi.X.Type().String(), "builder.parseError") {
					r.OK("errkind", key, w.Pos(st.Pos()), "*parseError")
				} else {
					r.Fail("errkind", key, w.Pos(st.Pos()), "the recovery handler stores an error that is not a *parseError", nil)
				}
			}
		}
	}
	if n == 0 {
		r.Fatal("errkind: no return found in builder.Parse")
	}
	// errline
	fatal := w.Func("(*opentype/gtab/builder.parser).fatal")
	key := r.MkKey("errline", "parser.fatal", "line of the reported item")
	if fatal == nil {
		r.Fail("errline", key, "-", "(*parser).fatal does not resolve", nil)
		return
	}
	guarded := false
	var field string
	for _, b := range fatal.Blocks {
		for _, in := range b.Instrs {
			st, ok := in.(*ssa.Store)
			if !ok {
				continue
			}
			fa, ok := st.Addr.(*ssa.FieldAddr)
			if !ok || fieldName(fa) != "line" {
				continue
			}
			// stored value: load of a parser field
			ld, ok := st.Val.(*ssa.UnOp)
			if !ok {
				continue
			}
			pf, ok := ld.X.(*ssa.FieldAddr)
			if !ok {
				continue
			}
			// guarded by a comparison of a line with 0
			for _, g := range guardsOf(b) {
				if cmp, ok := g.cond.(*ssa.BinOp); ok && cmp.Op == token.EQL && g.then {
					if c, ok := bconstInt(cmp.Y); ok && c == 0 {
						guarded = true
						field = fieldName(pf)
					}
				}
			}
		}
	}
	updated := false
	if ri := w.Func("(*opentype/gtab/builder.parser).readItem"); ri != nil && field != "" {
		for _, b := range ri.Blocks {
			for _, in := range b.Instrs {
				if st, ok := in.(*ssa.Store); ok {
					if fa, ok := st.Addr.(*ssa.FieldAddr); ok && fieldName(fa) == field {
						updated = true
					}
				}
			}
		}
	}
	switch {
	case guarded && updated:
		r.OK("errline", key, w.Pos(fatal.Pos()), "a zero line is replaced by parser."+field+", which readItem keeps up to date")
	case guarded:
		r.Fail("errline", key, w.Pos(fatal.Pos()), "fatal falls back to parser."+field+" for a zero line, but readItem never updates that field", nil)
	default:
		r.Fail("errline", key, w.Pos(fatal.Pos()), "fatal takes the line from the next item without a fallback: after the lexer has stopped (lexical error, end of input) the token channel is closed, the item is the zero value and the error is reported at line 0", nil)
	}
	r.Floor("errkind", 2)
	r.Floor("errline", 1)
}

// checkLeakWindow: once Parse has started the lexer goroutine, the only ways
// out are the normal return after p.parse() has consumed the token stream and
// a panic, which the deferred handler turns into an error after draining the
// channel.  A plain return in between leaves the lexer blocked on its send.
func checkLeakWindow(w *World, r *Report) {
	r.Rule("leakwindow: in builder.Parse every return that can be reached after the call of lex (which starts the lexer goroutine) is dominated by the call of (*parser).parse, and the deferred drain-and-recover handler is installed before parse is called")
	fn := w.Func("opentype/gtab/builder.Parse")
	if fn == nil {
		r.Fatal("builder.Parse does not resolve")
		return
	}
	var lexCall, parseCall *ssa.Call
	var deferIns *ssa.Defer
	for _, b := range fn.Blocks {
		for _, in := range b.Instrs {
			switch x := in.(type) {
			case *ssa.Call:
				if c := x.Call.StaticCallee(); c != nil {
					switch fnName(c) {
					case "opentype/gtab/builder.lex":
						lexCall = x
					case "(*opentype/gtab/builder.parser).parse":
						parseCall = x
					}
				}
			case *ssa.Defer:
				deferIns = x
			}
		}
	}
	key := r.MkKey("leakwindow", "builder.Parse", "returns after the lexer is started")
	if lexCall == nil || parseCall == nil || deferIns == nil {
		r.Fail("leakwindow", key, w.Pos(fn.Pos()), "lex call, parse call or deferred handler not found in Parse", nil)
		return
	}
	before := func(a, b ssa.Instruction) bool { // a is executed before b on every path to b
		if a.Block() == b.Block() {
			for _, in := range a.Block().Instrs {
				if in == a {
					return true
				}
				if in == b {
					return false
				}
			}
		}
		return a.Block().Dominates(b.Block())
	}
	bad := ""
	if !before(deferIns, parseCall) {
		bad = "the drain-and-recover handler is not installed before p.parse() runs"
	}
	// returns reachable from the lex call
	seen := map[*ssa.BasicBlock]bool{}
	stack := []*ssa.BasicBlock{lexCall.Block()}
	for len(stack) > 0 {
		b := stack[len(stack)-1]
		stack = stack[:len(stack)-1]
		if seen[b] {
			continue
		}
		seen[b] = true
		if len(b.Instrs) > 0 {
			if ret, ok := b.Instrs[len(b.Instrs)-1].(*ssa.Return); ok {
				if !before(parseCall, ret) {
					// a return in the lex call's own block before the call does not count
					if !(b == lexCall.Block() && before(ret, lexCall)) {
						bad = "the return at " + w.Pos(ret.Pos()) + " can be reached after the lexer goroutine was started and before the token stream is consumed: the goroutine stays blocked on its channel send"
					}
				}
			}
		}
		stack = append(stack, b.Succs...)
	}
	if bad == "" {
		r.OK("leakwindow", key, w.Pos(lexCall.Pos()), "only the return after p.parse() follows the start of the lexer")
	} else {
		r.Fail("leakwindow", key, w.Pos(lexCall.Pos()), bad, nil)
	}
	r.Floor("leakwindow", 1)
}


// flagID names a lookup-flag expression by its constant value, so that the
// printer and the parser are compared on the bits, not on how they spell them.
func flagID(info *types.Info, e ast.Expr) string {
	if v, ok := constInt(info, e); ok {
		return fmt.Sprintf("flag %#x", v)
	}
	return types.ExprString(e)
}

// pkgStringTable: the constant strings of a package-level (or local) slice
// or array literal that id refers to.
func pkgStringTable(w *World, info *types.Info, id *ast.Ident) []string {
	obj := info.ObjectOf(id)
	if obj == nil {
		return nil
	}
	var out []string
	for _, pkg := range w.All {
		if pkg.Types != obj.Pkg() {
			continue
		}
		for _, f := range pkg.Syntax {
			ast.Inspect(f, func(n ast.Node) bool {
				vs, ok := n.(*ast.ValueSpec)
				if !ok {
					return true
				}
				for i, nm := range vs.Names {
					if pkg.TypesInfo.ObjectOf(nm) != obj || i >= len(vs.Values) {
						continue
					}
					cl, ok := vs.Values[i].(*ast.CompositeLit)
					if !ok {
						continue
					}
					for _, el := range cl.Elts {
						tv, ok := pkg.TypesInfo.Types[el]
						if !ok || tv.Value == nil || tv.Value.Kind() != constant.String {
							out = nil
							return false
						}
						out = append(out, constant.StringVal(tv.Value))
					}
				}
				return true
			})
		}
	}
	return out
}


// drainsBySSA: a deferred function literal of fn that calls recover contains
// a loop that receives from a channel with the comma-ok form (this is also
// how `for range ch` is compiled) and can only be left when the channel
// reports that it is closed and empty.
func drainsBySSA(fn *ssa.Function) bool {
	for _, af := range fn.AnonFuncs {
		callsRecover := false
		for _, b := range af.Blocks {
			for _, in := range b.Instrs {
				if c, ok := in.(*ssa.Call); ok {
					if bi, ok := c.Call.Value.(*ssa.Builtin); ok && bi.Name() == "recover" {
						callsRecover = true
					}
				}
			}
		}
		if !callsRecover {
			continue
		}
		for _, l := range naturalLoops(af) {
			// the receive and its ok flag
			var okFlags []ssa.Value
			for b := range l.body {
				for _, in := range b.Instrs {
					u, ok := in.(*ssa.UnOp)
					if !ok || u.Op != token.ARROW || !u.CommaOk {
						continue
					}
					if u.Referrers() == nil {
						continue
					}
					for _, ref := range *u.Referrers() {
						if ex, ok := ref.(*ssa.Extract); ok && ex.Index == 1 {
							okFlags = append(okFlags, ex)
						}
					}
				}
			}
			if len(okFlags) == 0 {
				continue
			}
			good := true
			exits := 0
			for b := range l.body {
				for si, s := range b.Succs {
					if l.body[s] {
						continue
					}
					exits++
					// the exit must be the not-ok side of a test of the flag
					ifi, ok := b.Instrs[len(b.Instrs)-1].(*ssa.If)
					if !ok {
						good = false
						continue
					}
					cond, side := ifi.Cond, 1
					if u, ok := cond.(*ssa.UnOp); ok && u.Op == token.NOT {
						cond, side = u.X, 0
					}
					isFlag := false
					for _, f := range okFlags {
						if f == cond {
							isFlag = true
						}
					}
					if !isFlag || si != side {
						good = false
					}
				}
			}
			if good && exits > 0 {
				return true
			}
		}
	}
	return false
}

// checkSiblingReset: a reset group (three or more reset statements in a row,
// e.g. at the end of one subtable of a multi-subtable lookup) clears the
// per-subtable state.  Variables of one type that were declared side by side
// (`x := make(T)` statements of one statement list) form a family; when the
// group resets two or more members of a family, a member that the enclosing
// loop also fills but the group leaves out keeps its contents for the next
// subtable.
func checkSiblingReset(w *World, r *Report, fn *ssa.Function, body *ast.BlockStmt, group []ast.Stmt, resetVars []*ast.Ident) {
	info := w.Info(fn)
	if info == nil {
		return
	}
	reset := map[types.Object]bool{}
	byType := map[string][]types.Object{}
	for _, id := range resetVars {
		o := info.ObjectOf(id)
		if o == nil || reset[o] {
			continue
		}
		reset[o] = true
		byType[o.Type().String()] = append(byType[o.Type().String()], o)
	}
	// declaration lists: statement lists with `x := make(T...)` / `var x T` of local variables
	declList := map[types.Object]ast.Node{}
	ast.Inspect(body, func(n ast.Node) bool {
		var list []ast.Stmt
		switch x := n.(type) {
		case *ast.BlockStmt:
			list = x.List
		case *ast.CaseClause:
			list = x.Body
		default:
			return true
		}
		for _, st := range list {
			switch x := st.(type) {
			case *ast.AssignStmt:
				if x.Tok == token.DEFINE {
					for _, l := range x.Lhs {
						if id, ok := l.(*ast.Ident); ok {
							if o := info.Defs[id]; o != nil {
								declList[o] = n
							}
						}
					}
				}
			case *ast.DeclStmt:
				if gd, ok := x.Decl.(*ast.GenDecl); ok {
					for _, sp := range gd.Specs {
						if vs, ok := sp.(*ast.ValueSpec); ok {
							for _, id := range vs.Names {
								if o := info.Defs[id]; o != nil {
									declList[o] = n
								}
							}
						}
					}
				}
			}
		}
		return true
	})
	// the loop around the group and the objects written in it
	groupPos := group[0].Pos()
	var loop ast.Node
	for _, n := range enclosing(body, groupPos) {
		switch n.(type) {
		case *ast.ForStmt, *ast.RangeStmt:
			loop = n // innermost last
		}
	}
	if loop == nil {
		return
	}
	written := map[types.Object]bool{}
	ast.Inspect(loop, func(n ast.Node) bool {
		as, ok := n.(*ast.AssignStmt)
		if !ok {
			return true
		}
		for _, l := range as.Lhs {
			switch x := l.(type) {
			case *ast.Ident:
				if o := info.ObjectOf(x); o != nil {
					written[o] = true
				}
			case *ast.IndexExpr:
				if id, ok := x.X.(*ast.Ident); ok {
					if o := info.ObjectOf(id); o != nil {
						written[o] = true
					}
				}
			}
		}
		return true
	})
	var types_ []string
	for t := range byType {
		types_ = append(types_, t)
	}
	sort.Strings(types_)
	for _, t := range types_ {
		members := byType[t]
		if len(members) < 2 {
			continue
		}
		dl := declList[members[0]]
		if dl == nil {
			continue
		}
		var left []string
		for o, n := range declList {
			if n != dl || reset[o] || o.Type().String() != t || !written[o] {
				continue
			}
			left = append(left, o.Name())
		}
		sort.Strings(left)
		key := r.MkKey("dupassign", fnName(fn), "siblings of the reset group ("+shortType(t)+")")
		if len(left) > 0 {
			r.Fail("dupassign", key, w.Pos(groupPos), fmt.Sprintf("the reset group clears %d variables of type %s that were declared side by side, but not %s, which the same loop fills: its contents survive into the next pass (the next subtable sees entries of the previous one)", len(members), shortType(t), strings.Join(left, ", ")), nil)
		} else {
			r.OK("dupassign", key, w.Pos(groupPos), "every sibling the loop fills is reset")
		}
	}
}

func shortType(t string) string {
	if i := strings.LastIndex(t, "/"); i >= 0 {
		// keep the prefix up to the last '[' or '*' before the path
		j := strings.LastIndexAny(t[:i], "[]* ")
		return t[:j+1] + t[i+1:]
	}
	return t
}
