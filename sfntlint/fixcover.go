package main

// fixpointcover: a loop that compares two slices element by element (to
// decide whether an iteration has converged) must cover every element that
// the surrounding code reads.  Reported only when the prover shows that an
// element read elsewhere lies at or beyond the comparison's bound (a
// definite omission), so the rule cannot fire on code where the property
// holds.

import (
	"fmt"
	"go/token"
	"strings"

	"golang.org/x/tools/go/ssa"
)

func RunFixpointCover(w *World, r *Report, br *boundsRun, fns []*ssa.Function) {
	r.Rule("fixpointcover: where a loop `for i < B` compares x[i] with y[i] for every i (convergence test of an offset fixed point), no element y[k] or x[k] that the enclosing loop reads has an index k the prover shows to be >= B, and the enclosing loop has no exit decided by a round counter (the iteration ends by convergence only)")
	for _, fn := range fns {
		loops := naturalLoops(fn)
		if len(loops) < 2 {
			continue
		}
		p := br.prover(fn)
		for _, l := range loops {
			arg, _ := p.findLoopArg(l)
			if arg.kind != "counter" || arg.ctr == nil || !arg.up {
				continue
			}
			// the comparison x[i] != y[i]
			var xs, ys ssa.Value
			for b := range l.body {
				for _, in := range b.Instrs {
					cmp, ok := in.(*ssa.BinOp)
					if !ok || (cmp.Op != token.NEQ && cmp.Op != token.EQL) {
						continue
					}
					elem := func(v ssa.Value) (ssa.Value, bool) {
						ld, ok := v.(*ssa.UnOp)
						if !ok || ld.Op != token.MUL {
							return nil, false
						}
						ia, ok := ld.X.(*ssa.IndexAddr)
						if !ok {
							return nil, false
						}
						il := p.linOf(ia.Index)
						if c, has := il.t[atom{aVal, arg.ctr}]; !has || c != 1 || len(il.t) != 1 || il.k != 0 {
							return nil, false
						}
						return p.canonVal(ia.X), true
					}
					a, ok1 := elem(cmp.X)
					b2, ok2 := elem(cmp.Y)
					if ok1 && ok2 && a != b2 {
						xs, ys = a, b2
					}
				}
			}
			if xs == nil {
				continue
			}
			// enclosing loop
			var outer *natLoop
			for _, o := range loops {
				if o != l && o.body[l.head] && (outer == nil || outer.body[o.head]) {
					outer = o
				}
			}
			if outer == nil {
				continue
			}
			key := r.MkKey("fixpointcover", fnName(fn), "element-wise comparison "+loopText(w, fn, l))
			bad := ""
			var badPos token.Pos
			n := 0
			// the iteration may only end by convergence: an exit of the enclosing loop that is decided by a
			// round counter leaves with offsets that have not settled
			for ob := range outer.body {
				if len(ob.Instrs) == 0 {
					continue
				}
				ifi, ok := ob.Instrs[len(ob.Instrs)-1].(*ssa.If)
				if !ok || (outer.body[ob.Succs[0]] && outer.body[ob.Succs[1]]) {
					continue
				}
				cmp, ok := ifi.Cond.(*ssa.BinOp)
				if !ok {
					continue
				}
				for _, op := range []ssa.Value{cmp.X, cmp.Y} {
					ph, ok := op.(*ssa.Phi)
					if !ok || ph.Block() != outer.head || !isIntegerType(ph.Type()) {
						continue
					}
					for i, e := range ph.Edges {
						if !outer.head.Dominates(outer.head.Preds[i]) {
							continue
						}
						if inc, ok := e.(*ssa.BinOp); ok && inc.Op == token.ADD && inc.X == ssa.Value(ph) {
							if _, isC := inc.Y.(*ssa.Const); isC {
								bad = "the enclosing loop is also left when the round counter " + ph.Comment + " reaches its bound"
								badPos = ifi.Cond.Pos()
							}
						}
					}
				}
			}
			for b := range outer.body {
				if l.body[b] {
					continue
				}
				for _, in := range b.Instrs {
					ia, ok := in.(*ssa.IndexAddr)
					if !ok {
						continue
					}
					base := p.canonVal(ia.X)
					if base != xs && base != ys {
						continue
					}
					n++
					// a bound that is written as "something minus a constant" cuts the range on purpose:
					// then every element read elsewhere has to be shown to lie inside it
					if cutBound(l) {
						d2, ok2 := arg.bound.sub(p.linOf(ia.Index))
						if !ok2 || !p.proveAt(b, d2) {
							bad = fmt.Sprintf("element %s is read here, and the comparison stops short at %s, which is not shown to lie beyond it", p.linStr(p.linOf(ia.Index)), p.linStr(arg.bound))
							badPos = ia.Pos()
						}
						continue
					}
					// definite omission: index >= bound + 1, i.e. index - bound - 1 >= 0 where the loop stays while ctr <= bound
					d, ok := p.linOf(ia.Index).sub(arg.bound)
					if ok && p.proveAt(b, d.addc(-1)) {
						bad = fmt.Sprintf("element %s is read here, but the comparison only covers indices up to %s", p.linStr(p.linOf(ia.Index)), p.linStr(arg.bound))
						badPos = ia.Pos()
					}
				}
			}
			if bad != "" {
				r.Fail("fixpointcover", key, w.Pos(badPos), bad+": the fixed point can be declared reached (or the iteration given up) while an offset that is written into the output still changes", nil)
			} else {
				r.OK("fixpointcover", key, w.Pos(loopPos(w, l)), fmt.Sprintf("%d other reads of the compared slices, none provably beyond the compared range", n))
			}
		}
		// the same test written as slices.Equal(x[:k], y[:k]) inside a loop
		for _, b := range fn.Blocks {
			for _, in := range b.Instrs {
				call, ok := in.(*ssa.Call)
				if !ok || len(call.Call.Args) != 2 {
					continue
				}
				callee := call.Call.StaticCallee()
				if callee == nil || !strings.HasPrefix(callee.Name(), "Equal") || !strings.HasSuffix(fnPkgPath(callee), "slices") {
					continue
				}
				var outer *natLoop
				for _, o := range loops {
					if o.body[b] && (outer == nil || outer.body[o.head]) {
						outer = o
					}
				}
				if outer == nil {
					continue
				}
				var bases [2]ssa.Value
				var his [2]ssa.Value
				okArgs := true
				for i, a := range call.Call.Args {
					if sl, isSl := a.(*ssa.Slice); isSl {
						if sl.Low != nil {
							okArgs = false
						}
						bases[i], his[i] = p.canonVal(sl.X), sl.High
					} else {
						bases[i] = p.canonVal(a)
					}
				}
				if !okArgs || bases[0] == bases[1] {
					continue
				}
				key := r.MkKey("fixpointcover", fnName(fn), "comparison by slices.Equal")
				bad := ""
				var badPos token.Pos
				n := 0
				for ob := range outer.body {
					for _, oin := range ob.Instrs {
						ia, ok := oin.(*ssa.IndexAddr)
						if !ok {
							continue
						}
						base := p.canonVal(ia.X)
						for i := 0; i < 2; i++ {
							if base != bases[i] || his[i] == nil {
								continue
							}
							n++
							// the compared prefix was cut explicitly: it has to be shown to reach past every entry read
							// (high - 1 - index >= 0); comparing the slices whole needs no argument
							if d, ok := p.linOf(his[i]).sub(p.linOf(ia.Index)); !ok || !p.proveAt(ob, d.addc(-1)) {
								bad = fmt.Sprintf("element %s is read here, and the comparison covers only the indices below %s, which is not shown to lie beyond it", p.linStr(p.linOf(ia.Index)), p.linStr(p.linOf(his[i])))
								badPos = ia.Pos()
							}
						}
					}
				}
				if bad != "" {
					r.Fail("fixpointcover", key, w.Pos(badPos), bad+": the fixed point can be declared reached while an offset that is written into the output still changes", nil)
				} else {
					r.OK("fixpointcover", key, w.Pos(call.Pos()), fmt.Sprintf("%d reads of the compared slices, none provably beyond the compared range", n))
				}
			}
		}
	}
}

// cutBound: the loop's continuation test compares the counter with a value
// written as a difference with a positive constant (i < n-1).
func cutBound(l *natLoop) bool {
	for b := range l.body {
		if len(b.Instrs) == 0 {
			continue
		}
		ifi, ok := b.Instrs[len(b.Instrs)-1].(*ssa.If)
		if !ok {
			continue
		}
		exits := !l.body[b.Succs[0]] || !l.body[b.Succs[1]]
		if !exits {
			continue
		}
		cmp, ok := ifi.Cond.(*ssa.BinOp)
		if !ok {
			continue
		}
		for _, op := range []ssa.Value{cmp.X, cmp.Y} {
			if sub, ok := op.(*ssa.BinOp); ok && sub.Op == token.SUB {
				if c, ok := sub.Y.(*ssa.Const); ok && c.Value != nil && c.Int64() > 0 {
					return true
				}
			}
		}
	}
	return false
}
