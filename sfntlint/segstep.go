package main

import (
	"go/constant"
	"go/token"

	"golang.org/x/tools/go/ssa"
)

// RunSegStep: a group of a format 12 subtable maps every code c of
// [start, end] to startGlyph + (c - start). Consecutive sorted codes may
// therefore share a group only if the code advances by exactly one and the
// glyph id advances by exactly one; "they advance by the same amount" also
// merges codes with a gap between them, and the decoder then maps the codes
// in the gap, which the table never contained.
func RunSegStep(w *World, r *Report) {
	r.Rule("segstep: (cmap.Format12).Encode decides whether two consecutive sorted codes share a group by an equality test with step exactly 1 on the codes (k[i] against k[i-1]+1, or k[i]-k[i-1] against 1) and one on their glyph ids (m[k[i]] against m[k[i-1]]+1): a group maps every code between its ends, so codes that are not adjacent cannot be merged")
	fn := w.Func("(cmap.Format12).Encode")
	if fn == nil {
		r.Fatal("(cmap.Format12).Encode does not resolve")
		return
	}
	strip := func(v ssa.Value) ssa.Value {
		for {
			switch x := v.(type) {
			case *ssa.Convert:
				v = x.X
			case *ssa.ChangeType:
				v = x.X
			default:
				return v
			}
		}
	}
	isOne := func(v ssa.Value) bool {
		c, ok := v.(*ssa.Const)
		if !ok || c.Value == nil || c.Value.Kind() != constant.Int {
			return false
		}
		k, ok := constant.Int64Val(c.Value)
		return ok && k == 1
	}
	elemBase := func(v ssa.Value) ssa.Value {
		ld, ok := strip(v).(*ssa.UnOp)
		if !ok || ld.Op != token.MUL {
			return nil
		}
		ia, ok := ld.X.(*ssa.IndexAddr)
		if !ok {
			return nil
		}
		// a variable captured by a closure is re-loaded at every use: compare the cell
		if l2, ok := ia.X.(*ssa.UnOp); ok && l2.Op == token.MUL {
			return l2.X
		}
		return ia.X
	}
	lookupBase := func(v ssa.Value) ssa.Value {
		lk, ok := strip(v).(*ssa.Lookup)
		if !ok {
			return nil
		}
		return elemBase(lk.Index)
	}
	keyStep, valStep := "", ""
	for _, b := range fn.Blocks {
		for _, in := range b.Instrs {
			bo, ok := in.(*ssa.BinOp)
			if !ok || (bo.Op != token.EQL && bo.Op != token.NEQ) {
				continue
			}
			var p, q ssa.Value
			for _, side := range [][2]ssa.Value{{bo.X, bo.Y}, {bo.Y, bo.X}} {
				if add, ok := strip(side[1]).(*ssa.BinOp); ok && add.Op == token.ADD {
					if isOne(add.Y) {
						p, q = side[0], add.X
					} else if isOne(add.X) {
						p, q = side[0], add.Y
					}
				}
				if sub, ok := strip(side[0]).(*ssa.BinOp); ok && sub.Op == token.SUB && isOne(side[1]) {
					p, q = sub.X, sub.Y
				}
			}
			if p == nil {
				continue
			}
			if a, c := elemBase(p), elemBase(q); a != nil && a == c {
				keyStep = w.Pos(bo.Pos())
			}
			if a, c := lookupBase(p), lookupBase(q); a != nil && a == c {
				valStep = w.Pos(bo.Pos())
			}
		}
	}
	key := r.MkKey("segstep", fnName(fn), "codes advance by one")
	if keyStep != "" {
		r.OK("segstep", key, keyStep, "step-1 test on consecutive sorted codes")
	} else {
		r.Fail("segstep", key, w.Pos(fn.Pos()), "no test that consecutive sorted codes differ by exactly 1: codes with a gap between them can end up in one group, and the decoder maps every code of the gap to a glyph although the table did not contain it", nil)
	}
	key = r.MkKey("segstep", fnName(fn), "glyph ids advance by one")
	if valStep != "" {
		r.OK("segstep", key, valStep, "step-1 test on the glyph ids of consecutive codes")
	} else {
		r.Fail("segstep", key, w.Pos(fn.Pos()), "no test that the glyph ids of consecutive codes differ by exactly 1: a group maps code start+j to glyph startGlyph+j", nil)
	}
	r.Floor("segstep", 2)
}
