package main

import (
	"fmt"
	"go/ast"
	"os"
	"strings"
	"go/token"
	"go/types"
	"sort"

	"golang.org/x/tools/go/ssa"
)

// Lossless narrowing on the writing side.  An encoder that converts a wider
// integer to the width of the file field silently drops the high bits of a
// value that does not fit: the bytes written then describe a different
// value and the round trip fails for exactly those inputs.  Every narrowing
// integer conversion in the given functions is therefore an obligation:
//
//   - plain conversion T(x): the prover shows min(T) <= x <= max(T) at that
//     point (dominating checks, type ranges, contracts), or
//   - byte extraction: T(x>>k) / T(x) for several k of the same x (the value
//     is written out piecewise): only the topmost piece must fit, the lower
//     pieces are truncating on purpose.
type narrowSite struct {
	conv  *ssa.Convert
	base  ssa.Value // value before shifting
	shift int64
	group string
}

func intBasic(t types.Type) (*types.Basic, bool) {
	b, ok := t.Underlying().(*types.Basic)
	if !ok || b.Info()&types.IsInteger == 0 {
		return nil, false
	}
	return b, true
}

// isNarrowing: some value of the source type is not representable in dst.
func isNarrowing(src, dst types.Type) bool {
	_, ok1 := intBasic(src)
	_, ok2 := intBasic(dst)
	if !ok1 || !ok2 {
		return false
	}
	// conversions between integer types of the same width, and widening
	// ones, are injective on bit patterns: nothing is lost
	return btypeBits(dst) < btypeBits(src)
}

// peelPure: v is x or x >> k (no offset added).
func peelPure(v ssa.Value) (ssa.Value, bool) {
	if bo, ok := v.(*ssa.BinOp); ok {
		if bo.Op == token.SHR {
			if _, isC := bo.Y.(*ssa.Const); isC {
				return bo.X, true
			}
		}
		return v, false
	}
	return v, true
}

func peelShift(v ssa.Value) (ssa.Value, int64) {
	// (x >> k) + c: the top piece of an offset encoding
	if bo, ok := v.(*ssa.BinOp); ok && bo.Op == token.ADD {
		if _, isC := bo.Y.(*ssa.Const); isC {
			if sh, ok := bo.X.(*ssa.BinOp); ok && sh.Op == token.SHR {
				v = sh
			}
		}
	}
	if bo, ok := v.(*ssa.BinOp); ok && bo.Op == token.SHR {
		if k, ok := bconstInt(bo.Y); ok && k >= 0 {
			return bo.X, k
		}
	}
	return v, 0
}

// RunLossless checks the narrowing conversions of fns; skip filters
// conversions that are not writer-side narrowing (may be nil).
func RunLossless(w *World, r *Report, rule string, br *boundsRun, fns []*ssa.Function) (total, proved int) {
	sort.Slice(fns, func(i, j int) bool { return fnName(fns[i]) < fnName(fns[j]) })
	for _, fn := range fns {
		if fn.Blocks == nil {
			continue
		}
		var sites []*narrowSite
		var p *bprover
		for _, b := range fn.Blocks {
			for _, in := range b.Instrs {
				c, ok := in.(*ssa.Convert)
				if !ok || !isNarrowing(c.X.Type(), c.Type()) {
					continue
				}
				if _, isC := c.X.(*ssa.Const); isC {
					continue
				}
				if is64(c.Type()) {
					continue // int <-> uint of the same width: covered by A1 / the bounds rules
				}
				if p == nil {
					p = br.prover(fn)
				}
				base, k := peelShift(c.X)
				sites = append(sites, &narrowSite{conv: c, base: base, shift: k, group: p.linStr(p.linOf(base))})
			}
		}
		if len(sites) == 0 {
			continue
		}
		byGroup := map[string][]*narrowSite{}
		for _, s := range sites {
			byGroup[s.group] = append(byGroup[s.group], s)
			if os.Getenv("SFNT_LLGROUP") != "" {
				fmt.Println("group", w.Pos(s.conv.Pos()), s.group, "shift", s.shift, "block", s.conv.Block().Index)
			}
		}
		for _, s := range sites {
			g := byGroup[s.group]
			// extraction group: at least two different shifts of the same value, all to unsigned pieces
			maxShift, shifts := int64(-1), map[int64]bool{}
			for _, m := range g {
				// pieces of one write: same block, same piece type
				if m.conv.Block() != s.conv.Block() || !types.Identical(m.conv.Type(), s.conv.Type()) {
					continue
				}
				if db, _ := intBasic(m.conv.Type()); db != nil && db.Info()&types.IsUnsigned != 0 {
					shifts[m.shift] = true
					if m.shift > maxShift {
						maxShift = m.shift
					}
				}
			}
			db, _ := intBasic(s.conv.Type())
			extraction := len(shifts) >= 2 && db.Info()&types.IsUnsigned != 0
			total++
			descr := convText(w, fn, s.conv)
			if descr == "" {
				descr = fmt.Sprintf("%s(%s)", types.TypeString(s.conv.Type(), func(p *types.Package) string { return p.Name() }), p.linStr(p.linOf(s.conv.X)))
			}
			key := r.MkKey(rule, fnName(fn), "conversion "+descr)
			if extraction && s.shift < maxShift {
				proved++
				r.OK(rule, key, w.Pos(s.conv.Pos()), "lower piece of a value that is written out piecewise (the top piece carries the obligation)")
				continue
			}
			_, pureShift := peelPure(s.conv.X)
			if extraction && pureShift && s.shift == maxShift && maxShift+int64(btypeBits(s.conv.Type())) >= int64(btypeBits(s.base.Type())) {
				proved++
				r.OK(rule, key, w.Pos(s.conv.Pos()), fmt.Sprintf("the pieces cover all %d bits of the source type (two's complement image of the value)", btypeBits(s.base.Type())))
				continue
			}
			if d := os.Getenv("SFNT_BDEBUG"); d != "" && strings.Contains(w.Pos(s.conv.Pos()), d) {
				p.trace = true
				p.linMemo = map[ssa.Value]blin{}
				fmt.Println("   guardsOf:", len(guardsOf(s.conv.Block())), "facts:", len(p.factsAt(s.conv.Block())), "block", s.conv.Block().Index, s.conv.Block().Comment, "preds", len(s.conv.Block().Preds))
				for _, g := range guardsOf(s.conv.Block()) {
					var o []bfact
					p.condFacts(g.cond, g.then, &o)
					fmt.Println("     guard", g.cond.String(), g.then, "->", len(o))
				}
				p.fitsType(p.linOf(s.conv.X), s.conv.Type(), s.conv)
				p.trace = false
			}
			if p.fitsType(p.linOf(s.conv.X), s.conv.Type(), s.conv) {
				proved++
				r.OK(rule, key, w.Pos(s.conv.Pos()), "value shown to be representable in the target type")
				continue
			}
			if sb, _ := intBasic(s.conv.X.Type()); sb != nil && sb.Info()&types.IsUnsigned == 0 && db.Info()&types.IsUnsigned != 0 {
				// signed value within the signed range of the target width: its two's complement image
				if st := signedTwin(s.conv.Type()); st != nil && p.fitsType(p.linOf(s.conv.X), st, s.conv) {
					proved++
					r.OK(rule, key, w.Pos(s.conv.Pos()), "signed value within the signed range of the target width (two's complement image)")
					continue
				}
			}
			if why := p.lateGuard(s.conv); why != "" {
				proved++
				r.OK(rule, key, w.Pos(s.conv.Pos()), why)
				continue
			}
			lo, hi := p.usesGuarded(s.conv)
			if lo && hi {
				proved++
				r.OK(rule, key, w.Pos(s.conv.Pos()), "the converted value is only used where the operand is shown to fit (clamped or rejected otherwise)")
				continue
			}
			srcT := types.TypeString(s.conv.X.Type(), func(p *types.Package) string { return p.Name() })
			if lo != hi {
				// one half is shown: report the halves separately
				total++
				kLo := r.MkKey(rule, fnName(fn), "conversion "+descr+" (lower bound)")
				kHi := r.MkKey(rule, fnName(fn), "conversion "+descr+" (upper bound)")
				okKey, badKey, what := kLo, kHi, "too large"
				if hi {
					okKey, badKey, what = kHi, kLo, "negative"
				}
				proved++
				r.OK(rule, okKey, w.Pos(s.conv.Pos()), "shown")
				r.Fail(rule, badKey, w.Pos(s.conv.Pos()), fmt.Sprintf("%s narrows a %s that is not shown to be representable (it may be %s): such a value is silently wrapped and the bytes written describe a different value", descr, srcT, what), nil)
				continue
			}
			r.Fail(rule, key, w.Pos(s.conv.Pos()), fmt.Sprintf("%s narrows a %s that is not shown to fit (no dominating range check, clamp or type bound): a larger value is silently truncated and the bytes written describe a different value", descr, srcT), nil)
		}
	}
	return
}

// usesGuarded: every use of the conversion lies on an edge or in a block
// where the operand is shown to be representable in the target type (the
// idiom  y = T(x); if x > max { y = max }  and checks placed after the
// conversion).  The two results are the lower and the upper half.
func (p *bprover) usesGuarded(c *ssa.Convert) (loOK, hiOK bool) {
	refs := c.Referrers()
	tr := typeRange(c.Type())
	x := p.linOf(c.X)
	loOK, hiOK = true, true
	check := func(facts []bfact, at *ssa.BasicBlock) {
		if loOK && tr.hasLo && !p.prove(facts, x.addc(-tr.lo), at, 3) {
			loOK = false
		}
		if hiOK && tr.hasHi {
			neg, ok := x.scale(-1)
			if !ok || !p.prove(facts, neg.addc(tr.hi), at, 3) {
				hiOK = false
			}
		}
	}
	nUses := 0
	if refs != nil {
		for _, ref := range *refs {
			switch u := ref.(type) {
			case *ssa.DebugRef:
			case *ssa.Phi:
				for i, e := range u.Edges {
					if e != ssa.Value(c) {
						continue
					}
					nUses++
					pred := u.Block().Preds[i]
					check(p.edgeFacts(pred, u.Block()), pred)
				}
			default:
				nUses++
				b := ref.Block()
				if b == nil {
					return false, false
				}
				check(p.factsAt(b), b)
			}
		}
	}
	if nUses == 0 {
		check(p.factsAt(c.Block()), c.Block())
	}
	return
}

// lateGuard: the operand is an accumulator that only grows (a loop phi whose
// steps are never negative, plus a constant), and every path from the
// conversion to a normal return passes a test of that same accumulator on
// whose passing edge the operand is shown to fit, the failing edge ending
// in panic.  A value that did not fit when it was converted is at most the
// final value, so the function panics before anything it wrote is returned.
func (p *bprover) lateGuard(c *ssa.Convert) string {
	x := p.linOf(c.X)
	var acc *ssa.Phi
	for a, k := range x.t {
		ph, ok := a.v.(*ssa.Phi)
		if !ok || a.k != aVal || k != 1 || acc != nil {
			return ""
		}
		acc = ph
	}
	if acc == nil {
		return ""
	}
	fn := c.Parent()
	if !isLoopPhi(acc) {
		// an intermediate value of the iteration: it is at most the
		// accumulator's value at the start of the next iteration
		var found *ssa.Phi
		inter := blatom(atom{aVal, acc})
		for _, l := range naturalLoops(fn) {
			if !l.body[acc.Block()] || found != nil {
				continue
			}
			for _, in := range l.head.Instrs {
				a, ok := in.(*ssa.Phi)
				if !ok {
					break
				}
				if !isIntType(a.Type()) {
					continue
				}
				if _, up, _, ok := p.monotoneLeaf(a); !ok || !up {
					continue
				}
				all := true
				n := 0
				for i, e := range a.Edges {
					pred := l.head.Preds[i]
					if !l.body[pred] {
						continue
					}
					n++
					d, ok := p.linOf(e).sub(inter)
					if !ok || !p.prove(p.edgeFacts(pred, l.head), d, pred, 3) {
						all = false
					}
				}
				if all && n > 0 {
					found = a
					break
				}
			}
		}
		if found == nil {
			return ""
		}
		// the bound is established for the accumulator: x <= acc(next) <= acc(final)
		x2 := blatom(atom{aVal, found}).addc(x.k)
		x, acc = x2, found
	}
	_, up, _, ok := p.monotoneLeaf(acc)
	if !ok || !up {
		return ""
	}
	tr := typeRange(c.Type())
	for _, g := range fn.Blocks {
		if len(g.Instrs) == 0 {
			continue
		}
		ifi, ok := g.Instrs[len(g.Instrs)-1].(*ssa.If)
		if !ok || len(g.Succs) != 2 || !acc.Block().Dominates(g) {
			continue
		}
		for side := 0; side < 2; side++ {
			pass, fail := g.Succs[side], g.Succs[1-side]
			if !endsInPanic(fail) {
				continue
			}
			facts := p.edgeFacts(g, pass)
			fitsAs := func(x blin) bool {
				if tr.hasLo && !p.prove(facts, x.addc(-tr.lo), g, 2) {
					return false
				}
				if tr.hasHi {
					neg, ok := x.scale(-1)
					if !ok || !p.prove(facts, neg.addc(tr.hi), g, 2) {
						return false
					}
				}
				return true
			}
			fits := fitsAs(x)
			if !fits {
				// a variable of the same loop that records the accumulator's
				// value of the last iteration (largest := total) is tested instead
				for _, in := range acc.Block().Instrs {
					rec, ok := in.(*ssa.Phi)
					if !ok {
						break
					}
					if rec == acc || !isIntType(rec.Type()) {
						continue
					}
					copies := true
					n := 0
					for i, e := range rec.Edges {
						if acc.Block().Dominates(acc.Block().Preds[i]) { // back edge
							n++
							if e != ssa.Value(acc) {
								copies = false
							}
						}
					}
					if !copies || n == 0 {
						continue
					}
					if x2, ok := x.subst(atom{aVal, acc}, blatom(atom{aVal, rec})); ok && fitsAs(x2) {
						fits = true
						break
					}
				}
			}
			if !fits {
				continue
			}
			// every path from the conversion to a return uses the edge g -> pass
			if returnsAvoiding(c.Block(), g, pass) {
				continue
			}
			_ = ifi
			return fmt.Sprintf("the operand only grows and is tested at %s before the function returns: a value that did not fit makes the function panic", p.br.w.Pos(ifi.Cond.Pos()))
		}
	}
	return ""
}

func endsInPanic(b *ssa.BasicBlock) bool {
	seen := map[*ssa.BasicBlock]bool{}
	var walk func(b *ssa.BasicBlock) bool
	walk = func(b *ssa.BasicBlock) bool {
		if seen[b] {
			return true
		}
		seen[b] = true
		if len(b.Instrs) == 0 {
			return false
		}
		switch b.Instrs[len(b.Instrs)-1].(type) {
		case *ssa.Panic:
			return true
		case *ssa.Return:
			return false
		}
		if len(b.Succs) == 0 {
			return false
		}
		for _, s := range b.Succs {
			if !walk(s) {
				return false
			}
		}
		return true
	}
	return walk(b)
}

// returnsAvoiding: a Return is reachable from block from without taking the edge g -> pass.
func returnsAvoiding(from, g, pass *ssa.BasicBlock) bool {
	seen := map[*ssa.BasicBlock]bool{}
	stack := []*ssa.BasicBlock{from}
	for len(stack) > 0 {
		b := stack[len(stack)-1]
		stack = stack[:len(stack)-1]
		if seen[b] {
			continue
		}
		seen[b] = true
		if len(b.Instrs) > 0 {
			if _, isRet := b.Instrs[len(b.Instrs)-1].(*ssa.Return); isRet {
				return true
			}
		}
		for _, s := range b.Succs {
			if b == g && s == pass {
				continue
			}
			stack = append(stack, s)
		}
	}
	return false
}

// convText: the source text of the conversion expression T(x).
func convText(w *World, fn *ssa.Function, c *ssa.Convert) string {
	pos := c.Pos()
	if !pos.IsValid() {
		return ""
	}
	pkg := w.PkgOf(fn)
	if pkg == nil {
		return ""
	}
	for _, f := range pkg.Syntax {
		if f.Pos() <= pos && pos <= f.End() {
			path := pathEnclosing(f, pos, pos)
			for _, n := range path {
				if ce, ok := n.(*ast.CallExpr); ok && ce.Lparen == pos {
					return types.ExprString(ce)
				}
			}
		}
	}
	return ""
}

func signedTwin(t types.Type) types.Type {
	switch btypeBits(t) {
	case 8:
		return types.Typ[types.Int8]
	case 16:
		return types.Typ[types.Int16]
	case 32:
		return types.Typ[types.Int32]
	}
	return nil
}
