package main

import (
	"go/types"

	"golang.org/x/tools/go/ssa"
)

// shortread: io.Reader allows Read to return fewer bytes than asked for
// without an error.  A direct call of Read on an interface value is
// therefore only complete when (a) the enclosing function is itself a Read
// method that hands the count on to its caller, or (b) the call is retried:
// it lies in a loop and the call can be reached again from its own success
// branch without leaving the loop.  A single Read treated as "all or error"
// fails in the middle of the input for readers that deliver short counts
// (network streams, pipes, bufio over small buffers).
func RunShortRead(w *World, r *Report, fns []*ssa.Function) {
	r.Rule("shortread: every direct call of Read([]byte) (int, error) on an interface value is either inside a function that is itself a Read([]byte) (int, error) method (the short count is passed on), or inside a loop in which the call is reachable again from its own block (retried until the need is met); io.ReadFull / io.ReadAtLeast are the alternatives")
	for _, fn := range fns {
		if fn.Blocks == nil {
			continue
		}
		var loops []*natLoop
		for _, b := range fn.Blocks {
			for _, in := range b.Instrs {
				call, ok := in.(*ssa.Call)
				if !ok || !call.Call.IsInvoke() || call.Call.Method.Name() != "Read" || !isReadSig(call.Call.Method.Type().(*types.Signature)) {
					continue
				}
				key := r.MkKey("shortread", fnName(fn), "call of Read on "+types.TypeString(call.Call.Value.Type(), func(p *types.Package) string { return p.Name() }))
				if fn.Signature.Recv() != nil && fn.Name() == "Read" && isReadSig(fn.Signature) {
					r.OK("shortread", key, w.Pos(call.Pos()), "inside a Read method: the count is handed to the caller")
					continue
				}
				if loops == nil {
					loops = naturalLoops(fn)
				}
				retried := false
				for _, l := range loops {
					if l.body[b] {
						retried = true
					}
				}
				if retried {
					r.OK("shortread", key, w.Pos(call.Pos()), "inside a loop: the read is repeated until enough bytes are buffered")
				} else {
					r.Fail("shortread", key, w.Pos(call.Pos()), "a single Read is taken as complete: an io.Reader may return fewer bytes than requested without an error, so this fails in the middle of the input for readers that deliver short counts", nil)
				}
			}
		}
	}
}

func isReadSig(sig *types.Signature) bool {
	if sig.Params().Len() != 1 || sig.Results().Len() != 2 {
		return false
	}
	sl, ok := sig.Params().At(0).Type().Underlying().(*types.Slice)
	if !ok {
		return false
	}
	if b, ok := sl.Elem().Underlying().(*types.Basic); !ok || b.Kind() != types.Uint8 {
		return false
	}
	if b, ok := sig.Results().At(0).Type().Underlying().(*types.Basic); !ok || b.Kind() != types.Int {
		return false
	}
	return types.TypeString(sig.Results().At(1).Type(), nil) == "error"
}
