package main

// deadacc: a loop-carried accumulator (offs += size, total += n, pos += 2)
// that nothing reads except its own update has lost its consumer: the offset
// it was tracking is no longer written, the size it summed no longer
// checked. The Go compiler accepts such a variable (the update counts as a
// use); the rule reports it.

import (
	"go/token"

	"golang.org/x/tools/go/ssa"
)

func RunDeadAccumulator(w *World, r *Report, fns []*ssa.Function) {
	r.Rule("deadacc: no loop-carried numeric variable of the listed functions is used by its own update only (a phi whose every transitive use through additions and subtractions leads back to the phi itself): an offset or size that is accumulated is also written, compared or returned")
	n := 0
	for _, fn := range fns {
		for _, b := range fn.Blocks {
			for _, in := range b.Instrs {
				ph, ok := in.(*ssa.Phi)
				if !ok {
					break
				}
				if !isIntegerType(ph.Type()) || !isLoopPhi(ph) {
					continue
				}
				n++
				// collect the cycle
				cyc := map[ssa.Value]bool{ph: true}
				work := []ssa.Value{ph}
				external := false
				for len(work) > 0 && !external {
					v := work[len(work)-1]
					work = work[:len(work)-1]
					refs := v.Referrers()
					if refs == nil {
						continue
					}
					for _, ref := range *refs {
						switch x := ref.(type) {
						case *ssa.DebugRef:
						case *ssa.Phi:
							if !cyc[x] {
								cyc[x] = true
								work = append(work, x)
							}
						case *ssa.BinOp:
							if x.Op == token.ADD || x.Op == token.SUB {
								if !cyc[x] {
									cyc[x] = true
									work = append(work, x)
								}
							} else {
								external = true
							}
						default:
							external = true
						}
					}
				}
				if external {
					continue
				}
				key := r.MkKey("deadacc", fnName(fn), "accumulator "+ph.Comment)
				pos := ph.Pos()
				for v := range cyc {
					if bo, ok := v.(*ssa.BinOp); ok && bo.Pos().IsValid() {
						pos = bo.Pos()
					}
				}
				r.Fail("deadacc", key, w.Pos(pos), "the variable "+ph.Comment+" is carried around the loop and updated, but nothing else reads it: what it kept track of (an offset to be written, a size to be checked) is no longer used", nil)
			}
		}
	}
	r.OK("deadacc", r.MkKey("deadacc", "scope", "loop-carried integer variables examined"), "-", itoa(n)+" loop-carried integer variables, each with a use outside its own update")
}

func itoa(n int) string {
	if n == 0 {
		return "0"
	}
	s := ""
	neg := n < 0
	if neg {
		n = -n
	}
	for n > 0 {
		s = string(rune('0'+n%10)) + s
		n /= 10
	}
	if neg {
		s = "-" + s
	}
	return s
}

func runDeadAccIn(w *World, r *Report, suffixes ...string) {
	var fs []*ssa.Function
	for _, f := range w.LibFuncs() {
		p := fnPkgPath(f)
		for _, s := range suffixes {
			if p == modPath+s {
				fs = append(fs, f)
			}
		}
	}
	RunDeadAccumulator(w, r, fs)
}
