package main

import (
	"fmt"
	"go/constant"
	"go/token"
	"go/types"
	"regexp/syntax"
	"strings"

	"golang.org/x/tools/go/ssa"
)

// C20: generated glyph names are complete, unique, stable and PostScript-safe.
// E12 nameslots + mapdet.

func init() { properties["C20"] = propC20 }

func propC20(w *World, r *Report) {
	RunInstallAll(w, r)
	e := NewEffects(w)
	runDet(w, r, e, "C20")
	r.Rule("nameslots/used: every non-constant name stored into a glyph-name slot after the used-set exists is either the result of a variant helper that records the name it returns, or is stored under a negative membership test of the used-set and recorded in it on the same path || nameslots/once: every such store is control-dependent on a test that the same slot is empty || nameslots/notdef: slot 0 is set to .notdef before the used-set is built || nameslots/variant: the variant helper records every name it returns || nameslots/fallback: a numbered-placeholder store exists for the remaining empty slots || psname: the PostScript name returned is directly the result of removing, from the complete family+subfamily string, every character outside the PostScript-name alphabet (regexp literal parsed and checked)")
	mk := w.Func("sfnt.makeVariant")
	if mk == nil {
		r.Fatal("anchor sfnt.makeVariant does not resolve")
	} else {
		checkVariantHelper(w, r, mk)
	}
	for _, n := range []string{"(*sfnt.Font).MakeGlyphNames", "(*cff.Outlines).makeNames"} {
		fn := w.Func(n)
		if fn == nil {
			r.Fatal("anchor %s does not resolve", n)
			continue
		}
		checkNameSlots(w, r, fn, mk)
	}
	checkPSName(w, r)
	checkStaleSummary(w, r)
	checkValidStore(w, r)
	r.Floor("nameslots/once", 6)
	r.Floor("nameslots/used", 6)
}

func isStringConst(v ssa.Value, s string) bool {
	c, ok := v.(*ssa.Const)
	return ok && c.Value != nil && c.Value.Kind() == constant.String && constant.StringVal(c.Value) == s
}

// usedSetOf finds the local map[string]bool of a function.
func usedSetOf(fn *ssa.Function) *ssa.MakeMap {
	for _, b := range fn.Blocks {
		for _, ins := range b.Instrs {
			if mm, ok := ins.(*ssa.MakeMap); ok {
				if m, ok := mm.Type().Underlying().(*types.Map); ok {
					kb, ok1 := m.Key().Underlying().(*types.Basic)
					eb, ok2 := m.Elem().Underlying().(*types.Basic)
					if ok1 && ok2 && kb.Kind() == types.String && eb.Kind() == types.Bool {
						return mm
					}
				}
			}
		}
	}
	return nil
}

// slotAddr: is addr a glyph-name slot? Returns a canonical description of the slot (base value, index value).
func slotAddr(addr ssa.Value) (base, index ssa.Value, ok bool) {
	switch a := addr.(type) {
	case *ssa.IndexAddr:
		if s, isS := a.X.Type().Underlying().(*types.Slice); isS {
			if b, isB := s.Elem().Underlying().(*types.Basic); isB && b.Kind() == types.String {
				return a.X, a.Index, true
			}
		}
	case *ssa.FieldAddr:
		if fieldName(a) == "Name" {
			if b, isB := a.Type().Underlying().(*types.Pointer).Elem().Underlying().(*types.Basic); isB && b.Kind() == types.String {
				return a.X, nil, true
			}
		}
	}
	return nil, nil, false
}

func sameSlot(b1, i1, b2, i2 ssa.Value) bool {
	if i1 == nil && i2 == nil {
		return sameValue(b1, b2)
	}
	if i1 == nil || i2 == nil {
		return false
	}
	return sameValue(b1, b2) && sameValue(i1, i2)
}

// sameValue: identical SSA values, or two loads/derivations that are textually the same computation of the same operands.
func sameValue(a, b ssa.Value) bool {
	if a == b {
		return true
	}
	switch x := a.(type) {
	case *ssa.Const:
		if y, ok := b.(*ssa.Const); ok && x.Value != nil && y.Value != nil {
			return constant.Compare(x.Value, token.EQL, y.Value)
		}
	case *ssa.UnOp:
		if y, ok := b.(*ssa.UnOp); ok && x.Op == y.Op {
			return sameValue(x.X, y.X)
		}
	case *ssa.FieldAddr:
		if y, ok := b.(*ssa.FieldAddr); ok && x.Field == y.Field {
			return sameValue(x.X, y.X)
		}
	case *ssa.Field:
		if y, ok := b.(*ssa.Field); ok && x.Field == y.Field {
			return sameValue(x.X, y.X)
		}
	case *ssa.IndexAddr:
		if y, ok := b.(*ssa.IndexAddr); ok {
			return sameValue(x.X, y.X) && sameValue(x.Index, y.Index)
		}
	case *ssa.Convert:
		if y, ok := b.(*ssa.Convert); ok && types.Identical(x.Type(), y.Type()) {
			return sameValue(x.X, y.X)
		}
	case *ssa.ChangeType:
		if y, ok := b.(*ssa.ChangeType); ok {
			return sameValue(x.X, y.X)
		}
	}
	return false
}

func checkVariantHelper(w *World, r *Report, fn *ssa.Function) {
	name := fnName(fn)
	var used *ssa.Parameter
	for _, p := range fn.Params {
		if _, ok := p.Type().Underlying().(*types.Map); ok {
			used = p
		}
	}
	if used == nil {
		r.Fatal("%s has no used-set parameter", name)
		return
	}
	for _, b := range fn.Blocks {
		if len(b.Instrs) == 0 {
			continue
		}
		ret, ok := b.Instrs[len(b.Instrs)-1].(*ssa.Return)
		if !ok || len(ret.Results) != 1 {
			continue
		}
		key := r.MkKey("nameslots/variant", name, "return")
		v := ret.Results[0]
		recorded := false
		for _, bb := range fn.Blocks {
			for _, ins := range bb.Instrs {
				mu, ok := ins.(*ssa.MapUpdate)
				if !ok || mu.Map != ssa.Value(used) || !sameValue(mu.Key, v) {
					continue
				}
				if c, ok := mu.Value.(*ssa.Const); !ok || c.Value == nil || !constant.BoolVal(c.Value) {
					continue
				}
				if bb == b || bb.Dominates(b) {
					recorded = true
				}
			}
		}
		if recorded {
			r.OK("nameslots/variant", key, w.Pos(ret.Pos()), "returned name is recorded in the used-set on every path to this return")
		} else {
			r.Fail("nameslots/variant", key, w.Pos(ret.Pos()), name+" can return a name without recording it in the used-set: a later call may hand out the same name again", nil)
		}
	}
}

func checkNameSlots(w *World, r *Report, fn *ssa.Function, variant *ssa.Function) {
	name := fnName(fn)
	used := usedSetOf(fn)
	if used == nil {
		r.Fatal("%s: no used-set (local map[string]bool) found", name)
		return
	}
	cconds := controlConds(fn)
	notdefSeen := false
	fallback := false
	for _, b := range fn.Blocks {
		for _, ins := range b.Instrs {
			st, ok := ins.(*ssa.Store)
			if !ok {
				continue
			}
			base, index, isSlot := slotAddr(st.Addr)
			if !isSlot {
				continue
			}
			if isStringConst(st.Val, "") {
				continue // clearing a duplicate/invalid name
			}
			pos := w.Pos(st.Pos())
			if isStringConst(st.Val, ".notdef") {
				key := r.MkKey("nameslots/notdef", name, "store .notdef")
				zero := false
				if index != nil {
					if c, ok := index.(*ssa.Const); ok && c.Int64() == 0 {
						zero = true
					}
				} else {
					// g.Name with g = Glyphs[0]
					for v := range backSlice(base) {
						if ia, ok := v.(*ssa.IndexAddr); ok {
							if c, ok := ia.Index.(*ssa.Const); ok && c.Int64() == 0 {
								zero = true
							}
						}
					}
				}
				before := b == used.Block() && instrIndex(b, st) < instrIndex(b, used) || (b != used.Block() && b.Dominates(used.Block()))
				if zero && before {
					notdefSeen = true
					r.OK("nameslots/notdef", key, pos, "slot 0 is named .notdef before the used-set is built")
				} else {
					r.Fail("nameslots/notdef", key, pos, ".notdef is not assigned to slot 0 before the used-set is built (an existing glyph called .notdef can then survive elsewhere, or glyph 0's old name takes part in the duplicate check)", nil)
					notdefSeen = true
				}
				continue
			}
			// only stores after the used-set exists
			after := (b == used.Block() && instrIndex(b, st) > instrIndex(b, used)) || (b != used.Block() && used.Block().Dominates(b))
			if !after {
				continue
			}
			// --- once: guarded by emptiness test of the same slot
			keyOnce := r.MkKey("nameslots/once", name, "store into "+describeAddr(st.Addr))
			guarded := false
			for _, cnd := range allConds(cconds, b) {
				bo, ok := cnd.(*ssa.BinOp)
				if !ok || (bo.Op != token.EQL && bo.Op != token.NEQ) {
					continue
				}
				var other ssa.Value
				if isStringConst(bo.Y, "") {
					other = bo.X
				} else if isStringConst(bo.X, "") {
					other = bo.Y
				} else {
					continue
				}
				if ld, ok := other.(*ssa.UnOp); ok && ld.Op == token.MUL {
					if b2, i2, ok := slotAddr(ld.X); ok && sameSlot(base, index, b2, i2) {
						guarded = true
					}
				}
			}
			if guarded {
				r.OK("nameslots/once", keyOnce, pos, "store is control-dependent on an emptiness test of the same slot")
			} else {
				r.Fail("nameslots/once", keyOnce, pos, "a name is stored into "+describeAddr(st.Addr)+" without testing that the slot is still empty: an existing unique name can be overwritten", nil)
			}
			// --- used: recorded in the used set
			keyUsed := r.MkKey("nameslots/used", name, "store into "+describeAddr(st.Addr))
			okUsed, how := false, ""
			if c, ok := st.Val.(*ssa.Call); ok && c.Call.StaticCallee() == variant && variant != nil && len(c.Call.Args) > 0 && c.Call.Args[0] == ssa.Value(used) {
				okUsed, how = true, "name comes from the variant helper applied to the used-set"
			} else {
				// negative membership test controls the store, and used[V] = true on the same path
				tested, recorded := false, false
				for _, cnd := range allConds(cconds, b) {
					for v := range backSlice(cnd) {
						if lk, ok := v.(*ssa.Lookup); ok && lk.X == ssa.Value(used) && sameValue(lk.Index, st.Val) {
							tested = true
						}
					}
				}
				for _, bb := range fn.Blocks {
					for _, ins2 := range bb.Instrs {
						if mu, ok := ins2.(*ssa.MapUpdate); ok && mu.Map == ssa.Value(used) && sameValue(mu.Key, st.Val) {
							if bb == b || bb.Dominates(b) || b.Dominates(bb) && len(controlOnly(cconds, bb, b)) == 0 {
								recorded = true
							}
						}
					}
				}
				if tested && recorded {
					okUsed, how = true, "stored under !used[name] and recorded in the used-set on the same path"
				} else if !tested {
					how = "the stored name is not tested against the used-set"
				} else {
					how = "the stored name is not recorded in the used-set"
				}
			}
			if okUsed {
				r.OK("nameslots/used", keyUsed, pos, how)
			} else {
				r.Fail("nameslots/used", keyUsed, pos, "name stored into "+describeAddr(st.Addr)+": "+how+" (names may collide)", nil)
			}
			// fallback detection: value derives from fmt.Sprintf with an "orn" format
			for v := range backSlice(st.Val) {
				if c, ok := v.(*ssa.Const); ok && c.Value != nil && c.Value.Kind() == constant.String && strings.HasPrefix(constant.StringVal(c.Value), "orn") {
					fallback = true
				}
			}
		}
	}
	if !notdefSeen {
		r.Fail("nameslots/notdef", r.MkKey("nameslots/notdef", name, "store .notdef"), w.Pos(fn.Pos()), "no store of .notdef into slot 0 found", nil)
	}
	keyF := r.MkKey("nameslots/fallback", name, "placeholder store")
	if fallback {
		r.OK("nameslots/fallback", keyF, w.Pos(fn.Pos()), "numbered placeholder names are assigned to remaining empty slots")
	} else {
		r.Fail("nameslots/fallback", keyF, w.Pos(fn.Pos()), "no numbered-placeholder store found: slots may stay empty", nil)
	}
}

// controlOnly returns the conditions b2 is control-dependent on that b1 is not.
func controlOnly(cc map[*ssa.BasicBlock][]ssa.Value, b2, b1 *ssa.BasicBlock) []ssa.Value {
	in1 := map[ssa.Value]bool{}
	for _, c := range cc[b1] {
		in1[c] = true
	}
	var res []ssa.Value
	for _, c := range cc[b2] {
		if !in1[c] {
			res = append(res, c)
		}
	}
	return res
}

func instrIndex(b *ssa.BasicBlock, ins ssa.Instruction) int {
	for i, x := range b.Instrs {
		if x == ins {
			return i
		}
	}
	return -1
}

// psAlphabet: characters permitted in a PostScript name.
func psAllowed(r rune) bool {
	if r < 33 || r > 126 {
		return false
	}
	return !strings.ContainsRune("()[]{}<>/%", r)
}

func checkPSName(w *World, r *Report) {
	fn := w.Func("(*sfnt.Font).PostScriptName")
	if fn == nil {
		r.Fatal("anchor (*sfnt.Font).PostScriptName does not resolve")
		return
	}
	name := fnName(fn)
	for _, b := range fn.Blocks {
		if len(b.Instrs) == 0 {
			continue
		}
		ret, ok := b.Instrs[len(b.Instrs)-1].(*ssa.Return)
		if !ok {
			continue
		}
		key := r.MkKey("psname", name, "return")
		call, ok := ret.Results[0].(*ssa.Call)
		if !ok || call.Call.StaticCallee() == nil || call.Call.StaticCallee().String() != "(*regexp.Regexp).ReplaceAllString" {
			r.Fail("psname", key, w.Pos(ret.Pos()), "the returned name is not directly the result of the sanitising regexp replacement (characters may be appended after sanitising)", nil)
			continue
		}
		if !isStringConst(call.Call.Args[2], "") {
			r.Fail("psname", key, w.Pos(ret.Pos()), "the sanitiser does not delete the offending characters (replacement is not the empty string)", nil)
			continue
		}
		// the regexp literal
		var lit string
		found := false
		for v := range backSlice(call.Call.Args[0]) {
			if c, ok := v.(*ssa.Call); ok && c.Call.StaticCallee() != nil && strings.HasPrefix(c.Call.StaticCallee().String(), "regexp.MustCompile") {
				if k, ok := c.Call.Args[0].(*ssa.Const); ok && k.Value != nil {
					lit = constant.StringVal(k.Value)
					found = true
				}
			}
			if g, ok := v.(*ssa.Global); ok {
				// package-level compiled regexp: find its initialiser
				if l, ok := globalRegexpLiteral(w, g); ok {
					lit, found = l, true
				}
			}
		}
		if !found {
			r.Fail("psname", key, w.Pos(ret.Pos()), "cannot find the regexp literal used for sanitising", nil)
			continue
		}
		re, err := syntax.Parse(lit, syntax.Perl)
		if err != nil {
			r.Fail("psname", key, w.Pos(ret.Pos()), "regexp literal does not parse: "+err.Error(), nil)
			continue
		}
		re = re.Simplify()
		cls := re
		if (re.Op == syntax.OpPlus || re.Op == syntax.OpStar) && len(re.Sub) == 1 {
			cls = re.Sub[0]
		}
		if cls.Op != syntax.OpCharClass {
			r.Fail("psname", key, w.Pos(ret.Pos()), "sanitising regexp is not a (repeated) character class: "+lit, nil)
			continue
		}
		inClass := func(x rune) bool {
			for i := 0; i+1 < len(cls.Rune); i += 2 {
				if cls.Rune[i] <= x && x <= cls.Rune[i+1] {
					return true
				}
			}
			return false
		}
		var leaked []string
		for x := rune(0); x < 0x3000; x++ {
			if !psAllowed(x) && !inClass(x) {
				leaked = append(leaked, fmt.Sprintf("%q", x))
			}
		}
		if !inClass(0x10FFFF) || !inClass(0xFFFF) {
			leaked = append(leaked, "non-BMP/upper BMP runes")
		}
		if len(leaked) > 0 {
			r.Fail("psname", key, w.Pos(ret.Pos()), "the sanitising regexp "+lit+" lets characters through that are not allowed in a PostScript name: "+strings.Join(leaked[:min(len(leaked), 8)], " "), nil)
			continue
		}
		// the sanitised input must be the complete name: family and subfamily
		sl := backSlice(call.Call.Args[1])
		hasFamily := sliceHasField(sl, "FamilyName")
		hasSub := false
		for v := range sl {
			if c, ok := v.(*ssa.Call); ok && c.Call.StaticCallee() != nil && c.Call.StaticCallee().Name() == "Subfamily" {
				hasSub = true
			}
		}
		if !hasFamily || !hasSub {
			r.Fail("psname", key, w.Pos(ret.Pos()), "the sanitiser is not applied to the complete family+subfamily name", nil)
			continue
		}
		r.OK("psname", key, w.Pos(ret.Pos()), "returns ReplaceAllString(family+subfamily, \"\") with a class whose complement lies inside the PostScript-name alphabet: "+lit)
	}
	r.Floor("psname", 1)
}

// globalRegexpLiteral finds `var g = regexp.MustCompile("lit")` in the init function.
func globalRegexpLiteral(w *World, g *ssa.Global) (string, bool) {
	init := g.Pkg.Func("init")
	if init == nil {
		return "", false
	}
	for _, b := range init.Blocks {
		for _, ins := range b.Instrs {
			if st, ok := ins.(*ssa.Store); ok && st.Addr == ssa.Value(g) {
				if c, ok := st.Val.(*ssa.Call); ok && c.Call.StaticCallee() != nil && strings.HasPrefix(c.Call.StaticCallee().String(), "regexp.MustCompile") {
					if k, ok := c.Call.Args[0].(*ssa.Const); ok && k.Value != nil {
						return constant.StringVal(k.Value), true
					}
				}
			}
		}
	}
	return "", false
}

// checkStaleSummary: MakeGlyphNames returns early when "all names are
// present".  That summary must be computed after the pass that blanks
// duplicate names, in a loop of its own: a flag computed in the same loop
// that still assigns "" to slots describes the list before the blanking.
func checkStaleSummary(w *World, r *Report) {
	r.Rule("stalesummary: in (*Font).MakeGlyphNames the boolean that guards the early return of the name list is computed by a loop that does not assign to the list, and every loop that blanks entries (stores \"\" into it) is finished before that loop starts || fullrange: in (*cff.Outlines).makeNames every loop over the glyphs ranges over the whole o.Glyphs (a sub-slice would leave names out of the uniqueness bookkeeping)")
	fn := w.Func("(*sfnt.Font).MakeGlyphNames")
	if fn == nil {
		r.Fatal("(*sfnt.Font).MakeGlyphNames does not resolve")
		return
	}
	loops := naturalLoops(fn)
	inLoop := func(b *ssa.BasicBlock) *natLoop {
		var best *natLoop
		for _, l := range loops {
			if l.body[b] && (best == nil || len(l.body) < len(best.body)) {
				best = l
			}
		}
		return best
	}
	// loops that blank entries of a []string
	var blanking []*natLoop
	for _, b := range fn.Blocks {
		for _, in := range b.Instrs {
			st, ok := in.(*ssa.Store)
			if !ok {
				continue
			}
			if _, isIA := st.Addr.(*ssa.IndexAddr); !isIA {
				continue
			}
			if c, ok := st.Val.(*ssa.Const); ok && c.Value != nil && c.Value.Kind() == constant.String && constant.StringVal(c.Value) == "" {
				if l := inLoop(b); l != nil {
					blanking = append(blanking, l)
				}
			}
		}
	}
	// the flag: a bool phi at a loop head whose value decides a return of a []string
	n := 0
	for _, b := range fn.Blocks {
		if len(b.Instrs) == 0 {
			continue
		}
		ifi, ok := b.Instrs[len(b.Instrs)-1].(*ssa.If)
		if !ok {
			continue
		}
		ph, ok := ifi.Cond.(*ssa.Phi)
		if !ok {
			continue
		}
		if bt, ok := ph.Type().Underlying().(*types.Basic); !ok || bt.Kind() != types.Bool {
			continue
		}
		// one successor returns
		returns := false
		for _, s := range b.Succs {
			if len(s.Instrs) > 0 {
				if _, ok := s.Instrs[len(s.Instrs)-1].(*ssa.Return); ok {
					returns = true
				}
			}
		}
		if !returns {
			continue
		}
		n++
		key := r.MkKey("stalesummary", fnName(fn), "early return flag "+ph.Comment)
		// the loop that computes the flag: the phi sits at its head, or merges its exits
		lc := inLoop(ph.Block())
		if lc == nil || lc.head != ph.Block() {
			for _, pr := range ph.Block().Preds {
				if l := inLoop(pr); l != nil {
					lc = l
				}
			}
		}
		if lc == nil {
			continue
		}
		bad := ""
		for _, lw := range blanking {
			if lw == lc {
				bad = "the loop that computes " + ph.Comment + " also blanks entries of the list: a slot emptied after it was inspected is not noticed"
			} else if lc != nil && !lw.head.Dominates(lc.head) {
				bad = "a loop that blanks entries is not finished before " + ph.Comment + " is computed"
			}
		}
		if bad == "" {
			r.OK("stalesummary", key, w.Pos(ifi.Cond.Pos()), "computed by a separate loop after the blanking pass")
		} else {
			r.Fail("stalesummary", key, w.Pos(ph.Pos()), bad+": MakeGlyphNames can return a list with an empty name", nil)
		}
	}
	if n == 0 {
		r.Fail("stalesummary", r.MkKey("stalesummary", fnName(fn), "early return flag"), w.Pos(fn.Pos()), "no loop-computed flag guarding an early return found", nil)
	}
	// fullrange
	mk := w.Func("(*cff.Outlines).makeNames")
	if mk == nil {
		r.Fatal("(*cff.Outlines).makeNames does not resolve")
		return
	}
	m := 0
	for _, b := range mk.Blocks {
		for _, in := range b.Instrs {
			// len(x) taken for a range loop: x must be the field load itself
			call, ok := in.(*ssa.Call)
			if !ok {
				continue
			}
			bi, ok := call.Call.Value.(*ssa.Builtin)
			if !ok || bi.Name() != "len" {
				continue
			}
			arg := call.Call.Args[0]
			if st, ok := arg.Type().Underlying().(*types.Slice); !ok || !strings.Contains(st.Elem().String(), "cff.Glyph") {
				continue
			}
			m++
			key := r.MkKey("fullrange", fnName(mk), "loop over the glyphs")
			if _, isSlice := arg.(*ssa.Slice); isSlice {
				r.Fail("fullrange", key, w.Pos(call.Pos()), "the loop ranges over a sub-slice of o.Glyphs: the glyphs left out are not entered into the set of used names, so their names can be given out again", nil)
			} else {
				r.OK("fullrange", key, w.Pos(call.Pos()), "ranges over all of o.Glyphs")
			}
		}
	}
	r.Floor("stalesummary", 1)
	r.Floor("fullrange", 2)
	_ = m
}

// checkValidStore: every name that makeNames / MakeGlyphNames-side code of
// package cff assigns to a glyph is known to be a valid PostScript glyph
// name at the assignment: the very string stored was tested with
// names.IsValid (true branch), or it is a constant, the empty string, or a
// fmt.Sprintf of a constant format made of name characters and %d verbs (the
// generic names).  A test of a different string — the base name before a
// suffix is appended — does not count.
func checkValidStore(w *World, r *Report) {
	r.Rule("validstore: in (*cff.Outlines).makeNames every non-constant string stored into a glyph's Name is the operand of a dominating names.IsValid test that succeeded (the same SSA value), or a Sprintf of a constant format consisting of name characters and integer verbs")
	mk := w.Func("(*cff.Outlines).makeNames")
	if mk == nil {
		r.Fatal("(*cff.Outlines).makeNames does not resolve")
		return
	}
	validOn := func(v ssa.Value, at *ssa.BasicBlock) bool {
		for _, b := range mk.Blocks {
			if len(b.Instrs) == 0 {
				continue
			}
			ifi, ok := b.Instrs[len(b.Instrs)-1].(*ssa.If)
			if !ok {
				continue
			}
			cond := ifi.Cond
			side := 0
			if u, ok := cond.(*ssa.UnOp); ok && u.Op == token.NOT {
				cond, side = u.X, 1
			}
			call, ok := cond.(*ssa.Call)
			if !ok {
				continue
			}
			cal := call.Call.StaticCallee()
			if cal == nil || cal.Name() != "IsValid" || len(call.Call.Args) != 1 || call.Call.Args[0] != v {
				continue
			}
			s := b.Succs[side]
			if len(s.Preds) == 1 && (s == at || s.Dominates(at)) {
				return true
			}
		}
		return false
	}
	genericFormat := func(v ssa.Value) bool {
		call, ok := v.(*ssa.Call)
		if !ok {
			return false
		}
		cal := call.Call.StaticCallee()
		if cal == nil || cal.Pkg == nil || cal.Pkg.Pkg.Path() != "fmt" || cal.Name() != "Sprintf" || len(call.Call.Args) == 0 {
			return false
		}
		c, ok := call.Call.Args[0].(*ssa.Const)
		if !ok || c.Value == nil || c.Value.Kind() != constant.String {
			return false
		}
		f := constant.StringVal(c.Value)
		for i := 0; i < len(f); i++ {
			ch := f[i]
			switch {
			case ch >= 'a' && ch <= 'z', ch >= 'A' && ch <= 'Z', ch == '.', ch == '_':
			case ch == '%':
				j := i + 1
				for j < len(f) && f[j] >= '0' && f[j] <= '9' {
					j++
				}
				if j >= len(f) || f[j] != 'd' {
					return false
				}
				i = j
			case ch >= '0' && ch <= '9' && i > 0:
			default:
				return false
			}
		}
		return len(f) > 0 && len(f) < 16
	}
	n := 0
	for _, b := range mk.Blocks {
		for _, in := range b.Instrs {
			st, ok := in.(*ssa.Store)
			if !ok {
				continue
			}
			fa, ok := st.Addr.(*ssa.FieldAddr)
			if !ok || fieldName(fa) != "Name" {
				continue
			}
			if bt, ok := st.Val.Type().Underlying().(*types.Basic); !ok || bt.Kind() != types.String {
				continue
			}
			n++
			key := r.MkKey("validstore", fnName(mk), "store to Name")
			switch {
			case func() bool { _, isC := st.Val.(*ssa.Const); return isC }():
				r.OK("validstore", key, w.Pos(st.Pos()), "constant")
			case validOn(st.Val, b):
				r.OK("validstore", key, w.Pos(st.Pos()), "the stored string passed names.IsValid")
			case genericFormat(st.Val):
				r.OK("validstore", key, w.Pos(st.Pos()), "generic name from a constant format")
			default:
				r.Fail("validstore", key, w.Pos(st.Pos()), "the string stored into the glyph's Name is not the one that was tested with names.IsValid (a suffix appended after the test can make it longer than a PostScript name may be); the invalid name is discarded by the next call, so the naming is neither valid nor stable", nil)
			}
		}
	}
	r.Floor("validstore", 3)
	_ = n
}
