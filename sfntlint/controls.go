package main

// Positive controls: rules whose expected number of findings on the library
// is zero are run on /verif/controls (a tiny module of must-fire examples)
// on every run; a rule that stays silent there fails the check.

import (
	"fmt"
	"os"
	"go/token"
	"go/types"
	"path/filepath"
	"sort"
	"strings"
	"sync"

	"golang.org/x/tools/go/ssa"
)

var (
	ctlOnce  sync.Once
	ctlWorld *World
	ctlErr   error
)

func controlWorld(verifDir string) (*World, error) {
	ctlOnce.Do(func() {
		ctlWorld, ctlErr = LoadDir(filepath.Join(verifDir, "controls"), "", false, 1)
	})
	return ctlWorld, ctlErr
}

// RunControl runs rule on the control package and requires it to report a
// violation of ruleName in the function named ctlFunc.
func RunControl(r *Report, ruleName, ctlFunc string, rule func(w *World, r *Report, fns []*ssa.Function)) {
	key := r.MkKey("control", ruleName, "positive control "+ctlFunc)
	cw, err := controlWorld(r.verifDir)
	if err != nil {
		r.Fail("control", key, "-", "cannot load the control package: "+err.Error(), nil)
		return
	}
	sub := NewReport(r.Property, r.Tier, r.verifDir)
	sub.table = map[string]TableEntry{}
	sub.known = map[string]KnownFinding{}
	sub.W = cw
	var fns []*ssa.Function
	for _, f := range cw.LibFuncs() {
		fns = append(fns, f)
	}
	func() {
		defer func() {
			if x := recover(); x != nil {
				sub.Fatal("engine panic on the control package: %v", x)
			}
		}()
		rule(cw, sub, fns)
	}()
	for _, o := range sub.Obls {
		if o.Rule == ruleName && o.Status == StViolation && containsFunc(o.Key, ctlFunc) {
			r.OK("control", key, o.Pos, "rule "+ruleName+" fires on its must-fire example")
			return
		}
	}
	r.Fail("control", key, "-", fmt.Sprintf("rule %s did not report its must-fire example %s in /verif/controls: the rule may have gone blind", ruleName, ctlFunc), nil)
}

func containsFunc(key, fn string) bool {
	for i := 0; i+len(fn) <= len(key); i++ {
		if key[i:i+len(fn)] == fn {
			return true
		}
	}
	return false
}

// RunMemoKey: a value cached in a map under key K and computed by F(args)
// must be determined by K.  When F keeps a pointer argument in its result
// (so that later readers may read any field through it), K has to include
// that pointer itself; when F only reads some fields, K has to be computed
// from those fields.
func RunMemoKey(w *World, r *Report, fns []*ssa.Function) {
	r.Rule("memokey: where a function result is cached in a map (lookup, on miss compute by a call and store under the same key), the key must determine the result: if the callee stores a pointer argument in what it returns, the key must contain that pointer, not just one field read through it")
	for _, fn := range fns {
		for _, b := range fn.Blocks {
			for _, in := range b.Instrs {
				mu, ok := in.(*ssa.MapUpdate)
				if !ok {
					continue
				}
				call, ok := mu.Value.(*ssa.Call)
				if os.Getenv("SFNT_MEMODEBUG") != "" {
					fmt.Printf("mapupdate in %s value %T %v\n", fnName(fn), mu.Value, ok)
				}
				if !ok {
					continue
				}
				callee := call.Call.StaticCallee()
				if callee == nil || callee.Blocks == nil {
					continue
				}
				// a comma-ok lookup of the same map expression with the same key shape in this function
				if !hasLookupOf(fn, mu) {
					continue
				}
				keySlice := backSlice(mu.Key)
				for ai, arg := range call.Call.Args {
					pt, ok := arg.Type().Underlying().(*types.Pointer)
					if !ok {
						continue
					}
					if _, ok := pt.Elem().Underlying().(*types.Struct); !ok {
						continue
					}
					if ai >= len(callee.Params) || !paramKeptInResult(callee, callee.Params[ai]) {
						continue
					}
					key := r.MkKey("memokey", fnName(fn), "cache of "+fnName(callee)+" results")
					if keySlice[arg] && !onlyThroughFields(mu.Key, arg) {
						r.OK("memokey", key, w.Pos(mu.Pos()), "the key contains the pointer the cached value keeps")
						continue
					}
					r.Fail("memokey", key, w.Pos(mu.Pos()), fmt.Sprintf("%s keeps its argument %s in the value it returns, but the cache key is computed from only part of what that argument points to: two arguments that agree in the key and differ elsewhere share one cached value", fnName(callee), arg.Name()), nil)
				}
			}
		}
	}
}

func hasLookupOf(fn *ssa.Function, mu *ssa.MapUpdate) bool {
	mt := mu.Map.Type()
	for _, b := range fn.Blocks {
		for _, in := range b.Instrs {
			if lk, ok := in.(*ssa.Lookup); ok && lk.CommaOk && types.Identical(lk.X.Type(), mt) {
				return true
			}
		}
	}
	return false
}

// paramKeptInResult: the parameter is stored into a field of a freshly
// allocated object that the function returns.
func paramKeptInResult(fn *ssa.Function, par *ssa.Parameter) bool {
	for _, ref := range *par.Referrers() {
		st, ok := ref.(*ssa.Store)
		if !ok || st.Val != ssa.Value(par) {
			continue
		}
		fa, ok := st.Addr.(*ssa.FieldAddr)
		if !ok {
			continue
		}
		al, ok := fa.X.(*ssa.Alloc)
		if !ok {
			continue
		}
		for _, b := range fn.Blocks {
			if ret, ok := b.Instrs[len(b.Instrs)-1].(*ssa.Return); ok {
				for _, rv := range ret.Results {
					if backSlice(rv)[al] {
						return true
					}
				}
			}
		}
	}
	return false
}

// onlyThroughFields: every path from key to arg goes through a field load
// (the key uses what arg points to, not arg itself).
func onlyThroughFields(key, arg ssa.Value) bool {
	var direct func(v ssa.Value, depth int) bool
	direct = func(v ssa.Value, depth int) bool {
		if v == arg {
			return true
		}
		if depth > 6 {
			return false
		}
		switch x := v.(type) {
		case *ssa.UnOp:
			if x.Op == token.MUL {
				return false // a load: what follows is reached through memory
			}
			return direct(x.X, depth+1)
		case *ssa.Convert:
			return direct(x.X, depth+1)
		case *ssa.ChangeType:
			return direct(x.X, depth+1)
		case *ssa.MakeInterface:
			return direct(x.X, depth+1)
		case *ssa.BinOp:
			return direct(x.X, depth+1) || direct(x.Y, depth+1)
		case *ssa.Phi:
			for _, e := range x.Edges {
				if direct(e, depth+1) {
					return true
				}
			}
		}
		return false
	}
	return !direct(key, 0)
}

// RunCacheInputs: a local map used as a cache inside a loop (comma-ok lookup
// of key K, on a miss compute V and store it under K).  Every
// iteration-dependent input of V — a load whose address changes from one
// iteration to the next, reached through data or control dependence — must
// also be an input of K; otherwise two iterations with equal keys and
// different inputs share one cached value.
func RunCacheInputs(w *World, r *Report, fns []*ssa.Function) {
	r.Rule("cacheinputs: where a loop caches a computed value in a local map (v, ok := m[k]; if !ok { v = ...; m[k] = v }), every memory read that varies with the iteration and influences the value (through its operands or through the branch conditions that select it) also influences the key")
	br := newBoundsRun(w)
	for _, fn := range fns {
		if fn.Blocks == nil {
			continue
		}
		var loops []*natLoop
		for _, b := range fn.Blocks {
			for _, in := range b.Instrs {
				mu, ok := in.(*ssa.MapUpdate)
				if !ok {
					continue
				}
				mk, ok := mu.Map.(*ssa.MakeMap)
				if !ok {
					continue
				}
				// the matching lookup: same map, same key value, comma-ok
				var lk *ssa.Lookup
				for _, ref := range *mk.Referrers() {
					if l, ok := ref.(*ssa.Lookup); ok && l.CommaOk && sameKeyValue(l.Index, mu.Key) {
						lk = l
					}
				}
				if lk == nil || !lk.Block().Dominates(mu.Block()) {
					continue
				}
				// a cache: the value found on a hit is used in place of the computed one
				// (a phi merges them); "insert if absent, complain if present" is not a cache
				isCache := false
				for _, ref := range *lk.Referrers() {
					ex, ok := ref.(*ssa.Extract)
					if !ok || ex.Index != 0 || ex.Referrers() == nil {
						continue
					}
					for _, r2 := range *ex.Referrers() {
						if ph, ok := r2.(*ssa.Phi); ok {
							for _, e := range ph.Edges {
								if e == mu.Value {
									isCache = true
								}
							}
						}
					}
				}
				if !isCache {
					continue
				}
				if loops == nil {
					loops = naturalLoops(fn)
				}
				var L *natLoop
				for _, l := range loops {
					if l.body[mu.Block()] && !l.body[mk.Block()] && (L == nil || len(l.body) < len(L.body)) {
						L = l
					}
				}
				if L == nil {
					continue
				}
				p := br.prover(fn)
				key := r.MkKey("cacheinputs", fnName(fn), "cache "+mk.Name()+" of "+types.TypeString(mk.Type(), func(p *types.Package) string { return p.Name() }))
				// varying: depends on a phi of the loop head
				headPhis := map[ssa.Value]bool{}
				for _, hi := range L.head.Instrs {
					if ph, ok := hi.(*ssa.Phi); ok {
						headPhis[ph] = true
					} else {
						break
					}
				}
				varying := func(v ssa.Value) bool {
					for x := range backSlice(v) {
						if headPhis[x] {
							return true
						}
					}
					return false
				}
				// leaves: loads inside the loop whose address varies
				leaves := func(root ssa.Value, withControl bool) map[string]token.Pos {
					out := map[string]token.Pos{}
					seen := map[ssa.Value]bool{}
					var visit func(v ssa.Value)
					visit = func(v ssa.Value) {
						if v == nil || seen[v] {
							return
						}
						seen[v] = true
						ins, ok := v.(ssa.Instruction)
						if !ok || ins.Block() == nil || !L.body[ins.Block()] {
							return
						}
						if v == ssa.Value(lk) {
							return
						}
						if ex, ok := v.(*ssa.Extract); ok && ex.Tuple == ssa.Value(lk) {
							return
						}
						if u, ok := v.(*ssa.UnOp); ok && u.Op == token.MUL {
							if varying(u.X) {
								name := u.X.Name()
								if ia, ok := u.X.(*ssa.IndexAddr); ok {
									name = ia.X.Name() + "[" + p.linStr(p.linOf(ia.Index)) + "]"
								}
								out[name] = u.Pos()
							}
							return
						}
						if ph, ok := v.(*ssa.Phi); ok && withControl {
							for i := range ph.Edges {
								pr := ph.Block().Preds[i]
								for _, g := range guardsOf(pr) {
									if L.body[g.ifb] {
										visit(g.cond)
									}
								}
								if len(pr.Instrs) > 0 {
									if ifi, ok := pr.Instrs[len(pr.Instrs)-1].(*ssa.If); ok {
										visit(ifi.Cond)
									}
								}
							}
						}
						for _, op := range ins.Operands(nil) {
							if *op != nil {
								visit(*op)
							}
						}
					}
					visit(root)
					return out
				}
				kl := leaves(mu.Key, false)
				vl := leaves(mu.Value, true)
				var missing []string
				for name, pos := range vl {
					if _, ok := kl[name]; !ok {
						missing = append(missing, name+" (read at "+w.Pos(pos)+")")
					}
				}
				sort.Strings(missing)
				if len(missing) == 0 {
					r.OK("cacheinputs", key, w.Pos(mu.Pos()), "every iteration-dependent input of the cached value is an input of the key")
				} else {
					r.Fail("cacheinputs", key, w.Pos(mu.Pos()), "the cached value depends on "+strings.Join(missing, ", ")+", which the key does not contain: records that agree in the key but differ there get the value computed for the first of them", nil)
				}
			}
		}
	}
}

// sameKeyValue: the two key operands denote the same value: the same SSA
// value, or two loads of the same local variable.
func sameKeyValue(a, b ssa.Value) bool {
	if a == b {
		return true
	}
	ua, ok1 := a.(*ssa.UnOp)
	ub, ok2 := b.(*ssa.UnOp)
	if ok1 && ok2 && ua.Op == token.MUL && ub.Op == token.MUL && ua.X == ub.X {
		if _, isAlloc := ua.X.(*ssa.Alloc); isAlloc {
			return true
		}
	}
	return false
}

// RunReuseKey: a value built by F(p, ...) that keeps the pointer p may only
// be replaced by an earlier one when the two arguments are the same object:
// choosing between "reuse" and "build" by comparing one field read through p
// (with a field of another object) lets two different arguments share a
// value that reads all of p's fields.
func RunReuseKey(w *World, r *Report, fns []*ssa.Function) {
	r.Rule("reusekey: where a phi chooses between a previously built value and a fresh call F(p, ...) whose result keeps p (stores it in the object it returns), the deciding condition must not be a comparison of a field loaded through p: equality of one field does not make the arguments interchangeable")
	for _, fn := range fns {
		if fn.Blocks == nil {
			continue
		}
		for _, b := range fn.Blocks {
			for _, in := range b.Instrs {
				ph, ok := in.(*ssa.Phi)
				if !ok {
					break
				}
				var call *ssa.Call
				var callPred *ssa.BasicBlock
				other := false
				for i, e := range ph.Edges {
					if c, ok := e.(*ssa.Call); ok && c.Call.StaticCallee() != nil && c.Call.StaticCallee().Blocks != nil {
						call, callPred = c, b.Preds[i]
					} else {
						other = true
					}
				}
				if call == nil || !other {
					continue
				}
				callee := call.Call.StaticCallee()
				if os.Getenv("SFNT_MEMODEBUG") != "" {
					fmt.Println("reusekey candidate", fnName(fn), fnName(callee))
				}
				var keptAll []ssa.Value
				for ai, arg := range call.Call.Args {
					if _, ok := arg.Type().Underlying().(*types.Pointer); !ok {
						continue
					}
					if ai < len(callee.Params) && paramKeptInResult(callee, callee.Params[ai]) {
						keptAll = append(keptAll, arg)
					}
				}
				var kept ssa.Value
				if len(keptAll) > 0 {
					kept = keptAll[0]
				}
				if kept == nil {
					if os.Getenv("SFNT_MEMODEBUG") != "" {
						fmt.Println("   no kept param")
					}
					continue
				}
				key := r.MkKey("reusekey", fnName(fn), "reuse instead of "+fnName(callee))
				// the condition under which the call is made
				bad := ""
				conds := guardsOf(callPred)
				if len(callPred.Instrs) > 0 {
					if ifi, ok := callPred.Instrs[len(callPred.Instrs)-1].(*ssa.If); ok {
						conds = append(conds, guard{cond: ifi.Cond})
					}
				}
				for _, g := range conds {
					cmp, ok := g.cond.(*ssa.BinOp)
					if !ok || (cmp.Op != token.EQL && cmp.Op != token.NEQ) {
						continue
					}
					for _, side := range []ssa.Value{cmp.X, cmp.Y} {
						if u, ok := side.(*ssa.UnOp); ok && u.Op == token.MUL {
							isKept := false
							if fa, ok := u.X.(*ssa.FieldAddr); ok {
								for _, k := range keptAll {
									if sameObject(fa.X, k) {
										isKept = true
									}
								}
							}
							if fa, ok := u.X.(*ssa.FieldAddr); ok && isKept {
								bad = "the choice is made by comparing the field " + fieldName(fa) + " read through the argument (" + w.Pos(cmp.Pos()) + ")"
							}
						}
					}
				}
				if bad == "" {
					r.OK("reusekey", key, w.Pos(ph.Pos()), "not decided by a field of the kept argument")
				} else {
					r.Fail("reusekey", key, w.Pos(call.Pos()), fnName(callee)+" keeps its argument in the value it returns, but "+bad+": two arguments that agree in that field and differ elsewhere get the same value", nil)
				}
			}
		}
	}
}

// sameObject: two pointer values denote the same object (same SSA value, or loads of the same address).
func sameObject(a, b ssa.Value) bool {
	if a == b {
		return true
	}
	ua, ok1 := a.(*ssa.UnOp)
	ub, ok2 := b.(*ssa.UnOp)
	if ok1 && ok2 && ua.Op == token.MUL && ub.Op == token.MUL {
		if ua.X == ub.X {
			return true
		}
		fa, ok3 := ua.X.(*ssa.FieldAddr)
		fb, ok4 := ub.X.(*ssa.FieldAddr)
		if ok3 && ok4 && fa.Field == fb.Field && sameObject(fa.X, fb.X) {
			return true
		}
	}
	return false
}

// RunLoopAlias: a map (or pointer to a fresh object) created before a loop
// and stored into a different element of a collection on every iteration
// makes all elements the same object: what is written for one element shows
// up in all of them.
func RunLoopAlias(w *World, r *Report, fns []*ssa.Function) {
	r.Rule("loopalias: no map created outside a loop is stored into a slice element / appended to a slice / stored under a varying key inside the loop while the loop also updates it: the elements would all alias one map (per-element objects are created inside the loop)")
	for _, fn := range fns {
		if fn.Blocks == nil {
			continue
		}
		loops := naturalLoops(fn)
		for _, b := range fn.Blocks {
			for _, in := range b.Instrs {
				mk, ok := in.(*ssa.MakeMap)
				if !ok || mk.Referrers() == nil {
					continue
				}
				for _, l := range loops {
					if l.body[mk.Block()] {
						continue
					}
					stored, updated := false, false
					var at token.Pos
					var visit func(v ssa.Value, depth int)
					seen := map[ssa.Value]bool{}
					visit = func(v ssa.Value, depth int) {
						if seen[v] || depth > 4 || v.Referrers() == nil {
							return
						}
						seen[v] = true
						for _, ref := range *v.Referrers() {
							if ref.Block() == nil || !l.body[ref.Block()] {
								continue
							}
							switch x := ref.(type) {
							case *ssa.ChangeType:
								visit(x, depth+1)
							case *ssa.MapUpdate:
								if x.Map == v {
									updated = true
								}
								if x.Value == v {
									stored, at = true, x.Pos()
								}
							case *ssa.Store:
								if x.Val == v {
									if _, ok := x.Addr.(*ssa.IndexAddr); ok {
										stored, at = true, x.Pos()
									}
								}
							case *ssa.Call:
								// a method of the map type that updates it (setFontMatrix): count as update
								if c := x.Call.StaticCallee(); c != nil && len(x.Call.Args) > 0 && x.Call.Args[0] == v {
									if writesMapParam(c) {
										updated = true
									}
								}
								if bi, ok := x.Call.Value.(*ssa.Builtin); ok && bi.Name() == "append" {
									stored, at = true, x.Pos()
								}
							}
						}
					}
					visit(mk, 0)
					if !stored {
						continue
					}
					key := r.MkKey("loopalias", fnName(fn), "map "+mk.Name()+" stored per iteration")
					if updated {
						r.Fail("loopalias", key, w.Pos(at), "a map created once before the loop is stored into a different element on every iteration and also updated in the loop: all elements are the same map, so entries written for one element (and never deleted) appear in all of them", nil)
					} else {
						r.OK("loopalias", key, w.Pos(at), "stored but not updated in the loop")
					}
				}
			}
		}
	}
}

func writesMapParam(fn *ssa.Function) bool {
	if fn.Blocks == nil || len(fn.Params) == 0 {
		return false
	}
	for _, b := range fn.Blocks {
		for _, in := range b.Instrs {
			if mu, ok := in.(*ssa.MapUpdate); ok && mu.Map == ssa.Value(fn.Params[0]) {
				return true
			}
		}
	}
	return false
}

// RunBoundsControls runs the linear prover on the ctlBounds* examples of
// /verif/controls: every ctlBoundsBad* function has a site that can fail at
// run time and must keep at least one unproven site (a prover that proves it
// is unsound), every ctlBoundsGood* function must be proven completely (a
// prover that cannot is too weak to be the one the other numbers were
// obtained with).
func RunBoundsControls(r *Report) {
	r.Rule("provercontrol: the linear prover, run on the must-fail and must-pass examples in /verif/controls/prover.go, leaves every unsafe example unproven and proves every safe one")
	cw, err := controlWorld(r.verifDir)
	if err != nil {
		r.Fail("provercontrol", r.MkKey("provercontrol", "controls", "load"), "-", "cannot load the control package: "+err.Error(), nil)
		return
	}
	var fns []*ssa.Function
	for _, f := range cw.LibFuncs() {
		if strings.HasPrefix(f.Name(), "ctlBounds") && f.Parent() == nil {
			fns = append(fns, f)
		}
	}
	sort.Slice(fns, func(i, j int) bool { return fnName(fns[i]) < fnName(fns[j]) })
	br := newBoundsRun(cw)
	var results map[*ssa.Function][]siteResult
	func() {
		defer func() {
			if x := recover(); x != nil {
				r.Fatal("prover panic on the control package: %v", x)
			}
		}()
		results = br.analyse(fns)
	}()
	nBad, nGood := 0, 0
	for _, fn := range fns {
		unproven := 0
		var first string
		for _, res := range results[fn] {
			if !res.ok {
				unproven++
				if first == "" {
					first = cw.Pos(res.site.ins.Pos()) + " " + res.site.descr
				}
			}
		}
		key := r.MkKey("provercontrol", fn.Name(), "verdict")
		switch {
		case strings.HasPrefix(fn.Name(), "ctlBoundsBad"):
			nBad++
			if unproven > 0 {
				r.OK("provercontrol", key, cw.Pos(fn.Pos()), fmt.Sprintf("%d site(s) left unproven, as they must be", unproven))
			} else {
				r.Fail("provercontrol", key, cw.Pos(fn.Pos()), "the prover shows every site of this example in range although one of them fails at run time for some input: the prover is unsound and nothing it discharges can be believed", nil)
			}
		case strings.HasPrefix(fn.Name(), "ctlBoundsGood"):
			nGood++
			if unproven == 0 {
				r.OK("provercontrol", key, cw.Pos(fn.Pos()), fmt.Sprintf("all %d sites proven", len(results[fn])))
			} else {
				r.Fail("provercontrol", key, cw.Pos(fn.Pos()), "the prover cannot show this safe example in range ("+first+")", nil)
			}
		}
	}
	r.Floor("provercontrol", 58)
	_, _ = nBad, nGood
}

// RunEffectControls runs the write-effect analysis on the ctlRO* methods of
// /verif/controls/effects.go: every ctlROBad* method writes memory reachable
// from its receiver and must be reported, every ctlROGood* method must pass.
func RunEffectControls(r *Report) {
	r.Rule("effectcontrol: the write-effect analysis, run on the must-report and must-pass methods in /verif/controls/effects.go, reports every method that writes memory reachable from its receiver (through fields, elements, aliases, helpers, interfaces, closures, method values, in-place append, sort, copy, maps, goroutines, defers, lazy initialisation, recursion) and none that only reads it")
	cw, err := controlWorld(r.verifDir)
	if err != nil {
		r.Fail("effectcontrol", r.MkKey("effectcontrol", "controls", "load"), "-", "cannot load the control package: "+err.Error(), nil)
		return
	}
	var names []string
	for _, f := range cw.LibFuncs() {
		if strings.HasPrefix(f.Name(), "ctlRO") && f.Parent() == nil {
			names = append(names, fnName(f))
		}
	}
	sort.Strings(names)
	sub := NewReport(r.Property, r.Tier, r.verifDir)
	sub.table = map[string]TableEntry{}
	sub.known = map[string]KnownFinding{}
	sub.W = cw
	func() {
		defer func() {
			if x := recover(); x != nil {
				r.Fatal("effects engine panic on the control package: %v", x)
			}
		}()
		RunReadOnly(cw, sub, NewEffects(cw), "readonly", names, 0)
	}()
	for _, o := range sub.Obls {
		if o.Rule != "readonly" {
			continue
		}
		parts := strings.Split(o.Key, "|")
		name := parts[1]
		key := r.MkKey("effectcontrol", name, "verdict")
		reported := o.Status == StViolation
		switch {
		case strings.Contains(name, "ctlROBad") && reported:
			r.OK("effectcontrol", key, o.Pos, "reported: "+o.Detail)
		case strings.Contains(name, "ctlROBad"):
			r.Fail("effectcontrol", key, o.Pos, "this method writes memory reachable from its receiver and the effect analysis does not report it: the analysis is unsound and its verdicts on the library cannot be believed", nil)
		case strings.Contains(name, "ctlROGood") && !reported:
			r.OK("effectcontrol", key, o.Pos, "no write reported")
		default:
			r.Fail("effectcontrol", key, o.Pos, "this read-only method is reported: "+o.Detail, nil)
		}
	}
	r.Floor("effectcontrol", 37)
}

// RunMapdetControls runs the order-sensitivity analysis on the ctlMap*
// examples of /verif/controls/mapdet.go.
func RunMapdetControls(r *Report) {
	r.Rule("mapdetcontrol: the order-sensitivity analysis, run on the must-report and must-pass examples in /verif/controls/mapdet.go, reports every function whose result can depend on map iteration order (unsorted or partially sorted collection, first/last writer, concatenation, floating-point sum, output in the loop, colliding index, break, arg-min, numbering) and none of the order-insensitive ones")
	cw, err := controlWorld(r.verifDir)
	if err != nil {
		r.Fail("mapdetcontrol", r.MkKey("mapdetcontrol", "controls", "load"), "-", "cannot load the control package: "+err.Error(), nil)
		return
	}
	var fns []*ssa.Function
	for _, f := range cw.LibFuncs() {
		if strings.HasPrefix(f.Name(), "ctlMap") && f.Parent() == nil {
			fns = append(fns, f)
		}
	}
	sort.Slice(fns, func(i, j int) bool { return fnName(fns[i]) < fnName(fns[j]) })
	sub := NewReport(r.Property, r.Tier, r.verifDir)
	sub.table = map[string]TableEntry{}
	sub.known = map[string]KnownFinding{}
	sub.W = cw
	func() {
		defer func() {
			if x := recover(); x != nil {
				r.Fatal("mapdet panic on the control package: %v", x)
			}
		}()
		RunMapdet(cw, NewEffects(cw), sub, "mapdet", fns)
	}()
	for _, fn := range fns {
		reported, total := "", 0
		for _, o := range sub.Obls {
			if o.Rule != "mapdet" {
				continue
			}
			parts := strings.Split(o.Key, "|")
			if len(parts) < 2 || parts[1] != fnName(fn) {
				continue
			}
			total++
			if o.Status == StViolation && reported == "" {
				reported = o.Detail
			}
		}
		key := r.MkKey("mapdetcontrol", fn.Name(), "verdict")
		bad := strings.HasPrefix(fn.Name(), "ctlMapBad")
		switch {
		case total == 0:
			r.Fail("mapdetcontrol", key, cw.Pos(fn.Pos()), "the analysis found no map iteration in this example", nil)
		case bad && reported != "":
			r.OK("mapdetcontrol", key, cw.Pos(fn.Pos()), "reported: "+reported)
		case bad:
			r.Fail("mapdetcontrol", key, cw.Pos(fn.Pos()), "the result of this example depends on map iteration order and the analysis accepts it: the analysis is unsound", nil)
		case reported == "":
			r.OK("mapdetcontrol", key, cw.Pos(fn.Pos()), "accepted")
		default:
			r.Fail("mapdetcontrol", key, cw.Pos(fn.Pos()), "this order-insensitive example is reported: "+reported, nil)
		}
	}
	r.Floor("mapdetcontrol", 26)
}

// RunLosslessControls runs the narrowing-conversion rule on the ctlNarrow*
// examples of /verif/controls/lossless.go.
func RunLosslessControls(r *Report) {
	r.Rule("losslesscontrol: the narrowing-conversion rule, run on the must-report and must-pass examples in /verif/controls/lossless.go, reports every conversion that can change the value (guard on another variable, off by one, after the fact, on one path only; missing pieces; sums and products; negative values; lengths; signed targets; masks wider than the target) and none of the safe ones")
	cw, err := controlWorld(r.verifDir)
	if err != nil {
		r.Fail("losslesscontrol", r.MkKey("losslesscontrol", "controls", "load"), "-", "cannot load the control package: "+err.Error(), nil)
		return
	}
	var fns []*ssa.Function
	for _, f := range cw.LibFuncs() {
		if strings.HasPrefix(f.Name(), "ctlNarrow") && f.Name() != "ctlNarrowArith" && f.Parent() == nil {
			fns = append(fns, f)
		}
	}
	sort.Slice(fns, func(i, j int) bool { return fnName(fns[i]) < fnName(fns[j]) })
	sub := NewReport(r.Property, r.Tier, r.verifDir)
	sub.table = map[string]TableEntry{}
	sub.known = map[string]KnownFinding{}
	sub.W = cw
	func() {
		defer func() {
			if x := recover(); x != nil {
				r.Fatal("lossless panic on the control package: %v", x)
			}
		}()
		RunLossless(cw, sub, "lossless", newBoundsRun(cw), fns)
	}()
	for _, fn := range fns {
		reported, total := "", 0
		for _, o := range sub.Obls {
			if o.Rule != "lossless" {
				continue
			}
			parts := strings.Split(o.Key, "|")
			if len(parts) < 2 || parts[1] != fnName(fn) {
				continue
			}
			total++
			if o.Status == StViolation && reported == "" {
				reported = o.Detail
			}
		}
		key := r.MkKey("losslesscontrol", fn.Name(), "verdict")
		bad := strings.HasPrefix(fn.Name(), "ctlNarrowBad")
		switch {
		case total == 0:
			r.Fail("losslesscontrol", key, cw.Pos(fn.Pos()), "the rule found no narrowing conversion in this example", nil)
		case bad && reported != "":
			r.OK("losslesscontrol", key, cw.Pos(fn.Pos()), "reported: "+reported)
		case bad:
			r.Fail("losslesscontrol", key, cw.Pos(fn.Pos()), "a conversion in this example can change the value and the rule accepts it: the rule is unsound", nil)
		case reported == "":
			r.OK("losslesscontrol", key, cw.Pos(fn.Pos()), "accepted")
		default:
			r.Fail("losslesscontrol", key, cw.Pos(fn.Pos()), "this safe example is reported: "+reported, nil)
		}
	}
	r.Floor("losslesscontrol", 20)
}

// RunLoopControls runs the termination rule on the ctlLoop* examples of
// /verif/controls/loops.go.
func RunLoopControls(r *Report) {
	r.Rule("loopcontrol: the termination rule, run on the must-report and must-pass examples in /verif/controls/loops.go, finds no termination argument for any loop that can run for ever (step of unknown sign, continue without progress, != with a step of 2, 16-bit counters that wrap, a decrement that undoes the increment, a moving bound, list and work-list traversals of possibly cyclic data, alternating counters, unsigned count-down, a slice that grows with the counter) and one for each loop that always ends")
	cw, err := controlWorld(r.verifDir)
	if err != nil {
		r.Fail("loopcontrol", r.MkKey("loopcontrol", "controls", "load"), "-", "cannot load the control package: "+err.Error(), nil)
		return
	}
	var fns []*ssa.Function
	for _, f := range cw.LibFuncs() {
		if strings.HasPrefix(f.Name(), "ctlLoop") && f.Name() != "ctlLoopAlias" && f.Parent() == nil {
			fns = append(fns, f)
		}
	}
	sort.Slice(fns, func(i, j int) bool { return fnName(fns[i]) < fnName(fns[j]) })
	sub := NewReport(r.Property, r.Tier, r.verifDir)
	sub.table = map[string]TableEntry{}
	sub.known = map[string]KnownFinding{}
	sub.W = cw
	func() {
		defer func() {
			if x := recover(); x != nil {
				r.Fatal("loopterm panic on the control package: %v", x)
			}
		}()
		runLoopTerm(cw, sub, newBoundsRun(cw), fns, false)
	}()
	for _, fn := range fns {
		reported, total := "", 0
		for _, o := range sub.Obls {
			if o.Rule != "loopterm" {
				continue
			}
			parts := strings.Split(o.Key, "|")
			if len(parts) < 2 || parts[1] != fnName(fn) {
				continue
			}
			total++
			if o.Status == StViolation && reported == "" {
				reported = o.Detail
			}
		}
		key := r.MkKey("loopcontrol", fn.Name(), "verdict")
		bad := strings.HasPrefix(fn.Name(), "ctlLoopBad")
		switch {
		case total == 0:
			r.Fail("loopcontrol", key, cw.Pos(fn.Pos()), "the rule found no loop in this example", nil)
		case bad && reported != "":
			r.OK("loopcontrol", key, cw.Pos(fn.Pos()), "no termination argument, as it must be")
		case bad:
			r.Fail("loopcontrol", key, cw.Pos(fn.Pos()), "this loop can run for ever and the rule accepts a termination argument for it: the rule is unsound", nil)
		case reported == "":
			r.OK("loopcontrol", key, cw.Pos(fn.Pos()), "termination argument found")
		default:
			r.Fail("loopcontrol", key, cw.Pos(fn.Pos()), "this terminating example is reported: "+reported, nil)
		}
	}
	r.Floor("loopcontrol", 24)
}

// RunErrControls runs the error-flow rule on the ctlErr* examples of
// /verif/controls/errflow.go.
func RunErrControls(r *Report) {
	r.Rule("errcontrol: the error-flow rule, run on the must-report and must-pass examples in /verif/controls/errflow.go, reports every function that loses the error of an I/O call (discarded, only tested, overwritten before it is read, ignored result of a helper, go, defer, binary.Write, Read, returned on one path only) and none that reports it or writes to memory only")
	cw, err := controlWorld(r.verifDir)
	if err != nil {
		r.Fail("errcontrol", r.MkKey("errcontrol", "controls", "load"), "-", "cannot load the control package: "+err.Error(), nil)
		return
	}
	var fns []*ssa.Function
	for _, f := range cw.LibFuncs() {
		if strings.HasPrefix(f.Name(), "ctlErr") && f.Name() != "ctlErrHelper" && f.Parent() == nil {
			fns = append(fns, f)
		}
	}
	sort.Slice(fns, func(i, j int) bool { return fnName(fns[i]) < fnName(fns[j]) })
	sub := NewReport(r.Property, r.Tier, r.verifDir)
	sub.table = map[string]TableEntry{}
	sub.known = map[string]KnownFinding{}
	sub.W = cw
	func() {
		defer func() {
			if x := recover(); x != nil {
				r.Fatal("errflow panic on the control package: %v", x)
			}
		}()
		ef := &errflow{w: cw, r: sub}
		ef.computeIOErr()
		ef.RunErrDrop(fns)
	}()
	for _, fn := range fns {
		reported, total := "", 0
		for _, o := range sub.Obls {
			if o.Rule != "errdrop" {
				continue
			}
			parts := strings.Split(o.Key, "|")
			if len(parts) < 2 || parts[1] != fnName(fn) {
				continue
			}
			total++
			if o.Status == StViolation && reported == "" {
				reported = o.Detail
			}
		}
		key := r.MkKey("errcontrol", fn.Name(), "verdict")
		bad := strings.HasPrefix(fn.Name(), "ctlErrBad")
		switch {
		case bad && reported != "":
			r.OK("errcontrol", key, cw.Pos(fn.Pos()), "reported: "+reported)
		case bad:
			r.Fail("errcontrol", key, cw.Pos(fn.Pos()), "this example loses an I/O error and the rule accepts it: the rule is unsound", nil)
		case reported == "":
			r.OK("errcontrol", key, cw.Pos(fn.Pos()), fmt.Sprintf("accepted (%d I/O calls)", total))
		default:
			r.Fail("errcontrol", key, cw.Pos(fn.Pos()), "this example reports its errors and is flagged: "+reported, nil)
		}
	}
	r.Floor("errcontrol", 14)
}

// RunSizeControls runs the size-agreement rule on the ctlSz* types of
// /verif/controls/sizes.go.
func RunSizeControls(r *Report) {
	r.Rule("sizecontrol: the size-agreement rule, run on the must-report and must-pass types in /verif/controls/sizes.go, reports every pair whose encodeLen and encode disagree (header size, stride, an optional field, the wrong slice, padding, a child left out) and none that agree")
	cw, err := controlWorld(r.verifDir)
	if err != nil {
		r.Fail("sizecontrol", r.MkKey("sizecontrol", "controls", "load"), "-", "cannot load the control package: "+err.Error(), nil)
		return
	}
	sub := NewReport(r.Property, r.Tier, r.verifDir)
	sub.table = map[string]TableEntry{}
	sub.known = map[string]KnownFinding{}
	sub.W = cw
	func() {
		defer func() {
			if x := recover(); x != nil {
				r.Fatal("sizeagree panic on the control package: %v", x)
			}
		}()
		RunSizeAgree(cw, sub, nil)
	}()
	n := 0
	for _, o := range sub.Obls {
		if o.Rule != "sizeagree" {
			continue
		}
		parts := strings.Split(o.Key, "|")
		if len(parts) < 2 || !strings.Contains(parts[1], "ctlSz") {
			continue
		}
		n++
		name := parts[1][strings.Index(parts[1], "ctlSz"):]
		key := r.MkKey("sizecontrol", name, "verdict")
		reported := o.Status == StViolation
		bad := strings.HasPrefix(name, "ctlSzBad")
		switch {
		case bad && reported:
			r.OK("sizecontrol", key, o.Pos, "reported: "+o.Detail)
		case bad:
			r.Fail("sizecontrol", key, o.Pos, "encodeLen and encode of this type disagree and the rule accepts the pair: the rule is unsound", nil)
		case !reported:
			r.OK("sizecontrol", key, o.Pos, "accepted")
		default:
			r.Fail("sizecontrol", key, o.Pos, "this consistent pair is reported: "+o.Detail, nil)
		}
	}
	r.Floor("sizecontrol", 9)
}

// RunAllocControls runs the allocation-bound rule on the ctlAlloc* examples.
func RunAllocControls(r *Report) {
	r.Rule("alloccontrol: the allocation-bound rule, run on the must-report and must-pass examples in /verif/controls/alloc.go, reports every allocation whose size the input controls without limit (a 32-bit count, a product of two 16-bit counts, a map reservation, a guard on another value) and none that is capped or proportional to data in memory")
	cw, err := controlWorld(r.verifDir)
	if err != nil {
		r.Fail("alloccontrol", r.MkKey("alloccontrol", "controls", "load"), "-", "cannot load the control package: "+err.Error(), nil)
		return
	}
	var fns []*ssa.Function
	for _, f := range cw.LibFuncs() {
		if strings.HasPrefix(f.Name(), "ctlAlloc") && f.Parent() == nil {
			fns = append(fns, f)
		}
	}
	sort.Slice(fns, func(i, j int) bool { return fnName(fns[i]) < fnName(fns[j]) })
	sub := NewReport(r.Property, r.Tier, r.verifDir)
	sub.table = map[string]TableEntry{}
	sub.known = map[string]KnownFinding{}
	sub.W = cw
	func() {
		defer func() {
			if x := recover(); x != nil {
				r.Fatal("allocbound panic on the control package: %v", x)
			}
		}()
		RunAllocBound(cw, sub, newBoundsRun(cw), fns)
	}()
	sub.Floors = map[string]int{}
	for _, fn := range fns {
		reported, total := "", 0
		for _, o := range sub.Obls {
			if o.Rule != "allocbound" {
				continue
			}
			parts := strings.Split(o.Key, "|")
			if len(parts) < 2 || parts[1] != fnName(fn) {
				continue
			}
			total++
			if o.Status == StViolation && reported == "" {
				reported = o.Detail
			}
		}
		key := r.MkKey("alloccontrol", fn.Name(), "verdict")
		bad := strings.HasPrefix(fn.Name(), "ctlAllocBad")
		switch {
		case total == 0:
			r.Fail("alloccontrol", key, cw.Pos(fn.Pos()), "the rule found no allocation in this example", nil)
		case bad && reported != "":
			r.OK("alloccontrol", key, cw.Pos(fn.Pos()), "reported")
		case bad:
			r.Fail("alloccontrol", key, cw.Pos(fn.Pos()), "the input controls the size of this allocation without limit and the rule accepts it: the rule is unsound", nil)
		case reported == "":
			r.OK("alloccontrol", key, cw.Pos(fn.Pos()), "accepted")
		default:
			r.Fail("alloccontrol", key, cw.Pos(fn.Pos()), "this bounded allocation is reported: "+reported, nil)
		}
	}
	r.Floor("alloccontrol", 7)
}

// RunNilControls runs rule nilderef on the CtlNil* examples of /verif/controls/nil.go.
func RunNilControls(r *Report) {
	r.Rule("nilcontrol: rule nilderef, run on the must-report and must-pass examples in /verif/controls/nil.go, reports every dereference of a value that can be nil (a missing map key, also through a helper; an ignored error; a callee that returns nil with a nil error; an unchecked field chain; a value set on one path only; a write to a nil map; a nil function value; a pointer reset before use; a typed nil pointer inside an interface) and none that cannot")
	cw, err := controlWorld(r.verifDir)
	if err != nil {
		r.Fail("nilcontrol", r.MkKey("nilcontrol", "controls", "load"), "-", "cannot load the control package: "+err.Error(), nil)
		return
	}
	var fns []*ssa.Function
	for _, f := range cw.LibFuncs() {
		if (strings.HasPrefix(f.Name(), "CtlNil") || f.Name() == "ctlFind" || f.Name() == "ctlMake" || f.Name() == "ctlMaybe") && f.Parent() == nil {
			fns = append(fns, f)
		}
	}
	sub := NewReport(r.Property, r.Tier, r.verifDir)
	sub.table = map[string]TableEntry{}
	sub.known = map[string]KnownFinding{}
	sub.W = cw
	func() {
		defer func() {
			if x := recover(); x != nil {
				r.Fatal("nilderef panic on the control package: %v", x)
			}
		}()
		RunNilDeref(cw, sub, newBoundsRun(cw), fns)
	}()
	sort.Slice(fns, func(i, j int) bool { return fnName(fns[i]) < fnName(fns[j]) })
	for _, fn := range fns {
		if !strings.HasPrefix(fn.Name(), "CtlNil") {
			continue
		}
		reported := ""
		for _, o := range sub.Obls {
			if o.Rule != "nilderef" {
				continue
			}
			parts := strings.Split(o.Key, "|")
			if len(parts) < 2 || parts[1] != fnName(fn) {
				continue
			}
			if o.Status == StViolation && reported == "" {
				reported = o.Detail
			}
		}
		key := r.MkKey("nilcontrol", fn.Name(), "verdict")
		bad := strings.HasPrefix(fn.Name(), "CtlNilBad")
		switch {
		case bad && reported != "":
			r.OK("nilcontrol", key, cw.Pos(fn.Pos()), "reported")
		case bad:
			r.Fail("nilcontrol", key, cw.Pos(fn.Pos()), "this example dereferences a value that can be nil and rule nilderef accepts it: the rule is unsound", nil)
		case reported == "":
			r.OK("nilcontrol", key, cw.Pos(fn.Pos()), "accepted")
		default:
			r.Fail("nilcontrol", key, cw.Pos(fn.Pos()), "this safe example is reported: "+reported, nil)
		}
	}
	r.Floor("nilcontrol", 16)
}
