package main

// E1 boundsprove: an intra-procedural prover for linear integer facts over
// go/ssa values.  It decides obligations of the form  e >= 0  (e a linear
// combination of SSA integer values and slice lengths) from
//
//   - the branch conditions that dominate the program point (guardsOf),
//   - the type ranges of the values involved (uint8 in [0,255], len >= 0, ...),
//   - definitional relations (x = a + b when the machine operation provably
//     does not wrap, len(make([]T, n)) = n, len(s[a:b]) = b - a, ...),
//   - induction on loop counters (phi(init, phi + c), c >= 0  =>  phi >= init),
//   - contracts of a few helpers ((*parser.Parser).ReadBytes(n) returns n
//     bytes when the error is nil; sort.Search returns 0..n; copy, min, max),
//   - case splits over the incoming edges of non-loop phis,
//
// using Fourier-Motzkin elimination with integer tightening.  Everything
// else is an opaque atom.  The prover is sound under the assumptions listed
// in boundsAssumptions; it is incomplete, and what it cannot prove is
// reported, never assumed.

import (
	"os"
	"fmt"
	"go/constant"
	"go/token"
	"go/types"
	"sort"
	"strings"

	"golang.org/x/tools/go/ssa"
)

var boundsAssumptions = []string{
	"A1: additions and subtractions of values of type int, int64, uint, uint64 (64-bit on the analysed GOARCH=amd64) do not wrap upwards: such values are file offsets, lengths and counters derived from at most 32-bit input fields; subtraction of unsigned 64-bit values is still required to be proven non-negative. Arithmetic in narrower types (uint8..uint32, int8..int32) is treated as exact only when the prover shows the result fits, otherwise the result is an opaque value of that type",
	"A2: code outside the module does not write fields of module struct types except through pointers passed to it",
	"A3: a slice value is immutable in length (SSA), and memory loads are identified only along paths without an intervening store to the same field/cell type or a call that may perform one",
}

type akind uint8

const (
	aVal akind = iota
	aLen
	aCap
	aNonNil // 1 if the pointer-like value is not nil, else 0
	aQuot   // integer witness: for v = x % c the quotient with x = c*q + v; for a stepping loop phi the number of steps taken
)

type atom struct {
	k akind
	v ssa.Value
}

// blin (bounds linear form) is  k + sum t[a]*a
type blin struct {
	k int64
	t map[atom]int64
}

const linMax = int64(1) << 60

func blconst(c int64) blin { return blin{k: c} }
func blatom(a atom) blin  { return blin{t: map[atom]int64{a: 1}} }

func (a blin) isConst() bool { return len(a.t) == 0 }

func okMag(x int64) bool { return x < linMax && x > -linMax }

func (a blin) add(b blin) (blin, bool) {
	r := blin{k: a.k + b.k}
	if !okMag(a.k) || !okMag(b.k) || !okMag(r.k) {
		return blin{}, false
	}
	if len(a.t)+len(b.t) > 0 {
		r.t = make(map[atom]int64, len(a.t)+len(b.t))
		for k, v := range a.t {
			r.t[k] = v
		}
		for k, v := range b.t {
			n := r.t[k] + v
			if !okMag(n) {
				return blin{}, false
			}
			if n == 0 {
				delete(r.t, k)
			} else {
				r.t[k] = n
			}
		}
	}
	return r, true
}

func (a blin) scale(c int64) (blin, bool) {
	if c == 0 {
		return blconst(0), true
	}
	mul := func(x int64) (int64, bool) {
		if x == 0 {
			return 0, true
		}
		r := x * c
		if r/c != x || !okMag(r) {
			return 0, false
		}
		return r, true
	}
	k, ok := mul(a.k)
	if !ok {
		return blin{}, false
	}
	r := blin{k: k}
	if len(a.t) > 0 {
		r.t = make(map[atom]int64, len(a.t))
		for at, v := range a.t {
			n, ok := mul(v)
			if !ok {
				return blin{}, false
			}
			r.t[at] = n
		}
	}
	return r, true
}

func (a blin) sub(b blin) (blin, bool) {
	nb, ok := b.scale(-1)
	if !ok {
		return blin{}, false
	}
	return a.add(nb)
}

func (a blin) addc(c int64) blin {
	r, ok := a.add(blconst(c))
	if !ok {
		return a
	}
	return r
}

func (a blin) subst(at atom, by blin) (blin, bool) {
	c, ok := a.t[at]
	if !ok {
		return a, true
	}
	rest := blin{k: a.k, t: map[atom]int64{}}
	for k, v := range a.t {
		if k != at {
			rest.t[k] = v
		}
	}
	sb, ok := by.scale(c)
	if !ok {
		return blin{}, false
	}
	return rest.add(sb)
}

// ---------------------------------------------------------------- ranges

type irange struct {
	lo, hi       int64
	hasLo, hasHi bool
}

func (r irange) within(o irange) bool {
	if o.hasLo && (!r.hasLo || r.lo < o.lo) {
		return false
	}
	if o.hasHi && (!r.hasHi || r.hi > o.hi) {
		return false
	}
	return true
}

func typeRange(t types.Type) irange {
	b, ok := t.Underlying().(*types.Basic)
	if !ok {
		return irange{}
	}
	switch b.Kind() {
	case types.Int8:
		return irange{-128, 127, true, true}
	case types.Int16:
		return irange{-32768, 32767, true, true}
	case types.Int32, types.UntypedRune:
		return irange{-1 << 31, 1<<31 - 1, true, true}
	case types.Uint8:
		return irange{0, 255, true, true}
	case types.Uint16:
		return irange{0, 65535, true, true}
	case types.Uint32:
		return irange{0, 1<<32 - 1, true, true}
	case types.Uint, types.Uint64, types.Uintptr:
		return irange{0, 0, true, false}
	}
	return irange{}
}

func is64(t types.Type) bool {
	b, ok := t.Underlying().(*types.Basic)
	if !ok {
		return false
	}
	switch b.Kind() {
	case types.Int, types.Int64, types.Uint, types.Uint64, types.Uintptr, types.UntypedInt:
		return true
	}
	return false
}

func isUnsigned(t types.Type) bool {
	b, ok := t.Underlying().(*types.Basic)
	return ok && b.Info()&types.IsUnsigned != 0
}

// ---------------------------------------------------------------- prover

type bfact struct {
	e   blin  // e >= 0 (or e != 0 when ne)
	ne  bool // disequality
	why string
}

type bprover struct {
	w        *World
	fn       *ssa.Function
	linMemo  map[ssa.Value]blin
	phiCondDepth int
	lenMemo  map[ssa.Value]blin
	rngMemo  map[atom]irange
	rngBusy  map[atom]bool
	canon    map[*ssa.UnOp]ssa.Value // memory loads -> representative value
	canonLen map[*ssa.Call]ssa.Value // len(map) calls -> representative value
	memAt    memQuery
	gcache   map[*ssa.BasicBlock][]bfact
	live     *liveCFG
	mem      *memInfo
	depth    int
	fmSteps  int
	iv         map[ssa.Value]irange // interval pre-pass
	inInduction int
	inInvFacts  int
	invCache    map[*ssa.BasicBlock][]bfact
	minLen     map[ssa.Value]int64
	trace      bool
	br         *boundsRun
	lkMemo     map[*ssa.Lookup]ssa.Value
	afMemo     map[atom][]bfact
	afBusy     map[atom]bool
	entryFacts []bfact // preconditions established at every call site, callback contracts
	elemBusy   map[ssa.Value]bool
}

func newProver(w *World, fn *ssa.Function, mem *memInfo) *bprover {
	p := &bprover{w: w, fn: fn, mem: mem,
		linMemo: map[ssa.Value]blin{}, lenMemo: map[ssa.Value]blin{},
		rngMemo: map[atom]irange{}, rngBusy: map[atom]bool{},
		gcache: map[*ssa.BasicBlock][]bfact{}, afMemo: map[atom][]bfact{}, afBusy: map[atom]bool{}}
	p.canon, p.canonLen, p.memAt = canonLoads(fn, mem)
	p.iv = intervalPass(fn)
	return p
}

func (p *bprover) atomStr(a atom) string {
	s := a.v.Name()
	if c, ok := a.v.(*ssa.Const); ok {
		s = c.String()
	}
	if _, isMem := a.v.(*memVal); isMem || a.v.Pos().IsValid() {
		if src := p.srcOf(a.v); src != "" {
			s = src
		}
	}
	switch a.k {
	case aLen:
		return "len(" + s + ")"
	case aCap:
		return "cap(" + s + ")"
	case aNonNil:
		return "nonnil(" + s + ")"
	case aQuot:
		return "steps(" + s + ")"
	}
	return s
}

// srcOf gives a readable rendering of a value (best effort).
func (p *bprover) srcOf(v ssa.Value) string {
	switch x := v.(type) {
	case *memVal:
		if strings.HasPrefix(x.key, "ML@") {
			return "len(map)"
		}
		if x.addr != nil {
			if x.blk != nil {
				return "*" + p.addrStr(x.addr) + "@join"
			}
			return "*" + p.addrStr(x.addr)
		}
		return "mem"
	case *ssa.Parameter:
		return x.Name()
	case *ssa.FreeVar:
		return x.Name()
	case *ssa.Phi:
		if x.Comment != "" {
			return x.Comment
		}
	case *ssa.UnOp:
		if x.Op == token.MUL {
			return "*" + p.addrStr(x.X)
		}
	case *ssa.Extract:
		return fmt.Sprintf("%s#%d", p.srcOf(x.Tuple), x.Index)
	case *ssa.Call:
		if c := x.Call.StaticCallee(); c != nil {
			return shortName(c.Name()) + "()"
		}
		return "call"
	case *ssa.Alloc:
		if x.Comment != "" {
			return x.Comment
		}
	}
	return v.Name()
}

func (p *bprover) addrStr(v ssa.Value) string {
	switch x := v.(type) {
	case *ssa.FieldAddr:
		st := x.X.Type().Underlying().(*types.Pointer).Elem().Underlying().(*types.Struct)
		return p.srcOf(x.X) + "." + st.Field(x.Field).Name()
	case *ssa.IndexAddr:
		return p.srcOf(x.X) + "[…]"
	}
	return p.srcOf(v)
}

func (p *bprover) linStr(l blin) string {
	var parts []string
	for a, c := range l.t {
		s := p.atomStr(a)
		switch c {
		case 1:
			parts = append(parts, "+"+s)
		case -1:
			parts = append(parts, "-"+s)
		default:
			parts = append(parts, fmt.Sprintf("%+d*%s", c, s))
		}
	}
	sort.Strings(parts)
	if l.k != 0 || len(parts) == 0 {
		parts = append(parts, fmt.Sprintf("%+d", l.k))
	}
	return strings.TrimPrefix(strings.Join(parts, " "), "+")
}

// ---- linear form of integer values

func (p *bprover) linOf(v ssa.Value) blin {
	if l, ok := p.linMemo[v]; ok {
		return l
	}
	// provisional entry cuts recursion
	p.linMemo[v] = blatom(atom{aVal, v})
	l := p.linOf1(v)
	p.linMemo[v] = l
	return l
}

func bconstInt(v ssa.Value) (int64, bool) {
	c, ok := v.(*ssa.Const)
	if !ok || c.Value == nil {
		return 0, false
	}
	if c.Value.Kind() != constant.Int {
		return 0, false
	}
	i, exact := constant.Int64Val(c.Value)
	if !exact {
		return 0, false
	}
	return i, true
}

func (p *bprover) linOf1(v ssa.Value) blin {
	self := blatom(atom{aVal, v})
	if !isIntType(v.Type()) {
		return self
	}
	if freshZero(v) {
		return blconst(0)
	}
	if src, ok := phiSource(v); ok {
		if srcDominates(src, v) {
			return p.linOf(src)
		}
	}
	switch x := v.(type) {
	case *memVal:
		var first blin
		n := 0
		for _, e := range x.edges {
			if e == ssa.Value(x) {
				continue
			}
			l := p.linOf(e)
			if n > 0 && !blinEq(first, l) {
				return self
			}
			first = l
			n++
		}
		if n > 0 && !p.mentions(first, x) {
			return first
		}
		return self
	case *ssa.Const:
		if c, ok := bconstInt(x); ok && okMag(c) {
			return blconst(c)
		}
	case *ssa.BinOp:
		switch x.Op {
		case token.ADD, token.SUB:
			a, b := p.linOf(x.X), p.linOf(x.Y)
			var r blin
			var ok bool
			if x.Op == token.ADD {
				r, ok = a.add(b)
			} else {
				r, ok = a.sub(b)
			}
			if ok && p.fits(r, x, x.Op == token.SUB) {
				return r
			}
		case token.MUL:
			if c, ok := bconstInt(x.Y); ok {
				if r, ok := p.linOf(x.X).scale(c); ok && p.fits(r, x, false) {
					return r
				}
			} else if c, ok := bconstInt(x.X); ok {
				if r, ok := p.linOf(x.Y).scale(c); ok && p.fits(r, x, false) {
					return r
				}
			}
		case token.SHL:
			if c, ok := bconstInt(x.Y); ok && c >= 0 && c < 60 {
				if r, ok := p.linOf(x.X).scale(int64(1) << uint(c)); ok && p.fits(r, x, false) {
					return r
				}
			}
		case token.OR, token.XOR:
			// disjoint-bit composition  (a << 8) | b  with 0 <= b < 256  is a sum
			if r, ok := p.disjointOr(x); ok {
				return r
			}
		}
	case *ssa.Convert:
		if isIntType(x.X.Type()) {
			l := p.linOf(x.X)
			if p.fitsType(l, x.Type(), x) {
				return l
			}
		}
	case *ssa.ChangeType:
		return p.linOf(x.X)
	case *ssa.UnOp:
		switch x.Op {
		case token.SUB:
			if r, ok := p.linOf(x.X).scale(-1); ok && is64(x.Type()) && !isUnsigned(x.Type()) {
				return r
			}
		case token.MUL:
			if g, ok := x.X.(*ssa.Global); ok {
				if k, ok := p.w.globalInt(g); ok && okMag(k) && (irange{k, k, true, true}).within(typeRange(x.Type())) {
					return blconst(k)
				}
			}
			if c, ok := p.canon[x]; ok && c != ssa.Value(x) {
				return p.linOf(c)
			}
		}
	case *ssa.Call:
		if b, ok := x.Call.Value.(*ssa.Builtin); ok {
			switch b.Name() {
			case "len":
				// the length of a map changes under updates: it is not a property
				// of the map value; each len(m) is its own unknown (no identification)
				if _, isMap := x.Call.Args[0].Type().Underlying().(*types.Map); isMap {
					if c, ok := p.canonLen[x]; ok && c != ssa.Value(x) {
						return blatom(atom{aVal, c})
					}
					return self
				}
				return p.lenOf(x.Call.Args[0])
			case "cap":
				return blatom(atom{aCap, p.canonVal(x.Call.Args[0])})
			}
		}
	case *ssa.Phi:
		// all edges equal
		var first blin
		n := 0
		same := true
		for _, e := range x.Edges {
			if e == ssa.Value(x) {
				continue
			}
			l := p.linOf(e)
			if n == 0 {
				first = l
			} else if !blinEq(first, l) {
				same = false
				break
			}
			n++
		}
		if same && n > 0 && !p.mentions(first, x) {
			return first
		}
	}
	return self
}

func blinEq(a, b blin) bool {
	if a.k != b.k || len(a.t) != len(b.t) {
		return false
	}
	for k, v := range a.t {
		if b.t[k] != v {
			return false
		}
	}
	return true
}

func (p *bprover) mentions(l blin, v ssa.Value) bool {
	for a := range l.t {
		if a.v == v {
			return true
		}
	}
	return false
}

// disjointOr recognises  hi | lo  where hi is a multiple of 2^k and
// 0 <= lo < 2^k, so that the OR equals the sum.
func (p *bprover) disjointOr(x *ssa.BinOp) (blin, bool) {
	try := func(hi, lo ssa.Value) (blin, bool) {
		lr := p.rangeOfLin(p.linOf(lo))
		if !lr.hasLo || !lr.hasHi || lr.lo < 0 {
			return blin{}, false
		}
		k := uint(0)
		for (int64(1) << k) <= lr.hi {
			k++
		}
		if !p.multipleOfPow2(hi, k) {
			return blin{}, false
		}
		hr := p.rangeOfLin(p.linOf(hi))
		if !hr.hasLo || hr.lo < 0 {
			return blin{}, false
		}
		r, ok := p.linOf(hi).add(p.linOf(lo))
		if !ok || !p.fits(r, x, false) {
			return blin{}, false
		}
		return r, true
	}
	if r, ok := try(x.X, x.Y); ok {
		return r, true
	}
	return try(x.Y, x.X)
}

func (p *bprover) multipleOfPow2(v ssa.Value, k uint) bool {
	if k == 0 {
		return true
	}
	switch x := v.(type) {
	case *ssa.Const:
		c, ok := bconstInt(x)
		return ok && c%(int64(1)<<k) == 0
	case *ssa.BinOp:
		switch x.Op {
		case token.SHL:
			if c, ok := bconstInt(x.Y); ok && c >= int64(k) {
				return true
			}
		case token.OR, token.XOR, token.ADD:
			return p.multipleOfPow2(x.X, k) && p.multipleOfPow2(x.Y, k)
		case token.MUL:
			if c, ok := bconstInt(x.Y); ok && c%(int64(1)<<k) == 0 {
				return true
			}
			if c, ok := bconstInt(x.X); ok && c%(int64(1)<<k) == 0 {
				return true
			}
		}
	case *ssa.Convert:
		// widening conversions keep divisibility
		if isIntType(x.X.Type()) && btypeBits(x.Type()) >= btypeBits(x.X.Type()) {
			return p.multipleOfPow2(x.X, k)
		}
	}
	return false
}

func btypeBits(t types.Type) int {
	b, ok := t.Underlying().(*types.Basic)
	if !ok {
		return 64
	}
	switch b.Kind() {
	case types.Int8, types.Uint8:
		return 8
	case types.Int16, types.Uint16:
		return 16
	case types.Int32, types.Uint32:
		return 32
	}
	return 64
}

// fits reports whether the mathematical value r of the machine operation at
// v is representable in v's type, so that no wrap-around happens.
func (p *bprover) fits(r blin, v ssa.Value, isSub bool) bool {
	return p.fitsType0(r, v.Type(), v, isSub)
}

func (p *bprover) fitsType(r blin, t types.Type, at ssa.Value) bool {
	return p.fitsType0(r, t, at, true)
}

func (p *bprover) fitsType0(r blin, t types.Type, at ssa.Value, needLower bool) bool {
	tr := typeRange(t)
	rr := p.rangeOfLin(r)
	if rr.within(tr) {
		return true
	}
	if is64(t) {
		// A1: no upward wrap in 64 bits; the lower bound of unsigned types must be shown
		if !tr.hasLo {
			return true
		}
		if rr.hasLo && rr.lo >= tr.lo {
			return true
		}
		if !needLower {
			// unsigned 64-bit addition / multiplication of non-negative values
			return true
		}
		ins, ok := at.(ssa.Instruction)
		if !ok || ins.Block() == nil {
			return false
		}
		return p.proveAt(ins.Block(), r.addc(-tr.lo))
	}
	ins, ok := at.(ssa.Instruction)
	if !ok || ins.Block() == nil {
		return false
	}
	if tr.hasLo && !(rr.hasLo && rr.lo >= tr.lo) {
		if !p.proveAt(ins.Block(), r.addc(-tr.lo)) {
			return false
		}
	}
	if tr.hasHi && !(rr.hasHi && rr.hi <= tr.hi) {
		neg, ok := r.scale(-1)
		if !ok || !p.proveAt(ins.Block(), neg.addc(tr.hi)) {
			return false
		}
	}
	return true
}

// ---- lengths

func (p *bprover) canonVal(v ssa.Value) ssa.Value {
	for {
		switch x := v.(type) {
		case *ssa.Lookup:
			if c := p.canonLookup(x); c != x {
				v = c
				continue
			}
			return v
		case *ssa.ChangeType:
			v = x.X
			continue
		case *ssa.UnOp:
			if x.Op == token.MUL {
				if c, ok := p.canon[x]; ok && c != ssa.Value(x) {
					v = c
					continue
				}
			}
		}
		return v
	}
}

func (p *bprover) lenOf(v ssa.Value) blin {
	v = p.canonVal(v)
	if l, ok := p.lenMemo[v]; ok {
		return l
	}
	p.lenMemo[v] = blatom(atom{aLen, v})
	l := p.lenOf1(v)
	p.lenMemo[v] = l
	return l
}

func arrayLen(t types.Type) (int64, bool) {
	switch u := t.Underlying().(type) {
	case *types.Array:
		return u.Len(), true
	case *types.Pointer:
		if a, ok := u.Elem().Underlying().(*types.Array); ok {
			return a.Len(), true
		}
	}
	return 0, false
}

func (p *bprover) lenOf1(v ssa.Value) blin {
	self := blatom(atom{aLen, v})
	p.noteFieldLen(v)
	if n, ok := arrayLen(v.Type()); ok {
		return blconst(n)
	}
	if freshZero(v) {
		return blconst(0)
	}
	if src, ok := phiSource(v); ok {
		if srcDominates(src, v) {
			return p.lenOf(src)
		}
	}
	switch x := v.(type) {
	case *memVal:
		if g, ok := x.addr.(*ssa.Global); ok {
			if n, ok := p.w.globalLen(g); ok {
				return blconst(n)
			}
		}
		var first blin
		n := 0
		for _, e := range x.edges {
			if e == ssa.Value(x) {
				continue
			}
			l := p.lenOf(e)
			if n > 0 && !blinEq(first, l) {
				return self
			}
			first = l
			n++
		}
		if n > 0 && !p.mentions(first, x) {
			return first
		}
		return self
	case *ssa.UnOp:
		// a package-level slice or string that is assigned only by its initialiser
		if g, ok := x.X.(*ssa.Global); ok && x.Op == token.MUL {
			if n, ok := p.w.globalLen(g); ok {
				return blconst(n)
			}
		}
	case *ssa.Const:
		if x.Value == nil {
			return blconst(0)
		}
		if x.Value.Kind() == constant.String {
			return blconst(int64(len(constant.StringVal(x.Value))))
		}
	case *ssa.MakeSlice:
		return p.linOf(x.Len)
	case *ssa.BinOp:
		// string concatenation: len(a + b) = len(a) + len(b)
		if x.Op == token.ADD && bIsString(x.Type().Underlying()) {
			if r, ok := p.lenOf(x.X).add(p.lenOf(x.Y)); ok {
				return r
			}
		}
	case *ssa.Slice:
		lo := blconst(0)
		if x.Low != nil {
			lo = p.linOf(x.Low)
		}
		var hi blin
		if x.High != nil {
			hi = p.linOf(x.High)
		} else {
			hi = p.lenOf(x.X)
		}
		if r, ok := hi.sub(lo); ok {
			return r
		}
	case *ssa.Convert:
		// string <-> []byte keep the length
		ft, tt := x.X.Type().Underlying(), x.Type().Underlying()
		if bIsByteSlice(ft) && bIsString(tt) || bIsString(ft) && bIsByteSlice(tt) {
			return p.lenOf(x.X)
		}
	case *ssa.Call:
		if b, ok := x.Call.Value.(*ssa.Builtin); ok && b.Name() == "append" && len(x.Call.Args) == 2 {
			if r, ok := p.lenOf(x.Call.Args[0]).add(p.lenOf(x.Call.Args[1])); ok {
				return r
			}
		}
		if c := x.Call.StaticCallee(); c != nil && isSlicesGrow(c) && len(x.Call.Args) == 2 {
			return p.lenOf(x.Call.Args[0])
		}
		if c := x.Call.StaticCallee(); c != nil && p.br != nil && c.Signature.Results().Len() == 1 {
			if lc, ok := p.br.lenContract(c); ok && lc.param < len(x.Call.Args) {
				var fs []bfact
				p.applyLenContract(lc, c, x, x, &fs)
				if len(fs) > 0 {
					arg := x.Call.Args[lc.param]
					if lc.ofLen {
						return p.lenOf(arg)
					}
					return p.linOf(arg)
				}
			}
		}
	case *ssa.Phi:
		var first blin
		same := len(x.Edges) > 0
		for i, e := range x.Edges {
			l := p.lenOf(e)
			if i == 0 {
				first = l
			} else if !blinEq(first, l) {
				same = false
				break
			}
		}
		if same && !p.mentions(first, x) {
			return first
		}
	}
	return self
}

func bIsByteSlice(t types.Type) bool {
	s, ok := t.(*types.Slice)
	if !ok {
		return false
	}
	b, ok := s.Elem().Underlying().(*types.Basic)
	return ok && b.Kind() == types.Uint8
}

func bIsString(t types.Type) bool {
	b, ok := t.(*types.Basic)
	return ok && b.Info()&types.IsString != 0
}

// ---- ranges

func (p *bprover) rangeOfLin(l blin) irange {
	r := irange{l.k, l.k, true, true}
	for a, c := range l.t {
		ar := p.atomRange(a)
		var lo, hi int64
		var hasLo, hasHi bool
		if c > 0 {
			lo, hasLo = satMul(ar.lo, c, ar.hasLo)
			hi, hasHi = satMul(ar.hi, c, ar.hasHi)
		} else {
			lo, hasLo = satMul(ar.hi, c, ar.hasHi)
			hi, hasHi = satMul(ar.lo, c, ar.hasLo)
		}
		r.lo, r.hasLo = satAdd(r.lo, lo, r.hasLo && hasLo)
		r.hi, r.hasHi = satAdd(r.hi, hi, r.hasHi && hasHi)
	}
	return r
}

func satMul(x, c int64, has bool) (int64, bool) {
	if !has {
		return 0, false
	}
	if x == 0 || c == 0 {
		return 0, true
	}
	r := x * c
	if r/c != x || !okMag(r) {
		return 0, false
	}
	return r, true
}

func satAdd(x, y int64, has bool) (int64, bool) {
	if !has {
		return 0, false
	}
	r := x + y
	if !okMag(r) {
		return 0, false
	}
	return r, true
}

func (p *bprover) atomRange(a atom) irange {
	if r, ok := p.rngMemo[a]; ok {
		return r
	}
	if a.k == aNonNil {
		r := irange{0, 1, true, true}
		p.rngMemo[a] = r
		return r
	}
	if a.k != aVal {
		r := irange{0, 0, true, false}
		if a.k == aLen {
			if n, ok := p.minLen[a.v]; ok {
				r.lo = n
			}
		}
		p.rngMemo[a] = r
		return r
	}
	tr := typeRange(a.v.Type())
	if p.rngBusy[a] {
		return tr
	}
	p.rngBusy[a] = true
	r := p.atomRange1(a.v, tr)
	delete(p.rngBusy, a)
	if ir, ok := p.iv[a.v]; ok {
		r = meetRange(r, ir)
	}
	// intersect with the type range
	if tr.hasLo && (!r.hasLo || r.lo < tr.lo) {
		r.lo, r.hasLo = tr.lo, true
	}
	if tr.hasHi && (!r.hasHi || r.hi > tr.hi) {
		r.hi, r.hasHi = tr.hi, true
	}
	p.rngMemo[a] = r
	return r
}

func pow2above(x int64) int64 {
	k := int64(1)
	for k <= x && k < linMax {
		k <<= 1
	}
	return k - 1
}

func (p *bprover) valRange(v ssa.Value) irange { return p.rangeOfLin(p.linOf(v)) }

func (p *bprover) atomRange1(v ssa.Value, tr irange) irange {
	switch x := v.(type) {
	case *memVal:
		if strings.HasPrefix(x.key, "ML@") {
			return irange{0, 0, true, false} // the length of a map
		}
		// the invariant of a field holds for every value the location ever has
		if strings.HasPrefix(x.cat, "F:") {
			name := strings.TrimPrefix(x.cat[:strings.IndexByte(x.cat, '|')], "F:")
			if lo, ok := fieldMin[name]; ok {
				r := tr
				if !r.hasLo || r.lo < lo {
					r.lo, r.hasLo = lo, true
				}
				return r
			}
		}
		return tr
	case *ssa.UnOp:
		if x.Op == token.MUL {
			if fa, ok := x.X.(*ssa.FieldAddr); ok {
				if lo, ok := fieldMin[fieldKey(fa)]; ok {
					r := tr
					if !r.hasLo || r.lo < lo {
						r.lo, r.hasLo = lo, true
					}
					return r
				}
			}
		}
	case *ssa.BinOp:
		a, b := p.valRange(x.X), p.valRange(x.Y)
		nonneg := func(r irange) bool { return r.hasLo && r.lo >= 0 }
		switch x.Op {
		case token.AND:
			r := irange{}
			if nonneg(a) && a.hasHi {
				r = irange{0, a.hi, true, true}
			}
			if nonneg(b) && b.hasHi && (!r.hasHi || b.hi < r.hi) {
				r = irange{0, b.hi, true, true}
			}
			return r
		case token.OR, token.XOR:
			if nonneg(a) && nonneg(b) && a.hasHi && b.hasHi {
				m := a.hi
				if b.hi > m {
					m = b.hi
				}
				return irange{0, pow2above(m), true, true}
			}
		case token.SHR:
			if c, ok := bconstInt(x.Y); ok && c >= 0 && c < 63 && nonneg(a) {
				r := irange{0, 0, true, false}
				if a.hasHi {
					r.hi, r.hasHi = a.hi>>uint(c), true
				}
				return r
			}
			if nonneg(a) {
				return irange{0, a.hi, true, a.hasHi}
			}
		case token.REM:
			if c, ok := bconstInt(x.Y); ok && c > 0 {
				if nonneg(a) {
					return irange{0, c - 1, true, true}
				}
				return irange{-(c - 1), c - 1, true, true}
			}
			if nonneg(a) && nonneg(b) && b.hasHi {
				return irange{0, b.hi, true, true}
			}
		case token.QUO:
			if c, ok := bconstInt(x.Y); ok && c > 0 && nonneg(a) {
				r := irange{0, 0, true, false}
				if a.hasHi {
					r.hi, r.hasHi = a.hi/c, true
				}
				return r
			}
			if nonneg(a) && nonneg(b) {
				return irange{0, a.hi, true, a.hasHi}
			}
		case token.MUL:
			if a.hasLo && a.hasHi && b.hasLo && b.hasHi {
				var lo, hi int64
				first := true
				for _, m := range [][2]int64{{a.lo, b.lo}, {a.lo, b.hi}, {a.hi, b.lo}, {a.hi, b.hi}} {
					r, ok := satMul(m[0], m[1], true)
					if !ok {
						return tr
					}
					if first || r < lo {
						lo = r
					}
					if first || r > hi {
						hi = r
					}
					first = false
				}
				if is64(x.Type()) || (irange{lo, hi, true, true}).within(tr) {
					return irange{lo, hi, true, true}
				}
			}
		case token.SHL:
			if c, ok := bconstInt(x.Y); !ok || c < 0 {
				_ = c
			}
		}
	case *ssa.Phi:
		return p.phiRange(x, tr)
	case *ssa.Call:
		if b, ok := x.Call.Value.(*ssa.Builtin); ok {
			switch b.Name() {
			case "min", "max":
				var r irange
				for i, arg := range x.Call.Args {
					ar := p.valRange(arg)
					if i == 0 {
						r = ar
						continue
					}
					if b.Name() == "min" {
						// hi = min of his (any known), lo = min of los (all known)
						if ar.hasHi && (!r.hasHi || ar.hi < r.hi) {
							r.hi, r.hasHi = ar.hi, true
						}
						if !ar.hasLo {
							r.hasLo = false
						} else if r.hasLo && ar.lo < r.lo {
							r.lo = ar.lo
						}
					} else {
						if ar.hasLo && (!r.hasLo || ar.lo > r.lo) {
							r.lo, r.hasLo = ar.lo, true
						}
						if !ar.hasHi {
							r.hasHi = false
						} else if r.hasHi && ar.hi > r.hi {
							r.hi = ar.hi
						}
					}
				}
				return r
			case "copy":
				return irange{0, 0, true, false}
			}
		}
		if c := x.Call.StaticCallee(); c != nil {
			if r, ok := p.w.resultRange(c); ok {
				return r
			}
		}
	case *ssa.Extract:
		if call, ok := x.Tuple.(*ssa.Call); ok {
			if c := call.Call.StaticCallee(); c != nil && x.Index == 0 {
				if r, ok := p.w.resultRange(c); ok {
					return r
				}
			}
		}
	}
	return tr
}

// resultRange: ranges of results of a few external functions.
func (w *World) resultRange(c *ssa.Function) (irange, bool) {
	if c.Pkg == nil {
		return irange{}, false
	}
	switch c.Pkg.Pkg.Path() + "." + c.Name() {
	case "sort.Search", "sort.SearchInts", "sort.SearchStrings", "unicode/utf8.RuneLen", "unicode/utf8.EncodeRune",
		"unicode/utf8.RuneCountInString", "unicode/utf8.RuneCount", "math/bits.Len", "math/bits.Len32", "math/bits.Len16",
		"math/bits.Len8", "math/bits.Len64", "math/bits.OnesCount", "math/bits.OnesCount16", "math/bits.OnesCount32",
		"math/bits.TrailingZeros32", "math/bits.TrailingZeros16", "math/bits.TrailingZeros64", "math/bits.LeadingZeros32":
		return irange{0, 0, true, false}, true
	case "bytes.IndexByte", "strings.IndexByte", "strings.Index", "bytes.Index", "strings.IndexRune", "slices.Index", "strings.LastIndex", "strings.LastIndexByte", "strings.IndexAny":
		return irange{-1, 0, true, false}, true
	}
	return irange{}, false
}

// phiRange: induction rule.  Each incoming value is either an initial value
// or the phi plus a constant step; steps of one sign bound the phi on the
// other side by the initial values.
func (p *bprover) phiRange(x *ssa.Phi, tr irange) irange {
	if !isIntType(x.Type()) {
		return tr
	}
	self := atom{aVal, x}
	up, down := true, true
	var inits []irange
	for _, e := range x.Edges {
		if e == ssa.Value(x) {
			continue
		}
		l := p.linOf(e)
		if c, ok := l.t[self]; ok && c == 1 && len(l.t) == 1 {
			if l.k < 0 {
				up = false
			}
			if l.k > 0 {
				down = false
			}
			continue
		}
		if p.mentions(l, x) {
			return tr
		}
		inits = append(inits, p.rangeOfLin(l))
	}
	if len(inits) == 0 {
		return tr
	}
	hull := inits[0]
	for _, r := range inits[1:] {
		if !r.hasLo {
			hull.hasLo = false
		} else if hull.hasLo && r.lo < hull.lo {
			hull.lo = r.lo
		}
		if !r.hasHi {
			hull.hasHi = false
		} else if hull.hasHi && r.hi > hull.hi {
			hull.hi = r.hi
		}
	}
	res := tr
	// narrow counters may wrap: the induction rule is used for 64-bit types (A1) only
	if !is64(x.Type()) {
		if up && down {
			return hull
		}
		return tr
	}
	if up && hull.hasLo {
		res.lo, res.hasLo = hull.lo, true
	}
	if down && hull.hasHi {
		res.hi, res.hasHi = hull.hi, true
	}
	return res
}

// atomFacts: relational facts that hold by the definition of an atom.
func (p *bprover) atomFacts(a atom) []bfact {
	if f, ok := p.afMemo[a]; ok {
		return f
	}
	if p.afBusy[a] {
		return nil
	}
	p.afBusy[a] = true
	res := p.atomFacts1(a)
	delete(p.afBusy, a)
	p.afMemo[a] = res
	return res
}

func (p *bprover) atomFacts1(a atom) []bfact {
	var res []bfact
	add := func(e blin, ok bool, why string) {
		if ok {
			res = append(res, bfact{e: e, why: why})
		}
	}
	r := p.atomRange(a)
	me := blatom(a)
	if r.hasLo {
		add(me.addc(-r.lo), true, "range")
	}
	if r.hasHi {
		n, ok := me.scale(-1)
		add(n.addc(r.hi), ok, "range")
	}
	if a.k == aCap {
		e, ok := me.sub(p.lenOf(a.v))
		add(e, ok, "cap>=len")
		return res
	}
	if a.k == aNonNil {
		res = append(res, p.nilAtomFacts(a)...)
		return res
	}
	if a.k == aQuot {
		return res // a witness: only its sign is known
	}
	if mv, ok := a.v.(*memVal); ok && a.k == aVal && strings.HasPrefix(mv.key, "ML@") && len(mv.siteIns) >= 1 && len(mv.sites) == len(mv.siteIns) {
		// the length of a coverage table right after  cov.Prune(n)  is at most n
		// (Prune must be the latest of the possible writes that define this value)
		for _, si := range mv.siteIns {
			call, ok := si.(*ssa.Call)
			if !ok {
				continue
			}
			cal := call.Call.StaticCallee()
			if cal == nil || fnName(cal) != "(opentype/coverage.Table).Prune" || len(call.Call.Args) != 2 {
				continue
			}
			if !strings.HasPrefix(mv.key, "ML@"+fmtPtr(p.canonVal(call.Call.Args[0]))+"#") {
				continue
			}
			latest := true
			for _, other := range mv.siteIns {
				if other == si {
					continue
				}
				if !instrBefore(other, si) {
					latest = false
				}
			}
			if latest {
				e, ok := p.linOf(call.Call.Args[1]).sub(me)
				add(e, ok, "(coverage.Table).Prune contract")
			}
		}
	}
	if mv, ok := a.v.(*memVal); ok && (a.k == aVal || a.k == aLen) {
		res = append(res, p.parserPostFacts(mv)...)
	}
	if ph, ok := a.v.(*ssa.Phi); ok && isLoopPhi(ph) {
		for _, f := range p.partnerFacts(a, ph) {
			res = append(res, f)
		}
		for _, f := range p.guardedInduction(a, ph) {
			res = append(res, f)
		}
		// congruence: a counter that starts at init and is stepped by multiples
		// of g on every back edge is init + g*k for an integer k >= 0
		if inits, steps, ok := p.phiSteps(a, ph); ok && len(inits) == 1 && len(steps) > 0 {
			var g int64
			pos := true
			for _, st := range steps {
				if st <= 0 {
					pos = false
				}
				g = gcd64(g, st)
			}
			if pos && g >= 2 {
				k := blatom(atom{aQuot, ph})
				if gk, ok1 := k.scale(g); ok1 {
					if rhs, ok2 := inits[0].add(gk); ok2 {
						e1, o1 := me.sub(rhs)
						add(e1, o1, "stepping counter = init + step*k")
						e2, o2 := rhs.sub(me)
						add(e2, o2, "stepping counter = init + step*k")
					}
				}
			}
		}
	}
	if a.k == aLen || a.k == aQuot {
		return res
	}
	switch x := a.v.(type) {
	case *ssa.Extract:
		if call, ok := x.Tuple.(*ssa.Call); ok && p.br != nil && isIntType(x.Type()) {
			if _, isB := call.Call.Value.(*ssa.Builtin); !isB && !call.Call.IsInvoke() && p.br.nonNegCall(call, x.Index) {
				add(me, true, "callee returns a non-negative value")
			}
		}
		// io.Reader contract: n, err := r.Read(buf)  gives  0 <= n <= len(buf)
		if call, ok := x.Tuple.(*ssa.Call); ok && x.Index == 0 && call.Call.IsInvoke() && call.Call.Method.Name() == "Read" && len(call.Call.Args) == 1 {
			if bIsByteSlice(call.Call.Args[0].Type().Underlying()) && isIntType(x.Type()) {
				add(me, true, "io.Reader contract")
				e, ok := p.lenOf(call.Call.Args[0]).sub(me)
				add(e, ok, "io.Reader contract")
			}
		}
	case *ssa.Phi:
		if !is64(x.Type()) || !isIntType(x.Type()) {
			break
		}
		// relational induction: single initial value, monotone steps
		up, down := true, true
		var init *blin
		n := 0
		for _, e := range x.Edges {
			if e == ssa.Value(x) {
				continue
			}
			l := p.linOf(e)
			if c, ok := l.t[a]; ok && c == 1 && len(l.t) == 1 {
				if l.k < 0 {
					up = false
				}
				if l.k > 0 {
					down = false
				}
				continue
			}
			if p.mentions(l, x) {
				n = 99
				break
			}
			ll := l
			init = &ll
			n++
		}
		if n == 1 && init != nil && p.definedOutsideLoopOf(x, *init) {
			if up {
				e, ok := me.sub(*init)
				add(e, ok, "induction")
			}
			if down {
				e, ok := init.sub(me)
				add(e, ok, "induction")
			}
		} else if leaf, up2, down2, ok := p.monotoneLeaf(x); ok {
			// a counter advanced on several back edges of nested loops, all in one direction
			l := p.linOf(leaf)
			if !p.mentions(l, x) {
				if up2 {
					e, ok := me.sub(l)
					add(e, ok, "induction (nested)")
				}
				if down2 {
					e, ok := l.sub(me)
					add(e, ok, "induction (nested)")
				}
			}
		}
	case *ssa.Call:
		if _, isB := x.Call.Value.(*ssa.Builtin); !isB && p.br != nil && isIntType(x.Type()) && p.br.nonNegCall(x, 0) {
			add(me, true, "callee returns a non-negative value")
		}
		if b, ok := x.Call.Value.(*ssa.Builtin); ok {
			switch b.Name() {
			case "min":
				for _, arg := range x.Call.Args {
					e, ok := p.linOf(arg).sub(me)
					add(e, ok, "min")
				}
			case "max":
				for _, arg := range x.Call.Args {
					e, ok := me.sub(p.linOf(arg))
					add(e, ok, "max")
				}
			case "copy":
				for _, arg := range x.Call.Args {
					e, ok := p.lenOf(arg).sub(me)
					add(e, ok, "copy")
				}
			}
		}
		if c := x.Call.StaticCallee(); c != nil && c.Pkg != nil {
			switch c.Pkg.Pkg.Path() + "." + c.Name() {
			case "sort.Search":
				e, ok := p.linOf(x.Call.Args[0]).sub(me)
				add(e, ok, "sort.Search")
			case "sort.SearchInts", "sort.SearchStrings":
				e, ok := p.lenOf(x.Call.Args[0]).sub(me)
				add(e, ok, "sort.Search")
			case "bytes.IndexByte", "strings.IndexByte", "strings.Index", "bytes.Index", "strings.IndexRune", "slices.Index", "strings.LastIndex", "strings.LastIndexByte", "strings.IndexAny":
				e, ok := p.lenOf(x.Call.Args[0]).sub(me)
				add(e.addc(-1), ok, "index<len")
			}
		}
	case *ssa.BinOp:
		// x & y <= x, x >> k <= x, x % y < y, x / c <= x for non-negative operands
		a0 := p.valRange(x.X)
		if a0.hasLo && a0.lo >= 0 {
			switch x.Op {
			case token.AND, token.SHR, token.QUO:
				if x.Op != token.QUO || func() bool { b := p.valRange(x.Y); return b.hasLo && b.lo >= 1 }() {
					e, ok := p.linOf(x.X).sub(me)
					add(e, ok, "<=operand")
				}
			case token.REM:
				b := p.valRange(x.Y)
				if b.hasLo && b.lo >= 1 {
					e, ok := p.linOf(x.Y).sub(me)
					add(e.addc(-1), ok, "rem<divisor")
					// x = y*(x/y) + r with x/y >= 0: the remainder is at most the dividend, and not negative
					e2, ok2 := p.linOf(x.X).sub(me)
					add(e2, ok2, "rem<=dividend")
					add(me, true, "rem>=0")
					// x = c*q + r for an integer q >= 0 (constant divisor)
					if c, isC := bconstInt(x.Y); isC && c >= 2 {
						q := blatom(atom{aQuot, x})
						if cq, okq := q.scale(c); okq {
							if rhs, okr := cq.add(me); okr {
								e3, o3 := p.linOf(x.X).sub(rhs)
								add(e3, o3, "dividend = divisor*q + remainder")
								e4, o4 := rhs.sub(p.linOf(x.X))
								add(e4, o4, "dividend = divisor*q + remainder")
							}
						}
					}
				}
			}
		}
		if x.Op == token.AND {
			b0 := p.valRange(x.Y)
			if b0.hasLo && b0.lo >= 0 {
				e, ok := p.linOf(x.Y).sub(me)
				add(e, ok, "<=operand")
			}
		}
		// q = x / c, q = x >> k:  c*q <= x <= c*q + c - 1   (x >= 0, c > 0)
		var c int64
		if k, ok := bconstInt(x.Y); ok {
			if x.Op == token.QUO && k > 0 {
				c = k
			} else if x.Op == token.SHR && k >= 0 && k < 40 {
				c = int64(1) << uint(k)
			}
		}
		// (an arithmetic right shift rounds towards minus infinity, so the
		// bracket holds for negative operands as well; truncating division
		// needs a non-negative dividend)
		if c > 0 && (x.Op == token.SHR || a0.hasLo && a0.lo >= 0) {
			if cq, ok := me.scale(c); ok {
				xl := p.linOf(x.X)
				e1, ok1 := xl.sub(cq)
				add(e1, ok1, "quotient")
				e2, ok2 := cq.sub(xl)
				add(e2.addc(c-1), ok2, "quotient")
			}
		}
		// r = x % c:  x = c*(x/c) + r is not linear in one atom; r's range is known
	}
	return res
}

// definedOutsideLoopOf: every value in l is defined in a block that strictly
// dominates the phi's block (so it does not change while the loop runs).
func (p *bprover) definedOutsideLoopOf(x *ssa.Phi, l blin) bool {
	for a := range l.t {
		ins, ok := a.v.(ssa.Instruction)
		if !ok {
			continue // parameters, constants, free variables, globals
		}
		b := ins.Block()
		if b == nil || b == x.Block() || !b.Dominates(x.Block()) {
			return false
		}
	}
	return true
}

// ---- facts from guards

// fieldMin: invariants "field >= lo" of decoded structures, verified at
// every store to the field in library code (rule fieldinv) and assumed at loads.
var fieldMin = map[string]int64{
	"seehuhn.de/go/sfnt/glyf.SimpleGlyph.NumContours": 0, // negative counts denote composite glyphs (decodeGlyph)
	"seehuhn.de/go/sfnt/maxp.Info.NumGlyphs":          0,
}

func fieldKey(fa *ssa.FieldAddr) string {
	pt := fa.X.Type().Underlying().(*types.Pointer).Elem()
	st := pt.Underlying().(*types.Struct)
	return typeKey(pt) + "." + st.Field(fa.Field).Name()
}

// fieldMinLen: invariants "len(field) >= n" of decoded structures, verified
// at every store in scope (rule fieldinv) and assumed at loads.
var fieldMinLen = map[string]int64{
	"seehuhn.de/go/sfnt/opentype/gtab.SeqContext3.Input": 1, // readSeqContext3 rejects glyphCount < 1
}

// containerElemMinLen: invariants of container types, verified at every
// store into a container of that type in library code (rule continv) and
// assumed where an element is taken out under an ok/iteration guard.
var containerElemMinLen = map[string]int64{
	"seehuhn.de/go/sfnt/cmap.Table": 10, // documented by cmap.Decode: subtables are at least 10 bytes long
}

func (p *bprover) condFacts(cond ssa.Value, pol bool, out *[]bfact) {
	switch c := cond.(type) {
	case *ssa.Extract:
		// v, ok := m[k]  /  range over m: the element obeys the container invariant of m's type
		if !pol {
			return
		}
		var mt types.Type
		var elemIdx int
		switch t := c.Tuple.(type) {
		case *ssa.Lookup:
			if !t.CommaOk || c.Index != 1 {
				return
			}
			mt, elemIdx = t.X.Type(), 0
		case *ssa.Next:
			if c.Index != 0 {
				return
			}
			rg, ok := t.Iter.(*ssa.Range)
			if !ok {
				return
			}
			mt, elemIdx = rg.X.Type(), 2
		default:
			return
		}
		if lk, isLk := c.Tuple.(*ssa.Lookup); isLk {
			for _, ref := range *c.Tuple.Referrers() {
				if ex, ok := ref.(*ssa.Extract); ok && ex.Index == 0 {
					p.covPairFacts(lk, ex, out)
				}
			}
		}
		min, ok := containerElemMinLen[typeKey(mt)]
		if !ok {
			return
		}
		for _, ref := range *c.Tuple.Referrers() {
			if ex, ok := ref.(*ssa.Extract); ok && ex.Index == elemIdx {
				*out = append(*out, bfact{e: p.lenOf(ex).addc(-min), why: "container invariant of " + typeKey(mt)})
			}
		}
	case *ssa.UnOp:
		if c.Op == token.NOT {
			p.condFacts(c.X, !pol, out)
		}
	case *ssa.Phi:
		// a && b, a || b evaluated as a value: the constant edges that
		// contradict the outcome are excluded; if one edge remains, the
		// conditions under which it is taken hold as well
		if p.phiCondDepth > 3 {
			return
		}
		var only ssa.Value
		var from *ssa.BasicBlock
		n := 0
		for i, e := range c.Edges {
			if k, ok := e.(*ssa.Const); ok && k.Value != nil && k.Value.Kind() == constant.Bool {
				if constant.BoolVal(k.Value) != pol {
					continue
				}
			}
			n++
			only, from = e, c.Block().Preds[i]
		}
		if n != 1 {
			return
		}
		p.phiCondDepth++
		for _, g := range guardsOf(from) {
			p.condFacts(g.cond, g.then, out)
		}
		if len(from.Instrs) > 0 {
			if ifi, ok := from.Instrs[len(from.Instrs)-1].(*ssa.If); ok && from.Succs[0] != from.Succs[1] {
				p.condFacts(ifi.Cond, from.Succs[0] == c.Block(), out)
			}
		}
		if _, isConst := only.(*ssa.Const); !isConst {
			p.condFacts(only, pol, out)
		}
		p.phiCondDepth--
	case *ssa.BinOp:
		xt := c.X.Type()
		if isIntType(xt) {
			a, b := p.linOf(c.X), p.linOf(c.Y)
			d, ok := b.sub(a) // b - a
			if !ok {
				return
			}
			nd, _ := d.scale(-1) // a - b
			op := c.Op
			if !pol {
				switch op {
				case token.LSS:
					op = token.GEQ
				case token.LEQ:
					op = token.GTR
				case token.GTR:
					op = token.LEQ
				case token.GEQ:
					op = token.LSS
				case token.EQL:
					op = token.NEQ
				case token.NEQ:
					op = token.EQL
				}
			}
			why := "guard " + p.w.Pos(c.Pos())
			switch op {
			case token.LSS: // a < b : b-a-1 >= 0
				*out = append(*out, bfact{e: d.addc(-1), why: why})
			case token.LEQ:
				*out = append(*out, bfact{e: d, why: why})
			case token.GTR:
				*out = append(*out, bfact{e: nd.addc(-1), why: why})
			case token.GEQ:
				*out = append(*out, bfact{e: nd, why: why})
			case token.EQL:
				*out = append(*out, bfact{e: d, why: why}, bfact{e: nd, why: why})
			case token.NEQ:
				*out = append(*out, bfact{e: d, ne: true, why: why})
				// x % c != 0 with x >= 0  =>  x >= 1
				for _, pair := range [][2]ssa.Value{{c.X, c.Y}, {c.Y, c.X}} {
					if z, ok := bconstInt(pair[1]); ok && z == 0 {
						if rem, ok := pair[0].(*ssa.BinOp); ok && rem.Op == token.REM {
							xr := p.valRange(rem.X)
							if xr.hasLo && xr.lo >= 0 {
								*out = append(*out, bfact{e: p.linOf(rem.X).addc(-1), why: why})
							}
						}
					}
				}
			}
			return
		}
		if c.Op != token.EQL && c.Op != token.NEQ {
			return
		}
		isNil := func(v ssa.Value) bool {
			k, ok := v.(*ssa.Const)
			return ok && k.Value == nil
		}
		var other ssa.Value
		if isNil(c.Y) {
			other = c.X
		} else if isNil(c.X) {
			other = c.Y
		} else {
			// string comparison with "" or equal constants: lengths agree
			if bIsString(xt.Underlying()) && (c.Op == token.EQL) == pol {
				if e, ok := p.lenOf(c.X).sub(p.lenOf(c.Y)); ok {
					ne, _ := e.scale(-1)
					*out = append(*out, bfact{e: e, why: "string equality"}, bfact{e: ne, why: "string equality"})
				}
			}
			return
		}
		equalsNil := (c.Op == token.EQL) == pol
		switch other.Type().Underlying().(type) {
		case *types.Pointer, *types.Map, *types.Signature, *types.Chan:
			nn := blatom(atom{aNonNil, p.canonVal(other)})
			if equalsNil {
				n, _ := nn.scale(-1)
				*out = append(*out, bfact{e: n, why: "nil check"})
			} else {
				*out = append(*out, bfact{e: nn.addc(-1), why: "nil check"})
			}
			return
		case *types.Slice:
			nn := blatom(atom{aNonNil, p.canonVal(other)})
			if equalsNil {
				l := p.lenOf(other)
				nl, _ := l.scale(-1)
				n, _ := nn.scale(-1)
				*out = append(*out, bfact{e: nl, why: "nil slice"}, bfact{e: n, why: "nil check"})
			} else {
				*out = append(*out, bfact{e: nn.addc(-1), why: "nil check"})
			}
		case *types.Interface:
			nn := blatom(atom{aNonNil, p.canonVal(other)})
			if equalsNil {
				n, _ := nn.scale(-1)
				*out = append(*out, bfact{e: n, why: "nil check"})
				if ex, ok := other.(*ssa.Extract); ok {
					if call, ok := ex.Tuple.(*ssa.Call); ok {
						p.contractFacts(call, out)
						p.nilContractFacts(call, out)
					}
				}
			} else {
				*out = append(*out, bfact{e: nn.addc(-1), why: "nil check"})
			}
		}
	}
}

// contractFacts adds what is known about the results of a call whose error
// result is nil.
func (p *bprover) contractFacts(call *ssa.Call, out *[]bfact) {
	c := call.Call.StaticCallee()
	if c == nil {
		return
	}
	res0 := func() ssa.Value {
		for _, r := range *call.Referrers() {
			if ex, ok := r.(*ssa.Extract); ok && ex.Index == 0 {
				return ex
			}
		}
		return nil
	}
	if c.Pkg != nil && c.Pkg.Pkg.Path() == "io" && c.Name() == "ReadFull" {
		r := res0()
		if r != nil {
			if e, ok := p.linOf(r).sub(p.lenOf(call.Call.Args[1])); ok {
				ne, _ := e.scale(-1)
				*out = append(*out, bfact{e: e, why: "io.ReadFull"}, bfact{e: ne, why: "io.ReadFull"})
			}
		}
		return
	}
	if p.br == nil {
		return
	}
	lc, ok := p.br.lenContract(c)
	if !ok {
		return
	}
	r := res0()
	if r == nil || lc.param >= len(call.Call.Args) {
		return
	}
	p.applyLenContract(lc, c, r, call, out)
}

func (p *bprover) applyLenContract(lc lenContract, c *ssa.Function, r ssa.Value, call *ssa.Call, out *[]bfact) {
	arg := call.Call.Args[lc.param]
	var n blin
	if lc.ofLen {
		n = p.lenOf(arg)
	} else {
		n = p.linOf(arg)
	}
	nr := p.rangeOfLin(n)
	if !(nr.hasLo && nr.lo >= 0) && !p.proveAt(call.Block(), n) {
		return
	}
	why := "result length contract of " + fnName(c)
	if e, ok := p.lenOf(r).sub(n); ok {
		ne, _ := e.scale(-1)
		*out = append(*out, bfact{e: e, why: why}, bfact{e: ne, why: why})
	}
}

// factsAt returns the facts that hold on entry to block b.
func (p *bprover) factsAt(b *ssa.BasicBlock) []bfact {
	if f, ok := p.gcache[b]; ok {
		return f
	}
	p.gcache[b] = nil
	out := append([]bfact{}, p.entryFacts...)
	for _, g := range p.liveGuards(b) {
		p.condFacts(g.cond, g.then, &out)
	}
	p.gcache[b] = out
	// invariants of tracked objects at the joins that dominate b, proven once per join
	if isParserMethod(p.fn) && p.inInvFacts == 0 {
		p.inInvFacts++
		for d := b; d != nil; d = d.Idom() {
			if len(d.Preds) < 2 {
				continue
			}
			out = append(out, p.parserInvAtJoin(d)...)
		}
		p.inInvFacts--
		p.gcache[b] = out
	}
	return out
}

// edgeFacts returns the facts that hold when control passes from pred to succ.
func (p *bprover) edgeFacts(pred, succ *ssa.BasicBlock) []bfact {
	out := append([]bfact{}, p.factsAt(pred)...)
	if len(pred.Instrs) > 0 {
		if ifi, ok := pred.Instrs[len(pred.Instrs)-1].(*ssa.If); ok && pred.Succs[0] != pred.Succs[1] {
			p.condFacts(ifi.Cond, pred.Succs[0] == succ, &out)
		}
	}
	return out
}

// ---- proving

// proveAt proves goal >= 0 at the entry of block b.
func (p *bprover) proveAt(b *ssa.BasicBlock, goal blin) bool {
	if p.depth > 6 {
		return false
	}
	p.depth++
	defer func() { p.depth-- }()
	return p.prove(p.factsAt(b), goal, b, 3)
}

func (p *bprover) prove(facts []bfact, goal blin, at *ssa.BasicBlock, splits int) bool {
	if p.trace {
		ab := -1
		if at != nil {
			ab = at.Index
		}
		fmt.Printf("%sprove at b%d splits=%d goal %s >= 0\n", strings.Repeat("  ", 4-splits), ab, splits, p.linStr(goal))
		for _, f := range facts {
			fmt.Printf("%s   fact %s %s (%s)\n", strings.Repeat("  ", 4-splits), p.linStr(f.e), map[bool]string{true: "!= 0", false: ">= 0"}[f.ne], f.why)
		}
		defer func() { fmt.Printf("%sdone b%d\n", strings.Repeat("  ", 4-splits), ab) }()
	}
	for _, f := range facts {
		if !f.ne && len(f.e.t) == 0 && f.e.k < 0 {
			return true // a false fact: the path cannot be taken
		}
	}
	if goal.isConst() && goal.k >= 0 {
		return true
	}
	if r := p.rangeOfLin(goal); r.hasLo && r.lo >= 0 {
		return true
	}
	// relevant facts: closure over shared atoms
	rel := map[atom]bool{}
	for a := range goal.t {
		rel[a] = true
	}
	var cons []blin
	var diseq []blin
	used := make([]bool, len(facts))
	atomDone := map[atom]bool{}
	for round := 0; round < 6; round++ {
		changed := false
		for i, f := range facts {
			if used[i] {
				continue
			}
			hit := false
			for a := range f.e.t {
				if rel[a] {
					hit = true
					break
				}
			}
			if !hit && round >= 1 && len(f.e.t) <= 3 {
				// a bound on a loop-carried accumulator whose induction fact
				// mentions a relevant atom (total >= init + k*len(x), total <= c)
				for a := range f.e.t {
					definitional := false
					switch dv := a.v.(type) {
					case *ssa.Phi:
						definitional = a.k == aVal && isLoopPhi(dv)
					case *ssa.BinOp:
						definitional = a.k == aVal && (dv.Op == token.QUO || dv.Op == token.SHR || dv.Op == token.REM || dv.Op == token.AND)
					}
					if definitional {
						for _, af := range p.atomFacts(a) {
							for b := range af.e.t {
								if rel[b] {
									hit = true
								}
							}
						}
					}
				}
			}
			if !hit {
				continue
			}
			used[i] = true
			changed = true
			if f.ne {
				diseq = append(diseq, f.e)
			} else {
				cons = append(cons, f.e)
			}
			for a := range f.e.t {
				rel[a] = true
			}
		}
		for _, a := range p.sortedAtoms(rel) {
			if atomDone[a] {
				continue
			}
			atomDone[a] = true
			for _, f := range p.atomFacts(a) {
				cons = append(cons, f.e)
				for b := range f.e.t {
					if !rel[b] {
						rel[b] = true
						changed = true
					}
				}
			}
			// quotient and remainder: their facts are conditional on the sign
			// of the dividend, so what is known about the dividend matters
			if bo, ok := a.v.(*ssa.BinOp); ok && a.k == aVal && (bo.Op == token.QUO || bo.Op == token.REM) {
				for _, op := range []ssa.Value{bo.X, bo.Y} {
					for b := range p.linOf(op).t {
						if !rel[b] {
							rel[b] = true
							changed = true
						}
					}
				}
			}
		}
		if !changed {
			break
		}
	}
	// contradictory facts that do not touch the goal (infeasible path)
	if p.unrelatedContradiction(facts, used) {
		return true
	}
	neg, ok := goal.scale(-1)
	if !ok {
		return false
	}
	negGoal := neg.addc(-1)
	if p.trace {
		for _, c := range cons {
			fmt.Printf("%s   cons %s >= 0\n", strings.Repeat("  ", 4-splits), p.linStr(c))
		}
	}
	if p.infeasible(append(append([]blin{}, cons...), negGoal)) {
		return true
	}
	// strengthen with disequalities: d != 0 and d >= 0  =>  d >= 1
	if len(diseq) > 0 {
		strengthened := false
		for _, d := range diseq {
			nd, _ := d.scale(-1)
			if p.infeasible(append(append([]blin{}, cons...), nd.addc(-1))) { // d >= 0 holds
				cons = append(cons, d.addc(-1))
				strengthened = true
			} else if p.infeasible(append(append([]blin{}, cons...), d.addc(-1))) { // d <= 0 holds
				cons = append(cons, nd.addc(-1))
				strengthened = true
			}
		}
		if strengthened && p.infeasible(append(append([]blin{}, cons...), negGoal)) {
			return true
		}
	}
	// conditional facts: q = x / c with c > 0 constant and x >= 0 provable  =>  c*q <= x <= c*q + c - 1
	added := false
	for _, a := range p.sortedAtoms(rel) {
		bo, ok := a.v.(*ssa.BinOp)
		if !ok || a.k != aVal || bo.Op != token.QUO {
			continue
		}
		c, isC := bconstInt(bo.Y)
		if !isC || c <= 0 {
			continue
		}
		if r0 := p.valRange(bo.X); r0.hasLo && r0.lo >= 0 {
			continue // unconditional facts already present
		}
		xl := p.linOf(bo.X)
		if p.trace {
			fmt.Printf("   conditional quotient %s: dividend %s\n", a.v.Name(), p.linStr(xl))
		}
		nx, _ := xl.scale(-1)
		if !p.infeasible(append(append([]blin{}, cons...), nx.addc(-1))) { // x >= 0 ?
			continue
		}
		if cq, ok := blatom(a).scale(c); ok {
			if e1, ok := xl.sub(cq); ok {
				cons = append(cons, e1)
			}
			if e2, ok := cq.sub(xl); ok {
				cons = append(cons, e2.addc(c-1))
			}
			added = true
		}
	}
	for _, a := range p.sortedAtoms(rel) {
		bo, ok := a.v.(*ssa.BinOp)
		if !ok || a.k != aVal || bo.Op != token.REM {
			continue
		}
		if _, isC := bconstInt(bo.Y); isC {
			// constant divisor: the sign of the remainder follows the dividend
			me := blatom(a)
			nx, _ := p.linOf(bo.X).scale(-1)
			if p.infeasible(append(append([]blin{}, cons...), nx.addc(-1))) { // x >= 0
				cons = append(cons, me)
				added = true
			}
			continue
		}
		y := p.linOf(bo.Y)
		ny, _ := y.scale(-1)
		// the facts about the operands may only be available where the
		// remainder is computed (a phi operand is substituted there)
		atDef := func(goal blin) bool {
			if bo.Block() == nil || p.depth > 3 {
				return false
			}
			return p.proveAt(bo.Block(), goal)
		}
		if !p.infeasible(append(append([]blin{}, cons...), ny)) && !atDef(y.addc(-1)) { // y >= 1 ?
			continue
		}
		me := blatom(a)
		if e, ok := y.sub(me); ok {
			cons = append(cons, e.addc(-1))
		}
		if e, ok := y.add(me); ok {
			cons = append(cons, e.addc(-1))
		}
		nx, _ := p.linOf(bo.X).scale(-1)
		if p.infeasible(append(append([]blin{}, cons...), nx.addc(-1))) || atDef(p.linOf(bo.X)) { // x >= 0
			cons = append(cons, me)
		}
		added = true
	}
	if added && p.infeasible(append(append([]blin{}, cons...), negGoal)) {
		return true
	}
	// case split over the predecessors of a join block: all phis and memory
	// merges of that block are replaced by their values on the edge, and the
	// edge's own guards are added.
	if splits <= 0 || at == nil {
		return false
	}
	isLoopHead := func(d *ssa.BasicBlock) bool {
		for _, pr := range d.Preds {
			if d.Dominates(pr) {
				return true
			}
		}
		return false
	}
	var joins []*ssa.BasicBlock
	seenJ := map[*ssa.BasicBlock]bool{}
	addJoin := func(d *ssa.BasicBlock) {
		if d != nil && !seenJ[d] && len(d.Preds) >= 2 {
			seenJ[d] = true
			joins = append(joins, d)
		}
	}
	for _, a := range p.sortedAtoms(rel) {
		if pb, edges, ok := phiLike(a.v); ok && (pb == at || pb.Dominates(at)) {
			if !isLoopMerge(pb, edges, a.v) {
				addJoin(pb)
			}
		}
	}
	for d := at; d != nil; d = d.Idom() {
		if len(d.Preds) >= 2 && !isLoopHead(d) {
			addJoin(d)
			break
		}
	}
	// innermost first
	sort.Slice(joins, func(i, j int) bool {
		if joins[i] == joins[j] {
			return false
		}
		if joins[j].Dominates(joins[i]) {
			return true
		}
		if joins[i].Dominates(joins[j]) {
			return false
		}
		return joins[i].Index > joins[j].Index
	})
	if len(joins) > 3 {
		// never drop the merge point of a value the goal itself mentions
		var keep, rest []*ssa.BasicBlock
		inGoal := map[*ssa.BasicBlock]bool{}
		for a := range goal.t {
			if pb, edges, ok := phiLike(a.v); ok && !isLoopMerge(pb, edges, a.v) {
				inGoal[pb] = true
			}
		}
		for _, j := range joins {
			if inGoal[j] {
				keep = append(keep, j)
			} else {
				rest = append(rest, j)
			}
		}
		joins = append(keep, rest...)
		if len(joins) > 3 {
			joins = joins[:3]
		}
	}
	// induction over a loop head: a goal that mentions only loop-carried
	// values of one loop head (SSA phis, memory merges) and loop-invariant
	// values is an invariant if it holds on every entering edge and is
	// preserved along every back edge (with itself as hypothesis there)
	if p.proveByLoopInduction(facts, goal, at, splits) {
		return true
	}
	for _, d := range joins {
		if p.trace {
			fmt.Printf("%s split at join b%d\n", strings.Repeat("  ", 4-splits), d.Index)
		}
		// the phi-like atoms of d that occur in the problem
		// (at a loop head only those that the loop leaves unchanged: the case
		// distinction is then over the edge through which the loop was entered)
		var atoms []atom
		seenA := map[atom]bool{}
		consider := func(l blin) {
			for a := range l.t {
				if seenA[a] {
					continue
				}
				seenA[a] = true
				if pb, edges, ok := phiLike(a.v); ok && pb == d && !isLoopMerge(pb, edges, a.v) {
					atoms = append(atoms, a)
				}
			}
		}
		consider(goal)
		for _, f := range facts {
			consider(f.e)
		}
		if len(atoms) == 0 && isLoopHead(d) {
			continue
		}
		all := true
		for _, pred := range d.Preds {
			if d.Dominates(pred) {
				continue
			}
			pi := -1
			for i, q := range d.Preds {
				if q == pred {
					pi = i
				}
			}
			substAll := func(l blin) (blin, bool) {
				for _, a := range atoms {
					if _, has := l.t[a]; !has {
						continue
					}
					_, edges, _ := phiLike(a.v)
					var by blin
					switch a.k {
					case aLen:
						by = p.lenOf(edges[pi])
					case aVal:
						by = p.linOf(edges[pi])
					case aNonNil:
						by = p.nonNilOf(edges[pi])
					default:
						return l, false
					}
					var ok bool
					l, ok = l.subst(a, by)
					if !ok {
						return l, false
					}
				}
				return l, true
			}
			nf := p.edgeFacts(pred, d)
			for _, f := range facts {
				if s, ok := substAll(f.e); ok {
					nf = append(nf, bfact{e: s, ne: f.ne, why: f.why})
				}
			}
			g2, ok := substAll(goal)
			next := pred
			if isLoopHead(d) {
				// loop-carried values of d may remain in the goal: stay at the head so that induction applies
				for a := range g2.t {
					if pb, edges, isPhi := phiLike(a.v); isPhi && pb == d && isLoopMerge(pb, edges, a.v) {
						next = d
					}
				}
			}
			if !ok || !p.prove(nf, g2, next, splits-1) {
				all = false
				break
			}
		}
		if all {
			return true
		}
	}
	return false
}

// isLoopPhi: the phi receives a value other than itself along a back edge.
func isLoopPhi(ph *ssa.Phi) bool {
	return isLoopMerge(ph.Block(), ph.Edges, ph)
}

func isLoopMerge(b *ssa.BasicBlock, edges []ssa.Value, self ssa.Value) bool {
	for i, pr := range b.Preds {
		if i < len(edges) && b.Dominates(pr) && edges[i] != self {
			return true
		}
	}
	return false
}

// phiLike: SSA phis and memory merges.
func phiLike(v ssa.Value) (*ssa.BasicBlock, []ssa.Value, bool) {
	switch x := v.(type) {
	case *ssa.Phi:
		return x.Block(), x.Edges, true
	case *memVal:
		if x.blk != nil && len(x.edges) == len(x.blk.Preds) {
			return x.blk, x.edges, true
		}
	}
	return nil, nil, false
}

// infeasible decides by Fourier-Motzkin elimination (with integer
// tightening) whether the conjunction of  c >= 0  has no integer solution.
// A "false" answer means "not shown infeasible".
func (p *bprover) infeasible(cons []blin) bool {
	type row = blin
	norm := func(r row) (row, bool) { // returns (row, trivially true)
		if len(r.t) == 0 {
			return r, r.k >= 0
		}
		var g int64
		for _, c := range r.t {
			if c < 0 {
				c = -c
			}
			g = gcd64(g, c)
		}
		if g > 1 {
			nr := row{t: make(map[atom]int64, len(r.t))}
			for a, c := range r.t {
				nr.t[a] = c / g
			}
			// floor division of the constant
			k := r.k / g
			if r.k%g != 0 && r.k < 0 {
				k--
			}
			nr.k = k
			return nr, false
		}
		return r, false
	}
	key := func(r row) string {
		var parts []string
		for a, c := range r.t {
			parts = append(parts, fmt.Sprintf("%s/%d:%d", fmtPtr(a.v), a.k, c))
		}
		sort.Strings(parts)
		return strings.Join(parts, ",")
	}
	// dedupe keeping the strongest constant per coefficient vector
	dedupe := func(rows []row) ([]row, bool) {
		best := map[string]int{}
		var out []row
		for _, r := range rows {
			r, triv := norm(r)
			if len(r.t) == 0 {
				if !triv {
					return nil, true
				}
				continue
			}
			k := key(r)
			if i, ok := best[k]; ok {
				if r.k < out[i].k {
					out[i] = r
				}
				continue
			}
			best[k] = len(out)
			out = append(out, r)
		}
		return out, false
	}
	rows, contra := dedupe(cons)
	if contra {
		return true
	}
	// Equalities first (Gaussian step): where e >= 0 and -e >= 0 are both
	// present and some atom other than a witness has coefficient +-1 in e,
	// substitute it out of all rows.  This is exact, and it is what lets the
	// gcd normalisation see congruences: with len = 2q and i = 14 + 2k the
	// row len - i - 1 >= 0 becomes 2q - 2k - 15 >= 0, i.e. q - k - 8 >= 0.
	hasWitness := false
	for _, r := range rows {
		for a := range r.t {
			if a.k == aQuot {
				hasWitness = true
			}
		}
	}
	for iter := 0; hasWitness && iter < 12; iter++ {
		idx := map[string]int{}
		for i, r := range rows {
			idx[key(r)+fmt.Sprintf("|%d", r.k)] = i
		}
		found := false
		for i, r := range rows {
			neg, ok := r.scale(-1)
			if !ok {
				continue
			}
			j, ok := idx[key(neg)+fmt.Sprintf("|%d", neg.k)]
			if !ok || j == i {
				continue
			}
			// r == 0; choose the atom to eliminate
			var pick atom
			have := false
			var atoms []atom
			for a := range r.t {
				atoms = append(atoms, a)
			}
			sort.Slice(atoms, func(x, y int) bool { return p.atomOrder(atoms[x]) < p.atomOrder(atoms[y]) })
			for _, a := range atoms {
				c := r.t[a]
				if (c == 1 || c == -1) && a.k != aQuot {
					pick, have = a, true
					break
				}
			}
			if !have {
				continue
			}
			cp := r.t[pick]
			var out []row
			okAll := true
			for k2, q := range rows {
				if k2 == i || k2 == j {
					continue
				}
				cq, has := q.t[pick]
				if !has || cq == 0 {
					out = append(out, q)
					continue
				}
				// q - (cq/cp)*r  eliminates pick (cp = +-1)
				m, ok1 := r.scale(-cq * cp)
				if !ok1 {
					okAll = false
					break
				}
				nq, ok2 := q.add(m)
				if !ok2 {
					okAll = false
					break
				}
				delete(nq.t, pick)
				out = append(out, nq)
			}
			if !okAll {
				continue
			}
			rows, contra = dedupe(out)
			if contra {
				return true
			}
			found = true
			break
		}
		if !found {
			break
		}
	}
	for iter := 0; iter < 40; iter++ {
		if len(rows) == 0 {
			return false
		}
		// pick the variable with the fewest pos*neg combinations
		pos := map[atom]int{}
		negc := map[atom]int{}
		for _, r := range rows {
			for a, c := range r.t {
				if c > 0 {
					pos[a]++
				} else {
					negc[a]++
				}
			}
		}
		var pick atom
		bestCost := -1
		havePick := false
		var all []atom
		for a := range pos {
			all = append(all, a)
		}
		for a := range negc {
			if _, ok := pos[a]; !ok {
				all = append(all, a)
			}
		}
		sort.Slice(all, func(i, j int) bool { return p.atomOrder(all[i]) < p.atomOrder(all[j]) })
		for _, a := range all {
			cost := pos[a] * negc[a]
			if !havePick || cost < bestCost {
				pick, bestCost, havePick = a, cost, true
			}
		}
		if !havePick {
			return false
		}
		var ps, ns, rest []row
		for _, r := range rows {
			c := r.t[pick]
			switch {
			case c > 0:
				ps = append(ps, r)
			case c < 0:
				ns = append(ns, r)
			default:
				rest = append(rest, r)
			}
		}
		if len(ps)*len(ns) > 4000 {
			return false
		}
		for _, a := range ps {
			for _, b := range ns {
				ca, cb := a.t[pick], -b.t[pick]
				g := gcd64(ca, cb)
				x, ok1 := a.scale(cb / g)
				y, ok2 := b.scale(ca / g)
				if !ok1 || !ok2 {
					continue
				}
				s, ok := x.add(y)
				if !ok {
					continue
				}
				delete(s.t, pick)
				rest = append(rest, s)
			}
		}
		p.fmSteps++
		rows, contra = dedupe(rest)
		if contra {
			return true
		}
		if len(rows) > 3000 {
			return false
		}
	}
	return false
}

func (p *bprover) atomOrder(a atom) string {
	return fmt.Sprintf("%s/%d", fmtPtr(a.v), a.k)
}

func (p *bprover) sortedAtoms(m map[atom]bool) []atom {
	res := make([]atom, 0, len(m))
	for a := range m {
		res = append(res, a)
	}
	sort.Slice(res, func(i, j int) bool { return p.atomOrder(res[i]) < p.atomOrder(res[j]) })
	return res
}

func gcd64(a, b int64) int64 {
	for b != 0 {
		a, b = b, a%b
	}
	if a < 0 {
		return -a
	}
	return a
}


// phiSteps describes a loop-header phi (or the length of a slice phi) as
// initial values on the entry edges and constant steps on the back edges.
func (p *bprover) phiSteps(a atom, ph *ssa.Phi) (inits []blin, steps map[int]int64, ok bool) {
	b := ph.Block()
	steps = map[int]int64{}
	for i, e := range ph.Edges {
		var l blin
		switch a.k {
		case aVal:
			// any width: linOf yields phi + c only when the machine operation provably does not wrap
			if !isIntType(ph.Type()) {
				return nil, nil, false
			}
			l = p.linOf(e)
		case aLen:
			l = p.lenOf(e)
		default:
			return nil, nil, false
		}
		if b.Dominates(b.Preds[i]) { // back edge
			if c, has := l.t[a]; has && c == 1 && len(l.t) == 1 {
				steps[i] = l.k
				continue
			}
			return nil, nil, false
		}
		if p.mentions(l, ph) {
			return nil, nil, false
		}
		inits = append(inits, l)
	}
	return inits, steps, len(inits) > 0
}

// partnerFacts: two loop-header phis that advance by the same constant on
// every back edge keep their difference.
func (p *bprover) partnerFacts(a atom, ph *ssa.Phi) []bfact {
	inits, steps, ok := p.phiSteps(a, ph)
	if !ok || len(inits) != 1 {
		return nil
	}
	var res []bfact
	for _, in := range ph.Block().Instrs {
		q, isPhi := in.(*ssa.Phi)
		if !isPhi {
			break
		}
		if q == ph {
			continue
		}
		var qa atom
		if isIntType(q.Type()) {
			qa = atom{aVal, q}
		} else if _, isSl := q.Type().Underlying().(*types.Slice); isSl {
			qa = atom{aLen, q}
		} else {
			continue
		}
		qi, qs, ok := p.phiSteps(qa, q)
		if !ok || len(qi) != 1 || len(qs) != len(steps) {
			continue
		}
		// proportional steps: if alpha*c_i = beta*q_i on every back edge then
		// alpha*me - beta*q keeps its initial value (same steps: alpha = beta = 1;
		// a byte index stepping by 2 next to a word count stepping by 1: 1 and 2)
		var alpha, beta int64
		for i, c := range steps {
			qc, has := qs[i]
			if !has {
				alpha, beta = 0, 0
				break
			}
			if alpha == 0 && beta == 0 && (c != 0 || qc != 0) {
				ac, aq := c, qc
				if ac < 0 {
					ac = -ac
				}
				if aq < 0 {
					aq = -aq
				}
				g := gcd64(ac, aq)
				if g == 0 {
					continue
				}
				alpha, beta = qc/g, c/g
			}
		}
		if alpha == 0 || beta == 0 || alpha > 64 || alpha < -64 || beta > 64 || beta < -64 {
			continue
		}
		prop := true
		for i, c := range steps {
			if alpha*c != beta*qs[i] {
				prop = false
			}
		}
		if !prop {
			continue
		}
		am, ok1 := blatom(a).scale(alpha)
		bq, ok2 := blatom(qa).scale(beta)
		ai, ok3 := inits[0].scale(alpha)
		bi, ok4 := qi[0].scale(beta)
		if !ok1 || !ok2 || !ok3 || !ok4 {
			continue
		}
		d, ok5 := am.sub(bq)
		di, ok6 := ai.sub(bi)
		if !ok5 || !ok6 {
			continue
		}
		e, ok7 := d.sub(di)
		if !ok7 {
			continue
		}
		ne, _ := e.scale(-1)
		res = append(res, bfact{e: e, why: "lock-step induction"}, bfact{e: ne, why: "lock-step induction"})
	}
	return res
}


// guardedInduction: a loop-header phi x whose loop continues only while
// x <= U (U loop-invariant) and which advances by constants c_j on the back
// edges satisfies  x <= U + max(0, c_j)  everywhere, provided the initial
// value does (shown on the entry edge).  Symmetrically for lower bounds.
func (p *bprover) guardedInduction(a atom, ph *ssa.Phi) []bfact {
	inits, steps, ok := p.phiSteps(a, ph)
	if !ok || len(steps) == 0 {
		return nil
	}
	b := ph.Block()
	if len(b.Instrs) == 0 {
		return nil
	}
	ifi, ok := b.Instrs[len(b.Instrs)-1].(*ssa.If)
	if !ok {
		return nil
	}
	// the successor through which every iteration passes
	var stay *ssa.BasicBlock
	for si, s := range b.Succs {
		if len(s.Preds) != 1 {
			continue
		}
		all := true
		for i := range ph.Edges {
			pr := b.Preds[i]
			if b.Dominates(pr) && !(s == pr || s.Dominates(pr)) {
				all = false
			}
		}
		if all {
			stay = b.Succs[si]
		}
	}
	if stay == nil {
		return nil
	}
	var gf []bfact
	p.condFacts(ifi.Cond, stay == b.Succs[0], &gf)
	var maxStep, minStep int64
	for _, c := range steps {
		if c > maxStep {
			maxStep = c
		}
		if c < minStep {
			minStep = c
		}
	}
	var entryPreds []*ssa.BasicBlock
	for i := range ph.Edges {
		if !b.Dominates(b.Preds[i]) {
			entryPreds = append(entryPreds, b.Preds[i])
		}
	}
	if len(entryPreds) != len(inits) {
		return nil
	}
	var res []bfact
	for _, f := range gf {
		if f.ne {
			continue
		}
		c, has := f.e.t[a]
		if !has || (c != 1 && c != -1) {
			continue
		}
		rest, ok := f.e.subst(a, blconst(0))
		if !ok || !p.definedOutsideLoopOf(ph, rest) || p.mentions(rest, ph) {
			continue
		}
		// f.e = rest + c*x >= 0
		var inv blin
		if c == -1 { // x <= rest  =>  invariant rest + maxStep - x >= 0
			inv = f.e.addc(maxStep)
		} else { // x >= -rest =>  invariant x + rest - minStep >= 0
			inv = f.e.addc(-minStep)
		}
		good := true
		for i, pr := range entryPreds {
			g, ok := inv.subst(a, inits[i])
			if !ok || !p.prove(p.edgeFacts(pr, b), g, pr, 1) {
				good = false
				break
			}
		}
		if good {
			res = append(res, bfact{e: inv, why: "guarded induction"})
		}
	}
	return res
}


// globalLen: the length of a package-level slice/string variable whose only
// store in the whole program is the package initialiser's composite literal.
func (w *World) globalLen(g *ssa.Global) (int64, bool) {
	if w.glens == nil {
		w.glens = map[*ssa.Global]int64{}
		count := map[*ssa.Global]int{}
		val := map[*ssa.Global]ssa.Value{}
		escaped := map[*ssa.Global]bool{}
		for fn := range w.CG.Nodes {
			if fn == nil {
				continue
			}
			pp := fnPkgPath(fn)
			if !isModPkg(pp) && !isDepPkg(pp) {
				continue
			}
			for _, b := range fn.Blocks {
				for _, in := range b.Instrs {
					for _, op := range in.Operands(nil) {
						gl, ok := (*op).(*ssa.Global)
						if !ok {
							continue
						}
						switch x := in.(type) {
						case *ssa.Store:
							if x.Addr == ssa.Value(gl) {
								count[gl]++
								val[gl] = x.Val
							} else {
								escaped[gl] = true
							}
						case *ssa.UnOp:
						default:
							escaped[gl] = true
						}
					}
				}
			}
		}
		w.gvals = map[*ssa.Global]ssa.Value{}
		for gl, n := range count {
			if n != 1 || escaped[gl] {
				continue
			}
			w.gvals[gl] = val[gl]
			switch v := val[gl].(type) {
			case *ssa.Slice:
				if al, ok := v.X.(*ssa.Alloc); ok && v.Low == nil && v.High == nil {
					if k, ok := arrayLen(al.Type()); ok {
						w.glens[gl] = k
					}
				}
			case *ssa.Const:
				if v.Value != nil && v.Value.Kind() == constant.String {
					w.glens[gl] = int64(len(constant.StringVal(v.Value)))
				}
			}
		}
	}
	n, ok := w.glens[g]
	return n, ok
}

// globalInt: the value of a package-level integer variable whose only store
// in the whole program is its initialiser, when that is a constant or the
// length of a package-level literal (var n = int32(len(table))).
func (w *World) globalInt(g *ssa.Global) (int64, bool) {
	w.globalLen(g) // fills the tables
	v, ok := w.gvals[g]
	if !ok {
		return 0, false
	}
	for i := 0; i < 4; i++ {
		switch x := v.(type) {
		case *ssa.Const:
			return bconstInt(x)
		case *ssa.Convert:
			v = x.X
			continue
		case *ssa.Call:
			if b, ok := x.Call.Value.(*ssa.Builtin); ok && b.Name() == "len" && len(x.Call.Args) == 1 {
				if ld, ok := x.Call.Args[0].(*ssa.UnOp); ok && ld.Op == token.MUL {
					if g2, ok := ld.X.(*ssa.Global); ok {
						return w.globalLen(g2)
					}
				}
			}
		}
		break
	}
	return 0, false
}

// canonLookup identifies m[k] with an earlier m[k] (same SSA map and key
// values) when the function never updates a map of that type and does not
// hand the map to a call.
func (p *bprover) canonLookup(x *ssa.Lookup) ssa.Value {
	if x.CommaOk {
		return x
	}
	if _, ok := x.X.Type().Underlying().(*types.Map); !ok {
		return x
	}
	if p.lkMemo == nil {
		p.lkMemo = map[*ssa.Lookup]ssa.Value{}
	}
	if c, ok := p.lkMemo[x]; ok {
		return c
	}
	p.lkMemo[x] = x
	mt := typeKey(x.X.Type())
	for _, b := range p.fn.Blocks {
		for _, in := range b.Instrs {
			switch y := in.(type) {
			case *ssa.MapUpdate:
				if typeKey(y.Map.Type()) == mt {
					return x
				}
			case ssa.CallInstruction:
				for _, a := range y.Common().Args {
					if typeKey(a.Type()) == mt {
						return x
					}
				}
				if len(p.fn.AnonFuncs) > 0 {
					if _, isB := y.Common().Value.(*ssa.Builtin); !isB {
						return x
					}
				}
			}
		}
	}
	for _, b := range p.fn.Blocks {
		for _, in := range b.Instrs {
			y, ok := in.(*ssa.Lookup)
			if !ok || y == x || y.CommaOk || y.X != x.X {
				continue
			}
			same := y.Index == x.Index
			if !same {
				cx, ok1 := x.Index.(*ssa.Const)
				cy, ok2 := y.Index.(*ssa.Const)
				same = ok1 && ok2 && cx.Value != nil && cy.Value != nil && constant.Compare(cx.Value, token.EQL, cy.Value)
			}
			if !same {
				continue
			}
			if y.Block() == x.Block() {
				// earlier in the block
				for _, z := range b.Instrs {
					if z == ssa.Instruction(y) {
						p.lkMemo[x] = y
						return y
					}
					if z == ssa.Instruction(x) {
						break
					}
				}
			} else if y.Block().Dominates(x.Block()) {
				p.lkMemo[x] = y
				return y
			}
		}
	}
	return x
}


// nonNilOf: 1 for values that are certainly not nil, 0 for the nil constant.
func (p *bprover) nonNilOf(v ssa.Value) blin {
	v = p.canonVal(v)
	switch x := v.(type) {
	case *ssa.Const:
		if x.Value == nil {
			return blconst(0)
		}
	case *ssa.Alloc, *ssa.MakeMap, *ssa.MakeClosure, *ssa.MakeChan, *ssa.FieldAddr, *ssa.IndexAddr, *ssa.Function, *ssa.Global:
		return blconst(1)
	}
	return blatom(atom{aNonNil, v})
}


// unrelatedContradiction groups the facts not used for the goal into
// components that share atoms and reports whether one of them is
// infeasible on its own (the path considered cannot be taken).
func (p *bprover) unrelatedContradiction(facts []bfact, used []bool) bool {
	parent := map[atom]atom{}
	var find func(a atom) atom
	find = func(a atom) atom {
		q, ok := parent[a]
		if !ok || q == a {
			parent[a] = a
			return a
		}
		r := find(q)
		parent[a] = r
		return r
	}
	n := 0
	for i, f := range facts {
		if used[i] || f.ne || len(f.e.t) == 0 {
			if !used[i] && !f.ne && len(f.e.t) == 0 && f.e.k < 0 {
				return true
			}
			continue
		}
		n++
		var first *atom
		for a := range f.e.t {
			a := a
			if first == nil {
				first = &a
				find(a)
			} else {
				parent[find(a)] = find(*first)
			}
		}
	}
	if n < 2 {
		return false
	}
	groups := map[atom][]blin{}
	for i, f := range facts {
		if used[i] || f.ne || len(f.e.t) == 0 {
			continue
		}
		var root atom
		for a := range f.e.t {
			root = find(a)
			break
		}
		groups[root] = append(groups[root], f.e)
	}
	for _, g := range groups {
		if len(g) < 2 {
			continue
		}
		cons := append([]blin{}, g...)
		seen := map[atom]bool{}
		for _, c := range g {
			for a := range c.t {
				if !seen[a] {
					seen[a] = true
					for _, f := range p.atomFacts(a) {
						if len(f.e.t) == 1 { // range facts only: keep the component small
							cons = append(cons, f.e)
						}
					}
				}
			}
		}
		if p.infeasible(cons) {
			return true
		}
	}
	return false
}


// monotoneLeaf: every value flowing into the phi (through other phis and
// additions of constants of one sign) comes from a single non-phi value
// leaf, so the phi stays on one side of it.  64-bit integers only (A1).
func (p *bprover) monotoneLeaf(x *ssa.Phi) (leaf ssa.Value, up, down, ok bool) {
	if !is64(x.Type()) || !isIntType(x.Type()) {
		return nil, false, false, false
	}
	up, down = true, true
	seen := map[ssa.Value]bool{}
	var leaves []ssa.Value
	var walk func(v ssa.Value, depth int) bool
	walk = func(v ssa.Value, depth int) bool {
		if depth > 12 {
			return false
		}
		if seen[v] {
			return true
		}
		switch y := v.(type) {
		case *ssa.Phi:
			seen[v] = true
			for _, e := range y.Edges {
				if !walk(e, depth+1) {
					return false
				}
			}
			return true
		case *ssa.BinOp:
			if y.Op == token.ADD || y.Op == token.SUB {
				if c, isC := bconstInt(y.Y); isC {
					if y.Op == token.SUB {
						c = -c
					}
					// only steps applied to something that leads back to a phi of the cycle count
					if inner, isPhi := y.X.(*ssa.Phi); isPhi || func() bool { _, b := y.X.(*ssa.BinOp); return b }() {
						_ = inner
						if c < 0 {
							up = false
						}
						if c > 0 {
							down = false
						}
						return walk(y.X, depth+1)
					}
				} else if y.Op == token.ADD {
					// a step by a value that is never negative (a length, a product of lengths and positive constants)
					isChain := func(v ssa.Value) bool {
						switch v.(type) {
						case *ssa.Phi:
							return true
						case *ssa.BinOp:
							return seen[v] || true
						}
						return false
					}
					var nonNeg func(v ssa.Value) bool
					nonNeg = func(v ssa.Value) bool {
						r := p.valRange(v)
						if r.hasLo && r.lo >= 0 {
							return true
						}
						switch c := v.(type) {
						case *ssa.Call:
							if _, isB := c.Call.Value.(*ssa.Builtin); !isB && p.br != nil && isIntType(c.Type()) {
								return p.br.nonNegCall(c, 0)
							}
						case *ssa.BinOp:
							if (c.Op == token.ADD || c.Op == token.MUL) && is64(c.Type()) {
								return nonNeg(c.X) && nonNeg(c.Y)
							}
						}
						return false
					}
					if _, xPhi := y.X.(*ssa.Phi); (xPhi || func() bool { b, ok := y.X.(*ssa.BinOp); return ok && b.Op == token.ADD }()) && isChain(y.X) && nonNeg(y.Y) {
						down = false
						return walk(y.X, depth+1)
					}
					if _, yPhi := y.Y.(*ssa.Phi); yPhi && nonNeg(y.X) {
						down = false
						return walk(y.Y, depth+1)
					}
				}
			}
		}
		for _, l := range leaves {
			if l == v {
				return true
			}
		}
		leaves = append(leaves, v)
		return true
	}
	if !walk(x, 0) || len(leaves) != 1 || (!up && !down) {
		if p.trace || os.Getenv("SFNT_MONO") != "" {
			fmt.Printf("      monotoneLeaf(%s): %d leaves up=%v down=%v\n", x.Name(), len(leaves), up, down)
			for _, l := range leaves {
				fmt.Printf("        leaf %s = %s\n", l.Name(), l.String())
			}
		}
		return nil, false, false, false
	}
	// the leaf must not change while the loops run
	if ins, isIns := leaves[0].(ssa.Instruction); isIns {
		if ins.Block() == nil || !ins.Block().Dominates(x.Block()) || ins.Block() == x.Block() {
			return nil, false, false, false
		}
		for v := range seen {
			if ph, isPhi := v.(*ssa.Phi); isPhi && !ins.Block().Dominates(ph.Block()) {
				return nil, false, false, false
			}
		}
	}
	if os.Getenv("SFNT_MONO") != "" {
		fmt.Printf("      monotoneLeaf(%s) ok: leaf %s = %s up=%v down=%v\n", x.Name(), leaves[0].Name(), leaves[0].String(), up, down)
	}
	return leaves[0], up, down, true
}


func isSlicesGrow(c *ssa.Function) bool {
	if c == nil {
		return false
	}
	o := c.Origin()
	if o == nil {
		o = c
	}
	return o.Pkg != nil && o.Pkg.Pkg.Path() == "slices" && o.Name() == "Grow"
}


// noteFieldLen records len >= n facts for loads of fields with a declared minimum length.
func (p *bprover) noteFieldLen(v ssa.Value) {
	var addr ssa.Value
	switch x := v.(type) {
	case *ssa.UnOp:
		addr = x.X
	case *memVal:
		addr = x.addr
	}
	fa, ok := addr.(*ssa.FieldAddr)
	if !ok {
		return
	}
	if n, ok := fieldMinLen[fieldKey(fa)]; ok {
		if p.minLen == nil {
			p.minLen = map[ssa.Value]int64{}
		}
		p.minLen[v] = n
	}
}


// phiSource: a phi-like value whose cycle of phis (the values that flow
// into it and that it flows into) is fed from outside by one single value
// equals that value: loops and joins that merely carry a value around.
func phiSource(v ssa.Value) (ssa.Value, bool) {
	if _, _, ok := phiLike(v); !ok {
		return nil, false
	}
	reach := func(from ssa.Value) map[ssa.Value]bool {
		seen := map[ssa.Value]bool{}
		var walk func(x ssa.Value, depth int)
		walk = func(x ssa.Value, depth int) {
			if depth > 30 || seen[x] {
				return
			}
			seen[x] = true
			if _, edges, ok := phiLike(x); ok {
				for _, e := range edges {
					if e != nil {
						walk(e, depth+1)
					}
				}
			}
		}
		walk(from, 0)
		return seen
	}
	fromV := reach(v)
	web := map[ssa.Value]bool{v: true}
	for x := range fromV {
		if x == v {
			continue
		}
		if _, _, ok := phiLike(x); ok && reach(x)[v] {
			web[x] = true
		}
	}
	var ext ssa.Value
	for x := range web {
		_, edges, _ := phiLike(x)
		for _, e := range edges {
			if e == nil {
				return nil, false
			}
			if web[e] {
				continue
			}
			if ext == nil {
				ext = e
			} else if ext != e {
				return nil, false
			}
		}
	}
	if ext == nil {
		return nil, false
	}
	return ext, true
}

// dominatesValue: block b dominates the block where the phi-like value v lives.
func dominatesValue(b *ssa.BasicBlock, v ssa.Value) bool {
	vb, _, ok := phiLike(v)
	if !ok || vb == nil {
		return false
	}
	return b == vb || b.Dominates(vb)
}


// instrBefore: a is executed before b on every path to b (same block and
// earlier, or in a strictly dominating block).
func instrBefore(a, b ssa.Instruction) bool {
	if a.Block() == nil || b.Block() == nil {
		return false
	}
	if a.Block() == b.Block() {
		for _, in := range a.Block().Instrs {
			if in == a {
				return true
			}
			if in == b {
				return false
			}
		}
		return false
	}
	return a.Block().Dominates(b.Block())
}


// srcDominates: the value src is defined where it dominates the phi-like value v.
func srcDominates(src, v ssa.Value) bool {
	switch x := src.(type) {
	case *memVal:
		if x.blk == nil {
			return true
		}
		return dominatesValue(x.blk, v)
	case ssa.Instruction:
		return x.Block() == nil || dominatesValue(x.Block(), v)
	}
	return true
}


// freshZero: the contents of a field of an object allocated in this function
// that has not been written since (version "entry"): the zero value.
func freshZero(v ssa.Value) bool {
	mv, ok := v.(*memVal)
	if !ok || mv.blk != nil || !strings.HasSuffix(mv.key, "#entry") {
		return false
	}
	if !strings.HasPrefix(mv.key, "F:") {
		return false
	}
	al, ok := mv.base.(*ssa.Alloc)
	return ok && al.Heap && freshRoot(al) == al
}


// memValVaries: the contents of the location may differ between iterations of
// the loop with this body: it is merged or written in the loop, or the
// location itself is chosen by a value computed in the loop (a[i] with the
// loop's i names a different element in every iteration).
func memValVaries(v *memVal, body map[*ssa.BasicBlock]bool) bool {
	if v.blk != nil && body[v.blk] {
		return true
	}
	for _, sb := range v.sites {
		if body[sb] {
			return true
		}
	}
	seen := map[ssa.Value]bool{}
	var varies func(x ssa.Value, depth int) bool
	varies = func(x ssa.Value, depth int) bool {
		if x == nil || seen[x] || depth > 8 {
			return false
		}
		seen[x] = true
		switch a := x.(type) {
		case *memVal:
			return memValVaries(a, body)
		case *ssa.IndexAddr:
			return varies(a.X, depth+1) || varies(a.Index, depth+1)
		case *ssa.FieldAddr:
			return varies(a.X, depth+1)
		case *ssa.ChangeType:
			return varies(a.X, depth+1)
		case *ssa.Convert:
			return varies(a.X, depth+1)
		case *ssa.UnOp:
			return a.Block() != nil && body[a.Block()]
		case ssa.Instruction:
			return a.Block() != nil && body[a.Block()]
		}
		return false
	}
	return varies(v.addr, 0) || varies(v.base, 0)
}

func (p *bprover) proveByLoopInduction(ctxFacts []bfact, goal blin, at *ssa.BasicBlock, splits int) bool {
	if splits <= 0 || at == nil || p.inInduction > 1 {
		return false
	}
	// the loop head: block of the phi-like atoms of the goal
	var head *ssa.BasicBlock
	var atoms []atom
	for _, a := range p.sortedAtoms(func() map[atom]bool {
		m := map[atom]bool{}
		for a := range goal.t {
			m[a] = true
		}
		return m
	}()) {
		pb, edges, ok := phiLike(a.v)
		if !ok || !isLoopMerge(pb, edges, a.v) {
			continue
		}
		if head != nil && head != pb {
			return false
		}
		head = pb
		atoms = append(atoms, a)
	}
	if head == nil || !(head == at || head.Dominates(at)) {
		return false
	}
	// the other atoms must not change while the loop runs
	body := map[*ssa.BasicBlock]bool{}
	for _, l := range naturalLoops(p.fn) {
		if l.head == head {
			body = l.body
		}
	}
	for a := range goal.t {
		isAtom := false
		for _, b := range atoms {
			if a == b {
				isAtom = true
			}
		}
		if isAtom {
			continue
		}
		switch v := a.v.(type) {
		case ssa.Instruction:
			if v.Block() != nil && body[v.Block()] {
				return false
			}
		case *memVal:
			if memValVaries(v, body) {
				return false
			}
		}
	}
	// facts of the context that only speak about values the loop does not change hold at all times
	invariantAtom := func(a atom) bool {
		switch v := a.v.(type) {
		case *ssa.Phi:
			if v.Block() != nil && body[v.Block()] {
				return false
			}
		case ssa.Instruction:
			if v.Block() != nil && body[v.Block()] {
				return false
			}
		case *memVal:
			if memValVaries(v, body) {
				return false
			}
		}
		return true
	}
	var timeless []bfact
	for _, f := range ctxFacts {
		ok := true
		for a := range f.e.t {
			if !invariantAtom(a) {
				ok = false
			}
		}
		if ok {
			timeless = append(timeless, f)
		}
	}
	p.inInduction++
	defer func() { p.inInduction-- }()
	for pi, pred := range head.Preds {
		g2 := goal
		ok := true
		for _, a := range atoms {
			_, edges, _ := phiLike(a.v)
			var by blin
			switch a.k {
			case aLen:
				by = p.lenOf(edges[pi])
			case aVal:
				by = p.linOf(edges[pi])
			case aNonNil:
				by = p.nonNilOf(edges[pi])
			default:
				return false
			}
			g2, ok = g2.subst(a, by)
			if !ok {
				return false
			}
		}
		facts := append(p.edgeFacts(pred, head), timeless...)
		if head.Dominates(pred) {
			facts = append(facts, bfact{e: goal, why: "induction hypothesis"})
		}
		if !p.prove(facts, g2, pred, splits-1) {
			return false
		}
	}
	return true
}

var neverRetCache = map[*ssa.Function]bool{}

// deadEndBlock: the block calls (statically) a function none of whose paths
// returns; control does not leave the block through its successors.
func deadEndBlock(b *ssa.BasicBlock) bool {
	for _, in := range b.Instrs {
		c, ok := in.(*ssa.Call)
		if !ok {
			continue
		}
		callee := c.Call.StaticCallee()
		if callee == nil || len(callee.Blocks) == 0 {
			continue
		}
		nr, ok := neverRetCache[callee]
		if !ok {
			nr = neverReturns(callee)
			neverRetCache[callee] = nr
		}
		if nr {
			return true
		}
	}
	return false
}

// liveGuards is guardsOf on the control-flow graph without the edges that
// leave a dead-end block (a block that calls a function none of whose paths
// returns, such as the parser's p.fatal): such a block is left only by
// unwinding, so behind `if c { p.fatal(...) }` the negation of c holds, and
// behind `if a { fatal } else if b { fatal }` both negations hold.  Dominance
// is recomputed on the pruned graph (removing edges only adds dominators, so
// the result contains every guard guardsOf reports).
func (p *bprover) liveGuards(b *ssa.BasicBlock) []guard {
	if p.live == nil {
		p.live = computeLiveCFG(p.fn)
	}
	lc := p.live
	if !lc.anyDead || !lc.reach[b] {
		return guardsOf(b)
	}
	var res []guard
	for _, d := range p.fn.Blocks {
		if d == b || !lc.dom[b][d] || lc.dead[d] || len(d.Instrs) == 0 {
			continue
		}
		ifi, ok := d.Instrs[len(d.Instrs)-1].(*ssa.If)
		if !ok {
			continue
		}
		t, f := d.Succs[0], d.Succs[1]
		if t == f {
			continue
		}
		only := func(s *ssa.BasicBlock) bool {
			lp := lc.preds[s]
			return len(lp) == 1 && lp[0] == d
		}
		td := only(t) && (t == b || lc.dom[b][t])
		fd := only(f) && (f == b || lc.dom[b][f])
		if td && !fd {
			res = append(res, guard{ifi.Cond, true, d})
		} else if fd && !td {
			res = append(res, guard{ifi.Cond, false, d})
		}
	}
	return res
}

type liveCFG struct {
	anyDead bool
	dead    map[*ssa.BasicBlock]bool
	reach   map[*ssa.BasicBlock]bool
	preds   map[*ssa.BasicBlock][]*ssa.BasicBlock
	dom     map[*ssa.BasicBlock]map[*ssa.BasicBlock]bool
}

func computeLiveCFG(fn *ssa.Function) *liveCFG {
	lc := &liveCFG{dead: map[*ssa.BasicBlock]bool{}, reach: map[*ssa.BasicBlock]bool{}, preds: map[*ssa.BasicBlock][]*ssa.BasicBlock{}, dom: map[*ssa.BasicBlock]map[*ssa.BasicBlock]bool{}}
	for _, b := range fn.Blocks {
		if deadEndBlock(b) {
			lc.dead[b] = true
			lc.anyDead = true
		}
	}
	if !lc.anyDead || len(fn.Blocks) == 0 {
		return lc
	}
	succs := func(b *ssa.BasicBlock) []*ssa.BasicBlock {
		if lc.dead[b] {
			return nil
		}
		return b.Succs
	}
	var order []*ssa.BasicBlock
	var dfs func(b *ssa.BasicBlock)
	dfs = func(b *ssa.BasicBlock) {
		if lc.reach[b] {
			return
		}
		lc.reach[b] = true
		order = append(order, b)
		for _, s := range succs(b) {
			dfs(s)
		}
	}
	dfs(fn.Blocks[0])
	for _, b := range order {
		for _, s := range succs(b) {
			lc.preds[s] = append(lc.preds[s], b)
		}
	}
	entry := fn.Blocks[0]
	for _, b := range order {
		m := map[*ssa.BasicBlock]bool{}
		if b == entry {
			m[b] = true
		} else {
			for _, x := range order {
				m[x] = true
			}
		}
		lc.dom[b] = m
	}
	for changed := true; changed; {
		changed = false
		for _, b := range order {
			if b == entry {
				continue
			}
			nw := map[*ssa.BasicBlock]bool{}
			first := true
			for _, pr := range lc.preds[b] {
				if first {
					for x := range lc.dom[pr] {
						nw[x] = true
					}
					first = false
				} else {
					for x := range nw {
						if !lc.dom[pr][x] {
							delete(nw, x)
						}
					}
				}
			}
			nw[b] = true
			if len(nw) != len(lc.dom[b]) {
				lc.dom[b] = nw
				changed = true
			}
		}
	}
	return lc
}
