package main

// C19 tokensep: the printer of the lookup description language never glues
// two tokens together. The analysis abstracts the output written so far by
// the class of its last character (identifier character / separator / inside
// an open string literal), runs that state through the control-flow graph of
// the printer functions (interprocedurally, per entry state) and requires
// that no write that begins with an identifier character happens in a state
// whose last character is an identifier character: the lexer would read the
// two as one identifier ("-marksclass").

import (
	"fmt"
	"go/constant"
	"go/types"
	"sort"
	"strings"
	"unicode"
	"unicode/utf8"

	"golang.org/x/tools/go/ssa"
)

const (
	tsA = 1 << iota // last character may continue an identifier or a number
	tsS             // separator: white space or punctuation
	tsQ             // inside an open string literal
)

// one way a write can look: empty, a lone quote (toggles the string state),
// or text with a first and a last character class
type tsAlt struct {
	empty, quote bool
	first, last  int
}

func tsClass(c rune) int {
	if unicode.IsLetter(c) || unicode.IsDigit(c) || c == '.' || c == '_' {
		return tsA
	}
	return tsS
}

func tsOfString(s string) tsAlt {
	if s == "" {
		return tsAlt{empty: true}
	}
	if s == `"` {
		return tsAlt{quote: true}
	}
	f, _ := utf8.DecodeRuneInString(s)
	l, _ := utf8.DecodeLastRuneInString(s)
	return tsAlt{first: tsClass(f), last: tsClass(l)}
}

var tsDynamic = tsAlt{first: tsA, last: tsA}

// tsOfValue: the alternatives for a string (or rune) operand.
func tsOfValue(v ssa.Value, seen map[ssa.Value]bool) []tsAlt {
	if seen[v] {
		return nil
	}
	seen[v] = true
	switch x := v.(type) {
	case *ssa.Const:
		if x.Value == nil {
			return []tsAlt{{empty: true}}
		}
		switch x.Value.Kind() {
		case constant.String:
			return []tsAlt{tsOfString(constant.StringVal(x.Value))}
		case constant.Int:
			if n, ok := constant.Int64Val(x.Value); ok {
				return []tsAlt{tsOfString(string(rune(n)))}
			}
		}
	case *ssa.Phi:
		var res []tsAlt
		for _, e := range x.Edges {
			res = append(res, tsOfValue(e, seen)...)
		}
		return res
	case *ssa.Convert:
		if b, ok := x.X.Type().Underlying().(*types.Basic); ok && b.Info()&types.IsInteger != 0 {
			return tsOfValue(x.X, seen)
		}
	case *ssa.ChangeType:
		return tsOfValue(x.X, seen)
	}
	return []tsAlt{tsDynamic}
}

// tsOfFormat: first and last class of the text a format string produces.
func tsOfFormat(f string) tsAlt {
	if f == "" {
		return tsAlt{empty: true}
	}
	verbClass := func(spec string) int {
		// spec: the characters between % and the verb, plus the verb
		verb := spec[len(spec)-1]
		switch verb {
		case 'q', 'U', 'x', 'X':
			if verb == 'q' {
				return tsS
			}
		case 'd':
			if strings.Contains(spec, "+") {
				return tsS
			}
		case '%':
			return tsS
		}
		return tsA
	}
	type piece struct{ first, last int }
	var pieces []piece
	for i := 0; i < len(f); {
		if f[i] == '%' {
			j := i + 1
			for j < len(f) && strings.ContainsRune("+-# 0123456789.*[]", rune(f[j])) {
				j++
			}
			if j >= len(f) {
				pieces = append(pieces, piece{tsS, tsS})
				break
			}
			c := verbClass(f[i+1 : j+1])
			last := c
			if f[j] == 'q' || f[j] == 'd' {
				// "%+d": sign first, digits last; %q ends with a quote
				if f[j] == 'd' {
					last = tsA
				}
			}
			pieces = append(pieces, piece{c, last})
			i = j + 1
			continue
		}
		r, n := utf8.DecodeRuneInString(f[i:])
		pieces = append(pieces, piece{tsClass(r), tsClass(r)})
		i += n
	}
	if len(pieces) == 0 {
		return tsAlt{empty: true}
	}
	return tsAlt{first: pieces[0].first, last: pieces[len(pieces)-1].last}
}

type tsWrite struct {
	alts []tsAlt
	text string
}

type tokenSep struct {
	w     *World
	fns   map[*ssa.Function]bool
	sum   map[*ssa.Function]map[int]int // entry state -> exit state set
	busy  map[*ssa.Function]map[int]bool
	reach map[*ssa.Function]int // entry states that occur
	// write sites that begin with an identifier character: states seen before them
	sites map[ssa.Instruction]int
	via   map[ssa.Instruction]string
	// lines: the abstraction is "at the start of a line" (tsA: the text ends with a line break and
	// tabs) against "inside a line" (tsS) instead of the class of the last character
	lines bool
	tail  string // lines: the one text after which the output is at a line start ("" = not uniform)
}

// lnOfString: line mode. first is tsA when the text begins with a line break
// (after blanks), last is tsA when it ends with a line break followed by tabs
// only; a text of blanks only leaves a line start (a line holding a blank is
// not followed up: the rule then misses, it does not alarm).
func lnOfString(s string) tsAlt {
	if s == "" {
		return tsAlt{empty: true}
	}
	a := tsAlt{first: tsS, last: tsS}
	if t := strings.TrimLeft(s, " \t"); strings.HasPrefix(t, "\n") {
		a.first = tsA
	}
	if t := strings.TrimRight(s, "\t"); strings.HasSuffix(t, "\n") {
		a.last = tsA
	}
	return a
}

func lnTail(s string) string {
	i := strings.LastIndexByte(s, '\n')
	if i < 0 {
		return ""
	}
	return s[i:]
}

func lnSeq(a, b tsAlt) tsAlt {
	switch {
	case a.empty:
		return b
	case b.empty:
		return a
	}
	return tsAlt{first: a.first, last: b.last}
}

var lnDynamic = tsAlt{first: tsS, last: tsS}

func lnOfValue(v ssa.Value, seen map[ssa.Value]bool) []tsAlt {
	if seen[v] {
		return nil
	}
	seen[v] = true
	switch x := v.(type) {
	case *ssa.Const:
		if x.Value == nil {
			return []tsAlt{{empty: true}}
		}
		switch x.Value.Kind() {
		case constant.String:
			return []tsAlt{lnOfString(constant.StringVal(x.Value))}
		case constant.Int:
			if n, ok := constant.Int64Val(x.Value); ok {
				return []tsAlt{lnOfString(string(rune(n)))}
			}
		}
	case *ssa.Phi:
		var res []tsAlt
		for _, e := range x.Edges {
			res = append(res, lnOfValue(e, seen)...)
		}
		return res
	case *ssa.BinOp:
		if x.Op.String() == "+" {
			var res []tsAlt
			for _, a := range lnOfValue(x.X, seen) {
				for _, b := range lnOfValue(x.Y, seen) {
					res = append(res, lnSeq(a, b))
				}
			}
			if len(res) > 0 {
				return res
			}
		}
	case *ssa.Convert:
		if b, ok := x.X.Type().Underlying().(*types.Basic); ok && b.Info()&types.IsInteger != 0 {
			return lnOfValue(x.X, seen)
		}
	case *ssa.ChangeType:
		return lnOfValue(x.X, seen)
	}
	return []tsAlt{lnDynamic}
}

// lnOfFormat: the verbs never produce a line break (glyph names, numbers, quoted strings).
func lnOfFormat(f string) tsAlt {
	if f == "" {
		return tsAlt{empty: true}
	}
	a := tsAlt{first: tsS, last: tsS}
	if t := strings.TrimLeft(f, " \t"); strings.HasPrefix(t, "\n") {
		a.first = tsA
	}
	if t := strings.TrimRight(f, "\t"); strings.HasSuffix(t, "\n") {
		a.last = tsA
	}
	return a
}

func isBuilderRecv(t types.Type) bool {
	if p, ok := t.(*types.Pointer); ok {
		t = p.Elem()
	}
	if n, ok := t.(*types.Named); ok && n.Obj().Pkg() != nil {
		return n.Obj().Pkg().Path() == "strings" && n.Obj().Name() == "Builder"
	}
	return false
}

// writeOf: the instruction writes text to a strings.Builder.
func (ts *tokenSep) writeOf(in ssa.Instruction) (tsWrite, bool) {
	call, ok := in.(*ssa.Call)
	if !ok {
		return tsWrite{}, false
	}
	c := call.Common()
	callee := c.StaticCallee()
	if callee == nil {
		return tsWrite{}, false
	}
	name := callee.Name()
	if ts.lines {
		return ts.lnWriteOf(c, callee)
	}
	if callee.Signature.Recv() != nil && isBuilderRecv(callee.Signature.Recv().Type()) {
		switch name {
		case "WriteString", "WriteRune", "WriteByte":
			if len(c.Args) == 2 {
				return tsWrite{alts: tsOfValue(c.Args[1], map[ssa.Value]bool{}), text: name}, true
			}
		case "Write":
			return tsWrite{alts: []tsAlt{tsDynamic}, text: name}, true
		}
		return tsWrite{}, false
	}
	if callee.Pkg != nil && callee.Pkg.Pkg.Path() == "fmt" && len(c.Args) >= 1 {
		dst := c.Args[0]
		if mi, ok := dst.(*ssa.MakeInterface); ok {
			dst = mi.X
		}
		if !isBuilderRecv(dst.Type()) {
			return tsWrite{}, false
		}
		switch name {
		case "Fprintf":
			if k, ok := c.Args[1].(*ssa.Const); ok && k.Value != nil && k.Value.Kind() == constant.String {
				return tsWrite{alts: []tsAlt{tsOfFormat(constant.StringVal(k.Value))}, text: "Fprintf " + k.Value.ExactString()}, true
			}
			return tsWrite{alts: []tsAlt{tsDynamic}, text: name}, true
		case "Fprint":
			return tsWrite{alts: []tsAlt{tsDynamic}, text: name}, true
		case "Fprintln":
			return tsWrite{alts: []tsAlt{{first: tsA, last: tsS}}, text: name}, true
		}
	}
	return tsWrite{}, false
}

func (ts *tokenSep) lnWriteOf(c *ssa.CallCommon, callee *ssa.Function) (tsWrite, bool) {
	name := callee.Name()
	if callee.Signature.Recv() != nil && isBuilderRecv(callee.Signature.Recv().Type()) {
		switch name {
		case "WriteString", "WriteRune", "WriteByte":
			if len(c.Args) == 2 {
				return tsWrite{alts: lnOfValue(c.Args[1], map[ssa.Value]bool{}), text: name}, true
			}
		case "Write":
			return tsWrite{alts: []tsAlt{lnDynamic}, text: name}, true
		}
		return tsWrite{}, false
	}
	if callee.Pkg != nil && callee.Pkg.Pkg.Path() == "fmt" && len(c.Args) >= 1 {
		dst := c.Args[0]
		if mi, ok := dst.(*ssa.MakeInterface); ok {
			dst = mi.X
		}
		if !isBuilderRecv(dst.Type()) {
			return tsWrite{}, false
		}
		switch name {
		case "Fprintf":
			if k, ok := c.Args[1].(*ssa.Const); ok && k.Value != nil && k.Value.Kind() == constant.String {
				return tsWrite{alts: []tsAlt{lnOfFormat(constant.StringVal(k.Value))}, text: "Fprintf " + k.Value.ExactString()}, true
			}
			return tsWrite{alts: []tsAlt{lnDynamic}, text: name}, true
		case "Fprint":
			return tsWrite{alts: []tsAlt{lnDynamic}, text: name}, true
		case "Fprintln":
			return tsWrite{alts: []tsAlt{{first: tsS, last: tsA}}, text: name}, true
		}
	}
	return tsWrite{}, false
}

// lnSuffixTest: the condition is strings.HasSuffix(<builder>.String(), c) for
// the constant c after which the output is at a line start.
func (ts *tokenSep) lnSuffixTest(cond ssa.Value) bool {
	if !ts.lines || ts.tail == "" {
		return false
	}
	c, ok := builderSuffixTest(cond)
	return ok && c == ts.tail
}

// builderSuffixTest: cond is strings.HasSuffix(<builder>.String(), c) for a constant c.
func builderSuffixTest(cond ssa.Value) (string, bool) {
	call, ok := cond.(*ssa.Call)
	if !ok {
		return "", false
	}
	callee := call.Common().StaticCallee()
	if callee == nil || callee.Pkg == nil || callee.Pkg.Pkg.Path() != "strings" || callee.Name() != "HasSuffix" || len(call.Common().Args) != 2 {
		return "", false
	}
	k, ok := call.Common().Args[1].(*ssa.Const)
	if !ok || k.Value == nil || k.Value.Kind() != constant.String || constant.StringVal(k.Value) == "" {
		return "", false
	}
	src, ok := call.Common().Args[0].(*ssa.Call)
	if !ok {
		return "", false
	}
	sc := src.Common().StaticCallee()
	if sc != nil && sc.Name() == "String" && sc.Signature.Recv() != nil && isBuilderRecv(sc.Signature.Recv().Type()) {
		return constant.StringVal(k.Value), true
	}
	return "", false
}

func tsApply(state int, a tsAlt) int {
	switch {
	case a.empty:
		return state
	case a.quote:
		if state == tsQ {
			return tsS
		}
		return tsQ
	case state == tsQ:
		return tsQ
	}
	return a.last
}

// tsLoop: a loop whose counter is tested against zero somewhere in the
// function: the analysis then keeps, per state, whether the loop is in its
// first iteration, so that "if i > 0 { write(' ') }" is followed exactly.
type tsLoop struct {
	header *ssa.BasicBlock
	body   map[*ssa.BasicBlock]bool
	bit    uint32
}

// firstIterValue: v is 0 exactly in the first iteration of the loop headed by
// the block of the phi it is built from.
func firstIterValue(v ssa.Value) *ssa.BasicBlock {
	isC := func(x ssa.Value, n int64) bool {
		c, ok := x.(*ssa.Const)
		if !ok || c.Value == nil {
			return false
		}
		k, ok := constant.Int64Val(constant.ToInt(c.Value))
		return ok && k == n
	}
	plusOne := func(x ssa.Value) ssa.Value {
		if b, ok := x.(*ssa.BinOp); ok && b.Op.String() == "+" && isC(b.Y, 1) {
			return b.X
		}
		return nil
	}
	if ph, ok := v.(*ssa.Phi); ok {
		// for i := 0; ...; i++
		h := ph.Block()
		okAll := len(ph.Edges) >= 2
		for i, e := range ph.Edges {
			if h.Dominates(h.Preds[i]) {
				if plusOne(e) != ssa.Value(ph) {
					okAll = false
				}
			} else if !isC(e, 0) {
				okAll = false
			}
		}
		if okAll {
			return h
		}
		return nil
	}
	if base := plusOne(v); base != nil {
		// range loops: t1 = phi [-1, t2]; t2 = t1 + 1
		if ph, ok := base.(*ssa.Phi); ok {
			h := ph.Block()
			okAll := len(ph.Edges) >= 2
			for i, e := range ph.Edges {
				if h.Dominates(h.Preds[i]) {
					if e != v {
						okAll = false
					}
				} else if !isC(e, -1) {
					okAll = false
				}
			}
			if okAll {
				return h
			}
		}
	}
	return nil
}

// zeroTest: the condition is a test of a first-iteration counter against
// zero; zeroOnTrue says which branch is the first iteration.
func zeroTest(cond ssa.Value) (h *ssa.BasicBlock, zeroOnTrue bool, ok bool) {
	b, isB := cond.(*ssa.BinOp)
	if !isB {
		return nil, false, false
	}
	c, isC := b.Y.(*ssa.Const)
	if !isC || c.Value == nil || c.Value.Kind() != constant.Int {
		return nil, false, false
	}
	k, _ := constant.Int64Val(c.Value)
	h = firstIterValue(b.X)
	if h == nil {
		return nil, false, false
	}
	switch {
	case b.Op.String() == "==" && k == 0, b.Op.String() == "<" && k == 1, b.Op.String() == "<=" && k == 0:
		return h, true, true
	case b.Op.String() == "!=" && k == 0, b.Op.String() == ">" && k == 0, b.Op.String() == ">=" && k == 1:
		return h, false, true
	}
	return nil, false, false
}

func naturalLoop(h *ssa.BasicBlock) map[*ssa.BasicBlock]bool {
	body := map[*ssa.BasicBlock]bool{h: true}
	var stack []*ssa.BasicBlock
	for _, p := range h.Preds {
		if h.Dominates(p) && !body[p] {
			body[p] = true
			stack = append(stack, p)
		}
	}
	for len(stack) > 0 {
		b := stack[len(stack)-1]
		stack = stack[:len(stack)-1]
		for _, p := range b.Preds {
			if !body[p] {
				body[p] = true
				stack = append(stack, p)
			}
		}
	}
	return body
}

type tsStates map[uint32]bool // class index (0 A, 1 S, 2 Q) | first-iteration flags << 2

var tsClassBits = [3]int{tsA, tsS, tsQ}

func tsIdx(class int) uint32 {
	switch class {
	case tsA:
		return 0
	case tsS:
		return 1
	}
	return 2
}

// run: the exit state set of fn when entered in the single state `entry`.
func (ts *tokenSep) run(fn *ssa.Function, entry int, chain string) int {
	if m := ts.sum[fn]; m != nil {
		if out, ok := m[entry]; ok {
			return out
		}
	}
	if ts.busy[fn] == nil {
		ts.busy[fn] = map[int]bool{}
	}
	if ts.busy[fn][entry] {
		return entry // recursion: assume the state is unchanged
	}
	ts.busy[fn][entry] = true
	defer func() { ts.busy[fn][entry] = false }()
	ts.reach[fn] |= entry
	if len(fn.Blocks) == 0 {
		return entry
	}
	// loops with a first-iteration test
	loops := map[*ssa.BasicBlock]*tsLoop{}
	for _, b := range fn.Blocks {
		if len(b.Instrs) == 0 {
			continue
		}
		if ifi, ok := b.Instrs[len(b.Instrs)-1].(*ssa.If); ok {
			if h, _, ok := zeroTest(ifi.Cond); ok && loops[h] == nil && len(loops) < 20 {
				loops[h] = &tsLoop{header: h, body: naturalLoop(h), bit: 1 << uint(len(loops))}
			}
		}
	}
	in := make([]tsStates, len(fn.Blocks))
	for i := range in {
		in[i] = tsStates{}
	}
	in[0][tsIdx(entry)] = true
	exit := 0
	work := []*ssa.BasicBlock{fn.Blocks[0]}
	for len(work) > 0 {
		b := work[len(work)-1]
		work = work[:len(work)-1]
		st := tsStates{}
		for k := range in[b.Index] {
			st[k] = true
		}
		for _, ins := range b.Instrs {
			if wr, ok := ts.writeOf(ins); ok {
				next := tsStates{}
				for k := range st {
					s := tsClassBits[k&3]
					for _, a := range wr.alts {
						if !a.empty && !a.quote && a.first == tsA && s != tsQ {
							ts.sites[ins] |= s
							if s == tsA && ts.via[ins] == "" {
								ts.via[ins] = chain
							}
						}
						next[tsIdx(tsApply(s, a))|k&^3] = true
					}
				}
				st = next
				continue
			}
			switch x := ins.(type) {
			case *ssa.Call:
				callees := []*ssa.Function{}
				if c := x.Common().StaticCallee(); c != nil {
					callees = append(callees, c)
				} else if mc, ok := x.Common().Value.(*ssa.MakeClosure); ok {
					callees = append(callees, mc.Fn.(*ssa.Function))
				}
				for _, c := range callees {
					if !ts.fns[c] {
						continue
					}
					next := tsStates{}
					for k := range st {
						out := ts.run(c, tsClassBits[k&3], chain+" > "+fnName(c))
						for _, cb := range tsClassBits {
							if out&cb != 0 {
								next[tsIdx(cb)|k&^3] = true
							}
						}
					}
					st = next
				}
			case *ssa.Alloc:
				// a fresh builder: the text starts over
				if isBuilderRecv(x.Type()) {
					next := tsStates{}
					for k := range st {
						next[tsIdx(tsS)|k&^3] = true
					}
					st = next
				}
			case *ssa.Return:
				for k := range st {
					exit |= tsClassBits[k&3]
				}
			}
		}
		var zh *tsLoop
		zeroOnTrue := false
		if len(b.Instrs) > 0 {
			if ifi, ok := b.Instrs[len(b.Instrs)-1].(*ssa.If); ok {
				if h, zt, ok := zeroTest(ifi.Cond); ok && loops[h] != nil && loops[h].body[b] {
					zh, zeroOnTrue = loops[h], zt
				}
			}
		}
		suffixTest := false
		lastOfSuffix := 0 // token mode: the class of the last character when the suffix test holds
		if len(b.Instrs) > 0 {
			if ifi, ok := b.Instrs[len(b.Instrs)-1].(*ssa.If); ok {
				if ts.lnSuffixTest(ifi.Cond) {
					suffixTest = true
				} else if c, ok := builderSuffixTest(ifi.Cond); ok && !ts.lines && !strings.Contains(c, `"`) {
					l, _ := utf8.DecodeLastRuneInString(c)
					lastOfSuffix = tsClass(l)
				}
			}
		}
		for si, s := range b.Succs {
			changed := false
			for k := range st {
				if suffixTest && (si == 0) != (tsClassBits[k&3] == tsA) {
					continue // the text ends with the line-start text exactly in the states at a line start
				}
				if lastOfSuffix != 0 && si == 0 && tsClassBits[k&3] != tsQ && tsClassBits[k&3] != lastOfSuffix {
					continue // the text ends with the constant: its last character has that class
				}
				if zh != nil {
					first := k>>2&zh.bit != 0
					if (si == 0) == zeroOnTrue != first {
						continue // infeasible: the test contradicts the iteration flag
					}
				}
				nk := k
				for _, l := range loops {
					fl := l.bit << 2
					switch {
					case s == l.header && !l.body[b]:
						nk |= fl // entering the loop
					case s == l.header && l.body[b]:
						nk &^= fl // next iteration
					case l.body[b] && !l.body[s]:
						nk &^= fl // leaving
					}
				}
				if !in[s.Index][nk] {
					in[s.Index][nk] = true
					changed = true
				}
			}
			if changed {
				work = append(work, s)
			}
		}
	}
	if ts.sum[fn] == nil {
		ts.sum[fn] = map[int]int{}
	}
	ts.sum[fn][entry] = exit
	return exit
}

func RunTokenSep(w *World, r *Report, entries []string) {
	r.Rule("tokensep: abstracting the text written so far by the class of its last character (identifier character, separator, inside an open string literal) and running that state through the printer functions reachable from ExplainGsub and ExplainGpos (per entry state, following static calls), no write that begins with an identifier character (a keyword, a glyph name, a number) can happen while the last character written is an identifier character: the lexer would read the two as one token")
	var es []*ssa.Function
	for _, e := range entries {
		fn := w.Func(e)
		if fn == nil {
			r.Fatal("anchor %s does not resolve", e)
			return
		}
		es = append(es, fn)
	}
	ts := &tokenSep{w: w, fns: map[*ssa.Function]bool{}, sum: map[*ssa.Function]map[int]int{}, busy: map[*ssa.Function]map[int]bool{}, reach: map[*ssa.Function]int{}, sites: map[ssa.Instruction]int{}, via: map[ssa.Instruction]string{}}
	for _, fn := range srcFuncsReachable(w, es) {
		if fnPkgPath(fn) == builderPkg {
			ts.fns[fn] = true
			for _, a := range fn.AnonFuncs {
				ts.fns[a] = true
			}
		}
	}
	for _, e := range es {
		ts.run(e, tsS, fnName(e))
	}
	var sites []ssa.Instruction
	for s := range ts.sites {
		sites = append(sites, s)
	}
	sort.Slice(sites, func(i, j int) bool { return sites[i].Pos() < sites[j].Pos() })
	for _, s := range sites {
		fn := s.Parent()
		wr, _ := ts.writeOf(s)
		call := s.(*ssa.Call)
		text := wr.text
		if len(call.Common().Args) > 1 && !strings.HasPrefix(text, "Fprintf ") {
			text += " " + valueText(call.Common().Args[1])
		}
		key := r.MkKey("tokensep", fnName(fn), text)
		if strings.HasPrefix(wr.text, "Fprintf ") && hyphenBeforeName(wr.text) {
			r.FailC("tokensep", key, []string{"hyphendigit"}, w.Pos(s.Pos()), "the format writes a hyphen directly in front of a glyph name: for a font without glyph names the name is a number, and the lexer reads \"-7\" as a negative integer instead of a hyphen and a glyph (the range 5-7 does not parse back)", nil)
			continue
		}
		if ts.sites[s]&tsA != 0 {
			r.Fail("tokensep", key, w.Pos(s.Pos()), fmt.Sprintf("this write begins with an identifier character and can follow a write that ended with one, with nothing in between (reached through %s): the description then contains the two glued into one token and does not parse back", ts.via[s]), nil)
		} else {
			r.OK("tokensep", key, w.Pos(s.Pos()), "every state reaching this write ends in a separator")
		}
	}
}

// RunBlankLine: the printer never leaves a line empty. The parser skips at
// most one end of line where it allows one (after the lookup header, after
// "||", between the rows of a class-based subtable), so a description with an
// empty line does not parse back. The state "at the start of a line" is run
// through the printer like the token classes of tokensep.
func RunBlankLine(w *World, r *Report, entries []string) {
	r.Rule("blankline: abstracting the text written so far by whether it ends with a line break (followed by tabs only), and running that state through the printer functions reachable from ExplainGsub and ExplainGpos (per entry state, following static calls, exact for first-iteration tests of loop counters and for a test strings.HasSuffix(builder.String(), t) where t is the one line-break text the printer writes), no write that begins with a line break can happen at the start of a line: the parser skips one end of line only, an empty line (for instance after the separator of two subtables) makes the description unparsable; the bare line break with which the entry function ends a lookup is exempt (between lookups any number of line ends is skipped)")
	var es []*ssa.Function
	for _, e := range entries {
		fn := w.Func(e)
		if fn == nil {
			r.Fatal("anchor %s does not resolve", e)
			return
		}
		es = append(es, fn)
	}
	ts := &tokenSep{w: w, lines: true, fns: map[*ssa.Function]bool{}, sum: map[*ssa.Function]map[int]int{}, busy: map[*ssa.Function]map[int]bool{}, reach: map[*ssa.Function]int{}, sites: map[ssa.Instruction]int{}, via: map[ssa.Instruction]string{}}
	for _, fn := range srcFuncsReachable(w, es) {
		if fnPkgPath(fn) == builderPkg {
			ts.fns[fn] = true
			for _, a := range fn.AnonFuncs {
				ts.fns[a] = true
			}
		}
	}
	isEntry := map[*ssa.Function]bool{}
	for _, e := range es {
		isEntry[e] = true
	}
	tails := map[string]bool{}
	for fn := range ts.fns {
		for _, b := range fn.Blocks {
			for _, in := range b.Instrs {
				for _, op := range in.Operands(nil) {
					if c, ok := (*op).(*ssa.Const); ok && c.Value != nil && c.Value.Kind() == constant.String {
						if sv := constant.StringVal(c.Value); lnOfString(sv).last == tsA {
							tails[lnTail(sv)] = true
						}
					}
				}
			}
		}
	}
	if len(tails) == 1 {
		for t := range tails {
			ts.tail = t
		}
	}
	for _, e := range es {
		ts.run(e, tsS, fnName(e))
	}
	var sites []ssa.Instruction
	for s := range ts.sites {
		sites = append(sites, s)
	}
	sort.Slice(sites, func(i, j int) bool { return sites[i].Pos() < sites[j].Pos() })
	for _, s := range sites {
		fn := s.Parent()
		wr, _ := ts.writeOf(s)
		call := s.(*ssa.Call)
		text := wr.text
		if len(call.Common().Args) > 1 && !strings.HasPrefix(text, "Fprintf ") {
			text += " " + valueText(call.Common().Args[1])
		}
		key := r.MkKey("blankline", fnName(fn), text)
		if isEntry[fn] && lnBareBreak(call) && loopDepth(s.Block()) <= 1 {
			r.OK("blankline", key, w.Pos(s.Pos()), "a bare line break written by the entry function outside the loop over the subtables ends the lookup: between lookups the parser skips any number of line ends")
			continue
		}
		if ts.sites[s]&tsA != 0 {
			r.Fail("blankline", key, w.Pos(s.Pos()), fmt.Sprintf("this write begins with a line break and can follow a write that ended with one (reached through %s): the description then contains an empty line, which the parser does not skip (it allows one end of line there)", ts.via[s]), nil)
		} else {
			r.OK("blankline", key, w.Pos(s.Pos()), "no state reaching this write is at the start of a line")
		}
	}
	r.Floor("blankline", 6)
}

// lnBareBreak: the write is the single character '\n'.
func lnBareBreak(call *ssa.Call) bool {
	if len(call.Common().Args) != 2 {
		return false
	}
	c, ok := call.Common().Args[1].(*ssa.Const)
	if !ok || c.Value == nil {
		return false
	}
	switch c.Value.Kind() {
	case constant.String:
		return constant.StringVal(c.Value) == "\n"
	case constant.Int:
		n, ok := constant.Int64Val(c.Value)
		return ok && n == '\n'
	}
	return false
}

// loopDepth: the number of natural loops of the function that contain b.
func loopDepth(b *ssa.BasicBlock) int {
	n := 0
	for _, h := range b.Parent().Blocks {
		isHead := false
		for _, p := range h.Preds {
			if h.Dominates(p) {
				isHead = true
			}
		}
		if isHead && naturalLoop(h)[b] {
			n++
		}
	}
	return n
}

func valueText(v ssa.Value) string {
	switch x := v.(type) {
	case *ssa.Const:
		if x.Value != nil {
			return x.Value.ExactString()
		}
	case *ssa.Parameter:
		return x.Name()
	}
	return "<computed>"
}

// RunPrinterKeywords: every lower-case word the printer writes as a token of
// its own (a keyword: class, mark, base, first, second, to, flag names) is a
// word the parser knows: it occurs as a string constant in a function
// reachable from Parse. A keyword renamed on one side only makes every
// description that contains it unparsable.
func RunPrinterKeywords(w *World, r *Report, entries []string, parse string) {
	r.Rule("keywords: every lower-case word that occurs in a string constant the printer writes (a constant operand of a write, a format string, or a string constant handed to a printer function; text after '#' is a comment) occurs as a string constant in a function of the package reachable from Parse: printer and parser agree on the keywords of the language")
	var es []*ssa.Function
	for _, e := range entries {
		fn := w.Func(e)
		if fn == nil {
			r.Fatal("anchor %s does not resolve", e)
			return
		}
		es = append(es, fn)
	}
	pf := w.Func(parse)
	if pf == nil {
		r.Fatal("anchor %s does not resolve", parse)
		return
	}
	ts := &tokenSep{w: w, fns: map[*ssa.Function]bool{}}
	for _, fn := range srcFuncsReachable(w, es) {
		if fnPkgPath(fn) == builderPkg {
			ts.fns[fn] = true
			for _, a := range fn.AnonFuncs {
				ts.fns[a] = true
			}
		}
	}
	known := map[string]bool{}
	for _, fn := range srcFuncsReachable(w, []*ssa.Function{pf}) {
		if fnPkgPath(fn) != builderPkg {
			continue
		}
		fs := append([]*ssa.Function{fn}, fn.AnonFuncs...)
		for _, f := range fs {
			for _, b := range f.Blocks {
				for _, in := range b.Instrs {
					for _, op := range in.Operands(nil) {
						if c, ok := (*op).(*ssa.Const); ok && c.Value != nil && c.Value.Kind() == constant.String {
							known[constant.StringVal(c.Value)] = true
						}
					}
				}
			}
		}
	}
	type occ struct {
		pos  string
		word string
		fn   string
	}
	var occs []occ
	seenWord := map[string]bool{}
	addConst := func(fn *ssa.Function, ins ssa.Instruction, s string, isFormat bool) {
		if i := strings.IndexByte(s, '#'); i >= 0 {
			s = s[:i]
		}
		if isFormat {
			// drop the verbs
			var sb strings.Builder
			for i := 0; i < len(s); i++ {
				if s[i] == '%' {
					j := i + 1
					for j < len(s) && strings.ContainsRune("+-# 0123456789.*[]", rune(s[j])) {
						j++
					}
					sb.WriteByte(' ')
					i = j
					continue
				}
				sb.WriteByte(s[i])
			}
			s = sb.String()
		}
		word := ""
		flush := func() {
			if len(word) >= 2 && !seenWord[word] {
				seenWord[word] = true
				occs = append(occs, occ{w.Pos(ins.Pos()), word, fnName(fn)})
			}
			word = ""
		}
		prev := rune(0)
		for _, c := range s {
			if c >= 'a' && c <= 'z' {
				if word == "" && (unicode.IsLetter(prev) || unicode.IsDigit(prev)) {
					// continues a token that did not start in lower case (GSUB1, c1): not a keyword
					prev = c
					continue
				}
				word += string(c)
			} else {
				if unicode.IsLetter(c) || unicode.IsDigit(c) {
					word = "" // mixed token
				} else {
					flush()
				}
			}
			prev = c
		}
		flush()
	}
	var fns []*ssa.Function
	for fn := range ts.fns {
		fns = append(fns, fn)
	}
	sort.Slice(fns, func(i, j int) bool { return fns[i].Pos() < fns[j].Pos() })
	for _, fn := range fns {
		for _, b := range fn.Blocks {
			for _, ins := range b.Instrs {
				call, ok := ins.(*ssa.Call)
				if !ok {
					continue
				}
				if _, isW := ts.writeOf(ins); isW {
					c := call.Common()
					for i, a := range c.Args {
						if k, ok := a.(*ssa.Const); ok && k.Value != nil && k.Value.Kind() == constant.String {
							callee := c.StaticCallee()
							addConst(fn, ins, constant.StringVal(k.Value), callee != nil && callee.Name() == "Fprintf" && i == 1)
						}
					}
					continue
				}
				if callee := call.Common().StaticCallee(); callee != nil && ts.fns[callee] {
					for _, a := range call.Common().Args {
						if k, ok := a.(*ssa.Const); ok && k.Value != nil && k.Value.Kind() == constant.String {
							addConst(fn, ins, constant.StringVal(k.Value), false)
						}
					}
				}
			}
		}
	}
	for _, o := range occs {
		key := r.MkKey("keywords", o.fn, "word "+o.word)
		if known[o.word] {
			r.OK("keywords", key, o.pos, "the parser has the same word as a string constant")
		} else {
			r.Fail("keywords", key, o.pos, fmt.Sprintf("the printer writes the word %q, which is no string constant of the parser: a description containing it does not parse back", o.word), nil)
		}
	}
}

// RunRangeStart: a loop that validates the elements of a slice under a flag
// ("all of them are single glyphs, so the range form can be used") has to
// start at the first element the guarded code then uses. A validation loop
// that starts at index 1 while the code under the flag reads element 0 lets an
// unvalidated first element through.
func RunRangeStart(w *World, r *Report, fns []*ssa.Function) {
	r.Rule("rangestart: where a loop with a counter that starts at a positive constant reads the elements x[i] of a slice and keeps a boolean flag, no block that is reached only while that flag holds reads x[0]: the element the loop skipped is not used as if it had been checked")
	n := 0
	for _, fn := range fns {
		if len(fn.Blocks) == 0 {
			continue
		}
		for _, l := range naturalLoops(fn) {
			var ctr *ssa.Phi
			var flags []*ssa.Phi
			for _, in := range l.head.Instrs {
				ph, ok := in.(*ssa.Phi)
				if !ok {
					break
				}
				if bt, ok := ph.Type().Underlying().(*types.Basic); ok && bt.Kind() == types.Bool {
					flags = append(flags, ph)
					continue
				}
				if !isIntegerType(ph.Type()) {
					continue
				}
				for i, e := range ph.Edges {
					if l.head.Dominates(l.head.Preds[i]) {
						continue
					}
					if c, ok := e.(*ssa.Const); ok && c.Value != nil && c.Int64() >= 1 {
						ctr = ph
					}
				}
			}
			if ctr == nil || len(flags) == 0 {
				continue
			}
			// slices indexed by the counter inside the loop
			bases := map[ssa.Value]bool{}
			for b := range l.body {
				for _, in := range b.Instrs {
					if ia, ok := in.(*ssa.IndexAddr); ok && ia.Index == ssa.Value(ctr) {
						bases[cellOf(ia.X)] = true
					}
				}
			}
			if len(bases) == 0 {
				continue
			}
			n++
			key := r.MkKey("rangestart", fnName(fn), "validation loop "+loopText(w, fn, l))
			bad := ""
			for _, b := range fn.Blocks {
				if l.body[b] {
					continue
				}
				for _, in := range b.Instrs {
					ia, ok := in.(*ssa.IndexAddr)
					if !ok || !bases[cellOf(ia.X)] {
						continue
					}
					c, ok := ia.Index.(*ssa.Const)
					if !ok || c.Value == nil || c.Int64() != 0 {
						continue
					}
					for _, g := range guardsOf(b) {
						for _, fl := range flags {
							if g.cond == ssa.Value(fl) && g.then {
								bad = w.Pos(ia.Pos())
							}
						}
					}
				}
			}
			if bad != "" {
				r.Fail("rangestart", key, w.Pos(loopPos(w, l)), "the loop checks the elements from index "+ctr.Edges[0].String()+" on, but element 0 of the same slice is read at "+bad+" under the flag the loop maintains: a first element that would have failed the check is used as if it had passed", nil)
			} else {
				r.OK("rangestart", key, w.Pos(loopPos(w, l)), "element 0 is not read under the flag")
			}
		}
	}
	if n == 0 {
		r.OK("rangestart", r.MkKey("rangestart", "scope", "validation loops"), "-", "no validation loop with a positive start index")
	}
}

// cellOf: a variable that lives in a cell (it is captured by a closure) is
// identified by the cell, not by the individual loads.
func cellOf(v ssa.Value) ssa.Value {
	if u, ok := v.(*ssa.UnOp); ok && u.Op.String() == "*" {
		if al, ok := u.X.(*ssa.Alloc); ok {
			return al
		}
	}
	return v
}

// hyphenBeforeName: a format string in which '-' is directly followed by a
// verb that prints a name or a number without a sign.
func hyphenBeforeName(f string) bool {
	for i := 0; i+2 < len(f); i++ {
		if f[i] == '-' && f[i+1] == '%' && (i == 0 || f[i-1] != '%') {
			switch f[i+2] {
			case 's', 'v', 'd':
				return true
			}
		}
	}
	return false
}

// RunQuoteEscape: the printer quotes characters with %q, which writes every
// non-printable rune as an escape sequence (­, \x7f) — the parser's
// decodeString knows \n, \r, \t and "the next character as it is" only. A %q
// in the printer is therefore reached only for runes a printability test
// (strconv.IsPrint / unicode.IsPrint, what %q itself uses) has let through.
func RunQuoteEscape(w *World, r *Report, entries []string) {
	r.Rule("quoteescape: every fmt call with a %q verb in the functions of explain.go reachable from ExplainGsub/ExplainGpos is dominated by the true side of a call of strconv.IsPrint or unicode.IsPrint: no escape sequence the parser cannot read is written")
	var es []*ssa.Function
	for _, e := range entries {
		fn := w.Func(e)
		if fn == nil {
			r.Fatal("anchor %s does not resolve", e)
			return
		}
		es = append(es, fn)
	}
	n := 0
	for _, fn := range srcFuncsReachable(w, es) {
		if fnPkgPath(fn) != builderPkg || !strings.HasSuffix(w.Fset.Position(fn.Pos()).Filename, "/explain.go") {
			continue // the lexer's item.String is for diagnostics, not for descriptions
		}
		cc := controlConds(fn)
		for _, b := range fn.Blocks {
			for _, in := range b.Instrs {
				call, ok := in.(*ssa.Call)
				if !ok {
					continue
				}
				callee := call.Common().StaticCallee()
				if callee == nil || callee.Pkg == nil || callee.Pkg.Pkg.Path() != "fmt" {
					continue
				}
				hasQ := false
				for _, a := range call.Common().Args {
					if c, ok := a.(*ssa.Const); ok && c.Value != nil && c.Value.Kind() == constant.String && strings.Contains(constant.StringVal(c.Value), "%q") {
						hasQ = true
					}
				}
				if !hasQ {
					continue
				}
				n++
				key := r.MkKey("quoteescape", fnName(fn), "%q")
				guarded := false
				for _, g := range guardsOf(b) {
					// reached only through the true side of the printability test itself
					if cl, ok := g.cond.(*ssa.Call); ok && g.then {
						if ce := cl.Common().StaticCallee(); ce != nil && ce.Name() == "IsPrint" {
							guarded = true
						}
					}
				}
				_ = cc
				if guarded {
					r.OK("quoteescape", key, w.Pos(call.Pos()), "only printable runes are quoted")
				} else {
					r.Fail("quoteescape", key, w.Pos(call.Pos()), "%q writes non-printable runes as \\\\u / \\\\x escape sequences, which the parser's decodeString does not understand (it knows \\\\n, \\\\r, \\\\t and takes any other escaped character literally): a font whose character map contains such a rune (a soft hyphen, say) is described by text that does not parse back", nil)
				}
			}
		}
	}
	if n == 0 {
		r.OK("quoteescape", r.MkKey("quoteescape", "scope", "%q verbs"), "-", "the printer does not use %q")
	}
}

// RunRangeForm: glyph ranges (A - C -> B - D) are syntax of single
// substitutions; the parser of ligature lookups reads one glyph list per
// mapping. The printer shares one routine for both, so the call made for a
// ligature subtable has to switch the range form off.
func RunRangeForm(w *World, r *Report) {
	r.Rule("rangeform: the call of explainSeqMappings that ExplainGsub makes inside the case for *gtab.Gsub4_1 passes the constant false for a boolean parameter on which the write of the range form (a format with two hyphens) is control-dependent: ligature lookups are never described with glyph ranges")
	fn := w.Func("opentype/gtab/builder.ExplainGsub")
	callee := w.Func("(*opentype/gtab/builder.explainer).explainSeqMappings")
	if fn == nil || callee == nil {
		r.Fatal("ExplainGsub / explainSeqMappings do not resolve")
		return
	}
	key := r.MkKey("rangeform", fnName(fn), "ligature mappings")
	// the boolean parameter that guards the range format
	guardParam := -1
	cc := controlConds(callee)
	for _, b := range callee.Blocks {
		for _, in := range b.Instrs {
			call, ok := in.(*ssa.Call)
			if !ok || call.Common().StaticCallee() == nil || call.Common().StaticCallee().Name() != "Fprintf" {
				continue
			}
			isRange := false
			for _, a := range call.Common().Args {
				if c, ok := a.(*ssa.Const); ok && c.Value != nil && c.Value.Kind() == constant.String && strings.Count(constant.StringVal(c.Value), "-") >= 3 {
					isRange = true // "%s - %s -> %s - %s"
				}
			}
			if !isRange {
				continue
			}
			seen := map[ssa.Value]bool{}
			var visit func(v ssa.Value, depth int)
			visit = func(v ssa.Value, depth int) {
				if seen[v] || depth > 6 {
					return
				}
				seen[v] = true
				for x := range backSlice(v) {
					if p, ok := x.(*ssa.Parameter); ok {
						for i, q := range callee.Params {
							if q == p {
								if bt, ok := p.Type().Underlying().(*types.Basic); ok && bt.Kind() == types.Bool {
									guardParam = i
								}
							}
						}
					}
					if ph, ok := x.(*ssa.Phi); ok {
						// a flag computed earlier: follow the conditions that decide it
						for i := range ph.Edges {
							for _, c := range cc[ph.Block().Preds[i]] {
								visit(c, depth+1)
							}
						}
					}
				}
			}
			for _, c := range cc[b] {
				visit(c, 0)
			}
		}
	}
	// the call in the Gsub4_1 case
	var site *ssa.Call
	for _, b := range fn.Blocks {
		for _, in := range b.Instrs {
			call, ok := in.(*ssa.Call)
			if !ok || call.Common().StaticCallee() != callee {
				continue
			}
			for d := b; d != nil; d = d.Idom() {
				found := false
				for _, p := range d.Preds {
					if len(p.Instrs) == 0 {
						continue
					}
					if ifi, ok := p.Instrs[len(p.Instrs)-1].(*ssa.If); ok && p.Succs[0] == d {
						if ex, ok := ifi.Cond.(*ssa.Extract); ok {
							if ta, ok := ex.Tuple.(*ssa.TypeAssert); ok {
								found = true
								if strings.HasSuffix(ta.AssertedType.String(), "gtab.Gsub4_1") {
									site = call
								}
							}
						}
					}
				}
				if found {
					break
				}
			}
		}
	}
	switch {
	case site == nil:
		r.Fail("rangeform", key, w.Pos(fn.Pos()), "no call of explainSeqMappings inside the case for *gtab.Gsub4_1 found", nil)
	case guardParam < 0:
		r.Fail("rangeform", key, w.Pos(site.Pos()), "explainSeqMappings writes the range form without a boolean parameter that could switch it off: three or more single-component ligatures with consecutive glyphs are described as a glyph range, which the parser of ligature lookups rejects", nil)
	default:
		arg := site.Common().Args[guardParam]
		if c, ok := arg.(*ssa.Const); ok && c.Value != nil && c.Value.Kind() == constant.Bool && !constant.BoolVal(c.Value) {
			r.OK("rangeform", key, w.Pos(site.Pos()), "the range form is switched off for ligatures")
		} else {
			r.Fail("rangeform", key, w.Pos(site.Pos()), "the call for ligature subtables does not switch the range form off: consecutive single-component ligatures are described as a glyph range, which the parser of ligature lookups rejects", nil)
		}
	}
}

// RunEscapeLookBehind: inside a quoted string a backslash takes the next
// character with it, whatever it is — also another backslash. Whether a quote
// ends the string therefore depends on the parity of the backslashes in front
// of it, which a state that is cleared by the escaped character provides and a
// look at the previous character alone does not ("a\\" ends at its quote, the
// look-behind reads on). Reported where the lexer compares a loop-carried copy
// of the previous character with the backslash.
func RunEscapeLookBehind(w *World, r *Report) {
	r.Rule("escapestate: in the lexer of the lookup description language every comparison with the backslash character is made on the character just read (a result of (*lexer).next or peek), never on a loop-carried copy of the previous character: an escape is a state that the escaped character clears, the previous character alone does not tell whether a quote is escaped (the string \"\\\\\" ends at its second quote)")
	n := 0
	for _, fn := range w.LibFuncs() {
		if fnPkgPath(fn) != builderPkg || !strings.HasPrefix(fn.Name(), "lex") {
			continue
		}
		for _, b := range fn.Blocks {
			for _, in := range b.Instrs {
				bo, ok := in.(*ssa.BinOp)
				if !ok || (bo.Op.String() != "==" && bo.Op.String() != "!=") {
					continue
				}
				x, y := bo.X, bo.Y
				if _, isC := x.(*ssa.Const); isC {
					x, y = y, x
				}
				c, ok := y.(*ssa.Const)
				if !ok || c.Value == nil || c.Value.Kind() != constant.Int {
					continue
				}
				if k, ok := constant.Int64Val(c.Value); !ok || k != '\\' {
					continue
				}
				n++
				key := r.MkKey("escapestate", fnName(fn), "comparison with the backslash")
				ph, isPhi := x.(*ssa.Phi)
				carried := false
				if isPhi {
					for i, e := range ph.Edges {
						if ph.Block().Dominates(ph.Block().Preds[i]) {
							// a back edge: the value of an earlier iteration
							if _, isConst := e.(*ssa.Const); !isConst {
								carried = true
							}
						}
					}
				}
				if carried {
					r.Fail("escapestate", key, w.Pos(bo.Pos()), "the backslash test looks at a character kept from an earlier iteration: whether a quote is escaped is decided by the previous character alone, so an escaped backslash in front of the closing quote (\"B\\\\\") makes the lexer read past the end of the string", nil)
				} else {
					r.OK("escapestate", key, w.Pos(bo.Pos()), "the test is made on the character just read")
				}
			}
		}
	}
	r.Floor("escapestate", 1)
}
