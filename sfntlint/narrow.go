package main

import (
	"fmt"
	"go/token"
	"go/types"

	"golang.org/x/tools/go/ssa"
)

// narrowarith: a count read from the input is multiplied/added/shifted in an
// 8/16-bit unsigned type and only then widened and used as an allocation
// size, slice bound or read length: the arithmetic wraps for large counts.
func RunNarrowArith(w *World, r *Report, fns []*ssa.Function) {
	r.Rule("narrowarith: no multiplication, addition or left shift is carried out in uint8/uint16 on a non-constant value whose (widened) result is then used as an allocation size, slice bound, index or read length — the arithmetic must be done after widening, otherwise large counts wrap around and too little input is consumed without an error")
	for _, fn := range fns {
		name := fnName(fn)
		for _, b := range fn.Blocks {
			for _, ins := range b.Instrs {
				bo, ok := ins.(*ssa.BinOp)
				if !ok || (bo.Op != token.MUL && bo.Op != token.ADD && bo.Op != token.SHL) {
					continue
				}
				bt, ok := bo.Type().Underlying().(*types.Basic)
				if !ok || (bt.Kind() != types.Uint8 && bt.Kind() != types.Uint16) {
					continue
				}
				_, cx := bo.X.(*ssa.Const)
				_, cy := bo.Y.(*ssa.Const)
				if cx && cy {
					continue
				}
				// is the result used as a size?
				use := sizeUse(bo, 0)
				if use == "" {
					continue
				}
				key := r.MkKey("narrowarith", name, fmt.Sprintf("%s in %s", bo.Op, bt.Name()))
				r.Fail("narrowarith", key, w.Pos(bo.Pos()), fmt.Sprintf("%s is computed in %s and then used as %s: for large values it wraps around before it is widened", bo.Op, bt.Name(), use), nil)
			}
		}
	}
}

// sizeUse follows conversions and reports how v is used as a size.
func sizeUse(v ssa.Value, depth int) string {
	if depth > 4 || v.Referrers() == nil {
		return ""
	}
	for _, ref := range *v.Referrers() {
		switch x := ref.(type) {
		case *ssa.Convert:
			if u := sizeUse(x, depth+1); u != "" {
				return u
			}
		case *ssa.ChangeType:
			if u := sizeUse(x, depth+1); u != "" {
				return u
			}
		case *ssa.MakeSlice:
			if x.Len == v || x.Cap == v {
				return "an allocation size"
			}
		case *ssa.Slice:
			if x.Low == v || x.High == v || x.Max == v {
				return "a slice bound"
			}
		case *ssa.Phi:
			// a repeat count: carried around a loop and tested against zero
			if u := sizeUse(x, depth+1); u != "" {
				return u
			}
		case *ssa.BinOp:
			if (x.Op == token.GTR || x.Op == token.NEQ) && x.X == v && countsDown(v) {
				if c, ok := x.Y.(*ssa.Const); ok && c.Value != nil && c.Value.String() == "0" {
					if x.Referrers() != nil {
						for _, rr := range *x.Referrers() {
							if _, isIf := rr.(*ssa.If); isIf {
								return "a repeat count"
							}
						}
					}
				}
			}
		case *ssa.Call:
			if callee := x.Call.StaticCallee(); callee != nil {
				switch callee.Name() {
				case "ReadBytes", "Discard", "Read", "SeekPos":
					return "a read length"
				}
			}
		}
	}
	return ""
}

// countsDown: v is a loop-carried value that is decremented by a constant
// around the loop (the shape of a repeat count).
func countsDown(v ssa.Value) bool {
	ph, ok := v.(*ssa.Phi)
	if !ok {
		return false
	}
	for _, e := range ph.Edges {
		if sub, ok := e.(*ssa.BinOp); ok && sub.Op == token.SUB && sub.X == ssa.Value(ph) {
			if _, isC := sub.Y.(*ssa.Const); isC {
				return true
			}
		}
	}
	return false
}
