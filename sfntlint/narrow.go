package main

import (
	"fmt"
	"go/constant"
	"go/token"
	"go/types"

	"golang.org/x/tools/go/ssa"
)

// narrowarith: a count read from the input is multiplied/added/shifted in an
// 8/16-bit unsigned type and only then widened and used as an allocation
// size, slice bound or read length: the arithmetic wraps for large counts.
func RunNarrowArith(w *World, r *Report, fns []*ssa.Function) {
	r.Rule("narrowarith: no multiplication, addition or left shift is carried out in uint8/uint16 on a non-constant value whose (widened) result is then used as an allocation size, slice bound, index or read length — the arithmetic must be done after widening, otherwise large counts wrap around and too little input is consumed without an error")
	for _, fn := range fns {
		name := fnName(fn)
		for _, b := range fn.Blocks {
			for _, ins := range b.Instrs {
				bo, ok := ins.(*ssa.BinOp)
				if !ok || (bo.Op != token.MUL && bo.Op != token.ADD && bo.Op != token.SHL) {
					continue
				}
				bt, ok := bo.Type().Underlying().(*types.Basic)
				if !ok || (bt.Kind() != types.Uint8 && bt.Kind() != types.Uint16) {
					continue
				}
				_, cx := bo.X.(*ssa.Const)
				_, cy := bo.Y.(*ssa.Const)
				if cx && cy {
					continue
				}
				// is the result used as a size?
				use := sizeUse(bo, 0)
				if use == "" {
					continue
				}
				key := r.MkKey("narrowarith", name, fmt.Sprintf("%s in %s", bo.Op, bt.Name()))
				r.Fail("narrowarith", key, w.Pos(bo.Pos()), fmt.Sprintf("%s is computed in %s and then used as %s: for large values it wraps around before it is widened", bo.Op, bt.Name(), use), nil)
			}
		}
	}
}

// sizeUse follows conversions and reports how v is used as a size.
func sizeUse(v ssa.Value, depth int) string {
	if depth > 4 || v.Referrers() == nil {
		return ""
	}
	for _, ref := range *v.Referrers() {
		switch x := ref.(type) {
		case *ssa.Convert:
			if u := sizeUse(x, depth+1); u != "" {
				return u
			}
		case *ssa.ChangeType:
			if u := sizeUse(x, depth+1); u != "" {
				return u
			}
		case *ssa.MakeSlice:
			if x.Len == v || x.Cap == v {
				return "an allocation size"
			}
		case *ssa.Slice:
			if x.Low == v || x.High == v || x.Max == v {
				return "a slice bound"
			}
		case *ssa.Phi:
			// a repeat count: carried around a loop and tested against zero
			if u := sizeUse(x, depth+1); u != "" {
				return u
			}
		case *ssa.BinOp:
			if (x.Op == token.GTR || x.Op == token.NEQ) && x.X == v && countsDown(v) {
				if c, ok := x.Y.(*ssa.Const); ok && c.Value != nil && c.Value.String() == "0" {
					if x.Referrers() != nil {
						for _, rr := range *x.Referrers() {
							if _, isIf := rr.(*ssa.If); isIf {
								return "a repeat count"
							}
						}
					}
				}
			}
		case *ssa.Call:
			if callee := x.Call.StaticCallee(); callee != nil {
				switch callee.Name() {
				case "ReadBytes", "Discard", "Read", "SeekPos":
					return "a read length"
				}
			}
		}
	}
	return ""
}

// countsDown: v is a loop-carried value that is decremented by a constant
// around the loop (the shape of a repeat count).
func countsDown(v ssa.Value) bool {
	ph, ok := v.(*ssa.Phi)
	if !ok {
		return false
	}
	for _, e := range ph.Edges {
		if sub, ok := e.(*ssa.BinOp); ok && sub.Op == token.SUB && sub.X == ssa.Value(ph) {
			if _, isC := sub.Y.(*ssa.Const); isC {
				return true
			}
		}
	}
	return false
}

// narrowsucc: "x+1" computed in an 8/16-bit unsigned type and compared with
// another value (the run-detection idiom `gid == prev+1`).  The sum wraps at
// the top of the type, so the comparison holds for the pair (max, 0): a run
// that ends at 0xFFFF is continued by glyph 0, and a start sentinel 0xFFFF
// makes glyph 0 look like a continuation.  Accepted when the operand is shown
// to be below the type's maximum at the addition (prover), or when the
// comparison is one half of an ordering test that excludes the wrapped pair.
func RunNarrowSucc(w *World, r *Report, fns []*ssa.Function, br *boundsRun) {
	r.Rule("narrowsucc: a sum x+c computed in uint8/uint16 that is compared for (in)equality with another value does not wrap: the prover shows x <= max-c at the addition, or the operands are widened first; otherwise the successor of the type's largest value is taken to be 0 (a start sentinel 0xFFFF, or a run ending at glyph 0xFFFF, merges with glyph 0)")
	for _, fn := range fns {
		name := fnName(fn)
		for _, b := range fn.Blocks {
			for _, ins := range b.Instrs {
				bo, ok := ins.(*ssa.BinOp)
				if !ok || bo.Op != token.ADD {
					continue
				}
				bt, ok := bo.Type().Underlying().(*types.Basic)
				if !ok || (bt.Kind() != types.Uint8 && bt.Kind() != types.Uint16) {
					continue
				}
				var x ssa.Value
				var c *ssa.Const
				if k, ok := bo.Y.(*ssa.Const); ok {
					x, c = bo.X, k
				} else if k, ok := bo.X.(*ssa.Const); ok {
					x, c = bo.Y, k
				}
				if c == nil || bo.Referrers() == nil {
					continue
				}
				if _, isC := x.(*ssa.Const); isC {
					continue
				}
				cmp := false
				for _, ref := range *bo.Referrers() {
					if cb, ok := ref.(*ssa.BinOp); ok && (cb.Op == token.EQL || cb.Op == token.NEQ) {
						cmp = true
					}
				}
				if !cmp {
					continue
				}
				key := r.MkKey("narrowsucc", name, fmt.Sprintf("successor test x + %s in %s", c.Value.String(), bt.Name()))
				if br != nil && br.proveNoWrapAdd(bo) {
					r.OK("narrowsucc", key, w.Pos(bo.Pos()), "operand shown to be below the type's maximum")
					continue
				}
				r.Fail("narrowsucc", key, w.Pos(bo.Pos()), fmt.Sprintf("%s + %s is computed in %s and compared for equality, and the operand is not shown to be below the largest value of the type: there the sum wraps around to a small value, so a start sentinel or a run that ends at the top of the range is continued by 0", srcText(br, fn, x), c.Value.String(), bt.Name()), nil)
			}
		}
	}
}

func srcText(br *boundsRun, fn *ssa.Function, v ssa.Value) string {
	if br != nil {
		return br.prover(fn).srcOf(v)
	}
	return v.Name()
}

// proveNoWrapAdd: the mathematical value of x+c fits the type of the sum.
func (br *boundsRun) proveNoWrapAdd(bo *ssa.BinOp) bool {
	p := br.prover(bo.Parent())
	var x ssa.Value
	var c *ssa.Const
	if k, ok := bo.Y.(*ssa.Const); ok {
		x, c = bo.X, k
	} else if k, ok := bo.X.(*ssa.Const); ok {
		x, c = bo.Y, k
	}
	if c == nil {
		return false
	}
	n, ok := constant.Int64Val(constant.ToInt(c.Value))
	if !ok {
		return false
	}
	return p.fits(p.linOf(x).addc(n), bo, false)
}

// RunNarrowSuccControl: the must-fire example is reported and its two safe
// twins (widened arithmetic, guarded operand) are not.
func RunNarrowSuccControl(r *Report) {
	RunControl(r, "narrowsucc", "ctlNarrowSucc|", func(w *World, rr *Report, fns []*ssa.Function) {
		RunNarrowSucc(w, rr, fns, newBoundsRun(w))
		for _, o := range rr.Obls {
			if o.Rule == "narrowsucc" && o.Status == StViolation && (containsFunc(o.Key, "ctlNarrowSuccWide") || containsFunc(o.Key, "ctlNarrowSuccGuard")) {
				r.Fail("control", r.MkKey("control", "narrowsucc", "safe twin "+o.Key), o.Pos, "rule narrowsucc reports a safe example: "+o.Detail, nil)
			}
		}
	})
}
