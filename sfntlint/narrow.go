package main

import (
	"fmt"
	"go/constant"
	"strings"
	"go/token"
	"go/types"

	"golang.org/x/tools/go/ssa"
)

// narrowarith: a count read from the input is multiplied/added/shifted in an
// 8/16-bit unsigned type and only then widened and used as an allocation
// size, slice bound or read length: the arithmetic wraps for large counts.
func RunNarrowArith(w *World, r *Report, fns []*ssa.Function) {
	r.Rule("narrowarith: no multiplication, addition or left shift is carried out in uint8/uint16 on a non-constant value whose (widened) result is then used as an allocation size, slice bound, index or read length — the arithmetic must be done after widening, otherwise large counts wrap around and too little input is consumed without an error")
	for _, fn := range fns {
		name := fnName(fn)
		for _, b := range fn.Blocks {
			for _, ins := range b.Instrs {
				bo, ok := ins.(*ssa.BinOp)
				if !ok || (bo.Op != token.MUL && bo.Op != token.ADD && bo.Op != token.SHL && bo.Op != token.SUB) {
					continue
				}
				bt, ok := bo.Type().Underlying().(*types.Basic)
				if !ok || (bt.Kind() != types.Uint8 && bt.Kind() != types.Uint16) {
					continue
				}
				if bo.Op == token.SUB {
					// x - k wraps at the bottom: below k the result is close to the top of the type
					if _, isC := bo.Y.(*ssa.Const); !isC {
						continue
					}
					guarded := false
					stripConv := func(v ssa.Value) ssa.Value {
						for {
							c, ok := v.(*ssa.Convert)
							if !ok {
								return v
							}
							v = c.X
						}
					}
					for _, g := range guardsOf(b) {
						if cmp, ok := g.cond.(*ssa.BinOp); ok {
							if stripConv(cmp.X) == bo.X || stripConv(cmp.Y) == bo.X {
								guarded = true
							}
						}
					}
					use := sizeUse(bo, 0)
					if guarded || use == "" {
						continue
					}
					key := r.MkKey("narrowarith", name, fmt.Sprintf("%s in %s", bo.Op, bt.Name()))
					r.FailC("narrowarith", key, []string{"underflow"}, w.Pos(bo.Pos()), fmt.Sprintf("a constant is subtracted in %s from a value that no dominating test bounds from below, and the result is used as %s: for a value smaller than the constant (0 - 1) the difference wraps to the top of the type and tens of thousands of elements are allocated and read for a record that declares none", bt.Name(), use), nil)
					continue
				}
				_, cx := bo.X.(*ssa.Const)
				_, cy := bo.Y.(*ssa.Const)
				if cx && cy {
					continue
				}
				// is the result used as a size?
				use := sizeUse(bo, 0)
				if use == "" {
					continue
				}
				key := r.MkKey("narrowarith", name, fmt.Sprintf("%s in %s", bo.Op, bt.Name()))
				r.Fail("narrowarith", key, w.Pos(bo.Pos()), fmt.Sprintf("%s is computed in %s and then used as %s: for large values it wraps around before it is widened", bo.Op, bt.Name(), use), nil)
			}
		}
	}
}

// sizeUse follows conversions and reports how v is used as a size.
func sizeUse(v ssa.Value, depth int) string {
	if depth > 4 || v.Referrers() == nil {
		return ""
	}
	for _, ref := range *v.Referrers() {
		switch x := ref.(type) {
		case *ssa.Convert:
			if u := sizeUse(x, depth+1); u != "" {
				return u
			}
		case *ssa.ChangeType:
			if u := sizeUse(x, depth+1); u != "" {
				return u
			}
		case *ssa.MakeSlice:
			if x.Len == v || x.Cap == v {
				return "an allocation size"
			}
		case *ssa.Slice:
			if x.Low == v || x.High == v || x.Max == v {
				return "a slice bound"
			}
		case *ssa.Phi:
			// a repeat count: carried around a loop and tested against zero
			if u := sizeUse(x, depth+1); u != "" {
				return u
			}
		case *ssa.BinOp:
			if (x.Op == token.GTR || x.Op == token.NEQ) && x.X == v && countsDown(v) {
				if c, ok := x.Y.(*ssa.Const); ok && c.Value != nil && c.Value.String() == "0" {
					if x.Referrers() != nil {
						for _, rr := range *x.Referrers() {
							if _, isIf := rr.(*ssa.If); isIf {
								return "a repeat count"
							}
						}
					}
				}
			}
		case *ssa.Call:
			if callee := x.Call.StaticCallee(); callee != nil {
				switch callee.Name() {
				case "ReadBytes", "Discard", "Read", "SeekPos":
					return "a read length"
				}
			}
		}
	}
	return ""
}

// countsDown: v is a loop-carried value that is decremented by a constant
// around the loop (the shape of a repeat count).
func countsDown(v ssa.Value) bool {
	ph, ok := v.(*ssa.Phi)
	if !ok {
		return false
	}
	for _, e := range ph.Edges {
		if sub, ok := e.(*ssa.BinOp); ok && sub.Op == token.SUB && sub.X == ssa.Value(ph) {
			if _, isC := sub.Y.(*ssa.Const); isC {
				return true
			}
		}
	}
	return false
}

// narrowsucc: "x+1" computed in an 8/16-bit unsigned type and compared with
// another value (the run-detection idiom `gid == prev+1`).  The sum wraps at
// the top of the type, so the comparison holds for the pair (max, 0): a run
// that ends at 0xFFFF is continued by glyph 0, and a start sentinel 0xFFFF
// makes glyph 0 look like a continuation.  Accepted when the operand is shown
// to be below the type's maximum at the addition (prover), or when the
// comparison is one half of an ordering test that excludes the wrapped pair.
func RunNarrowSucc(w *World, r *Report, fns []*ssa.Function, br *boundsRun) {
	r.Rule("narrowsucc: a sum x+c computed in uint8/uint16 that is compared for (in)equality with another value does not wrap: the prover shows x <= max-c at the addition, or the operands are widened first; otherwise the successor of the type's largest value is taken to be 0 (a start sentinel 0xFFFF, or a run ending at glyph 0xFFFF, merges with glyph 0)")
	for _, fn := range fns {
		name := fnName(fn)
		for _, b := range fn.Blocks {
			for _, ins := range b.Instrs {
				bo, ok := ins.(*ssa.BinOp)
				if !ok || bo.Op != token.ADD {
					continue
				}
				bt, ok := bo.Type().Underlying().(*types.Basic)
				if !ok || (bt.Kind() != types.Uint8 && bt.Kind() != types.Uint16) {
					continue
				}
				var x ssa.Value
				var c *ssa.Const
				if k, ok := bo.Y.(*ssa.Const); ok {
					x, c = bo.X, k
				} else if k, ok := bo.X.(*ssa.Const); ok {
					x, c = bo.Y, k
				}
				if c == nil || bo.Referrers() == nil {
					continue
				}
				if _, isC := x.(*ssa.Const); isC {
					continue
				}
				cmp := false
				for _, ref := range *bo.Referrers() {
					if cb, ok := ref.(*ssa.BinOp); ok && (cb.Op == token.EQL || cb.Op == token.NEQ) {
						cmp = true
					}
				}
				if !cmp {
					continue
				}
				key := r.MkKey("narrowsucc", name, fmt.Sprintf("successor test x + %s in %s", c.Value.String(), bt.Name()))
				if br != nil && br.proveNoWrapAdd(bo) {
					r.OK("narrowsucc", key, w.Pos(bo.Pos()), "operand shown to be below the type's maximum")
					continue
				}
				r.Fail("narrowsucc", key, w.Pos(bo.Pos()), fmt.Sprintf("%s + %s is computed in %s and compared for equality, and the operand is not shown to be below the largest value of the type: there the sum wraps around to a small value, so a start sentinel or a run that ends at the top of the range is continued by 0", srcText(br, fn, x), c.Value.String(), bt.Name()), nil)
			}
		}
	}
}

func srcText(br *boundsRun, fn *ssa.Function, v ssa.Value) string {
	if br != nil {
		return br.prover(fn).srcOf(v)
	}
	return v.Name()
}

// proveNoWrapAdd: the mathematical value of x+c fits the type of the sum.
func (br *boundsRun) proveNoWrapAdd(bo *ssa.BinOp) bool {
	p := br.prover(bo.Parent())
	var x ssa.Value
	var c *ssa.Const
	if k, ok := bo.Y.(*ssa.Const); ok {
		x, c = bo.X, k
	} else if k, ok := bo.X.(*ssa.Const); ok {
		x, c = bo.Y, k
	}
	if c == nil {
		return false
	}
	n, ok := constant.Int64Val(constant.ToInt(c.Value))
	if !ok {
		return false
	}
	return p.fits(p.linOf(x).addc(n), bo, false)
}

// RunNarrowSuccControl: the must-fire example is reported and its two safe
// twins (widened arithmetic, guarded operand) are not.
func RunNarrowSuccControl(r *Report) {
	RunControl(r, "narrowsucc", "ctlSuccTest|", func(w *World, rr *Report, fns []*ssa.Function) {
		RunNarrowSucc(w, rr, fns, newBoundsRun(w))
		for _, o := range rr.Obls {
			if o.Rule == "narrowsucc" && o.Status == StViolation && (containsFunc(o.Key, "ctlSuccTestWide") || containsFunc(o.Key, "ctlSuccTestGuard")) {
				r.Fail("control", r.MkKey("control", "narrowsucc", "safe twin "+o.Key), o.Pos, "rule narrowsucc reports a safe example: "+o.Detail, nil)
			}
		}
	})
}

// narrowbound: a sum, product or left shift computed in uint8/uint16 whose
// result (possibly widened) is used as a bound in an ordering comparison or
// is written out (split into bytes, stored into a byte slice) must not wrap:
// the prover shows that the mathematical result fits the type.  Steps of loop
// counters (`i++` carried around a loop) belong to the termination rules and
// are not obligations here.
func RunNarrowBound(w *World, r *Report, fns []*ssa.Function, br *boundsRun) {
	r.Rule("narrowbound: no sum, product or left shift is carried out in uint8/uint16 on non-constant values and then used as a loop or range bound (ordering comparison, also after widening) or written out as a count, unless the prover shows that the mathematical result fits the type (dominating checks, type ranges): a count of 65536 becomes 0")
	for _, fn := range fns {
		name := fnName(fn)
		for _, b := range fn.Blocks {
			for _, ins := range b.Instrs {
				bo, ok := ins.(*ssa.BinOp)
				if !ok || (bo.Op != token.MUL && bo.Op != token.ADD && bo.Op != token.SHL) {
					continue
				}
				bt, ok := bo.Type().Underlying().(*types.Basic)
				if !ok || (bt.Kind() != types.Uint8 && bt.Kind() != types.Uint16) {
					continue
				}
				_, cx := bo.X.(*ssa.Const)
				_, cy := bo.Y.(*ssa.Const)
				if cx && cy {
					continue
				}
				if isCounterStep(bo) {
					continue
				}
				use := boundUse(bo, 0)
				if use == "" {
					continue
				}
				key := r.MkKey("narrowbound", name, fmt.Sprintf("%s in %s used as %s", bo.Op, bt.Name(), use))
				p := br.prover(fn)
				var res blin
				okLin := false
				switch bo.Op {
				case token.ADD:
					res, okLin = p.linOf(bo.X).add(p.linOf(bo.Y))
				case token.MUL, token.SHL:
					if k, isC := bo.Y.(*ssa.Const); isC {
						if n, exact := constant.Int64Val(constant.ToInt(k.Value)); exact {
							if bo.Op == token.SHL {
								n = 1 << uint(n)
							}
							res, okLin = p.linOf(bo.X).scale(n)
						}
					}
				}
				if okLin && p.fits(res, bo, false) {
					r.OK("narrowbound", key, w.Pos(bo.Pos()), "the result is shown to fit the type")
					continue
				}
				r.Fail("narrowbound", key, w.Pos(bo.Pos()), fmt.Sprintf("%s is computed in %s and then used as %s, and the result is not shown to fit the type: at the top of the range it wraps around (65536 becomes 0)", bo.Op, bt.Name(), use), nil)
			}
		}
	}
}

// isCounterStep: phi + const that flows back into the same phi.
func isCounterStep(bo *ssa.BinOp) bool {
	ph, ok := bo.X.(*ssa.Phi)
	if !ok {
		ph, ok = bo.Y.(*ssa.Phi)
	}
	if !ok {
		return false
	}
	for _, e := range ph.Edges {
		if e == ssa.Value(bo) {
			return true
		}
	}
	return false
}

func boundUse(v ssa.Value, depth int) string {
	if depth > 4 || v.Referrers() == nil {
		return ""
	}
	for _, ref := range *v.Referrers() {
		switch x := ref.(type) {
		case *ssa.Convert:
			bt, ok := x.Type().Underlying().(*types.Basic)
			if ok && bt.Kind() == types.Uint8 && depth == 0 {
				continue
			}
			if ok && depth == 0 && btypeBits(x.Type()) > btypeBits(v.Type()) {
				// int(a + b): the widening shows that the wide result was meant
				return "a widened value"
			}
			if u := boundUse(x, depth+1); u != "" {
				return u
			}
		case *ssa.ChangeType:
			if u := boundUse(x, depth+1); u != "" {
				return u
			}
		case *ssa.BinOp:
			switch x.Op {
			case token.LSS, token.LEQ, token.GTR, token.GEQ:
				return "a bound"
			case token.SHR:
				// byte(x>>8), byte(x): the value is written out
				if x.X == v {
					return "a count that is written out"
				}
			}
		}
	}
	return ""
}

// condFieldBoundedOrHuge is a side condition for reviewed entries whose
// argument is "format A is only chosen when its size field is small": in
// function fn every value stored into the struct field named field is, on
// each path into the store, either a constant of at least 2^20 (a size no
// real table reaches, i.e. "format not available") or shown by the prover to
// be at most max.
func condFieldBoundedOrHuge(w *World, br *boundsRun, fn, field string, max int64) func() (bool, string) {
	return func() (bool, string) {
		f := w.Func(fn)
		if f == nil {
			return false, fn + " does not resolve"
		}
		p := br.prover(f)
		n := 0
		okVal := func(v ssa.Value, facts []bfact, at *ssa.BasicBlock) bool {
			if k, isC := bconstInt(v); isC {
				return k >= 1<<20 || k <= max
			}
			neg, ok := p.linOf(v).scale(-1)
			return ok && p.prove(facts, neg.addc(max), at, 3)
		}
		for _, b := range f.Blocks {
			for _, in := range b.Instrs {
				st, ok := in.(*ssa.Store)
				if !ok {
					continue
				}
				fa, ok := st.Addr.(*ssa.FieldAddr)
				if !ok || fieldName(fa) != field {
					continue
				}
				n++
				if ph, isPhi := st.Val.(*ssa.Phi); isPhi {
					for i, e := range ph.Edges {
						pred := ph.Block().Preds[i]
						if !okVal(e, p.edgeFacts(pred, ph.Block()), pred) {
							return false, fmt.Sprintf("%s: a value stored into %s (from %s) is neither a constant >= 2^20 nor shown to be at most %d", w.Pos(st.Pos()), field, w.Pos(e.Pos()), max)
						}
					}
					continue
				}
				if !okVal(st.Val, p.factsAt(b), b) {
					return false, fmt.Sprintf("%s: the value stored into %s is neither a constant >= 2^20 nor shown to be at most %d", w.Pos(st.Pos()), field, max)
				}
			}
		}
		if n == 0 {
			return false, "no store into a field " + field + " found in " + fn
		}
		return true, ""
	}
}

// runNarrowBoundIn runs narrowbound (and its control) on the library functions
// of the packages whose import path ends in one of the suffixes.
func runNarrowBoundIn(w *World, r *Report, br *boundsRun, suffixes ...string) {
	var fns []*ssa.Function
	for _, f := range w.LibFuncs() {
		p := fnPkgPath(f)
		for _, sfx := range suffixes {
			if strings.HasSuffix(p, sfx) {
				fns = append(fns, f)
				break
			}
		}
	}
	RunNarrowBound(w, r, fns, br)
	RunControl(r, "narrowbound", "ctlWrapBound|", func(cw *World, rr *Report, cf []*ssa.Function) { RunNarrowBound(cw, rr, cf, newBoundsRun(cw)) })
}

// condMonotoneStores is the side condition of reviewed entries that rely on
// "the offsets are non-decreasing" (slices delimited by consecutive elements
// of an offset array).  In function fn, every integer stored into (or
// appended to) a slice inside a loop is tied to a loop-carried "previous"
// value: the stored value is V (or V plus/minus a constant) where V is the
// value the loop hands to the next iteration as `prev`, and the prover shows
// V >= prev at the store; with withUpper it also shows V <= len(x) for some
// slice x of the function.  Removing or weakening the ordering test makes the
// proof fail, and with it every reviewed entry bound to this condition.
func condMonotoneStores(w *World, br *boundsRun, name string, withUpper bool) func() (bool, string) {
	return func() (bool, string) {
		fn := w.Func(name)
		if fn == nil {
			return false, name + " does not resolve"
		}
		p := br.prover(fn)
		var lens []ssa.Value
		for _, b := range fn.Blocks {
			for _, in := range b.Instrs {
				if c, ok := in.(*ssa.Call); ok {
					if bi, ok := c.Call.Value.(*ssa.Builtin); ok && bi.Name() == "len" {
						lens = append(lens, c.Call.Args[0])
					}
				}
			}
		}
		isIntSlice := func(t types.Type) bool {
			sl, ok := t.Underlying().(*types.Slice)
			return ok && isIntType(sl.Elem())
		}
		sites := 0
		for _, l := range naturalLoops(fn) {
			for b := range l.body {
				for _, in := range b.Instrs {
					var stored ssa.Value
					switch x := in.(type) {
					case *ssa.Store:
						if ia, ok := x.Addr.(*ssa.IndexAddr); ok && isIntSlice(ia.X.Type()) {
							stored = x.Val
						}
					case *ssa.Call:
						if bi, ok := x.Call.Value.(*ssa.Builtin); ok && bi.Name() == "append" && len(x.Call.Args) == 2 && isIntSlice(x.Call.Args[0].Type()) {
							if sl, ok := x.Call.Args[1].(*ssa.Slice); ok {
								// append(s, v) is append(s, tmp[:]...) with *tmp[0] = v
								if al, ok := sl.X.(*ssa.Alloc); ok && al.Referrers() != nil {
									for _, ref := range *al.Referrers() {
										if ia, ok := ref.(*ssa.IndexAddr); ok && ia.Referrers() != nil {
											for _, r2 := range *ia.Referrers() {
												if st, ok := r2.(*ssa.Store); ok {
													stored = st.Val
												}
											}
										}
									}
								}
							}
						}
					}
					if stored == nil {
						continue
					}
					// only the innermost loop of the store counts
					inner := true
					for _, l2 := range naturalLoops(fn) {
						if l2 != l && l2.body[b] && len(l2.body) < len(l.body) {
							inner = false
						}
					}
					if !inner {
						continue
					}
					sites++
					ok := false
					for _, hi := range l.head.Instrs {
						ph, isPhi := hi.(*ssa.Phi)
						if !isPhi {
							break
						}
						if !isIntType(ph.Type()) {
							continue
						}
						var v ssa.Value
						same := true
						for i, e := range ph.Edges {
							if !l.body[l.head.Preds[i]] {
								continue
							}
							if v == nil {
								v = e
							} else if v != e {
								same = false
							}
						}
						if v == nil || !same || v == ssa.Value(ph) {
							continue
						}
						rel := stored == v
						if bo, isBO := stored.(*ssa.BinOp); isBO && (bo.Op == token.SUB || bo.Op == token.ADD) && bo.X == v {
							if _, isC := bo.Y.(*ssa.Const); isC {
								rel = true
							}
						}
						if cv, isCv := stored.(*ssa.Convert); isCv && cv.X == v {
							rel = true
						}
						if !rel {
							continue
						}
						d, okSub := p.linOf(v).sub(p.linOf(ph))
						if !okSub || !p.proveAt(b, d) {
							continue
						}
						if withUpper {
							up := false
							for _, x := range lens {
								if u, okU := p.lenOf(x).sub(p.linOf(v)); okU && p.proveAt(b, u) {
									up = true
									break
								}
							}
							if !up {
								continue
							}
						}
						ok = true
					}
					if !ok {
						what := "not shown to be at least the value stored before it"
						if withUpper {
							what += " and at most the length of the data it points into"
						}
						return false, fmt.Sprintf("%s: the value stored into the offset list is %s", w.Pos(in.Pos()), what)
					}
				}
			}
		}
		if sites == 0 {
			return false, "no store into an integer slice inside a loop found in " + name
		}
		return true, ""
	}
}

// RunPrevSentinel: order checks against a loop-carried "previous" value.
// A loop that rejects its input when `cur <= prev` (ranges must not touch or
// overlap) compares the first element with the initial value of prev.  When
// that initial value is the constant 0 and cur is unsigned data, an element 0
// — a range that starts at code point or glyph 0 — is rejected although it
// is valid; the test must be skipped for the first element (`i > 0 && …`), be
// strict (`cur < prev`), or prev must start outside the data domain.
func RunPrevSentinel(w *World, r *Report, fns []*ssa.Function) {
	r.Rule("prevsentinel: where a decoding loop rejects an element that is <= the loop-carried previous value, and that value starts as the constant 0, the comparison is not evaluated for the first element (it is control-dependent, inside the loop, on a test of the loop counter or a first-element flag): otherwise a table whose first range starts at 0 is refused")
	for _, fn := range fns {
		if fn.Blocks == nil {
			continue
		}
		var ci *ctrlInfo
		for _, l := range naturalLoops(fn) {
			for _, hi := range l.head.Instrs {
				prev, ok := hi.(*ssa.Phi)
				if !ok {
					break
				}
				if !isIntType(prev.Type()) || !isUnsigned(prev.Type()) {
					continue
				}
				zeroInit, dataStep := false, false
				for i, e := range prev.Edges {
					if !l.body[l.head.Preds[i]] {
						if c, ok := bconstInt(e); ok && c == 0 {
							zeroInit = true
						}
						continue
					}
					// the back-edge value is data, not prev+const
					if bo, ok := e.(*ssa.BinOp); ok && (bo.X == ssa.Value(prev) || bo.Y == ssa.Value(prev)) {
						continue
					}
					if e != ssa.Value(prev) {
						dataStep = true
					}
				}
				if !zeroInit || !dataStep || prev.Referrers() == nil {
					continue
				}
				for _, ref := range *prev.Referrers() {
					cmp, ok := ref.(*ssa.BinOp)
					if !ok || !l.body[cmp.Block()] {
						continue
					}
					// cur <= prev  or  prev >= cur
					rejectEq := (cmp.Op == token.LEQ && cmp.Y == ssa.Value(prev)) || (cmp.Op == token.GEQ && cmp.X == ssa.Value(prev))
					if !rejectEq {
						continue
					}
					// the taken branch must reject (reach an error return without coming back to the loop head)
					if !leadsToReject(cmp, l) {
						continue
					}
					if ci == nil {
						ci = ctrlDeps(fn)
					}
					guarded := false
					for _, d := range ci.dep[cmp.Block()] {
						if !l.body[d] || d == l.head || !d.Dominates(cmp.Block()) {
							continue // (tests of an earlier iteration do not guard this one)
						}
						ifi, ok := d.Instrs[len(d.Instrs)-1].(*ssa.If)
						if !ok {
							continue
						}
						// a test that does not involve prev or the data: counter or flag
						sl := backSlice(ifi.Cond)
						if !sl[prev] {
							guarded = true
						}
					}
					key := r.MkKey("prevsentinel", fnName(fn), "order test against the previous element")
					if guarded {
						r.OK("prevsentinel", key, w.Pos(cmp.Pos()), "not evaluated for the first element")
					} else {
						r.Fail("prevsentinel", key, w.Pos(cmp.Pos()), "the element is rejected when it is <= the previous value, which starts as 0, and the test also runs for the first element: a table whose first range starts at 0 is refused although it is valid", nil)
					}
				}
			}
		}
	}
}

// leadsToReject: the true edge of the branch on cmp reaches a return of a
// non-nil error without passing the loop head again.
func leadsToReject(cmp *ssa.BinOp, l *natLoop) bool {
	if cmp.Referrers() == nil {
		return false
	}
	for _, ref := range *cmp.Referrers() {
		var start *ssa.BasicBlock
		switch x := ref.(type) {
		case *ssa.If:
			start = x.Block().Succs[0]
		case *ssa.Phi:
			// part of a && / || chain: follow the join's branch
			if ifi, ok := x.Block().Instrs[len(x.Block().Instrs)-1].(*ssa.If); ok && ifi.Cond == ssa.Value(x) {
				start = x.Block().Succs[0]
			}
		}
		if start == nil {
			continue
		}
		seen := map[*ssa.BasicBlock]bool{}
		stack := []*ssa.BasicBlock{start}
		for len(stack) > 0 {
			b := stack[len(stack)-1]
			stack = stack[:len(stack)-1]
			if seen[b] || b == l.head {
				continue
			}
			seen[b] = true
			if rt, ok := b.Instrs[len(b.Instrs)-1].(*ssa.Return); ok {
				n := len(rt.Results)
				if n > 0 && !isNilConst(rt.Results[n-1]) {
					return true
				}
				continue
			}
			if len(seen) > 6 {
				break
			}
			stack = append(stack, b.Succs...)
		}
	}
	return false
}

// condElemsBelowLastParam is the side condition of reviewed entries that rely
// on "every element the function puts into the byte slices it hands out is
// smaller than its last integer parameter" (FDSelect: every font-dictionary
// index is below the number of private dictionaries).  Two ways of filling
// are recognised and each is proven: (1) append(s, v): the prover shows
// v < limit at the append; (2) a slice made with length n and filled by a
// read call: a loop whose counter runs from 0 to that same n tests s[i] and,
// on the edge that stays in the loop, the prover shows s[i] < limit.
func condElemsBelowLastParam(w *World, br *boundsRun, name string) func() (bool, string) {
	return func() (bool, string) {
		fn := w.Func(name)
		if fn == nil {
			return false, name + " does not resolve"
		}
		var limit *ssa.Parameter
		for _, prm := range fn.Params {
			if isIntType(prm.Type()) {
				limit = prm
			}
		}
		if limit == nil {
			return false, name + " has no integer parameter"
		}
		p := br.prover(fn)
		lim := p.linOf(limit)
		isByteSlice := func(t types.Type) bool { return bIsByteSlice(t.Underlying()) }
		nApp, nBulk := 0, 0
		for _, b := range fn.Blocks {
			for _, in := range b.Instrs {
				switch x := in.(type) {
				case *ssa.Call:
					bi, ok := x.Call.Value.(*ssa.Builtin)
					if !ok || bi.Name() != "append" || len(x.Call.Args) != 2 || !isByteSlice(x.Call.Args[0].Type()) {
						continue
					}
					// the appended value: append(s, v) is append(s, tmp[:]...) with *tmp[0] = v
					var v ssa.Value
					if sl, ok := x.Call.Args[1].(*ssa.Slice); ok {
						if al, ok := sl.X.(*ssa.Alloc); ok && al.Referrers() != nil {
							for _, ref := range *al.Referrers() {
								if ia, ok := ref.(*ssa.IndexAddr); ok && ia.Referrers() != nil {
									for _, r2 := range *ia.Referrers() {
										if st, ok := r2.(*ssa.Store); ok {
											v = st.Val
										}
									}
								}
							}
						}
					}
					if v == nil {
						return false, w.Pos(x.Pos()) + ": append of several bytes at once: the elements are not followed"
					}
					nApp++
					d, ok1 := lim.sub(p.linOf(v))
					if !ok1 || !p.proveAt(b, d.addc(-1)) {
						return false, w.Pos(x.Pos()) + ": the value appended here is not shown to be below " + limit.Name() + " (the range test is missing or too weak)"
					}
				case *ssa.MakeSlice:
					if !isByteSlice(x.Type()) {
						continue
					}
					nBulk++
					// a checking loop over 0..len
					okLoop := false
					for _, l := range naturalLoops(fn) {
						for bb := range l.body {
							for _, in2 := range bb.Instrs {
								ld, ok := in2.(*ssa.UnOp)
								if !ok || ld.Op != token.MUL {
									continue
								}
								ia, ok := ld.X.(*ssa.IndexAddr)
								if !ok || !isSliceValue(ia.X, x) {
									continue
								}
								ctr, ok := ia.Index.(*ssa.Phi)
								if !ok || ctr.Block() != l.head {
									continue
								}
								fromZero := true
								for i, e := range ctr.Edges {
									if l.body[l.head.Preds[i]] {
										continue
									}
									if c, isC := bconstInt(e); !isC || c != 0 {
										fromZero = false
									}
								}
								if !fromZero {
									continue
								}
								// the loop runs while ctr < n for the n of the make
								runsAll := false
								if ifi, ok := l.head.Instrs[len(l.head.Instrs)-1].(*ssa.If); ok {
									if cmp, ok := ifi.Cond.(*ssa.BinOp); ok && cmp.Op == token.LSS && cmp.X == ssa.Value(ctr) {
										if dd, ok := p.linOf(cmp.Y).sub(p.linOf(x.Len)); ok && dd.isConst() && dd.k == 0 {
											runsAll = true
										}
										if c, ok := cmp.Y.(*ssa.Call); ok {
											if bi, ok := c.Call.Value.(*ssa.Builtin); ok && bi.Name() == "len" && isSliceValue(c.Call.Args[0], x) {
												runsAll = true
											}
										}
									}
								}
								if !runsAll {
									continue
								}
								// on every back edge the element is below the limit
								all := true
								for _, latch := range l.latches {
									d, ok1 := lim.sub(p.linOf(ld))
									if !ok1 || !p.prove(p.edgeFacts(latch, l.head), d.addc(-1), latch, 2) {
										all = false
									}
								}
								if all {
									okLoop = true
								}
							}
						}
					}
					if !okLoop {
						return false, w.Pos(x.Pos()) + ": the byte slice made here is handed out without a loop over all its elements that rejects values >= " + limit.Name()
					}
				}
			}
		}
		if nApp == 0 && nBulk == 0 {
			return false, "no byte slice is filled in " + name
		}
		return true, ""
	}
}

// isSliceValue: v is the made slice x itself, or a load of a variable cell
// whose only store puts x there (a variable captured by a closure).
func isSliceValue(v ssa.Value, x *ssa.MakeSlice) bool {
	if v == ssa.Value(x) {
		return true
	}
	ld, ok := v.(*ssa.UnOp)
	if !ok || ld.Op != token.MUL {
		return false
	}
	cell, ok := ld.X.(*ssa.Alloc)
	if !ok || cell.Referrers() == nil {
		return false
	}
	n := 0
	match := false
	for _, ref := range *cell.Referrers() {
		if st, ok := ref.(*ssa.Store); ok && st.Addr == ssa.Value(cell) {
			n++
			if st.Val == ssa.Value(x) {
				match = true
			}
		}
	}
	return n == 1 && match
}

// RunStrictChoice: "the smaller of the alternative formats is chosen".  Where
// a function compares two size fields of one structure (format1Size against
// format2Size) and then computes with one of them (a count derived from the
// size: (format2Size-4)/6), that size must be the strictly smaller one on the
// branch where it is used.  Strictness matters when the sizes come from a
// counting loop that stops as soon as the running size reaches the other one:
// the stored size is then exact only if it is smaller, and on a tie the count
// derived from it is too small.
func RunStrictChoice(w *World, r *Report, fns []*ssa.Function, br *boundsRun) {
	r.Rule("strictchoice: where a function branches on a comparison of two integer fields of one structure and computes with one of the two (subtracts from it, divides it), the prover shows at that computation that the field used is strictly smaller than the other one: a size that a budget-limited counting loop produced is exact only below the budget, so on a tie the other format must be taken")
	for _, fn := range fns {
		if fn.Blocks == nil {
			continue
		}
		type fld struct {
			base  ssa.Value
			field int
		}
		fieldOf := func(v ssa.Value) (fld, bool) {
			ld, ok := v.(*ssa.UnOp)
			if !ok || ld.Op != token.MUL {
				return fld{}, false
			}
			fa, ok := ld.X.(*ssa.FieldAddr)
			if !ok || !isIntType(ld.Type()) {
				return fld{}, false
			}
			return fld{fa.X, fa.Field}, true
		}
		// pairs of fields compared with each other
		other := map[fld]fld{}
		for _, b := range fn.Blocks {
			ifi, ok := b.Instrs[len(b.Instrs)-1].(*ssa.If)
			if !ok {
				continue
			}
			cmp, ok := ifi.Cond.(*ssa.BinOp)
			if !ok {
				continue
			}
			switch cmp.Op {
			case token.LSS, token.LEQ, token.GTR, token.GEQ:
			default:
				continue
			}
			fx, ok1 := fieldOf(cmp.X)
			fy, ok2 := fieldOf(cmp.Y)
			if ok1 && ok2 && fx.base == fy.base && fx.field != fy.field {
				other[fx], other[fy] = fy, fx
			}
		}
		if len(other) == 0 {
			continue
		}
		p := br.prover(fn)
		for _, b := range fn.Blocks {
			for _, in := range b.Instrs {
				bo, ok := in.(*ssa.BinOp)
				if !ok || (bo.Op != token.SUB && bo.Op != token.QUO) {
					continue
				}
				fu, ok := fieldOf(bo.X)
				if !ok {
					continue
				}
				fo, ok := other[fu]
				if !ok {
					continue
				}
				// the other field as loaded in this function: any load of it
				var otherLoad ssa.Value
				for _, b2 := range fn.Blocks {
					for _, in2 := range b2.Instrs {
						if v, ok := in2.(ssa.Value); ok {
							if f2, ok := fieldOf(v); ok && f2 == fo && b2.Dominates(b) {
								otherLoad = v
							}
						}
					}
				}
				st := fu.base.Type().Underlying().(*types.Pointer).Elem().Underlying().(*types.Struct)
				key := r.MkKey("strictchoice", fnName(fn), "use of "+st.Field(fu.field).Name())
				if otherLoad == nil {
					r.Fail("strictchoice", key, w.Pos(bo.Pos()), "the field is used in a computation where its comparison partner "+st.Field(fo.field).Name()+" was not loaded before: the choice between the two is not visible here", nil)
					continue
				}
				d, okd := p.linOf(otherLoad).sub(p.linOf(bo.X))
				if okd && p.proveAt(b, d.addc(-1)) {
					r.OK("strictchoice", key, w.Pos(bo.Pos()), "used only where it is strictly smaller than "+st.Field(fo.field).Name())
				} else {
					r.Fail("strictchoice", key, w.Pos(bo.Pos()), fmt.Sprintf("%s is used to derive a count although it is not shown to be strictly smaller than %s here: on a tie the size may come from a counting loop that stopped at the budget, and the count is then too small for what is written", st.Field(fu.field).Name(), st.Field(fo.field).Name()), nil)
				}
			}
		}
	}
}
