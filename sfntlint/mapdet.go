package main

// E5 mapdet: outputs do not depend on map iteration order, clock or schedule.
//
// For every nondeterminism source in the analysed functions (range over a
// map, maps.Keys/Values, time.Now, math/rand, go statements, select) the
// site must be order-insensitive by one of the recognised patterns; anything
// else is reported with the first order-dependent statement.

import (
	"regexp"
	"fmt"
	"go/ast"
	"go/constant"
	"go/token"
	"go/types"
	"sort"
	"strings"

	"golang.org/x/tools/go/ssa"
	"golang.org/x/tools/go/types/typeutil"
)

type mapdet struct {
	w   *World
	e   *Effects
	r   *Report
	ruleName string
}

type mdCtx struct {
	fn    *ssa.Function
	info  *types.Info
	body  *ast.BlockStmt
	loops []*ast.RangeStmt      // enclosing map-range loops, outermost first
	keys  map[types.Object]bool // key variables of the enclosing map loops
	vals  map[types.Object]bool
	loopVars map[types.Object]bool // all loop variables (map and non-map) inside the outermost map loop
	outer *ast.RangeStmt        // outermost map loop
	written map[types.Object]string // outer objects written in the loop -> role
	collected map[types.Object]ast.Expr // outer slices appended to -> element expr
	keyedColl map[types.Object]bool     // outer containers whose cells are appended to (x[k] = append(x[k], e))
	problems []string
	classes  []string
	probPos  token.Pos
	md    *mapdet
}

func (c *mdCtx) problem(pos token.Pos, format string, a ...any) {
	c.problemC("other", pos, format, a...)
}

func (c *mdCtx) problemC(class string, pos token.Pos, format string, a ...any) {
	c.classes = append(c.classes, class)
	if len(c.problems) == 0 {
		c.probPos = pos
	}
	c.problems = append(c.problems, fmt.Sprintf("%s: ", c.md.w.Pos(pos))+fmt.Sprintf(format, a...))
}

// RunMapdet analyses the given functions and records one obligation per
// nondeterminism source.
func RunMapdet(w *World, e *Effects, r *Report, rule string, fns []*ssa.Function) {
	md := &mapdet{w: w, e: e, r: r, ruleName: rule}
	for _, fn := range fns {
		body, _ := funcBody(fn)
		if body == nil {
			continue
		}
		info := w.Info(fn)
		if info == nil {
			continue
		}
		md.scanFunc(fn, info, body)
	}
}

func isMapType(t types.Type) bool {
	if t == nil {
		return false
	}
	_, ok := t.Underlying().(*types.Map)
	return ok
}

// scanFunc finds the sources in one function body (not descending into
// function literals, which are functions of their own).
func (md *mapdet) scanFunc(fn *ssa.Function, info *types.Info, body *ast.BlockStmt) {
	var visit func(n ast.Node) bool
	visit = func(n ast.Node) bool {
		switch n := n.(type) {
		case *ast.FuncLit:
			return false
		case *ast.RangeStmt:
			if isMapType(info.TypeOf(n.X)) {
				md.mapRange(fn, info, body, n)
				// nested map ranges inside are handled by the same analysis
				return false
			}
		case *ast.CallExpr:
			if callee := typeutil.Callee(info, n); callee != nil && callee.Pkg() != nil {
				full := callee.Pkg().Path() + "." + callee.Name()
				switch full {
				case "golang.org/x/exp/maps.Keys", "golang.org/x/exp/maps.Values", "maps.Keys", "maps.Values":
					md.mapsKeys(fn, info, body, n, full)
				case "time.Now", "time.Since", "time.Until":
					md.timeNow(fn, info, body, n, full)
				}
				if callee.Pkg().Path() == "math/rand" || callee.Pkg().Path() == "math/rand/v2" || callee.Pkg().Path() == "crypto/rand" {
					key := md.r.MkKey(md.ruleName, fnName(fn), "call "+full)
					md.r.Fail(md.ruleName, key, md.w.Pos(n.Pos()), "random source "+full+" reachable from an output path", nil)
				}
			}
		case *ast.GoStmt:
			key := md.r.MkKey(md.ruleName, fnName(fn), "go statement")
			md.r.Fail(md.ruleName, key, md.w.Pos(n.Pos()), "goroutine started on an output path: result may depend on scheduling", nil)
		case *ast.SelectStmt:
			if len(n.Body.List) > 1 {
				key := md.r.MkKey(md.ruleName, fnName(fn), "select")
				md.r.Fail(md.ruleName, key, md.w.Pos(n.Pos()), "multi-way select on an output path: result may depend on scheduling", nil)
			}
		}
		return true
	}
	ast.Inspect(body, visit)
}

// ---------------------------------------------------------------------------
// time.Now: accepted only when control reaches it solely through tests that
// the font's own timestamps are zero (outside the property's domain).

func (md *mapdet) timeNow(fn *ssa.Function, info *types.Info, body *ast.BlockStmt, call *ast.CallExpr, full string) {
	key := md.r.MkKey(md.ruleName, fnName(fn), "call "+full)
	// find the chain of enclosing if statements
	path := enclosing(body, call.Pos())
	nZero := 0
	for _, n := range path {
		if ifs, ok := n.(*ast.IfStmt); ok && ifs.Body.Pos() <= call.Pos() && call.Pos() < ifs.Body.End() {
			if c, ok := ifs.Cond.(*ast.CallExpr); ok {
				if sel, ok := c.Fun.(*ast.SelectorExpr); ok && sel.Sel.Name == "IsZero" {
					nZero++
				}
			}
		}
	}
	if nZero >= 1 {
		// the guarded variable must have been assigned from both timestamps: check that
		// an earlier IsZero-guarded fallback assignment exists in the same function
		cnt := 0
		ast.Inspect(body, func(n ast.Node) bool {
			if ifs, ok := n.(*ast.IfStmt); ok && ifs.End() <= call.Pos()+1000000 {
				if c, ok := ifs.Cond.(*ast.CallExpr); ok {
					if sel, ok := c.Fun.(*ast.SelectorExpr); ok && sel.Sel.Name == "IsZero" {
						cnt++
					}
				}
			}
			return true
		})
		if cnt >= 2 {
			md.r.OK(md.ruleName, key, md.w.Pos(call.Pos()), "clock read only when both font timestamps are zero (two IsZero guards) — outside the property's domain")
			return
		}
	}
	md.r.Fail(md.ruleName, key, md.w.Pos(call.Pos()), "clock read "+full+" on an output path without the zero-timestamp guards", nil)
}

// enclosing returns the chain of nodes containing pos, outermost first.
func enclosing(root ast.Node, pos token.Pos) []ast.Node {
	var path []ast.Node
	ast.Inspect(root, func(n ast.Node) bool {
		if n == nil {
			return false
		}
		if n.Pos() <= pos && pos < n.End() {
			path = append(path, n)
			return true
		}
		return false
	})
	return path
}

// ---------------------------------------------------------------------------
// maps.Keys / maps.Values

func (md *mapdet) mapsKeys(fn *ssa.Function, info *types.Info, body *ast.BlockStmt, call *ast.CallExpr, full string) {
	key := md.r.MkKey(md.ruleName, fnName(fn), "call "+full+"("+types.ExprString(call.Args[0])+")")
	// the result must be assigned to a variable that is sorted before any other use
	path := enclosing(body, call.Pos())
	var obj types.Object
	var after token.Pos
	for i := len(path) - 1; i >= 0; i-- {
		if as, ok := path[i].(*ast.AssignStmt); ok && len(as.Lhs) == 1 && len(as.Rhs) == 1 && as.Rhs[0] == call {
			if id, ok := as.Lhs[0].(*ast.Ident); ok {
				obj = info.ObjectOf(id)
				after = as.End()
			}
			break
		}
		if rs, ok := path[i].(*ast.RangeStmt); ok && rs.X == call {
			// ranging directly over maps.Keys(m) is a map range
			md.r.Fail(md.ruleName, key, md.w.Pos(call.Pos()), "range over "+full+" result: iteration order is unspecified", nil)
			return
		}
	}
	if obj == nil {
		md.r.Fail(md.ruleName, key, md.w.Pos(call.Pos()), full+" result used without being assigned and sorted", nil)
		return
	}
	elemIsKey := strings.HasSuffix(full, "Keys")
	ok, how := md.sortedBeforeUse(fn, info, body, obj, after, nil, elemIsKey, nil)
	if ok {
		md.r.OK(md.ruleName, key, md.w.Pos(call.Pos()), how)
	} else {
		cls := "unsorted"
		if strings.HasPrefix(how, "is sorted with a comparator") {
			cls = "comparator"
		}
		md.r.FailC(md.ruleName, key, []string{cls}, md.w.Pos(call.Pos()), full+": "+how, nil)
	}
}

// ---------------------------------------------------------------------------
// range over map

func (md *mapdet) mapRange(fn *ssa.Function, info *types.Info, body *ast.BlockStmt, rs *ast.RangeStmt) {
	key := md.r.MkKey(md.ruleName, fnName(fn), "range "+types.ExprString(rs.X))
	c := &mdCtx{fn: fn, info: info, body: body, outer: rs, keys: map[types.Object]bool{}, vals: map[types.Object]bool{},
		loopVars: map[types.Object]bool{}, written: map[types.Object]string{}, collected: map[types.Object]ast.Expr{}, keyedColl: map[types.Object]bool{}, md: md}
	c.enterMapLoop(rs)
	c.collectWrites(rs.Body)
	c.stmts(rs.Body.List)
	how := []string{}
	if len(c.problems) == 0 {
		// collected slices must be sorted before any other use
		objs := make([]types.Object, 0, len(c.collected))
		for o := range c.collected {
			objs = append(objs, o)
		}
		sort.Slice(objs, func(i, j int) bool { return objs[i].Pos() < objs[j].Pos() })
		for _, o := range objs {
			ok, h := md.sortedBeforeUse(fn, info, body, o, rs.End(), c, false, c.collected[o])
			if !ok {
				cls := "unsorted"
				if strings.HasPrefix(h, "is sorted with a comparator") {
					cls = "comparator"
				}
				c.problemC(cls, rs.Pos(), "slice %s is filled in map iteration order and %s", o.Name(), h)
			} else {
				how = append(how, o.Name()+": "+h)
			}
		}
	}
	if len(c.problems) == 0 {
		objs := make([]types.Object, 0, len(c.keyedColl))
		for o := range c.keyedColl {
			objs = append(objs, o)
		}
		sort.Slice(objs, func(i, j int) bool { return objs[i].Pos() < objs[j].Pos() })
		for _, o := range objs {
			md.taintedContainer(c, o, rs.End())
		}
	}
	if len(c.problems) == 0 {
		var roles []string
		for o, role := range c.written {
			roles = append(roles, o.Name()+"="+role)
		}
		sort.Strings(roles)
		how = append(how, roles...)
		if len(how) == 0 {
			how = append(how, "loop has no effect outside its body")
		}
		md.r.OK(md.ruleName, key, md.w.Pos(rs.Pos()), "order-insensitive: "+strings.Join(how, "; "))
		return
	}
	md.r.FailC(md.ruleName, key, c.classes, md.w.Pos(rs.Pos()),
		"result may depend on map iteration order: "+strings.Join(c.problems[:min(3, len(c.problems))], " | "), nil)
}

func (c *mdCtx) enterMapLoop(rs *ast.RangeStmt) {
	c.loops = append(c.loops, rs)
	if id, ok := rs.Key.(*ast.Ident); ok && id.Name != "_" {
		if o := c.info.ObjectOf(id); o != nil {
			c.keys[o] = true
			c.loopVars[o] = true
		}
	}
	if id, ok := rs.Value.(*ast.Ident); ok && id.Name != "_" {
		if o := c.info.ObjectOf(id); o != nil {
			c.vals[o] = true
			c.loopVars[o] = true
		}
	}
}

// isOuter reports whether obj is declared outside the outermost map loop.
func (c *mdCtx) isOuter(o types.Object) bool {
	if o == nil {
		return false
	}
	if _, ok := o.(*types.Var); !ok {
		return false
	}
	return !(c.outer.Pos() <= o.Pos() && o.Pos() < c.outer.End())
}

// baseObj returns the variable at the root of an lvalue/expression like
// x, x.f, x[i], x[i].f, *x.
func (c *mdCtx) baseObj(e ast.Expr) types.Object {
	for {
		switch x := e.(type) {
		case *ast.Ident:
			return c.info.ObjectOf(x)
		case *ast.SelectorExpr:
			if _, ok := c.info.Selections[x]; ok {
				e = x.X
				continue
			}
			// qualified identifier pkg.Var
			return c.info.ObjectOf(x.Sel)
		case *ast.IndexExpr:
			e = x.X
		case *ast.StarExpr:
			e = x.X
		case *ast.ParenExpr:
			e = x.X
		case *ast.SliceExpr:
			e = x.X
		case *ast.TypeAssertExpr:
			e = x.X
		default:
			return nil
		}
	}
}

// collectWrites pre-computes which outer variables the loop body writes, so
// that reads of them elsewhere in the loop can be recognised.
func (c *mdCtx) collectWrites(body *ast.BlockStmt) {
	mark := func(e ast.Expr, role string) {
		if o := c.baseObj(e); o != nil && c.isOuter(o) {
			if _, ok := c.written[o]; !ok {
				c.written[o] = role
			}
		}
	}
	ast.Inspect(body, func(n ast.Node) bool {
		switch n := n.(type) {
		case *ast.FuncLit:
			// writes inside closures defined in the loop count as well
			return true
		case *ast.AssignStmt:
			for _, l := range n.Lhs {
				mark(l, "assigned")
			}
		case *ast.IncDecStmt:
			mark(n.X, "counter")
		case *ast.CallExpr:
			if id, ok := n.Fun.(*ast.Ident); ok {
				if _, isB := c.info.Uses[id].(*types.Builtin); isB {
					switch id.Name {
					case "delete", "copy", "clear":
						mark(n.Args[0], id.Name)
					}
					return true
				}
			}
			if pure, _ := c.md.pureCall(c.info, n); !pure {
				// an impure call may write through any pointer-like argument or its receiver
				if sel, ok := n.Fun.(*ast.SelectorExpr); ok {
					if _, isSel := c.info.Selections[sel]; isSel {
						mark(sel.X, "mutated by call")
					}
				}
				for _, a := range n.Args {
					if c.md.e.pointerLike(c.info.TypeOf(a)) {
						mark(a, "mutated by call")
					}
				}
			}
		}
		return true
	})
}

// pureCall reports whether a call expression is free of side effects visible
// outside the callee.
func (md *mapdet) pureCall(info *types.Info, call *ast.CallExpr) (bool, string) {
	// conversion
	if tv, ok := info.Types[call.Fun]; ok && tv.IsType() {
		return true, ""
	}
	if id, ok := call.Fun.(*ast.Ident); ok {
		if _, isB := info.Uses[id].(*types.Builtin); isB {
			switch id.Name {
			case "len", "cap", "min", "max", "make", "new", "append", "complex", "real", "imag":
				return true, ""
			}
			return false, "builtin " + id.Name
		}
	}
	callee := typeutil.Callee(info, call)
	fobj, _ := callee.(*types.Func)
	if fobj == nil {
		return false, "dynamic call " + types.ExprString(call.Fun)
	}
	sig := fobj.Type().(*types.Signature)
	if recv := sig.Recv(); recv != nil {
		if _, isIface := recv.Type().Underlying().(*types.Interface); isIface {
			// interface method: every implementation in the analysed scope must be pure
			n := 0
			for _, f := range md.e.fns {
				if f.Signature.Recv() == nil || f.Name() != fobj.Name() {
					continue
				}
				if types.Implements(f.Signature.Recv().Type(), recv.Type().Underlying().(*types.Interface)) ||
					types.Implements(types.NewPointer(f.Signature.Recv().Type()), recv.Type().Underlying().(*types.Interface)) {
					n++
					if p, why := md.e.Pure(f); !p {
						return false, fnName(f) + " " + why
					}
				}
			}
			if n == 0 {
				es, ok := md.e.ext["("+recv.Type().String()+")."+fobj.Name()]
				if ok && len(es.writes) == 0 && len(es.stores) == 0 {
					return true, ""
				}
				return false, "interface method " + fobj.FullName() + " without analysed implementation"
			}
			return true, ""
		}
	}
	if f := md.w.Prog.FuncValue(fobj); f != nil {
		if md.e.scope[f] {
			return md.e.Pure(f)
		}
		if isGenericOrigin(f) {
			// generic function of the analysed scope: all instances must be pure
			found := false
			for _, g := range md.e.fns {
				if g.Origin() == f {
					found = true
					if p, why := md.e.Pure(g); !p {
						return false, why
					}
				}
			}
			if found {
				return true, ""
			}
		}
		name := f.String()
		es, ok := md.e.ext[name]
		if !ok {
			if i := strings.Index(name, "["); i >= 0 {
				es, ok = md.e.ext[name[:i]]
			}
		}
		if ok {
			if len(es.writes) == 0 && len(es.stores) == 0 {
				return true, ""
			}
			return false, "external " + name + " mutates an argument"
		}
		// unknown external: pure only if it receives no pointer-like argument
		for _, a := range call.Args {
			if md.e.pointerLike(info.TypeOf(a)) {
				return false, "unsummarised external " + name
			}
		}
		if sel, ok := call.Fun.(*ast.SelectorExpr); ok {
			if _, isSel := info.Selections[sel]; isSel && md.e.pointerLike(info.TypeOf(sel.X)) {
				return false, "unsummarised external " + name
			}
		}
		return true, ""
	}
	return false, "unresolved callee " + fobj.FullName()
}

// checkExpr verifies that e is pure and does not read variables the loop
// writes (except those listed in allow).
func (c *mdCtx) checkExpr(e ast.Expr, allow map[types.Object]bool, what string) {
	if e == nil {
		return
	}
	ast.Inspect(e, func(n ast.Node) bool {
		switch n := n.(type) {
		case *ast.FuncLit:
			return false
		case *ast.CallExpr:
			if pure, why := c.md.pureCall(c.info, n); !pure {
				c.problemC("effects", n.Pos(), "%s calls %s which has side effects (%s): effects happen in iteration order", what, types.ExprString(n.Fun), why)
			}
		case *ast.Ident:
			o := c.info.Uses[n]
			if o != nil && c.isOuter(o) {
				if role, w := c.written[o]; w && !allow[o] {
					c.problemC("effects", n.Pos(), "%s reads %s, which the loop also writes (%s)", what, o.Name(), role)
				}
			}
		case *ast.UnaryExpr:
			if n.Op == token.ARROW {
				c.problem(n.Pos(), "%s receives from a channel", what)
			}
		}
		return true
	})
}

func isConstExpr(info *types.Info, e ast.Expr) bool {
	if tv, ok := info.Types[e]; ok && tv.Value != nil {
		return true
	}
	switch x := e.(type) {
	case *ast.Ident:
		return x.Name == "true" || x.Name == "false" || x.Name == "nil"
	case *ast.CompositeLit:
		return len(x.Elts) == 0
	}
	return false
}

// injectiveInKeys reports whether distinct iterations (distinct key tuples of
// the enclosing map loops) always give distinct values of the index
// expressions idx (taken jointly).
func (c *mdCtx) injectiveInKeys(idx []ast.Expr) bool {
	// every enclosing map loop's key must appear "whole": bare, converted,
	// +/- constant, or as a composite-literal field; or all fields of a struct
	// key must appear as selectors.
	for k := range c.keys {
		if !c.keyCovered(k, idx) {
			return false
		}
	}
	return len(c.keys) > 0
}

func (c *mdCtx) keyCovered(k types.Object, idx []ast.Expr) bool {
	fields := map[string]bool{}
	whole := false
	var visit func(e ast.Expr)
	visit = func(e ast.Expr) {
		switch x := e.(type) {
		case *ast.Ident:
			if c.info.ObjectOf(x) == k {
				whole = true
			}
		case *ast.ParenExpr:
			visit(x.X)
		case *ast.CallExpr:
			if tv, ok := c.info.Types[x.Fun]; ok && tv.IsType() && len(x.Args) == 1 {
				// widening or same-size conversions are injective; narrowing ones are not
				from, to := c.info.TypeOf(x.Args[0]), c.info.TypeOf(x)
				if convInjective(from, to) {
					visit(x.Args[0])
				}
			}
		case *ast.BinaryExpr:
			if x.Op == token.ADD || x.Op == token.SUB {
				if isConstExpr(c.info, x.Y) {
					visit(x.X)
				} else if isConstExpr(c.info, x.X) && x.Op == token.ADD {
					visit(x.Y)
				}
			}
		case *ast.CompositeLit:
			for _, el := range x.Elts {
				if kv, ok := el.(*ast.KeyValueExpr); ok {
					visit(kv.Value)
				} else {
					visit(el)
				}
			}
		case *ast.SelectorExpr:
			if id, ok := x.X.(*ast.Ident); ok && c.info.ObjectOf(id) == k {
				fields[x.Sel.Name] = true
			}
		}
	}
	for _, e := range idx {
		visit(e)
	}
	if whole {
		return true
	}
	if st, ok := k.Type().Underlying().(*types.Struct); ok && st.NumFields() > 0 {
		for i := 0; i < st.NumFields(); i++ {
			if !fields[st.Field(i).Name()] {
				return false
			}
		}
		return true
	}
	return false
}

func convInjective(from, to types.Type) bool {
	fb, ok1 := from.Underlying().(*types.Basic)
	tb, ok2 := to.Underlying().(*types.Basic)
	if !ok1 || !ok2 {
		return types.Identical(from.Underlying(), to.Underlying())
	}
	size := func(b *types.Basic) int {
		switch b.Kind() {
		case types.Int8, types.Uint8:
			return 1
		case types.Int16, types.Uint16:
			return 2
		case types.Int32, types.Uint32:
			return 4
		case types.Int64, types.Uint64, types.Int, types.Uint, types.Uintptr:
			return 8
		case types.String:
			return 100
		}
		return 0
	}
	if fb.Info()&types.IsInteger != 0 && tb.Info()&types.IsInteger != 0 {
		return size(tb) >= size(fb)
	}
	if fb.Kind() == types.String && tb.Kind() == types.String {
		return true
	}
	return false
}

// indexChain splits x[a][b].f[c] into base and index expressions.
func indexChain(e ast.Expr) (ast.Expr, []ast.Expr) {
	var idx []ast.Expr
	for {
		switch x := e.(type) {
		case *ast.IndexExpr:
			idx = append([]ast.Expr{x.Index}, idx...)
			e = x.X
		case *ast.ParenExpr:
			e = x.X
		case *ast.SelectorExpr:
			e = x.X
		case *ast.StarExpr:
			e = x.X
		default:
			return e, idx
		}
	}
}

func hasIndex(e ast.Expr) bool {
	_, idx := indexChain(e)
	return len(idx) > 0
}

func (c *mdCtx) stmts(list []ast.Stmt) {
	for _, s := range list {
		c.stmt(s)
	}
}

func (c *mdCtx) stmt(s ast.Stmt) {
	switch s := s.(type) {
	case nil:
	case *ast.BlockStmt:
		c.stmts(s.List)
	case *ast.EmptyStmt:
	case *ast.DeclStmt:
		if gd, ok := s.Decl.(*ast.GenDecl); ok {
			for _, sp := range gd.Specs {
				if vs, ok := sp.(*ast.ValueSpec); ok {
					for _, v := range vs.Values {
						c.checkExpr(v, nil, "initialiser")
					}
				}
			}
		}
	case *ast.LabeledStmt:
		c.stmt(s.Stmt)
	case *ast.ExprStmt:
		c.exprStmt(s)
	case *ast.IncDecStmt:
		o := c.baseObj(s.X)
		if o != nil && c.isOuter(o) {
			if hasIndex(s.X) {
				c.keyedUpdate(s.X, nil, s.Pos())
			} else if !isIntegerType(c.info.TypeOf(s.X)) {
				c.problem(s.Pos(), "%s of non-integer %s", s.Tok, types.ExprString(s.X))
			} else {
				c.written[o] = "counter"
			}
		}
	case *ast.AssignStmt:
		c.assign(s)
	case *ast.IfStmt:
		c.ifStmt(s)
	case *ast.ForStmt:
		c.stmt(s.Init)
		if s.Cond != nil {
			c.checkExpr(s.Cond, nil, "loop condition")
		}
		c.stmt(s.Post)
		c.noteLoopVars(s.Init)
		c.stmts(s.Body.List)
	case *ast.RangeStmt:
		c.checkExpr(s.X, nil, "range expression")
		if isMapType(c.info.TypeOf(s.X)) {
			c.enterMapLoop(s)
			c.stmts(s.Body.List)
		} else {
			for _, e := range []ast.Expr{s.Key, s.Value} {
				if id, ok := e.(*ast.Ident); ok && id.Name != "_" {
					if o := c.info.ObjectOf(id); o != nil {
						c.loopVars[o] = true
					}
				}
			}
			c.stmts(s.Body.List)
		}
	case *ast.SwitchStmt:
		c.stmt(s.Init)
		c.checkExpr(s.Tag, nil, "switch tag")
		for _, cc := range s.Body.List {
			cl := cc.(*ast.CaseClause)
			for _, e := range cl.List {
				c.checkExpr(e, nil, "case expression")
			}
			c.stmts(cl.Body)
		}
	case *ast.TypeSwitchStmt:
		c.stmt(s.Init)
		for _, cc := range s.Body.List {
			c.stmts(cc.(*ast.CaseClause).Body)
		}
	case *ast.BranchStmt:
		switch s.Tok {
		case token.CONTINUE:
			// fine: skipping an entry depends on that entry only (conditions are checked separately)
		case token.BREAK:
			if c.breaksMapLoop(s) {
				c.problemC("early-exit", s.Pos(), "break out of the map iteration: which entries are visited depends on iteration order")
			}
		case token.GOTO:
			c.problem(s.Pos(), "goto inside map iteration")
		}
	case *ast.ReturnStmt:
		c.problemC("early-exit", s.Pos(), "return from inside the map iteration: the entry that triggers it depends on iteration order")
	case *ast.DeferStmt, *ast.GoStmt, *ast.SendStmt, *ast.SelectStmt:
		c.problem(s.Pos(), "defer/go/send/select inside map iteration")
	default:
		c.problem(s.Pos(), "unrecognised statement %T", s)
	}
}

func (c *mdCtx) noteLoopVars(init ast.Stmt) {
	if as, ok := init.(*ast.AssignStmt); ok {
		for _, l := range as.Lhs {
			if id, ok := l.(*ast.Ident); ok {
				if o := c.info.ObjectOf(id); o != nil {
					c.loopVars[o] = true
				}
			}
		}
	}
}

// breaksMapLoop reports whether the break statement leaves one of the map
// loops (rather than an inner non-map loop or switch).
func (c *mdCtx) breaksMapLoop(br *ast.BranchStmt) bool {
	path := enclosing(c.outer, br.Pos())
	if br.Label != nil {
		for _, n := range path {
			if ls, ok := n.(*ast.LabeledStmt); ok && ls.Label.Name == br.Label.Name {
				if rs, ok := ls.Stmt.(*ast.RangeStmt); ok && isMapType(c.info.TypeOf(rs.X)) {
					return true
				}
				// leaving an inner labelled loop that is inside the map loop is fine;
				// a label outside the outer map loop cannot be found in path
				return false
			}
		}
		return true // label outside the map loop
	}
	for i := len(path) - 1; i >= 0; i-- {
		switch n := path[i].(type) {
		case *ast.ForStmt, *ast.SwitchStmt, *ast.TypeSwitchStmt, *ast.SelectStmt:
			return false
		case *ast.RangeStmt:
			return isMapType(c.info.TypeOf(n.X))
		}
	}
	return true
}

func isIntegerType(t types.Type) bool {
	if t == nil {
		return false
	}
	b, ok := t.Underlying().(*types.Basic)
	return ok && b.Info()&types.IsInteger != 0
}

func (c *mdCtx) exprStmt(s *ast.ExprStmt) {
	call, ok := s.X.(*ast.CallExpr)
	if !ok {
		c.checkExpr(s.X, nil, "expression")
		return
	}
	if id, ok := call.Fun.(*ast.Ident); ok {
		if _, isB := c.info.Uses[id].(*types.Builtin); isB {
			switch id.Name {
			case "delete":
				o := c.baseObj(call.Args[0])
				c.checkExpr(call.Args[1], nil, "delete key")
				if o != nil && c.isOuter(o) {
					// deleting from the map being ranged over is safe only for the current key
					for _, l := range c.loops {
						if lo := c.baseObj(l.X); lo == o && !hasIndex(l.X) {
							if kid, ok := call.Args[1].(*ast.Ident); !ok || !c.keys[c.info.ObjectOf(kid)] {
								c.problem(s.Pos(), "deletes other entries of the map being iterated")
							}
						}
					}
					c.written[o] = "entries deleted (commutative)"
				}
				return
			case "panic":
				// a panic aborts the whole operation; which entry triggers it does not
				// change the (absent) result
				return
			case "copy", "clear", "close", "print", "println":
				c.problem(s.Pos(), "builtin %s inside map iteration", id.Name)
				return
			}
		}
	}
	// sorting a per-iteration value is fine if the argument is loop-local
	if pure, why := c.md.pureCall(c.info, call); !pure {
		local := true
		var touched []string
		check := func(e ast.Expr) {
			if o := c.baseObj(e); o != nil && c.isOuter(o) && c.md.e.pointerLike(c.info.TypeOf(e)) {
				local = false
				touched = append(touched, o.Name())
			}
		}
		if sel, ok := call.Fun.(*ast.SelectorExpr); ok {
			if _, isSel := c.info.Selections[sel]; isSel {
				check(sel.X)
			}
		}
		for _, a := range call.Args {
			check(a)
		}
		if !local {
			c.problemC("effects", s.Pos(), "call %s has side effects on %s (%s): effects happen in iteration order", types.ExprString(call.Fun), strings.Join(touched, ","), why)
			return
		}
	}
	for _, a := range call.Args {
		c.checkExpr(a, nil, "argument")
	}
}

func (c *mdCtx) assign(s *ast.AssignStmt) {
	// x := ... / local = ...
	for i, l := range s.Lhs {
		var rhs ast.Expr
		if len(s.Rhs) == len(s.Lhs) {
			rhs = s.Rhs[i]
		} else if len(s.Rhs) == 1 {
			rhs = s.Rhs[0]
		}
		if id, ok := l.(*ast.Ident); ok && id.Name == "_" {
			c.checkExpr(rhs, nil, "assignment")
			continue
		}
		o := c.baseObj(l)
		if o == nil || !c.isOuter(o) {
			// loop-local target
			if i == 0 || len(s.Rhs) == len(s.Lhs) {
				c.checkLocalRHS(rhs)
			}
			if ix, ok := l.(*ast.IndexExpr); ok {
				c.checkExpr(ix.Index, nil, "index")
			}
			continue
		}
		// outer target
		if hasIndex(l) {
			c.keyedUpdate(l, rhs, s.Pos())
			continue
		}
		if _, isSel := l.(*ast.SelectorExpr); isSel {
			c.problemC("last-writer", s.Pos(), "assignment to field %s inside map iteration (last writer wins)", types.ExprString(l))
			continue
		}
		switch s.Tok {
		case token.ADD_ASSIGN, token.SUB_ASSIGN, token.OR_ASSIGN, token.AND_ASSIGN, token.XOR_ASSIGN, token.MUL_ASSIGN:
			if !isIntegerType(c.info.TypeOf(l)) {
				c.problem(s.Pos(), "%s on non-integer %s is not commutative/associative", s.Tok, o.Name())
			}
			c.checkExpr(rhs, nil, "reduction operand")
			c.written[o] = "commutative reduction " + s.Tok.String()
		case token.ASSIGN, token.DEFINE:
			c.plainAssign(s, l, o, rhs)
		default:
			c.problem(s.Pos(), "operator %s on outer variable %s", s.Tok, o.Name())
		}
	}
}

// checkLocalRHS checks the value assigned to a loop-local variable. An append
// to a loop-local slice and similar are fine.
func (c *mdCtx) checkLocalRHS(rhs ast.Expr) {
	c.checkExpr(rhs, nil, "assignment")
}

func (c *mdCtx) plainAssign(s *ast.AssignStmt, l ast.Expr, o types.Object, rhs ast.Expr) {
	// s = append(s, e...)
	if call, ok := rhs.(*ast.CallExpr); ok {
		if id, ok := call.Fun.(*ast.Ident); ok && id.Name == "append" {
			if _, isB := c.info.Uses[id].(*types.Builtin); isB && len(call.Args) >= 1 {
				if c.baseObj(call.Args[0]) == o && !hasIndex(call.Args[0]) {
					for _, a := range call.Args[1:] {
						c.checkExpr(a, nil, "appended element")
					}
					if len(call.Args) == 2 && call.Ellipsis == token.NoPos {
						c.collected[o] = call.Args[1]
					} else if _, ok := c.collected[o]; !ok {
						c.collected[o] = nil
					}
					c.written[o] = "collected then sorted"
					return
				}
			}
		}
	}
	// x = const
	if isConstExpr(c.info, rhs) {
		c.written[o] = "constant flag " + types.ExprString(rhs)
		// all constant assignments to o inside the loop must agree
		val := types.ExprString(rhs)
		ast.Inspect(c.outer.Body, func(n ast.Node) bool {
			if as, ok := n.(*ast.AssignStmt); ok && as != s {
				for i, ll := range as.Lhs {
					if c.baseObj(ll) == o && !hasIndex(ll) && i < len(as.Rhs) {
						if !isConstExpr(c.info, as.Rhs[i]) || types.ExprString(as.Rhs[i]) != val {
							if !c.isMinMaxAssign(as, o) {
								c.problem(as.Pos(), "%s is assigned different values in the loop", o.Name())
							}
						}
					}
				}
			}
			return true
		})
		return
	}
	// min/max assignments are validated by ifStmt; reaching here means a bare assignment
	c.problemC("last-writer", s.Pos(), "assignment %s = %s inside map iteration: the last entry visited wins", o.Name(), types.ExprString(rhs))
}

func (c *mdCtx) isMinMaxAssign(as *ast.AssignStmt, o types.Object) bool {
	path := enclosing(c.outer, as.Pos())
	for i := len(path) - 1; i >= 0; i-- {
		if ifs, ok := path[i].(*ast.IfStmt); ok {
			if _, ok := c.minMax(ifs); ok {
				return true
			}
			return false
		}
	}
	return false
}

// minMax recognises the order-insensitive (filtered) minimum / maximum:
//
//	if G1 && … && [F ||] e < x { x = e; [flag off] }
//
// with any of < > <= >=, pure guards Gi that do not read loop-written
// variables, and an optional "nothing chosen yet" flag F (`first` / `!found`)
// that is switched off either in the same body or unconditionally at the top
// level of an unfiltered loop. It returns the reduction variable.
func (c *mdCtx) minMax(s *ast.IfStmt) (types.Object, bool) {
	if s.Init != nil || s.Else != nil || len(s.Body.List) < 1 || len(s.Body.List) > 2 {
		return nil, false
	}
	as, ok := s.Body.List[0].(*ast.AssignStmt)
	if !ok || as.Tok != token.ASSIGN || len(as.Lhs) != 1 || len(as.Rhs) != 1 {
		return nil, false
	}
	xo := c.baseObj(as.Lhs[0])
	if xo == nil || hasIndex(as.Lhs[0]) {
		return nil, false
	}
	if _, isSel := as.Lhs[0].(*ast.SelectorExpr); isSel {
		return nil, false
	}
	// flatten the conjunction
	var conj []ast.Expr
	var flat func(e ast.Expr)
	flat = func(e ast.Expr) {
		if p, ok := e.(*ast.ParenExpr); ok {
			flat(p.X)
			return
		}
		if be, ok := e.(*ast.BinaryExpr); ok && be.Op == token.LAND {
			flat(be.X)
			flat(be.Y)
			return
		}
		conj = append(conj, e)
	}
	flat(s.Cond)
	e := types.ExprString(as.Rhs[0])
	x := types.ExprString(as.Lhs[0])
	isCmp := func(ex ast.Expr) bool {
		be, ok := ex.(*ast.BinaryExpr)
		if !ok {
			return false
		}
		switch be.Op {
		case token.LSS, token.GTR, token.LEQ, token.GEQ:
		default:
			return false
		}
		l, r := types.ExprString(be.X), types.ExprString(be.Y)
		return (l == e && r == x) || (l == x && r == e)
	}
	var flag types.Object
	flagOnWhen := true // value of the flag variable meaning "nothing chosen yet"
	nCmp := 0
	var guards []ast.Expr
	for _, cj := range conj {
		if isCmp(cj) {
			nCmp++
			continue
		}
		if p, ok := cj.(*ast.ParenExpr); ok {
			cj = p.X
		}
		if be, ok := cj.(*ast.BinaryExpr); ok && be.Op == token.LOR && isCmp(be.Y) {
			f := be.X
			on := true
			if u, ok := f.(*ast.UnaryExpr); ok && u.Op == token.NOT {
				f = u.X
				on = false
			}
			if id, ok := f.(*ast.Ident); ok && flag == nil {
				flag = c.info.ObjectOf(id)
				flagOnWhen = on
				nCmp++
				continue
			}
			return nil, false
		}
		guards = append(guards, cj)
	}
	if nCmp != 1 {
		return nil, false
	}
	offVal := "false"
	if !flagOnWhen {
		offVal = "true"
	}
	isFlagOff := func(st ast.Stmt) bool {
		a2, ok := st.(*ast.AssignStmt)
		if !ok || len(a2.Lhs) != 1 || len(a2.Rhs) != 1 || a2.Tok != token.ASSIGN {
			return false
		}
		id, ok := a2.Lhs[0].(*ast.Ident)
		if !ok || c.info.ObjectOf(id) != flag {
			return false
		}
		rid, ok := a2.Rhs[0].(*ast.Ident)
		return ok && rid.Name == offVal
	}
	if len(s.Body.List) == 2 {
		if flag == nil || !isFlagOff(s.Body.List[1]) {
			return nil, false
		}
	} else if flag != nil {
		// the flag must be switched off unconditionally at the top level of the
		// loop body, and the minimum must be unfiltered
		if len(guards) > 0 {
			return nil, false
		}
		reset := false
		for _, st := range c.loops[len(c.loops)-1].Body.List {
			if isFlagOff(st) {
				reset = true
			}
		}
		if !reset {
			return nil, false
		}
	}
	// the flag may not be used anywhere else in the loop
	if flag != nil {
		uses := 0
		ast.Inspect(c.outer.Body, func(n ast.Node) bool {
			if id, ok := n.(*ast.Ident); ok && c.info.ObjectOf(id) == flag {
				uses++
			}
			return true
		})
		want := 2
		if uses != want {
			// several min/max reductions may share one flag (low/high): allow one use per reduction plus one reset
			if uses < 2 {
				return nil, false
			}
		}
	}
	allow := map[types.Object]bool{xo: true}
	if flag != nil {
		allow[flag] = true
	}
	n := len(c.problems)
	c.checkExpr(as.Rhs[0], allow, "min/max operand")
	for _, g := range guards {
		c.checkExpr(g, nil, "min/max guard")
	}
	if len(c.problems) > n {
		return nil, false
	}
	if flag != nil && c.isOuter(flag) {
		c.written[flag] = "min/max 'nothing chosen yet' flag"
	}
	return xo, true
}

func (c *mdCtx) ifStmt(s *ast.IfStmt) {
	if xo, ok := c.minMax(s); ok {
		if c.isOuter(xo) {
			c.written[xo] = "min/max reduction"
		}
		return
	}
	c.stmt(s.Init)
	// comma-ok lookups in the init are expressions too (handled by assign)
	c.checkExpr(s.Cond, nil, "condition")
	c.stmts(s.Body.List)
	switch e := s.Else.(type) {
	case *ast.BlockStmt:
		c.stmts(e.List)
	case *ast.IfStmt:
		c.ifStmt(e)
	}
}

// keyedUpdate handles x[i]... = v, x[i]++, x[i] op= v for outer x.
func (c *mdCtx) keyedUpdate(lhs ast.Expr, rhs ast.Expr, pos token.Pos) {
	base, idx := indexChain(lhs)
	o := c.baseObj(base)
	for _, ix := range idx {
		c.checkExpr(ix, nil, "index")
	}
	// x[k] = append(x[k], e): per-cell collection in iteration order
	if call, ok := rhs.(*ast.CallExpr); ok && c.keyedColl != nil {
		if id, ok := call.Fun.(*ast.Ident); ok && id.Name == "append" && len(call.Args) >= 2 {
			if _, isB := c.info.Uses[id].(*types.Builtin); isB && types.ExprString(call.Args[0]) == types.ExprString(lhs) {
				for _, a := range call.Args[1:] {
					c.checkExpr(a, nil, "appended element")
				}
				c.keyedColl[o] = true
				c.written[o] = "per-cell collection (every consumer checked)"
				return
			}
		}
	}
	allow := map[types.Object]bool{}
	if rhs != nil {
		c.checkExpr(rhs, allow, "stored value")
	}
	switch {
	case c.injectiveInKeys(idx):
		c.written[o] = "keyed store (index injective in the map key)"
	case rhs != nil && isConstExpr(c.info, rhs):
		// idempotent: every store into x in this loop must store the same constant
		val := types.ExprString(rhs)
		same := true
		ast.Inspect(c.outer.Body, func(n ast.Node) bool {
			if as, ok := n.(*ast.AssignStmt); ok {
				for i, ll := range as.Lhs {
					if b, ix := indexChain(ll); len(ix) > 0 && c.baseObj(b) == o && i < len(as.Rhs) {
						if !isConstExpr(c.info, as.Rhs[i]) || types.ExprString(as.Rhs[i]) != val {
							same = false
						}
					}
				}
			}
			return true
		})
		if same {
			c.written[o] = "idempotent store of constant " + val
		} else {
			c.problemC("keyed-store", pos, "stores different values into %s at an index that is not injective in the map key", o.Name())
		}
	default:
		c.problemC("keyed-store", pos, "store into %s at an index that is not provably distinct for distinct map entries (last writer wins)", types.ExprString(lhs))
	}
}

// taintedContainer checks every use, after the collecting loop, of a container
// whose cells were filled in map iteration order: each cell may only be
// measured, sorted with a total comparator, or iterated by an
// order-insensitive loop.
func (md *mapdet) taintedContainer(lc *mdCtx, obj types.Object, after token.Pos) {
	info, body := lc.info, lc.body
	var stack []ast.Node
	type use struct {
		id   *ast.Ident
		path []ast.Node
	}
	var uses []use
	ast.Inspect(body, func(n ast.Node) bool {
		if n == nil {
			stack = stack[:len(stack)-1]
			return true
		}
		stack = append(stack, n)
		if id, ok := n.(*ast.Ident); ok && id.Pos() >= after && info.Uses[id] == obj {
			uses = append(uses, use{id, append([]ast.Node{}, stack...)})
		}
		return true
	})
	for _, u := range uses {
		p := u.path
		parent := p[len(p)-2]
		if call, ok := parent.(*ast.CallExpr); ok {
			if id, ok := call.Fun.(*ast.Ident); ok && (id.Name == "len" || id.Name == "cap") {
				continue
			}
		}
		ix, ok := parent.(*ast.IndexExpr)
		if !ok || ix.X != ast.Expr(u.id) {
			if rs, ok := parent.(*ast.RangeStmt); ok && rs.X == ast.Expr(u.id) && isMapType(info.TypeOf(rs.X)) {
				continue // a map range of its own, analysed as a separate site
			}
			lc.problemC("unsorted", u.id.Pos(), "container %s, whose cells were filled in map iteration order, is used as a whole", obj.Name())
			continue
		}
		if len(p) < 3 {
			continue
		}
		gp := p[len(p)-3]
		if call, ok := gp.(*ast.CallExpr); ok {
			if id, ok := call.Fun.(*ast.Ident); ok && (id.Name == "len" || id.Name == "cap") {
				continue
			}
		}
		if rs, ok := gp.(*ast.RangeStmt); ok && rs.X == ast.Expr(ix) {
			c := &mdCtx{fn: lc.fn, info: info, body: body, outer: rs, keys: map[types.Object]bool{}, vals: map[types.Object]bool{},
				loopVars: map[types.Object]bool{}, written: map[types.Object]string{}, collected: map[types.Object]ast.Expr{}, keyedColl: map[types.Object]bool{}, md: md}
			c.loops = append(c.loops, rs)
			if id, ok := rs.Value.(*ast.Ident); ok && id.Name != "_" {
				if o := info.ObjectOf(id); o != nil {
					c.keys[o] = true
					c.loopVars[o] = true
				}
			}
			c.collectWrites(rs.Body)
			c.stmts(rs.Body.List)
			objs := make([]types.Object, 0, len(c.collected))
			for o := range c.collected {
				objs = append(objs, o)
			}
			sort.Slice(objs, func(i, j int) bool { return objs[i].Pos() < objs[j].Pos() })
			for _, o := range objs {
				ok, h := md.sortedBeforeUse(lc.fn, info, body, o, rs.End(), c, false, c.collected[o])
				if !ok {
					cls := "unsorted"
					if strings.HasPrefix(h, "is sorted with a comparator") {
						cls = "comparator"
					}
					c.problemC(cls, rs.Pos(), "slice %s is filled in the (map-order) cell order and %s", o.Name(), h)
				}
			}
			for i, pr := range c.problems {
				lc.problemC(c.classes[i], rs.Pos(), "consumer of %s[…]: %s", obj.Name(), pr)
			}
			continue
		}
		lc.problemC("unsorted", u.id.Pos(), "cell of %s (filled in map iteration order) is used at %s other than by len or an order-insensitive loop", obj.Name(), md.w.Pos(u.id.Pos()))
	}
}

// ---------------------------------------------------------------------------
// collect-then-sort

// sortedBeforeUse checks that every use of obj after pos is preceded by a
// sort with a comparator that is a total order on the collected elements (or
// is itself order-insensitive).
func (md *mapdet) sortedBeforeUse(fn *ssa.Function, info *types.Info, body *ast.BlockStmt, obj types.Object, after token.Pos, lc *mdCtx, elemIsKey bool, elem ast.Expr) (bool, string) {
	type use struct {
		id   *ast.Ident
		path []ast.Node
	}
	var uses []use
	var stack []ast.Node
	ast.Inspect(body, func(n ast.Node) bool {
		if n == nil {
			stack = stack[:len(stack)-1]
			return true
		}
		stack = append(stack, n)
		if id, ok := n.(*ast.Ident); ok && id.Pos() >= after && info.Uses[id] == obj {
			uses = append(uses, use{id, append([]ast.Node{}, stack...)})
		}
		return true
	})
	sort.Slice(uses, func(i, j int) bool { return uses[i].id.Pos() < uses[j].id.Pos() })
	for _, u := range uses {
		p := u.path
		parent := p[len(p)-2]
		// len(s), cap(s)
		if call, ok := parent.(*ast.CallExpr); ok {
			if id, ok := call.Fun.(*ast.Ident); ok && (id.Name == "len" || id.Name == "cap") {
				continue
			}
			// a sorting call with s (or a conversion / reslice of s) as first argument
			if sc, how, ok := md.sortCall(info, p, u.id); ok {
				if !unconditionalAfter(body, after, sc.Pos()) {
					return false, "is sorted at " + md.w.Pos(sc.Pos()) + " only conditionally (the sort is nested in a branch or loop that does not enclose the collecting loop)"
				}
				if tot, why := md.totalOrder(info, sc, obj, lc, elemIsKey, elem); tot {
					return true, "sorted before use (" + how + ", " + why + ")"
				} else {
					return false, "is sorted with a comparator that may not be a total order: " + why
				}
			}
		}
		if _, how, ok := md.sortCall(info, p, u.id); ok {
			sc, _, _ := md.sortCall(info, p, u.id)
			if !unconditionalAfter(body, after, sc.Pos()) {
				return false, "is sorted at " + md.w.Pos(sc.Pos()) + " only conditionally (the sort is nested in a branch or loop that does not enclose the collecting loop)"
			}
			if tot, why := md.totalOrder(info, sc, obj, lc, elemIsKey, elem); tot {
				return true, "sorted before use (" + how + ", " + why + ")"
			} else {
				return false, "is sorted with a comparator that may not be a total order: " + why
			}
		}
		// further collection: s = append(s, ...)
		if call, ok := parent.(*ast.CallExpr); ok {
			if id, ok := call.Fun.(*ast.Ident); ok && id.Name == "append" && len(call.Args) > 0 && call.Args[0] == ast.Expr(u.id) {
				continue
			}
		}
		if as, ok := parent.(*ast.AssignStmt); ok {
			isLHS := false
			for _, l := range as.Lhs {
				if l == ast.Expr(u.id) {
					isLHS = true
				}
			}
			if isLHS {
				continue
			}
			// res := s (a second name for the same slice): sorting res sorts
			// s; accepted when s itself is not touched any more afterwards
			if len(as.Lhs) == 1 && len(as.Rhs) == 1 && as.Rhs[0] == ast.Expr(u.id) {
				if lid, ok := as.Lhs[0].(*ast.Ident); ok {
					if ao := info.ObjectOf(lid); ao != nil && ao != obj && u.id == uses[len(uses)-1].id {
						return md.sortedBeforeUse(fn, info, body, ao, as.End(), lc, elemIsKey, elem)
					}
				}
			}
		}
		// range over the slice with an order-insensitive body
		if rs, ok := parent.(*ast.RangeStmt); ok && rs.X == ast.Expr(u.id) {
			c := &mdCtx{fn: fn, info: info, body: body, outer: rs, keys: map[types.Object]bool{}, vals: map[types.Object]bool{},
				loopVars: map[types.Object]bool{}, written: map[types.Object]string{}, collected: map[types.Object]ast.Expr{}, keyedColl: map[types.Object]bool{}, md: md}
			// the slice elements play the role of the map keys (distinct iff the slice has no duplicates: it was collected from distinct map entries)
			c.loops = append(c.loops, rs)
			if id, ok := rs.Value.(*ast.Ident); ok && id.Name != "_" {
				if o := info.ObjectOf(id); o != nil {
					c.keys[o] = true
				}
			}
			c.collectWrites(rs.Body)
			c.stmts(rs.Body.List)
			if len(c.problems) == 0 && len(c.collected) == 0 {
				continue
			}
			return false, "is then iterated at " + md.w.Pos(rs.Pos()) + " by a loop whose effect depends on the order"
		}
		return false, "is used at " + md.w.Pos(u.id.Pos()) + " before being sorted"
	}
	return true, "never used in an order-sensitive way after the loop"
}

// unconditionalAfter reports whether every branching or looping construct that
// encloses the position target also encloses the position source (source-1 is
// inside the collecting statement), i.e. control cannot pass from the source to
// later code without executing target's statement.
func unconditionalAfter(body *ast.BlockStmt, source, target token.Pos) bool {
	src := enclosing(body, source-1)
	inSrc := map[ast.Node]bool{}
	for _, n := range src {
		inSrc[n] = true
	}
	for _, n := range enclosing(body, target) {
		switch n.(type) {
		case *ast.IfStmt, *ast.ForStmt, *ast.RangeStmt, *ast.SwitchStmt, *ast.TypeSwitchStmt, *ast.SelectStmt, *ast.CaseClause, *ast.FuncLit:
			if !inSrc[n] {
				return false
			}
		}
	}
	return true
}

// sortCall recognises sort.Slice(s,…), sort.SliceStable, sort.Sort(T(s)),
// sort.Ints/Strings, slices.Sort(s), slices.SortFunc(s,…) where the identifier
// id is (the base of) the first argument. It returns the call.
func (md *mapdet) sortCall(info *types.Info, path []ast.Node, id *ast.Ident) (*ast.CallExpr, string, bool) {
	for i := len(path) - 2; i >= 0 && i >= len(path)-5; i-- {
		call, ok := path[i].(*ast.CallExpr)
		if !ok {
			continue
		}
		callee := typeutil.Callee(info, call)
		if callee == nil || callee.Pkg() == nil || len(call.Args) == 0 {
			continue
		}
		full := callee.Pkg().Path() + "." + callee.Name()
		switch full {
		case "sort.Slice", "sort.SliceStable", "sort.Sort", "sort.Stable", "sort.Ints", "sort.Strings",
			"slices.Sort", "slices.SortFunc", "slices.SortStableFunc",
			"golang.org/x/exp/slices.Sort", "golang.org/x/exp/slices.SortFunc":
			// id must be within the first argument, not inside a comparator closure
			if call.Args[0].Pos() <= id.Pos() && id.Pos() < call.Args[0].End() {
				return call, full, true
			}
		}
	}
	return nil, "", false
}

// totalOrder decides whether the comparator of a sort call distinguishes any
// two distinct collected elements.
func (md *mapdet) totalOrder(info *types.Info, call *ast.CallExpr, obj types.Object, lc *mdCtx, elemIsKey bool, elem ast.Expr) (bool, string) {
	callee := typeutil.Callee(info, call)
	full := callee.Pkg().Path() + "." + callee.Name()
	switch full {
	case "sort.Ints", "sort.Strings", "slices.Sort", "golang.org/x/exp/slices.Sort":
		if elemIsKey || md.elemCarriesWholeKey(lc, elem) {
			return true, "natural order on distinct map keys"
		}
		return md.scalarElem(info, obj), "natural order on scalar elements"
	case "sort.Sort", "sort.Stable":
		return false, "sort.Sort with a user-defined Less (needs review)" + md.lessMethodText(info, call)
	}
	if len(call.Args) < 2 {
		return false, "no comparator"
	}
	fl, ok := call.Args[1].(*ast.FuncLit)
	if !ok {
		return false, "comparator is not a function literal"
	}
	tot, why := md.totalOrder1(info, call, obj, lc, elemIsKey, elem, fl, full)
	if !tot {
		why += comparatorText(fl, obj.Name())
	}
	return tot, why
}

// comparatorText renders what a comparator compares, with the sorted slice
// written S and the parameters p0, p1: a reviewed entry that accepts a
// comparator as total is bound to this text (side condition
// "detail-contains:"), so that a different comparator is a new obligation.
func comparatorText(fl *ast.FuncLit, slice string) string {
	var names []string
	for _, f := range fl.Type.Params.List {
		for _, n := range f.Names {
			names = append(names, n.Name)
		}
	}
	var parts []string
	for _, st := range fl.Body.List {
		switch x := st.(type) {
		case *ast.ReturnStmt:
			for _, e := range x.Results {
				parts = append(parts, "return "+types.ExprString(e))
			}
		case *ast.AssignStmt:
			var l, r []string
			for _, e := range x.Lhs {
				l = append(l, types.ExprString(e))
			}
			for _, e := range x.Rhs {
				r = append(r, types.ExprString(e))
			}
			parts = append(parts, strings.Join(l, ",")+x.Tok.String()+strings.Join(r, ","))
		case *ast.IfStmt:
			parts = append(parts, "if "+types.ExprString(x.Cond)+" {…}")
		default:
			parts = append(parts, "…")
		}
	}
	text := strings.Join(parts, "; ")
	ren := func(t, from, to string) string {
		if from == "" || from == "_" {
			return t
		}
		return regexp.MustCompile(`\b`+regexp.QuoteMeta(from)+`\b`).ReplaceAllString(t, to)
	}
	text = ren(text, slice, "S")
	for i, n := range names {
		text = ren(text, n, fmt.Sprintf("p%d", i))
	}
	return " [comparator: " + text + "]"
}

// lessMethodText: the same for sort.Sort(x): the body of x's Less method.
func (md *mapdet) lessMethodText(info *types.Info, call *ast.CallExpr) string {
	if len(call.Args) != 1 {
		return ""
	}
	tv, ok := info.Types[call.Args[0]]
	if !ok {
		return ""
	}
	named, ok := tv.Type.(*types.Named)
	if !ok {
		if pt, ok2 := tv.Type.(*types.Pointer); ok2 {
			named, ok = pt.Elem().(*types.Named)
		}
		if !ok {
			return ""
		}
	}
	for i := 0; i < named.NumMethods(); i++ {
		m := named.Method(i)
		if m.Name() != "Less" {
			continue
		}
		for _, pkg := range md.w.All {
			if pkg.Types != m.Pkg() {
				continue
			}
			for _, f := range pkg.Syntax {
				for _, d := range f.Decls {
					fd, ok := d.(*ast.FuncDecl)
					if !ok || fd.Name.Pos() != m.Pos() || fd.Body == nil {
						continue
					}
					recv := ""
					if fd.Recv != nil && len(fd.Recv.List) > 0 && len(fd.Recv.List[0].Names) > 0 {
						recv = fd.Recv.List[0].Names[0].Name
					}
					return comparatorText(&ast.FuncLit{Type: fd.Type, Body: fd.Body}, recv)
				}
			}
		}
	}
	return ""
}

func (md *mapdet) totalOrder1(info *types.Info, call *ast.CallExpr, obj types.Object, lc *mdCtx, elemIsKey bool, elem ast.Expr, fl *ast.FuncLit, full string) (bool, string) {
	// collect what the comparator compares: whole elements or fields of elements
	whole := false
	fields := map[string]bool{}
	usesOther := false
	var params []types.Object
	for _, f := range fl.Type.Params.List {
		for _, n := range f.Names {
			params = append(params, info.ObjectOf(n))
		}
	}
	isParam := func(e ast.Expr) bool {
		if id, ok := e.(*ast.Ident); ok {
			for _, p := range params {
				if info.ObjectOf(id) == p {
					return true
				}
			}
		}
		return false
	}
	// element expression: s[i] (sort.Slice) or a, b (SortFunc)
	isElem := func(e ast.Expr) bool {
		switch x := e.(type) {
		case *ast.IndexExpr:
			if id, ok := x.X.(*ast.Ident); ok && info.ObjectOf(id) == obj && isParam(x.Index) {
				return true
			}
		case *ast.Ident:
			return strings.HasSuffix(full, "SortFunc") && isParam(x)
		}
		return false
	}
	// local aliases: keyI := keys[i]
	alias := map[types.Object]bool{}
	ast.Inspect(fl.Body, func(n ast.Node) bool {
		if as, ok := n.(*ast.AssignStmt); ok && as.Tok == token.DEFINE && len(as.Lhs) == len(as.Rhs) {
			for i, l := range as.Lhs {
				if id, ok := l.(*ast.Ident); ok && isElem(as.Rhs[i]) {
					alias[info.ObjectOf(id)] = true
				}
			}
		}
		return true
	})
	isElemOrAlias := func(e ast.Expr) bool {
		if isElem(e) {
			return true
		}
		if id, ok := e.(*ast.Ident); ok && alias[info.ObjectOf(id)] {
			return true
		}
		return false
	}
	ast.Inspect(fl.Body, func(n ast.Node) bool {
		be, ok := n.(*ast.BinaryExpr)
		if !ok {
			return true
		}
		switch be.Op {
		case token.LSS, token.GTR, token.LEQ, token.GEQ, token.NEQ, token.EQL:
		default:
			return true
		}
		for _, side := range []ast.Expr{be.X, be.Y} {
			switch x := side.(type) {
			case *ast.SelectorExpr:
				if isElemOrAlias(x.X) {
					// a field orders the elements only through an order comparison; the equality
					// test of `if a.f != b.f { return a.f < b.f }` alone decides nothing
					if be.Op != token.NEQ && be.Op != token.EQL {
						fields[x.Sel.Name] = true
					}
				} else {
					usesOther = true
				}
			default:
				if isElemOrAlias(side) {
					if be.Op == token.LSS || be.Op == token.GTR {
						whole = true
					}
				} else {
					usesOther = true
				}
			}
		}
		return true
	})
	_ = usesOther
	if whole {
		if elemIsKey || md.elemCarriesWholeKey(lc, elem) {
			return true, "comparator orders whole elements, which are distinct map keys"
		}
		if md.scalarElem(info, obj) {
			return true, "comparator orders whole scalar elements (equal elements are indistinguishable)"
		}
	}
	// elements are the (struct) map keys themselves: every field must be compared
	if elemIsKey || md.elemCarriesWholeKey(lc, elem) {
		if sl, ok := obj.Type().Underlying().(*types.Slice); ok {
			if st, ok := sl.Elem().Underlying().(*types.Struct); ok && st.NumFields() > 0 {
				var missing []string
				for i := 0; i < st.NumFields(); i++ {
					if !fields[st.Field(i).Name()] {
						missing = append(missing, st.Field(i).Name())
					}
				}
				if len(missing) == 0 {
					return true, "comparator compares every field of the struct-valued map keys"
				}
				return false, "elements are map keys but the comparator ignores their fields " + strings.Join(missing, ",")
			}
		}
	}
	// fields that must be compared: those that carry loop variables in the appended literal
	need, ok2 := md.keyFields(lc, elem)
	if !ok2 {
		return false, "cannot determine which fields of the collected elements carry the map key"
	}
	var missing []string
	for _, f := range need {
		if !fields[f] {
			missing = append(missing, f)
		}
	}
	if len(missing) > 0 {
		return false, "fields carrying the iteration variables are not compared: " + strings.Join(missing, ",")
	}
	return true, "comparator compares every field that carries an iteration variable: " + strings.Join(need, ",")
}

func (md *mapdet) scalarElem(info *types.Info, obj types.Object) bool {
	if s, ok := obj.Type().Underlying().(*types.Slice); ok {
		if b, ok := s.Elem().Underlying().(*types.Basic); ok {
			return b.Info()&(types.IsInteger|types.IsString) != 0
		}
	}
	return false
}

// elemCarriesWholeKey: the appended element is the map key itself.
func (md *mapdet) elemCarriesWholeKey(lc *mdCtx, elem ast.Expr) bool {
	if lc == nil || elem == nil {
		return false
	}
	if id, ok := elem.(*ast.Ident); ok {
		return lc.keys[lc.info.ObjectOf(id)]
	}
	return false
}

// keyFields returns the names of the fields (promoted fields expanded) of the
// appended composite literal whose value is an iteration variable.
func (md *mapdet) keyFields(lc *mdCtx, elem ast.Expr) ([]string, bool) {
	if lc == nil || elem == nil {
		return nil, false
	}
	info := lc.info
	// resolve `rec` to its defining composite literal inside the loop
	resolve := func(e ast.Expr) *ast.CompositeLit {
		for {
			switch x := e.(type) {
			case *ast.UnaryExpr:
				if x.Op == token.AND {
					e = x.X
					continue
				}
				return nil
			case *ast.CompositeLit:
				return x
			case *ast.Ident:
				o := info.ObjectOf(x)
				var def ast.Expr
				ast.Inspect(lc.outer.Body, func(n ast.Node) bool {
					if as, ok := n.(*ast.AssignStmt); ok && as.Tok == token.DEFINE {
						for i, l := range as.Lhs {
							if id, ok := l.(*ast.Ident); ok && info.ObjectOf(id) == o && i < len(as.Rhs) {
								def = as.Rhs[i]
							}
						}
					}
					return true
				})
				if def == nil {
					return nil
				}
				e = def
			default:
				return nil
			}
		}
	}
	cl := resolve(elem)
	if cl == nil {
		return nil, false
	}
	var need []string
	for _, el := range cl.Elts {
		kv, ok := el.(*ast.KeyValueExpr)
		if !ok {
			return nil, false
		}
		fname := kv.Key.(*ast.Ident).Name
		carries := false
		ast.Inspect(kv.Value, func(n ast.Node) bool {
			if id, ok := n.(*ast.Ident); ok {
				if o := info.ObjectOf(id); o != nil && lc.loopVars[o] && !lc.vals[o] {
					carries = true
				}
			}
			return true
		})
		if !carries {
			continue
		}
		// a struct-valued field (e.g. embedded Key) contributes all its fields
		ft := info.TypeOf(kv.Value)
		if st, ok := ft.Underlying().(*types.Struct); ok {
			for i := 0; i < st.NumFields(); i++ {
				need = append(need, st.Field(i).Name())
			}
		} else {
			need = append(need, fname)
		}
	}
	sort.Strings(need)
	if len(need) == 0 {
		return nil, false
	}
	return need, true
}

// literalDuplicateValues evaluates a package-level map literal and returns
// the values that occur under more than one key.
func literalDuplicateValues(w *World, pkgRel, name string) (map[string][]string, int, error) {
	path := modPath
	if pkgRel != "" {
		path += "/" + pkgRel
	}
	p := w.All[path]
	if p == nil {
		return nil, 0, fmt.Errorf("package %s not loaded", path)
	}
	var lit *ast.CompositeLit
	for _, f := range p.Syntax {
		for _, d := range f.Decls {
			gd, ok := d.(*ast.GenDecl)
			if !ok || gd.Tok != token.VAR {
				continue
			}
			for _, sp := range gd.Specs {
				vs := sp.(*ast.ValueSpec)
				for i, n := range vs.Names {
					if n.Name == name && i < len(vs.Values) {
						lit, _ = vs.Values[i].(*ast.CompositeLit)
					}
				}
			}
		}
	}
	if lit == nil {
		return nil, 0, fmt.Errorf("%s.%s is not a composite literal", pkgRel, name)
	}
	byVal := map[string][]string{}
	for _, el := range lit.Elts {
		kv, ok := el.(*ast.KeyValueExpr)
		if !ok {
			return nil, 0, fmt.Errorf("unexpected element in %s", name)
		}
		k := constString(p.TypesInfo, kv.Key)
		v := constString(p.TypesInfo, kv.Value)
		byVal[v] = append(byVal[v], k)
	}
	dups := map[string][]string{}
	for v, ks := range byVal {
		if len(ks) > 1 {
			sort.Strings(ks)
			dups[v] = ks
		}
	}
	return dups, len(lit.Elts), nil
}

func constString(info *types.Info, e ast.Expr) string {
	if tv, ok := info.Types[e]; ok && tv.Value != nil {
		if tv.Value.Kind() == constant.String {
			return constant.StringVal(tv.Value)
		}
		return tv.Value.ExactString()
	}
	return types.ExprString(e)
}
