package main

import (
	"go/types"

	"golang.org/x/tools/go/ssa"
)

// RunNonNilTable: header.Write leaves out a table whose data is nil ("use a
// zero-length slice to write an empty table"). The glyf data of a TrueType
// font is empty when every glyph is blank, but the table is required: the
// value (Glyphs).Encode stores in Encoded.GlyfData has to be non-nil for every
// input, i.e. come from make, a slice literal, or append to such a value —
// not from a nil slice that is only appended to (nothing is appended for
// blank glyphs).
func RunNonNilTable(w *World, r *Report) {
	r.Rule("nonniltable: the value (glyf.Glyphs).Encode stores in the field GlyfData is non-nil on every path (make, a composite literal, or append/re-slicing of such a value; a phi of such values): header.Write omits tables whose data is nil, and a font whose glyphs are all blank would be written without the required glyf table")
	fn := w.Func("(glyf.Glyphs).Encode")
	if fn == nil {
		r.Fatal("(glyf.Glyphs).Encode does not resolve")
		return
	}
	var nonNil func(v ssa.Value, seen map[ssa.Value]bool) bool
	nonNil = func(v ssa.Value, seen map[ssa.Value]bool) bool {
		if seen[v] {
			return true // a cycle adds nothing
		}
		seen[v] = true
		switch x := v.(type) {
		case *ssa.MakeSlice:
			return true
		case *ssa.Slice:
			if _, isAlloc := x.X.(*ssa.Alloc); isAlloc {
				return true // slice of a fresh array: composite literal
			}
			return nonNil(x.X, seen)
		case *ssa.Phi:
			for _, e := range x.Edges {
				if !nonNil(e, seen) {
					return false
				}
			}
			return true
		case *ssa.Call:
			if b, ok := x.Call.Value.(*ssa.Builtin); ok && b.Name() == "append" {
				return nonNil(x.Call.Args[0], seen)
			}
			// a static callee that appends to its first slice parameter and returns it
			if callee := x.Call.StaticCallee(); callee != nil && len(callee.Blocks) > 0 {
				sig := callee.Signature
				if sig.Results().Len() == 1 {
					if _, isSl := sig.Results().At(0).Type().Underlying().(*types.Slice); isSl {
						for i, p := range callee.Params {
							if types.Identical(p.Type(), sig.Results().At(0).Type()) && returnsExtensionOf(callee, p) {
								return nonNil(x.Call.Args[i], seen)
							}
						}
					}
				}
			}
		case *ssa.ChangeType:
			return nonNil(x.X, seen)
		}
		return false
	}
	n := 0
	for _, b := range fn.Blocks {
		for _, in := range b.Instrs {
			st, ok := in.(*ssa.Store)
			if !ok {
				continue
			}
			fa, ok := st.Addr.(*ssa.FieldAddr)
			if !ok || fieldName(fa) != "GlyfData" {
				continue
			}
			n++
			key := r.MkKey("nonniltable", fnName(fn), "store into GlyfData")
			if nonNil(st.Val, map[ssa.Value]bool{}) {
				r.OK("nonniltable", key, w.Pos(st.Pos()), "the data is allocated before anything is appended")
			} else {
				r.Fail("nonniltable", key, w.Pos(st.Pos()), "the glyf data can be a nil slice (nothing is appended for blank glyphs): header.Write leaves a nil table out, and a font whose glyphs are all blank is written without the glyf table the reader requires", nil)
			}
		}
	}
	r.Floor("nonniltable", 1)
	_ = n
}

// returnsExtensionOf: every return of fn yields the parameter p itself, a
// re-slicing of it or the result of appending to it (transitively).
func returnsExtensionOf(fn *ssa.Function, p *ssa.Parameter) bool {
	var ext func(v ssa.Value, seen map[ssa.Value]bool) bool
	ext = func(v ssa.Value, seen map[ssa.Value]bool) bool {
		if v == ssa.Value(p) {
			return true
		}
		if seen[v] {
			return true
		}
		seen[v] = true
		switch x := v.(type) {
		case *ssa.Phi:
			for _, e := range x.Edges {
				if !ext(e, seen) {
					return false
				}
			}
			return true
		case *ssa.Slice:
			return ext(x.X, seen)
		case *ssa.Call:
			if b, ok := x.Call.Value.(*ssa.Builtin); ok && b.Name() == "append" {
				return ext(x.Call.Args[0], seen)
			}
			if callee := x.Call.StaticCallee(); callee != nil && len(callee.Blocks) > 0 && callee != fn {
				for i, q := range callee.Params {
					if types.Identical(q.Type(), x.Type()) && returnsExtensionOf(callee, q) {
						return ext(x.Call.Args[i], seen)
					}
				}
			}
		}
		return false
	}
	found := false
	for _, b := range fn.Blocks {
		for _, in := range b.Instrs {
			if ret, ok := in.(*ssa.Return); ok {
				if len(ret.Results) != 1 || !ext(ret.Results[0], map[ssa.Value]bool{}) {
					return false
				}
				found = true
			}
		}
	}
	return found
}
