package main

// E2 loopterm: every loop of the functions in scope has a recognised
// termination argument; narrow counters cannot wrap past their bound;
// loops that expand data (no input is consumed in the body) have a trip
// count bounded by a constant and, when nested, a cumulative budget.

import (
	"fmt"
	"go/token"
	"go/types"
	"sort"
	"strings"

	"golang.org/x/tools/go/ssa"
)

type natLoop struct {
	head    *ssa.BasicBlock
	latches []*ssa.BasicBlock
	body    map[*ssa.BasicBlock]bool
}

func naturalLoops(fn *ssa.Function) []*natLoop {
	byHead := map[*ssa.BasicBlock]*natLoop{}
	var res []*natLoop
	for _, b := range fn.Blocks {
		for _, s := range b.Succs {
			if s.Dominates(b) {
				l := byHead[s]
				if l == nil {
					l = &natLoop{head: s, body: map[*ssa.BasicBlock]bool{s: true}}
					byHead[s] = l
					res = append(res, l)
				}
				l.latches = append(l.latches, b)
				// body: blocks that reach the latch without passing the head
				stack := []*ssa.BasicBlock{b}
				for len(stack) > 0 {
					x := stack[len(stack)-1]
					stack = stack[:len(stack)-1]
					if l.body[x] {
						continue
					}
					l.body[x] = true
					stack = append(stack, x.Preds...)
				}
			}
		}
	}
	sort.Slice(res, func(i, j int) bool { return res[i].head.Index < res[j].head.Index })
	return res
}

type loopArg struct {
	kind   string // counter, shrink, range
	detail string
	trips  blin // upper bound on the number of iterations (valid at the loop head), when known
	hasT   bool
	ctr    *ssa.Phi // counter kind: the counting phi
	bound  blin     // counter kind: the loop stays while ctr <= bound (up) / ctr >= -bound (down)
	up     bool
}

func loopPos(w *World, l *natLoop) token.Pos {
	for _, in := range l.head.Instrs {
		if _, isPhi := in.(*ssa.Phi); isPhi {
			continue
		}
		if p := in.Pos(); p.IsValid() {
			return p
		}
	}
	for _, lb := range l.latches {
		for _, in := range lb.Instrs {
			if p := in.Pos(); p.IsValid() {
				return p
			}
		}
	}
	return token.NoPos
}

// exitGuards: conditions that hold at the start of every iteration (on the
// way from the head to every latch).
func (p *bprover) stayFacts(l *natLoop) []bfact {
	var res []bfact
	var blocks []*ssa.BasicBlock
	for b := range l.body {
		blocks = append(blocks, b)
	}
	sort.Slice(blocks, func(i, j int) bool {
		if (blocks[i] == l.head) != (blocks[j] == l.head) {
			return blocks[i] == l.head
		}
		return blocks[i].Index < blocks[j].Index
	})
	for _, b := range blocks {
		if len(b.Instrs) == 0 {
			continue
		}
		ifi, ok := b.Instrs[len(b.Instrs)-1].(*ssa.If)
		if !ok {
			continue
		}
		// one successor leaves the loop, the other stays and dominates all latches
		for si, s := range b.Succs {
			o := b.Succs[1-si]
			if l.body[o] || !l.body[s] {
				continue
			}
			all := b == l.head || func() bool {
				for _, lt := range l.latches {
					if !(b == lt || b.Dominates(lt)) {
						return false
					}
				}
				return true
			}()
			if !all {
				continue
			}
			p.condFacts(ifi.Cond, si == 0, &res)
		}
	}
	return res
}

func (p *bprover) findLoopArg(l *natLoop) (loopArg, []string) {
	var notes []string
	h := l.head
	// range over map / string
	for b := range l.body {
		for _, in := range b.Instrs {
			if nx, ok := in.(*ssa.Next); ok && (b == h || true) {
				// the loop exits when Next reports false
				for _, ref := range *nx.Referrers() {
					if ex, ok := ref.(*ssa.Extract); ok && ex.Index == 0 {
						for _, r2 := range *ex.Referrers() {
							if ifi, ok := r2.(*ssa.If); ok && l.body[ifi.Block()] && ifi.Block() == h && !l.body[ifi.Block().Succs[1]] {
								if rg, ok := nx.Iter.(*ssa.Range); ok {
									return loopArg{kind: "range", detail: "range over " + typeKey(rg.X.Type()), trips: p.lenOf(rg.X), hasT: true}, nil
								}
							}
						}
					}
				}
			}
		}
	}
	stay := p.stayFacts(l)
	// counter
	for _, in := range h.Instrs {
		ph, ok := in.(*ssa.Phi)
		if !ok {
			break
		}
		if !isIntType(ph.Type()) {
			continue
		}
		a := atom{aVal, ph}
		// steps on back edges (any integer width: wrap is checked below)
		var minStep, maxStep int64
		okSteps := true
		first := true
		var inits []ssa.Value
		for i, e := range ph.Edges {
			if !h.Dominates(h.Preds[i]) {
				inits = append(inits, e)
				continue
			}
			c, ok := p.stepOf(ph, e, 0)
			if !ok {
				okSteps = false
				break
			}
			if first || c < minStep {
				minStep = c
			}
			if first || c > maxStep {
				maxStep = c
			}
			first = false
		}
		if !okSteps || first {
			continue
		}
		if !(minStep > 0 || maxStep < 0) {
			continue
		}
		for _, f := range stay {
			if f.ne {
				continue
			}
			c, has := f.e.t[a]
			if !has || (c != 1 && c != -1) {
				continue
			}
			rest, ok := f.e.subst(a, blconst(0))
			if !ok || p.mentions(rest, ph) || !p.loopInvariant(l, rest) {
				continue
			}
			if c == -1 && minStep > 0 {
				// stays while ph <= rest, steps up
				// wrap: ph + maxStep must be representable while ph <= rest
				tr := typeRange(ph.Type())
				if !is64(ph.Type()) && tr.hasHi {
					neg, _ := rest.scale(-1)
					if !p.proveAtLoopEntry(l, neg.addc(tr.hi-maxStep)) {
						notes = append(notes, fmt.Sprintf("counter %s of type %s may wrap: its bound is not shown to be at most %d", p.atomStr(a), ph.Type(), tr.hi-maxStep))
						continue
					}
				}
				arg := loopArg{kind: "counter", detail: fmt.Sprintf("%s increases by >= %d while %s >= 0", p.atomStr(a), minStep, p.linStr(f.e)), ctr: ph, bound: rest, up: true}
				if len(inits) == 1 {
					if t, ok := rest.sub(p.linOf(inits[0])); ok {
						arg.trips, arg.hasT = t.addc(1), true
					}
				}
				return arg, nil
			}
			if c == 1 && maxStep < 0 {
				tr := typeRange(ph.Type())
				if !is64(ph.Type()) || isUnsigned(ph.Type()) {
					// stays while ph >= -rest; wrap below the type minimum
					// the loop is left when ph < -rest; the last decrement starts from
					// ph >= -rest, so it stays representable if -rest >= lo + |step|
					if !(tr.hasLo && func() bool {
						n, _ := rest.scale(-1)
						return p.proveAtLoopEntry(l, n.addc(-tr.lo+maxStep))
					}()) {
						notes = append(notes, fmt.Sprintf("counter %s of type %s may wrap below its minimum", p.atomStr(a), ph.Type()))
						continue
					}
				}
				arg := loopArg{kind: "counter", detail: fmt.Sprintf("%s decreases by >= %d while %s >= 0", p.atomStr(a), -maxStep, p.linStr(f.e))}
				if len(inits) == 1 {
					if t, ok := p.linOf(inits[0]).add(rest); ok {
						arg.trips, arg.hasT = t.addc(1), true
					}
				}
				return arg, nil
			}
		}
		// != bound with unit step (for i != n)
	}
	// shrinking slice
	for _, in := range h.Instrs {
		ph, ok := in.(*ssa.Phi)
		if !ok {
			break
		}
		if _, isSl := ph.Type().Underlying().(*types.Slice); !isSl && !bIsString(ph.Type().Underlying()) {
			continue
		}
		a := atom{aLen, ph}
		good := true
		n := 0
		for i, e := range ph.Edges {
			if !h.Dominates(h.Preds[i]) {
				continue
			}
			n++
			if !p.shrinks(ph, e, 0) {
				good = false
				break
			}
		}
		if !good || n == 0 {
			continue
		}
		for _, f := range stay {
			if c, has := f.e.t[a]; has && c >= 1 && !f.ne {
				return loopArg{kind: "shrink", detail: fmt.Sprintf("%s gets shorter on every iteration while %s >= 0", p.atomStr(a), p.linStr(f.e)), trips: blatom(a), hasT: true}, nil
			}
		}
		// without an explicit length guard: still terminates when every iteration indexes/slices it (would panic, which rule bounds excludes) — not accepted
	}
	// growing slice: for len(s) < n { s = append(s, at least one element) }
	for _, in := range h.Instrs {
		ph, ok := in.(*ssa.Phi)
		if !ok {
			break
		}
		if _, isSl := ph.Type().Underlying().(*types.Slice); !isSl {
			continue
		}
		a := atom{aLen, ph}
		good, n := true, 0
		var init ssa.Value
		for i, e := range ph.Edges {
			pr := h.Preds[i]
			if !h.Dominates(pr) {
				init = e
				continue
			}
			n++
			d, ok := p.lenOf(e).sub(blatom(a))
			if !ok || !p.prove(p.edgeFacts(pr, h), d.addc(-1), pr, 2) {
				good = false
				break
			}
		}
		if !good || n == 0 {
			continue
		}
		for _, f := range stay {
			c, has := f.e.t[a]
			if !has || c != -1 || f.ne {
				continue
			}
			rest, ok := f.e.subst(a, blconst(0))
			if !ok || !p.loopInvariant(l, rest) {
				continue
			}
			arg := loopArg{kind: "grow", detail: fmt.Sprintf("%s grows on every iteration while %s >= 0", p.atomStr(a), p.linStr(f.e))}
			if init != nil {
				if t, ok := rest.sub(p.lenOf(init)); ok {
					arg.trips, arg.hasT = t.addc(1), true
				}
			}
			return arg, nil
		}
	}
	// ranking function taken from a stay condition: V >= 0 while the loop
	// runs and V decreases by at least one on every back edge
	for _, f := range stay {
		if f.ne || len(f.e.t) == 0 {
			continue
		}
		V := f.e
		usable := true
		var headAtoms []atom
		for a := range V.t {
			if pb, _, isPhi := phiLike(a.v); isPhi && pb == h {
				headAtoms = append(headAtoms, a)
				continue
			}
			one := blin{t: map[atom]int64{a: 1}}
			if !p.loopInvariant(l, one) {
				usable = false
			}
		}
		if !usable || len(headAtoms) == 0 {
			continue
		}
		decreases := true
		for pi, pr := range h.Preds {
			if !h.Dominates(pr) {
				continue
			}
			V2 := V
			okSub := true
			for _, a := range headAtoms {
				_, edges, _ := phiLike(a.v)
				var by blin
				switch a.k {
				case aLen:
					by = p.lenOf(edges[pi])
				case aVal:
					by = p.linOf(edges[pi])
				default:
					okSub = false
				}
				if !okSub {
					break
				}
				V2, okSub = V2.subst(a, by)
				if !okSub {
					break
				}
			}
			if !okSub {
				decreases = false
				break
			}
			goal, ok := V.sub(V2)
			if !ok || !p.prove(p.edgeFacts(pr, h), goal.addc(-1), pr, 3) {
				decreases = false
				break
			}
		}
		if decreases {
			return loopArg{kind: "variant", detail: fmt.Sprintf("%s is non-negative while the loop runs and decreases on every iteration", p.linStr(V)), trips: V.addc(1), hasT: true}, nil
		}
	}
	return loopArg{}, notes
}

// stepOf: e == ph + c along every path inside the loop (through inner phis).
func (p *bprover) stepOf(ph *ssa.Phi, e ssa.Value, depth int) (int64, bool) {
	if depth > 4 {
		return 0, false
	}
	if e == ssa.Value(ph) {
		return 0, true
	}
	switch x := e.(type) {
	case *ssa.BinOp:
		if x.Op == token.ADD || x.Op == token.SUB {
			if c, ok := bconstInt(x.Y); ok {
				if x.Op == token.SUB {
					c = -c
				}
				b, ok := p.stepOf(ph, x.X, depth+1)
				return b + c, ok
			}
			if c, ok := bconstInt(x.X); ok && x.Op == token.ADD {
				b, ok := p.stepOf(ph, x.Y, depth+1)
				return b + c, ok
			}
		}
	case *ssa.Phi:
		// inner merge: all edges must agree in sign; report the step closest to zero
		var res int64
		first := true
		for _, ie := range x.Edges {
			if ie == ssa.Value(x) {
				continue
			}
			c, ok := p.stepOf(ph, ie, depth+1)
			if !ok {
				return 0, false
			}
			if first {
				res, first = c, false
				continue
			}
			if (c > 0) != (res > 0) || c == 0 || res == 0 {
				return 0, false
			}
			if c > 0 && c < res || c < 0 && c > res {
				res = c
			}
		}
		return res, !first
	case *ssa.Convert, *ssa.ChangeType:
	}
	return 0, false
}

// shrinks: e is a proper suffix/prefix of ph (shorter by at least one).
func (p *bprover) shrinks(ph *ssa.Phi, e ssa.Value, depth int) bool {
	if depth > 4 {
		return false
	}
	switch x := e.(type) {
	case *ssa.Slice:
		l := p.lenOf(x)
		d, ok := blatom(atom{aLen, ph}).sub(l)
		if ok && x.Block() != nil && p.proveAt(x.Block(), d.addc(-1)) {
			return true
		}
		// a slice of something that already shrank
		if inner, ok := x.X.(*ssa.Slice); ok {
			return p.shrinks(ph, inner, depth+1)
		}
	case *ssa.Phi:
		if x == ph {
			return false
		}
		n := 0
		for _, ie := range x.Edges {
			if !p.shrinks(ph, ie, depth+1) {
				return false
			}
			n++
		}
		return n > 0
	}
	return false
}

func (p *bprover) loopInvariant(l *natLoop, e blin) bool {
	for a := range e.t {
		switch v := a.v.(type) {
		case ssa.Instruction:
			if v.Block() != nil && l.body[v.Block()] {
				return false
			}
		case *memVal:
			// contents since a write inside the loop change from iteration to
			// iteration, and so does a location whose address is computed in the loop
			if memValVaries(v, l.body) {
				return false
			}
		}
	}
	return true
}

func (p *bprover) writtenInLoop(l *natLoop, v *memVal) bool {
	e := memEntry{cat: v.cat}
	for b := range l.body {
		for _, in := range b.Instrs {
			switch x := in.(type) {
			case *ssa.Store:
				for _, c := range storeCats(x.Addr, x.Val.Type()) {
					if killMatches(e, c, false) {
						return true
					}
				}
			case ssa.CallInstruction:
				if _, isB := x.Common().Value.(*ssa.Builtin); isB {
					continue
				}
				cs := p.w.Callees(x)
				if len(cs) == 0 {
					return true
				}
				for _, c := range cs {
					for _, cat := range p.mem.writeCats(c) {
						if killMatches(e, cat, false) {
							return true
						}
					}
				}
			}
		}
	}
	return false
}

// proveAtLoopEntry proves goal on every edge entering the loop.
func (p *bprover) proveAtLoopEntry(l *natLoop, goal blin) bool {
	n := 0
	for _, pr := range l.head.Preds {
		if l.head.Dominates(pr) {
			continue
		}
		n++
		if !p.prove(p.edgeFacts(pr, l.head), goal, pr, 2) {
			return false
		}
	}
	return n > 0
}

// consumesInput: the body calls a parser read (or any function that does),
// or shortens a byte slice it iterates over.
func (p *bprover) consumesInput(l *natLoop, arg loopArg) bool {
	if arg.kind == "shrink" || arg.kind == "range" {
		return true
	}
	for b := range l.body {
		for _, in := range b.Instrs {
			c, ok := in.(ssa.CallInstruction)
			if !ok {
				continue
			}
			for _, cal := range p.w.Callees(c) {
				if p.br != nil && p.br.readsInput(cal, 0) {
					return true
				}
			}
		}
	}
	return false
}

func (br *boundsRun) readsInput(fn *ssa.Function, depth int) bool {
	if br.riMemo == nil {
		br.riMemo = map[*ssa.Function]bool{}
	}
	if v, ok := br.riMemo[fn]; ok {
		return v
	}
	br.riMemo[fn] = false
	res := false
	if strings.HasPrefix(fnName(fn), "(*parser.Parser).Read") || fnName(fn) == "io.ReadFull" {
		res = true
	} else if depth < 6 {
		if n := br.w.CG.Nodes[fn]; n != nil && isLibPkg(fnPkgPath(fn)) {
			for _, e := range n.Out {
				if br.readsInput(e.Callee.Func, depth+1) {
					res = true
					break
				}
			}
		}
	}
	br.riMemo[fn] = res
	return res
}

const expansionCap = int64(1) << 20

// RunLoopTerm reports one obligation per loop (loopterm) and one per
// expansion loop (loopwork).
func RunLoopTerm(w *World, r *Report, br *boundsRun, fns []*ssa.Function) {
	runLoopTerm(w, r, br, fns, true)
	r.Floor("loopterm", 150)
}

// runLoopTerm: withWork adds the expansion-loop rule (decoders).
func runLoopTerm(w *World, r *Report, br *boundsRun, fns []*ssa.Function, withWork bool) {
	for _, fn := range fns {
		loops := naturalLoops(fn)
		if len(loops) == 0 {
			continue
		}
		p := br.prover(fn)
		for _, l := range loops {
			pos := w.Pos(loopPos(w, l))
			key := r.MkKey("loopterm", fnName(fn), "loop "+loopText(w, fn, l))
			arg, notes := p.findLoopArg(l)
			if arg.kind == "" {
				d := "no recognised termination argument (counter against a loop-invariant bound, shrinking slice, range)"
				if len(notes) > 0 {
					d += ": " + strings.Join(notes, "; ")
				}
				r.Fail("loopterm", key, pos, d, nil)
				continue
			}
			r.OK("loopterm", key, pos, arg.kind+": "+arg.detail)
			if !withWork || p.consumesInput(l, arg) {
				continue
			}
			// expansion loop: trip count bounded by a constant
			wkey := r.MkKey("loopwork", fnName(fn), "loop "+loopText(w, fn, l))
			if !arg.hasT {
				r.Fail("loopwork", wkey, pos, "a loop that consumes no input has no trip count the analysis can bound", nil)
				continue
			}
			neg, _ := arg.trips.scale(-1)
			bounded := p.proveAtLoopEntry(l, neg.addc(expansionCap))
			lenBound := ""
			if !bounded {
				// proportional to data in memory
				cands := map[atom]bool{}
				for _, pr := range l.head.Preds {
					if l.head.Dominates(pr) {
						continue
					}
					for _, f := range p.edgeFacts(pr, l.head) {
						for a := range f.e.t {
							if a.k == aLen || isMapLen(a) {
								cands[a] = true
							}
						}
					}
				}
				for a := range arg.trips.t {
					if a.k == aLen || isMapLen(a) {
						cands[a] = true
					}
				}
				// slices already allocated when the loop starts
				var memLens []blin
				for _, b := range fn.Blocks {
					if b != l.head && !b.Dominates(l.head) {
						continue
					}
					for _, in := range b.Instrs {
						if ms, ok := in.(*ssa.MakeSlice); ok {
							memLens = append(memLens, p.lenOf(ms))
						}
					}
				}
				for _, par := range fn.Params {
					if _, ok := par.Type().Underlying().(*types.Slice); ok {
						memLens = append(memLens, p.lenOf(par))
					}
				}
				for _, ml := range memLens {
					lim, ok := ml.scale(16)
					if !ok {
						continue
					}
					if d, ok := lim.addc(expansionCap).sub(arg.trips); ok && p.proveAtLoopEntry(l, d) {
						lenBound = p.linStr(ml) + " (length of a slice in memory)"
						break
					}
				}
				var cl []atom
				for a := range cands {
					cl = append(cl, a)
				}
				sort.Slice(cl, func(i, j int) bool { return p.atomOrder(cl[i]) < p.atomOrder(cl[j]) })
				for _, a := range cl {
					if lenBound != "" {
						break
					}
					lim, _ := blatom(a).scale(16)
					if d, ok := lim.addc(expansionCap).sub(arg.trips); ok && p.proveAtLoopEntry(l, d) {
						lenBound = p.atomStr(a)
						break
					}
				}
			}
			if !bounded && lenBound == "" {
				r.Fail("loopwork", wkey, pos, fmt.Sprintf("the loop consumes no input and its trip count %s is not shown to be bounded by %d or by the size of data in memory", p.linStr(arg.trips), expansionCap), nil)
				continue
			}
			// nested in another loop: cumulative budget
			var outer *natLoop
			for _, o := range loops {
				if o != l && o.body[l.head] && (outer == nil || outer.body[o.head]) {
					outer = o
				}
			}
			if outer == nil || lenBound != "" && !p.dataDerived(arg.trips) {
				how := fmt.Sprintf("trip count <= %d", expansionCap)
				if lenBound != "" {
					how = "trip count proportional to " + lenBound
				}
				r.OK("loopwork", wkey, pos, how)
				continue
			}
			if !p.dataDerived(arg.trips) {
				r.OK("loopwork", wkey, pos, "trip count does not depend on input values")
				continue
			}
			if arg.kind == "counter" && arg.up && p.sharedCounter(outer, l, arg) {
				r.OK("loopwork", wkey, pos, "the counter is carried across the runs of the loop by the enclosing loop, so the bound limits the total number of iterations")
				continue
			}
			if ok, how := p.hasBudget(outer, l, arg.trips); ok {
				r.OK("loopwork", wkey, pos, how)
			} else {
				r.Fail("loopwork", wkey, pos, fmt.Sprintf("expansion loop nested in another loop: each run is bounded, but no cumulative budget (an accumulator over the enclosing loop that grows by at least the trip count %s and is checked against a constant) limits the total", p.linStr(arg.trips)), nil)
			}
		}
	}
}

// dataDerived: the expression depends on values loaded from slices (input
// fields) rather than only on lengths, parameters and constants.
func (p *bprover) dataDerived(e blin) bool {
	var dep func(v ssa.Value, depth int) bool
	dep = func(v ssa.Value, depth int) bool {
		if depth > 8 {
			return true
		}
		switch x := v.(type) {
		case *ssa.UnOp:
			if x.Op == token.MUL {
				if _, ok := x.X.(*ssa.IndexAddr); ok {
					return true
				}
			}
			return dep(x.X, depth+1)
		case *ssa.BinOp:
			return dep(x.X, depth+1) || dep(x.Y, depth+1)
		case *ssa.Convert:
			return dep(x.X, depth+1)
		case *ssa.Phi:
			for _, e := range x.Edges {
				if e != ssa.Value(x) && dep(e, depth+1) {
					return true
				}
			}
		case *ssa.Extract:
			if c, ok := x.Tuple.(*ssa.Call); ok {
				if cal := c.Call.StaticCallee(); cal != nil && p.br != nil && p.br.readsInput(cal, 0) {
					return true
				}
			}
		case *ssa.Call:
			if cal := x.Call.StaticCallee(); cal != nil && p.br != nil && p.br.readsInput(cal, 0) {
				return true
			}
		case *ssa.Lookup:
			return true
		case *memVal:
			return strings.HasPrefix(x.cat, "E:")
		}
		return false
	}
	for a := range e.t {
		if a.k == aVal && dep(a.v, 0) {
			return true
		}
	}
	return false
}

// hasBudget: an accumulator phi of the enclosing loop grows by at least the
// inner trip count on the way to the inner loop and is tested against a
// constant before the inner loop runs.
func (p *bprover) hasBudget(outer, inner *natLoop, trips blin) (bool, string) {
	for _, in := range outer.head.Instrs {
		ph, ok := in.(*ssa.Phi)
		if !ok {
			break
		}
		if _, isSl := ph.Type().Underlying().(*types.Slice); isSl {
			// the length of a slice that the loops fill
			a := atom{aLen, ph}
			ok := true
			n := 0
			for i, e := range ph.Edges {
				pr := outer.head.Preds[i]
				if !outer.head.Dominates(pr) {
					continue
				}
				n++
				d, good := p.lenOf(e).sub(blatom(a))
				if good {
					d, good = d.sub(trips)
				}
				if !good || !p.prove(p.edgeFacts(pr, outer.head), d, pr, 2) {
					ok = false
				}
			}
			neg, _ := blatom(a).scale(-1)
			if ok && n > 0 && p.proveAtLoopEntry(inner, neg.addc(int64(1)<<24)) {
				return true, fmt.Sprintf("cumulative budget: %s grows by at least the trip count per run and is bounded by a constant when the loop starts", p.atomStr(a))
			}
			continue
		}
		if !isIntType(ph.Type()) {
			continue
		}
		a := atom{aVal, ph}
		for i, e := range ph.Edges {
			if !outer.head.Dominates(outer.head.Preds[i]) {
				continue
			}
			next := p.linOf(e)
			// next >= ph + trips, shown where the inner loop starts
			d, ok := next.sub(blatom(a))
			if !ok {
				continue
			}
			d, ok = d.sub(trips)
			if !ok || !p.proveAtLoopEntry(inner, d) {
				continue
			}
			// and next <= const holds there
			neg, _ := next.scale(-1)
			if p.proveAtLoopEntry(inner, neg.addc(int64(1)<<24)) {
				return true, fmt.Sprintf("cumulative budget: %s grows by at least the trip count and is bounded by a constant before the loop runs", p.atomStr(a))
			}
		}
	}
	return false, ""
}

func loopText(w *World, fn *ssa.Function, l *natLoop) string {
	pos := loopPos(w, l)
	if !pos.IsValid() {
		return fmt.Sprintf("#%d", l.head.Index)
	}
	// the for/range statement enclosing the position
	if pkg := w.PkgOf(fn); pkg != nil {
		for _, f := range pkg.Syntax {
			if f.Pos() <= pos && pos <= f.End() {
				if s := enclosingLoopText(f, pos); s != "" {
					return s
				}
			}
		}
	}
	return "at " + strings.TrimPrefix(w.Pos(pos), "")
}


// sharedCounter: the inner loop's up-counter starts from a variable of the
// enclosing loop (plus a non-negative constant) and that variable's next
// value is the inner counter (plus non-negative constants), so one bound
// covers all runs of the inner loop.
func (p *bprover) sharedCounter(outer, inner *natLoop, arg loopArg) bool {
	if arg.ctr == nil || !p.loopInvariant(outer, arg.bound) {
		return false
	}
	var reaches func(v ssa.Value, targets map[ssa.Value]bool, depth int, seen map[ssa.Value]bool) bool
	reaches = func(v ssa.Value, targets map[ssa.Value]bool, depth int, seen map[ssa.Value]bool) bool {
		if targets[v] {
			return true
		}
		if depth > 8 || seen[v] {
			return false
		}
		seen[v] = true
		switch x := v.(type) {
		case *ssa.BinOp:
			if x.Op == token.ADD {
				if c, ok := bconstInt(x.Y); ok && c >= 0 {
					return reaches(x.X, targets, depth+1, seen)
				}
			}
		case *ssa.Phi:
			n := 0
			for _, e := range x.Edges {
				if e == ssa.Value(x) {
					continue
				}
				if !reaches(e, targets, depth+1, seen) {
					return false
				}
				n++
			}
			return n > 0
		}
		return false
	}
	// the outer variable
	for _, in := range outer.head.Instrs {
		q, ok := in.(*ssa.Phi)
		if !ok {
			break
		}
		if !isIntType(q.Type()) {
			continue
		}
		// inner counter starts from q
		startsFromQ := false
		for i, e := range arg.ctr.Edges {
			if inner.head.Dominates(inner.head.Preds[i]) {
				continue
			}
			if reaches(e, map[ssa.Value]bool{q: true}, 0, map[ssa.Value]bool{}) {
				startsFromQ = true
			} else {
				startsFromQ = false
				break
			}
		}
		if !startsFromQ {
			continue
		}
		// q continues from the inner counter (or from itself)
		good := true
		for i, e := range q.Edges {
			if !outer.head.Dominates(outer.head.Preds[i]) {
				continue
			}
			if !reaches(e, map[ssa.Value]bool{arg.ctr: true, q: true}, 0, map[ssa.Value]bool{}) {
				good = false
			}
		}
		if good {
			return true
		}
	}
	return false
}

// condExpansionBudget: in fn, the expansion loop  for c := S; c <= E; c++
// runs under a cumulative budget: a variable of the enclosing loop is
// increased by (E - S) + 1 and the result is compared with a constant
// (at most 2^20), leaving the function when it is exceeded, before the loop.
func condExpansionBudget(w *World, fnName_ string) func() (bool, string) {
	return func() (bool, string) {
		fn := w.Func(fnName_)
		if fn == nil {
			return false, fnName_ + " not found"
		}
		loops := naturalLoops(fn)
		for _, inner := range loops {
			// the counting phi and its bound
			for _, in := range inner.head.Instrs {
				ctr, ok := in.(*ssa.Phi)
				if !ok {
					break
				}
				var S ssa.Value
				for i, e := range ctr.Edges {
					if !inner.head.Dominates(inner.head.Preds[i]) {
						S = e
					}
				}
				ifi, ok := inner.head.Instrs[len(inner.head.Instrs)-1].(*ssa.If)
				if !ok || S == nil {
					continue
				}
				cmp, ok := ifi.Cond.(*ssa.BinOp)
				if !ok || cmp.Op != token.LEQ || cmp.X != ssa.Value(ctr) {
					continue
				}
				E := cmp.Y
				// enclosing loop
				for _, outer := range loops {
					if outer == inner || !outer.body[inner.head] {
						continue
					}
					for _, oin := range outer.head.Instrs {
						acc, ok := oin.(*ssa.Phi)
						if !ok {
							break
						}
						for i, v := range acc.Edges {
							if !outer.head.Dominates(outer.head.Preds[i]) {
								continue
							}
							add, ok := v.(*ssa.BinOp)
							if !ok || add.Op != token.ADD {
								continue
							}
							var t ssa.Value
							if add.X == ssa.Value(acc) {
								t = add.Y
							} else if add.Y == ssa.Value(acc) {
								t = add.X
							} else {
								continue
							}
							// t == (E - S) + 1
							t1, ok := t.(*ssa.BinOp)
							if !ok || t1.Op != token.ADD {
								continue
							}
							one, okc := bconstInt(t1.Y)
							sub, oks := t1.X.(*ssa.BinOp)
							if !okc || one != 1 || !oks || sub.Op != token.SUB || sub.X != E || sub.Y != S {
								continue
							}
							// v > K leaves the function, checked before the inner loop
							for _, ref := range *add.Referrers() {
								c2, ok := ref.(*ssa.BinOp)
								if !ok || c2.Op != token.GTR || c2.X != ssa.Value(add) {
									continue
								}
								k, ok := bconstInt(c2.Y)
								if !ok || k > 1<<20 {
									continue
								}
								for _, r2 := range *c2.Referrers() {
									chk, ok := r2.(*ssa.If)
									if !ok {
										continue
									}
									tb := chk.Block().Succs[0]
									if len(tb.Instrs) == 0 {
										continue
									}
									if _, isRet := tb.Instrs[len(tb.Instrs)-1].(*ssa.Return); !isRet {
										continue
									}
									if chk.Block().Dominates(inner.head) {
										return true, ""
									}
								}
							}
						}
					}
				}
			}
		}
		return false, "no expansion loop in " + fnName_ + " runs under a cumulative budget (accumulator += end - start + 1, compared with a constant <= 2^20 before the loop)"
	}
}

// condGlobalBudget: the function has a loop nest (outer, inner) with a work
// counter that spans both: a phi P at the outer head that is entered with a
// constant, a phi Q at the inner head that is entered with P, every back edge
// of the inner loop carries Q+c (c != 0, the same sign), a comparison of the
// counter with a constant whose exceeding branch returns dominates every back
// edge of the inner loop, and the outer back edges carry Q (or Q+c) back to P —
// the counter is never re-initialised while the outer loop runs.
func condGlobalBudget(w *World, fnName_ string) func() (bool, string) {
	return func() (bool, string) {
		fn := w.Func(fnName_)
		if fn == nil {
			return false, fnName_ + " not found"
		}
		loops := naturalLoops(fn)
		why := "no counter found that is initialised outside the outer loop, incremented in every iteration of the inner loop and checked against a constant there"
		for _, outer := range loops {
			for _, inner := range loops {
				if inner == outer || !outer.body[inner.head] || inner.body[outer.head] {
					continue
				}
				for _, in := range inner.head.Instrs {
					Q, ok := in.(*ssa.Phi)
					if !ok {
						break
					}
					if !isIntType(Q.Type()) {
						continue
					}
					// entry edges of the inner loop carry one phi P of the outer head
					var P *ssa.Phi
					okEntry := true
					var steps []ssa.Value
					for i, e := range Q.Edges {
						pred := inner.head.Preds[i]
						if inner.body[pred] {
							steps = append(steps, e)
							continue
						}
						ph, isPhi := e.(*ssa.Phi)
						if !isPhi || ph.Block() != outer.head || (P != nil && P != ph) {
							okEntry = false
							continue
						}
						P = ph
					}
					reinit := false
					if !okEntry || P == nil {
						reinit = true
					}
					if len(steps) == 0 {
						continue
					}
					// steps: Q + c
					sign := int64(0)
					okSteps := true
					incs := map[ssa.Value]bool{}
					for _, s := range steps {
						add, ok := s.(*ssa.BinOp)
						if !ok || (add.Op != token.ADD && add.Op != token.SUB) || add.X != ssa.Value(Q) {
							okSteps = false
							break
						}
						c, isC := bconstInt(add.Y)
						if !isC || c == 0 {
							okSteps = false
							break
						}
						if add.Op == token.SUB {
							c = -c
						}
						sg := int64(1)
						if c < 0 {
							sg = -1
						}
						if sign != 0 && sign != sg {
							okSteps = false
							break
						}
						sign = sg
						incs[s] = true
					}
					if !okSteps {
						continue
					}
					// the check
					checked := false
					for b := range inner.body {
						if len(b.Instrs) == 0 {
							continue
						}
						ifi, ok := b.Instrs[len(b.Instrs)-1].(*ssa.If)
						if !ok {
							continue
						}
						cmp, ok := ifi.Cond.(*ssa.BinOp)
						if !ok {
							continue
						}
						if !(cmp.X == ssa.Value(Q) || incs[cmp.X]) {
							continue
						}
						if _, isC := bconstInt(cmp.Y); !isC {
							continue
						}
						up := cmp.Op == token.GTR || cmp.Op == token.GEQ
						down := cmp.Op == token.LSS || cmp.Op == token.LEQ
						if !(sign > 0 && up) && !(sign < 0 && down) {
							continue
						}
						tb := b.Succs[0]
						if len(tb.Instrs) == 0 {
							continue
						}
						if _, isRet := tb.Instrs[len(tb.Instrs)-1].(*ssa.Return); !isRet {
							continue
						}
						all := true
						for _, l := range inner.latches {
							if !(b == l || b.Dominates(l)) {
								all = false
							}
						}
						if all {
							checked = true
						}
					}
					if !checked {
						continue
					}
					if reinit {
						why = fmt.Sprintf("the work counter %s of the inner loop is re-initialised inside the outer loop: the limit then holds per run of the inner loop, not in total", Q.Comment)
						continue
					}
					// P: entered with a constant, continued with the counter
					okP := true
					for i, e := range P.Edges {
						pred := outer.head.Preds[i]
						if outer.body[pred] {
							if !(e == ssa.Value(Q) || incs[e] || e == ssa.Value(P)) {
								okP = false
							}
						} else if _, isC := e.(*ssa.Const); !isC {
							okP = false
						}
					}
					if !okP {
						why = fmt.Sprintf("the counter %s is not carried unchanged around the outer loop", Q.Comment)
						continue
					}
					return true, fmt.Sprintf("counter %s: initialised before the outer loop, stepped by every iteration of the inner loop, checked against a constant with an error return, carried around the outer loop", Q.Comment)
				}
			}
		}
		return false, why
	}
}
