package main

// E9-FP: field pairing between application structs (Info, TTFInfo, …) and the
// wire layout, extracted separately from the decoder and the encoder of one
// table and compared.

import (
	"fmt"
	"go/ast"
	"go/token"
	"go/types"
	"sort"
	"strings"
)

type fpSide struct {
	w     *World
	info  *types.Info
	pkg   *types.Package
	wire  map[string]bool // names of wire struct types (passed to binary.Read/Write)
	// flow-insensitive dependencies: target atom -> source atoms
	direct map[string]map[string]bool
	ctrl   map[string]map[string]bool
	layout map[string][2]int // "T.F" -> offset,size within T
	tsize  map[string]int
	base   map[string]int // wire struct type -> stream offset
	window map[string]int // local byte array -> stream offset of its current contents
}

func newFPSide(w *World, info *types.Info, pkg *types.Package) *fpSide {
	return &fpSide{w: w, info: info, pkg: pkg, wire: map[string]bool{}, direct: map[string]map[string]bool{}, ctrl: map[string]map[string]bool{},
		layout: map[string][2]int{}, tsize: map[string]int{}, base: map[string]int{}, window: map[string]int{}}
}

func addDep(m map[string]map[string]bool, t string, srcs map[string]bool) {
	if t == "" || len(srcs) == 0 {
		return
	}
	if m[t] == nil {
		m[t] = map[string]bool{}
	}
	for s := range srcs {
		if s != t {
			m[t][s] = true
		}
	}
}

// namedStructOf returns the package-local named struct type (through pointers).
func (s *fpSide) namedStructOf(t types.Type) *types.Named {
	if t == nil {
		return nil
	}
	if p, ok := t.(*types.Pointer); ok {
		t = p.Elem()
	}
	n, ok := t.(*types.Named)
	if !ok {
		return nil
	}
	if _, ok := n.Underlying().(*types.Struct); !ok {
		return nil
	}
	return n
}

// atomOf renders x.f.g rooted at a struct-typed identifier as "Type.f.g";
// locals of non-struct type as "local:name".
func (s *fpSide) atomOf(e ast.Expr) string {
	switch x := e.(type) {
	case *ast.ParenExpr:
		return s.atomOf(x.X)
	case *ast.StarExpr:
		return s.atomOf(x.X)
	case *ast.Ident:
		obj := s.info.ObjectOf(x)
		v, ok := obj.(*types.Var)
		if !ok || v.IsField() {
			return ""
		}
		if n := s.namedStructOf(v.Type()); n != nil {
			return n.Obj().Name()
		}
		if obj.Parent() == s.pkg.Scope() {
			return "" // package-level variable
		}
		return "local:" + x.Name
	case *ast.SelectorExpr:
		if _, ok := s.info.Selections[x]; !ok {
			return ""
		}
		base := s.atomOf(x.X)
		if base == "" {
			return ""
		}
		// a path that reaches a struct type of this package is named by that type
		if n := s.namedStructOf(s.info.TypeOf(x.X)); n != nil && n.Obj().Pkg() == s.pkg {
			base = n.Obj().Name()
		}
		return base + "." + x.Sel.Name
	case *ast.IndexExpr:
		// constant index into a byte array read from the stream
		if c, ok := constInt(s.info, x.Index); ok {
			if b := s.atomOf(x.X); b != "" {
				if base, ok := s.window[b]; ok {
					return fmt.Sprintf("byte[%d]", base+int(c))
				}
				return fmt.Sprintf("%s[%d]", b, c)
			}
		}
		return s.atomOf(x.X)
	case *ast.SliceExpr:
		return s.atomOf(x.X)
	case *ast.UnaryExpr:
		if x.Op == token.AND {
			return s.atomOf(x.X)
		}
	}
	return ""
}

// sources collects the atoms an expression reads.
func (s *fpSide) sources(e ast.Expr) map[string]bool {
	res := map[string]bool{}
	if e == nil {
		return res
	}
	var visit func(n ast.Node) bool
	visit = func(n ast.Node) bool {
		switch x := n.(type) {
		case *ast.SelectorExpr:
			if a := s.atomOf(x); a != "" {
				res[a] = true
				return false
			}
		case *ast.IndexExpr:
			if a := s.atomOf(x); a != "" {
				res[a] = true
				ast.Inspect(x.Index, visit)
				return false
			}
		case *ast.Ident:
			if a := s.atomOf(x); a != "" {
				res[a] = true
			}
		case *ast.FuncLit:
			return false
		}
		return true
	}
	ast.Inspect(e, visit)
	return res
}

// litFields walks a composite literal of a package-local struct type and
// records Type.field <- sources(value) (nested literals extend the path).
func (s *fpSide) litFields(prefix string, cl *ast.CompositeLit, ctrl map[string]bool) {
	if n := s.namedStructOf(s.info.TypeOf(cl)); n != nil && n.Obj().Pkg() == s.pkg {
		prefix = n.Obj().Name()
	}
	for _, el := range cl.Elts {
		kv, ok := el.(*ast.KeyValueExpr)
		if !ok {
			continue
		}
		k, ok := kv.Key.(*ast.Ident)
		if !ok {
			continue
		}
		t := prefix + "." + k.Name
		v := kv.Value
		if u, ok := v.(*ast.UnaryExpr); ok && u.Op == token.AND {
			v = u.X
		}
		if inner, ok := v.(*ast.CompositeLit); ok {
			if _, isStruct := s.info.TypeOf(inner).Underlying().(*types.Struct); isStruct {
				s.litFields(t, inner, ctrl)
				continue
			}
		}
		addDep(s.direct, t, s.sources(kv.Value))
		addDep(s.ctrl, t, ctrl)
	}
}

func (s *fpSide) structLayout(n *types.Named) {
	name := n.Obj().Name()
	if _, ok := s.tsize[name]; ok {
		return
	}
	st := n.Underlying().(*types.Struct)
	off := 0
	var walk func(prefix string, st *types.Struct)
	walk = func(prefix string, st *types.Struct) {
		for i := 0; i < st.NumFields(); i++ {
			f := st.Field(i)
			sz := fixedSize(f.Type())
			if inner, ok := f.Type().Underlying().(*types.Struct); ok {
				walk(prefix+"."+f.Name(), inner)
				continue
			}
			s.layout[prefix+"."+f.Name()] = [2]int{off, sz}
			off += sz
		}
	}
	walk(name, st)
	s.tsize[name] = off
}

// fixedSize is encoding/binary's size of a fixed-size type (-1 if not fixed).
func fixedSize(t types.Type) int {
	switch u := t.Underlying().(type) {
	case *types.Basic:
		switch u.Kind() {
		case types.Int8, types.Uint8, types.Bool:
			return 1
		case types.Int16, types.Uint16:
			return 2
		case types.Int32, types.Uint32, types.Float32:
			return 4
		case types.Int64, types.Uint64, types.Float64:
			return 8
		}
		return -1
	case *types.Array:
		e := fixedSize(u.Elem())
		if e < 0 {
			return -1
		}
		return e * int(u.Len())
	case *types.Struct:
		n := 0
		for i := 0; i < u.NumFields(); i++ {
			e := fixedSize(u.Field(i).Type())
			if e < 0 {
				return -1
			}
			n += e
		}
		return n
	}
	return -1
}

// scan walks a function body, recording dependencies. ctrlStack holds the
// atoms of enclosing conditions.
func (s *fpSide) scan(body *ast.BlockStmt) {
	streamPos := 0
	var walk func(n ast.Node, ctrl map[string]bool)
	var merge func(a, b map[string]bool) map[string]bool
	merge = func(a, b map[string]bool) map[string]bool {
		r := map[string]bool{}
		for k := range a {
			r[k] = true
		}
		for k := range b {
			r[k] = true
		}
		return r
	}
	var walkList func(list []ast.Stmt, ctrl map[string]bool)
	walkList = func(list []ast.Stmt, ctrl map[string]bool) {
		for _, st := range list {
			walk(st, ctrl)
			// `if c { …; return }`: the rest of the block runs only when c is false
			if ifs, ok := st.(*ast.IfStmt); ok && ifs.Else == nil && len(ifs.Body.List) > 0 {
				if _, isRet := ifs.Body.List[len(ifs.Body.List)-1].(*ast.ReturnStmt); isRet {
					ctrl = merge(ctrl, s.sources(ifs.Cond))
				}
			}
		}
	}
	walk = func(n ast.Node, ctrl map[string]bool) {
		switch x := n.(type) {
		case nil:
		case *ast.BlockStmt:
			walkList(x.List, ctrl)
		case *ast.IfStmt:
			walk(x.Init, ctrl)
			c := merge(ctrl, s.sources(x.Cond))
			walk(x.Body, c)
			walk(x.Else, c)
		case *ast.SwitchStmt:
			walk(x.Init, ctrl)
			c := merge(ctrl, s.sources(x.Tag))
			for _, cc := range x.Body.List {
				cl := cc.(*ast.CaseClause)
				c2 := c
				for _, e := range cl.List {
					c2 = merge(c2, s.sources(e))
				}
				walkList(cl.Body, c2)
			}
		case *ast.ForStmt, *ast.RangeStmt:
			// variable-length parts are outside the fixed layout
			return
		case *ast.LabeledStmt:
			walk(x.Stmt, ctrl)
		case *ast.DeclStmt:
			if gd, ok := x.Decl.(*ast.GenDecl); ok {
				for _, sp := range gd.Specs {
					if vs, ok := sp.(*ast.ValueSpec); ok {
						for i, nm := range vs.Names {
							if i < len(vs.Values) {
								s.assignDep(nm, vs.Values[i], ctrl)
							}
						}
					}
				}
			}
		case *ast.AssignStmt:
			for i, l := range x.Lhs {
				var rhs ast.Expr
				if len(x.Rhs) == len(x.Lhs) {
					rhs = x.Rhs[i]
				} else if len(x.Rhs) == 1 {
					rhs = x.Rhs[0]
				}
				s.assignDep(l, rhs, ctrl)
			}
			for _, rh := range x.Rhs {
				s.exprEffects(rh, ctrl, &streamPos)
			}
		case *ast.ExprStmt:
			s.exprEffects(x.X, ctrl, &streamPos)
		case *ast.ReturnStmt:
			for _, e := range x.Results {
				s.exprEffects(e, ctrl, &streamPos)
				s.returnedLit(e, ctrl)
			}
		}
	}
	walk(body, map[string]bool{})
}

func (s *fpSide) assignDep(l ast.Expr, rhs ast.Expr, ctrl map[string]bool) {
	if rhs == nil {
		return
	}
	t := s.atomOf(l)
	// composite literal of a local struct type: fields
	v := rhs
	if u, ok := v.(*ast.UnaryExpr); ok && u.Op == token.AND {
		v = u.X
	}
	if cl, ok := v.(*ast.CompositeLit); ok {
		if _, isStruct := s.info.TypeOf(cl).Underlying().(*types.Struct); isStruct {
			prefix := t
			if n := s.namedStructOf(s.info.TypeOf(cl)); n != nil && (prefix == "" || strings.HasPrefix(prefix, "local:")) {
				prefix = n.Obj().Name()
			}
			if prefix != "" {
				s.litFields(prefix, cl, ctrl)
				return
			}
		}
		if isByteSlice(s.info.TypeOf(cl)) {
			s.byteLit(cl, ctrl, 0)
			return
		}
	}
	if t == "" {
		return
	}
	addDep(s.direct, t, s.sources(rhs))
	addDep(s.ctrl, t, ctrl)
}

// byteLit records stream bytes written from a []byte literal starting at base.
func (s *fpSide) byteLit(cl *ast.CompositeLit, ctrl map[string]bool, base int) {
	for k, el := range cl.Elts {
		t := fmt.Sprintf("byte[%d]", base+k)
		addDep(s.direct, t, s.sources(el))
		addDep(s.ctrl, t, ctrl)
	}
}

func (s *fpSide) returnedLit(e ast.Expr, ctrl map[string]bool) {
	if cl, ok := e.(*ast.CompositeLit); ok && isByteSlice(s.info.TypeOf(cl)) {
		s.byteLit(cl, ctrl, 0)
	}
}

// exprEffects handles calls that move data between wire structs / byte arrays
// and the stream, and method calls that modify a struct field in place.
func (s *fpSide) exprEffects(e ast.Expr, ctrl map[string]bool, streamPos *int) {
	ast.Inspect(e, func(n ast.Node) bool {
		call, ok := n.(*ast.CallExpr)
		if !ok {
			return true
		}
		fn := types.ExprString(call.Fun)
		switch {
		case fn == "binary.Read" || fn == "binary.Write":
			if len(call.Args) == 3 {
				arg := call.Args[2]
				if nmd := s.namedStructOf(s.info.TypeOf(arg)); nmd != nil {
					s.structLayout(nmd)
					name := nmd.Obj().Name()
					s.wire[name] = true
					if _, seen := s.base[name]; !seen {
						s.base[name] = *streamPos
						*streamPos += s.tsize[name]
					}
					if u, ok := arg.(*ast.UnaryExpr); ok && u.Op == token.AND {
						if cl, ok := u.X.(*ast.CompositeLit); ok {
							s.litFields(name, cl, ctrl)
						}
					}
				} else if a := s.atomOf(arg); a != "" {
					// raw byte array read from the stream: arr[:] of a fixed-size array
					var at types.Type
					if se, ok := arg.(*ast.SliceExpr); ok {
						at = s.info.TypeOf(se.X)
					} else {
						at = s.info.TypeOf(arg)
					}
					if sz := fixedSize(at); sz > 0 {
						s.window[a] = *streamPos
						*streamPos += sz
					}
				}
			}
		case fn == "io.ReadFull" && len(call.Args) == 2:
			if se, ok := call.Args[1].(*ast.SliceExpr); ok && se.High != nil {
				if n, ok := constInt(s.info, se.High); ok {
					a := s.atomOf(se.X)
					// every read into the same array starts a new window
					s.window[a] = *streamPos
					*streamPos += int(n)
				}
			}
		case strings.HasSuffix(fn, ".Write") && len(call.Args) == 1:
			if cl, ok := call.Args[0].(*ast.CompositeLit); ok && isByteSlice(s.info.TypeOf(cl)) {
				s.byteLit(cl, ctrl, *streamPos)
				*streamPos += len(cl.Elts)
			}
		default:
			// method call on a field of a local struct with arguments: treated as an update of that field
			if sel, ok := call.Fun.(*ast.SelectorExpr); ok {
				if _, isSel := s.info.Selections[sel]; isSel {
					if t := s.atomOf(sel.X); t != "" && strings.Contains(t, ".") {
						srcs := map[string]bool{}
						for _, a := range call.Args {
							for k := range s.sources(a) {
								srcs[k] = true
							}
						}
						addDep(s.ctrl, t, srcs)
						addDep(s.ctrl, t, ctrl)
					}
				}
			}
			// copy(dst, src)
			if id, ok := call.Fun.(*ast.Ident); ok && id.Name == "copy" && len(call.Args) == 2 {
				if t := s.atomOf(call.Args[0]); t != "" {
					addDep(s.direct, t, s.sources(call.Args[1]))
					addDep(s.ctrl, t, ctrl)
				}
			}
		}
		return true
	})
}

func derefArr(t types.Type) types.Type {
	if s, ok := t.Underlying().(*types.Slice); ok {
		_ = s
	}
	return t
}

// closure resolves dependencies through locals and returns, for every
// non-local target, the non-local sources (direct-only and any).
func (s *fpSide) closure() (direct, any map[string]map[string]bool) {
	resolve := func(useCtrl bool) map[string]map[string]bool {
		out := map[string]map[string]bool{}
		var expand func(a string, seen map[string]bool, acc map[string]bool)
		expand = func(a string, seen map[string]bool, acc map[string]bool) {
			if seen[a] {
				return
			}
			seen[a] = true
			if !strings.HasPrefix(a, "local:") {
				acc[a] = true
				// a non-local atom that is itself assigned from others (wire struct modified in place) is also expanded
			}
			for src := range s.direct[a] {
				if strings.HasPrefix(a, "local:") || strings.HasPrefix(src, "local:") || s.isSelfUpdate(a, src) {
					expand(src, seen, acc)
				}
			}
			if useCtrl {
				for src := range s.ctrl[a] {
					if strings.HasPrefix(a, "local:") {
						expand(src, seen, acc)
					}
				}
			}
		}
		targets := map[string]bool{}
		for t := range s.direct {
			targets[t] = true
		}
		for t := range s.ctrl {
			targets[t] = true
		}
		for t := range targets {
			if strings.HasPrefix(t, "local:") {
				continue
			}
			acc := map[string]bool{}
			for src := range s.direct[t] {
				expand(src, map[string]bool{t: true}, acc)
			}
			if useCtrl {
				for src := range s.ctrl[t] {
					expand(src, map[string]bool{t: true}, acc)
				}
			}
			out[t] = acc
		}
		return out
	}
	return resolve(false), resolve(true)
}

func (s *fpSide) isSelfUpdate(a, src string) bool { return false }

// wireBytes translates a wire atom ("T.F", "arr[k]", "byte[p]") to stream offsets.
func (s *fpSide) wireBytes(a string) ([]int, bool) {
	if strings.HasPrefix(a, "byte[") {
		var p int
		fmt.Sscanf(a, "byte[%d]", &p)
		return []int{p}, true
	}
	if lo, ok := s.layout[a]; ok {
		t := a[:strings.Index(a, ".")]
		var res []int
		for i := 0; i < lo[1]; i++ {
			res = append(res, s.base[t]+lo[0]+i)
		}
		return res, true
	}
	// prefix of a nested wire field (whole struct-valued field)
	var res []int
	for k, lo := range s.layout {
		if strings.HasPrefix(k, a+".") || strings.HasPrefix(k, a+"[") {
			t := k[:strings.Index(k, ".")]
			for i := 0; i < lo[1]; i++ {
				res = append(res, s.base[t]+lo[0]+i)
			}
		}
	}
	if len(res) > 0 {
		sort.Ints(res)
		return res, true
	}
	return nil, false
}


// RunFieldPairs compares the decoder's and the encoder's view of a table.
func RunFieldPairs(w *World, r *Report, pkgRel, decName, encName string) {
	path := modPath + "/" + pkgRel
	p := w.All[path]
	if p == nil {
		r.Fatal("package %s not loaded", pkgRel)
		return
	}
	find := func(name string) *ast.FuncDecl {
		for _, f := range p.Syntax {
			for _, d := range f.Decls {
				if fd, ok := d.(*ast.FuncDecl); ok && fd.Name.Name == name && fd.Body != nil {
					return fd
				}
			}
		}
		return nil
	}
	dfd, efd := find(decName), find(encName)
	if dfd == nil || efd == nil {
		r.Fatal("%s: decoder %s or encoder %s not found", pkgRel, decName, encName)
		return
	}
	dec := newFPSide(w, p.TypesInfo, p.Types)
	dec.scan(dfd.Body)
	enc := newFPSide(w, p.TypesInfo, p.Types)
	enc.scan(efd.Body)
	isWire := func(a string) bool {
		if strings.HasPrefix(a, "byte[") {
			return true
		}
		t := a
		if i := strings.Index(a, "."); i >= 0 {
			t = a[:i]
		}
		return dec.wire[t] || enc.wire[t]
	}
	isApp := func(a string) bool {
		return !isWire(a) && !strings.HasPrefix(a, "local:") && strings.Contains(a, ".")
	}
	// decoder: app <- wire
	dDirect, dAny := dec.closure()
	eDirect, eAny := enc.closure()
	type rel map[string]map[int]bool
	add := func(m rel, a string, bs []int) {
		if m[a] == nil {
			m[a] = map[int]bool{}
		}
		for _, b := range bs {
			m[a][b] = true
		}
	}
	decD, decA, encD, encA := rel{}, rel{}, rel{}, rel{}
	for t, srcs := range dDirect {
		if !isApp(t) {
			continue
		}
		for src := range srcs {
			if isWire(src) {
				if bs, ok := dec.wireBytes(src); ok {
					add(decD, t, bs)
				}
			}
		}
	}
	for t, srcs := range dAny {
		if !isApp(t) {
			continue
		}
		for src := range srcs {
			if isWire(src) {
				if bs, ok := dec.wireBytes(src); ok {
					add(decA, t, bs)
				}
			}
		}
	}
	for t, srcs := range eDirect {
		if !isWire(t) {
			continue
		}
		bs, ok := enc.wireBytes(t)
		if !ok {
			continue
		}
		for src := range srcs {
			if isApp(src) {
				add(encD, src, bs)
			}
		}
	}
	for t, srcs := range eAny {
		if !isWire(t) {
			continue
		}
		bs, ok := enc.wireBytes(t)
		if !ok {
			continue
		}
		for src := range srcs {
			if isApp(src) {
				add(encA, src, bs)
			}
		}
	}
	apps := map[string]bool{}
	for a := range decA {
		apps[a] = true
	}
	for a := range encA {
		apps[a] = true
	}
	var names []string
	for a := range apps {
		names = append(names, a)
	}
	sort.Strings(names)
	fmtSet := func(m map[int]bool) string {
		var xs []int
		for x := range m {
			xs = append(xs, x)
		}
		sort.Ints(xs)
		// compress to ranges
		var parts []string
		for i := 0; i < len(xs); {
			j := i
			for j+1 < len(xs) && xs[j+1] == xs[j]+1 {
				j++
			}
			if j > i {
				parts = append(parts, fmt.Sprintf("%d-%d", xs[i], xs[j]))
			} else {
				parts = append(parts, fmt.Sprint(xs[i]))
			}
			i = j + 1
		}
		return "{" + strings.Join(parts, ",") + "}"
	}
	subset := func(a, b map[int]bool) bool {
		for x := range a {
			if !b[x] {
				return false
			}
		}
		return true
	}
	fname := shortName(path) + "." + decName + "/" + encName
	for _, a := range names {
		key := r.MkKey("fieldpair", fname, "field "+a)
		pos := w.Pos(efd.Pos())
		dD, dA2, eD, eA2 := decD[a], decA[a], encD[a], encA[a]
		switch {
		case len(dA2) == 0:
			r.FailC("fieldpair", key, []string{"write-only"}, pos, fmt.Sprintf("%s is written to stream bytes %s by %s but never read back by %s", a, fmtSet(eA2), encName, decName), nil)
		case len(eA2) == 0:
			r.FailC("fieldpair", key, []string{"read-only"}, pos, fmt.Sprintf("%s is read from stream bytes %s by %s but never written by %s", a, fmtSet(dA2), decName, encName), nil)
		case len(dD) > 0 && len(eD) > 0 && (!subset(dD, eD) || !subset(eD, dD)):
			r.FailC("fieldpair", key, []string{"mismatch"}, pos, fmt.Sprintf("%s is read from stream bytes %s but written to stream bytes %s", a, fmtSet(dD), fmtSet(eD)), nil)
		case len(dD) > 0 && !subset(dD, eA2):
			r.FailC("fieldpair", key, []string{"mismatch"}, pos, fmt.Sprintf("%s is read from stream bytes %s but only influences bytes %s when written", a, fmtSet(dD), fmtSet(eA2)), nil)
		case len(eD) > 0 && !subset(eD, dA2):
			r.FailC("fieldpair", key, []string{"mismatch"}, pos, fmt.Sprintf("%s is written to stream bytes %s but is derived from bytes %s when read", a, fmtSet(eD), fmtSet(dA2)), nil)
		default:
			r.OK("fieldpair", key, pos, fmt.Sprintf("read from %s, written to %s", fmtSet(dA2), fmtSet(eA2)))
		}
	}
}
