package main

import (
	"fmt"
	"go/token"
	"go/types"
	"sort"
	"strings"

	"golang.org/x/tools/go/ssa"
)

// searchfields: the binary-search helper fields that several sfnt tables
// carry (table directory, kern format 0, cmap format 4) are defined by the
// format as
//
//	entrySelector = floor(log2(n))
//	searchRange   = unit * 2^entrySelector
//	rangeShift    = unit * n - searchRange
//
// for n records of `unit` bytes.  The writers compute them from
// L = bits.Len(uint(n)) (= floor(log2 n) + 1).  The three values are
// evaluated symbolically to polynomials  sum c * 2^(a*L+b) * n^p * L^q  over
// the SSA operations (+, -, *, <<, conversions) and compared with the
// definitions; any equivalent way of writing them gives the same polynomial.
type sfTerm struct {
	expL int // coefficient of L in the exponent of 2 (0 or 1)
	pN   int // power of n
	pL   int // power of L
}

type sfPoly map[sfTerm]float64 // coefficient includes the constant power of two

func (p sfPoly) add(q sfPoly, sign float64) sfPoly {
	r := sfPoly{}
	for k, v := range p {
		r[k] += v
	}
	for k, v := range q {
		r[k] += sign * v
	}
	for k, v := range r {
		if v == 0 {
			delete(r, k)
		}
	}
	return r
}

func (p sfPoly) mul(q sfPoly) (sfPoly, bool) {
	r := sfPoly{}
	for k1, v1 := range p {
		for k2, v2 := range q {
			k := sfTerm{k1.expL + k2.expL, k1.pN + k2.pN, k1.pL + k2.pL}
			if k.expL > 1 || k.pN > 1 || k.pL > 1 {
				return nil, false
			}
			r[k] += v1 * v2
		}
	}
	return r, true
}

func (p sfPoly) String() string {
	var keys []sfTerm
	for k := range p {
		keys = append(keys, k)
	}
	sort.Slice(keys, func(i, j int) bool {
		a, b := keys[i], keys[j]
		if a.expL != b.expL {
			return a.expL > b.expL
		}
		if a.pN != b.pN {
			return a.pN > b.pN
		}
		return a.pL > b.pL
	})
	var parts []string
	for _, k := range keys {
		s := fmt.Sprintf("%g", p[k])
		if k.expL == 1 {
			s += "*2^L"
		}
		if k.pN == 1 {
			s += "*n"
		}
		if k.pL == 1 {
			s += "*L"
		}
		parts = append(parts, s)
	}
	if len(parts) == 0 {
		return "0"
	}
	return strings.Join(parts, " + ")
}

func sfEqual(a, b sfPoly) bool {
	return len(a.add(b, -1)) == 0
}

type sfEval struct {
	n    ssa.Value // the record count (argument of bits.Len, conversions stripped)
	memo map[ssa.Value]sfPoly
}

func stripConv(v ssa.Value) ssa.Value {
	for {
		switch x := v.(type) {
		case *ssa.Convert:
			if isIntType(x.X.Type()) && isIntType(x.Type()) {
				v = x.X
				continue
			}
		case *ssa.ChangeType:
			v = x.X
			continue
		}
		return v
	}
}

func (e *sfEval) eval(v ssa.Value, depth int) (sfPoly, bool) {
	if depth > 12 {
		return nil, false
	}
	v = stripConv(v)
	if v == e.n {
		return sfPoly{sfTerm{0, 1, 0}: 1}, true
	}
	if p, ok := e.memo[v]; ok {
		return p, p != nil
	}
	e.memo[v] = nil
	res, ok := func() (sfPoly, bool) {
		switch x := v.(type) {
		case *ssa.Const:
			c, ok := bconstInt(x)
			if !ok {
				return nil, false
			}
			if c == 0 {
				return sfPoly{}, true
			}
			return sfPoly{sfTerm{}: float64(c)}, true
		case *ssa.Call:
			if callee := x.Call.StaticCallee(); callee != nil && callee.Pkg != nil && callee.Pkg.Pkg.Path() == "math/bits" && strings.HasPrefix(callee.Name(), "Len") {
				if stripConv(x.Call.Args[0]) == e.n {
					return sfPoly{sfTerm{0, 0, 1}: 1}, true
				}
			}
			return nil, false
		case *ssa.UnOp:
			// a field of a struct literal that was stored just before (data.SegCountX2 - data.SearchRange)
			if x.Op == token.MUL {
				if fa, ok := x.X.(*ssa.FieldAddr); ok {
					if st := soleStoreTo(fa); st != nil {
						return e.eval(st.Val, depth+1)
					}
				}
			}
			return nil, false
		case *ssa.BinOp:
			a, ok1 := e.eval(x.X, depth+1)
			switch x.Op {
			case token.SHL:
				if !ok1 {
					return nil, false
				}
				s, ok2 := e.eval(x.Y, depth+1)
				if !ok2 {
					return nil, false
				}
				// shift amount must be alpha*L + beta
				alpha, beta := 0.0, 0.0
				for k, c := range s {
					switch k {
					case sfTerm{0, 0, 1}:
						alpha = c
					case sfTerm{}:
						beta = c
					default:
						return nil, false
					}
				}
				if alpha != 0 && alpha != 1 {
					return nil, false
				}
				f := sfPoly{sfTerm{int(alpha), 0, 0}: pow2(beta)}
				return a.mul(f)
			case token.ADD, token.SUB:
				b, ok2 := e.eval(x.Y, depth+1)
				if !ok1 || !ok2 {
					return nil, false
				}
				if x.Op == token.ADD {
					return a.add(b, 1), true
				}
				return a.add(b, -1), true
			case token.MUL:
				b, ok2 := e.eval(x.Y, depth+1)
				if !ok1 || !ok2 {
					return nil, false
				}
				return a.mul(b)
			}
			return nil, false
		case *ssa.Phi:
			// value under "if n > 0": the other edges are the constant 0
			var only ssa.Value
			for _, ed := range x.Edges {
				if c, ok := bconstInt(ed); ok && c == 0 {
					continue
				}
				if only != nil && only != ed {
					return nil, false
				}
				only = ed
			}
			if only == nil {
				return sfPoly{}, true
			}
			return e.eval(only, depth+1)
		}
		return nil, false
	}()
	if ok {
		e.memo[v] = res
	}
	return res, ok
}

func pow2(b float64) float64 {
	r := 1.0
	for ; b > 0; b-- {
		r *= 2
	}
	for ; b < 0; b++ {
		r /= 2
	}
	return r
}

// soleStoreTo: the single store into the same field of the same struct
// (another FieldAddr with identical base and field) in the function.
func soleStoreTo(fa *ssa.FieldAddr) *ssa.Store {
	var found *ssa.Store
	n := 0
	for _, b := range fa.Parent().Blocks {
		for _, in := range b.Instrs {
			st, ok := in.(*ssa.Store)
			if !ok {
				continue
			}
			fa2, ok := st.Addr.(*ssa.FieldAddr)
			if ok && fa2.X == fa.X && fa2.Field == fa.Field {
				found = st
				n++
			}
		}
	}
	if n == 1 {
		return found
	}
	return nil
}

type sfSite struct {
	fn    string
	unit  float64
	names [3]string // searchRange, entrySelector, rangeShift: struct field names or variable names
}

var sfSites = []sfSite{
	{"header.Write", 16, [3]string{"SearchRange", "EntrySelector", "RangeShift"}},
	{"(cmap.Format4).Encode", 2, [3]string{"SearchRange", "EntrySelector", "RangeShift"}},
	{"(kern.Info).Encode", 6, [3]string{"searchRange", "entrySelector", "rangeShift"}},
}

// RunSearchFields checks the sites whose function name is in want (nil = all).
func RunSearchFields(w *World, r *Report, want map[string]bool) {
	r.Rule("searchfields: where a writer fills the binary-search fields of a table (sfnt table directory, kern format 0, cmap format 4) the three values, evaluated symbolically over +, -, *, << and bits.Len, equal entrySelector = L-1, searchRange = unit*2^(L-1), rangeShift = unit*n - unit*2^(L-1) with L = bits.Len(n) = floor(log2 n)+1 and unit the record size (16, 6, 2)")
	for _, site := range sfSites {
		if want != nil && !want[site.fn] {
			continue
		}
		fn := w.Func(site.fn)
		if fn == nil {
			r.Fatal("searchfields: %s does not resolve", site.fn)
			continue
		}
		// the record count: the argument of the bits.Len call
		var n ssa.Value
		for _, b := range fn.Blocks {
			for _, in := range b.Instrs {
				if c, ok := in.(*ssa.Call); ok {
					if callee := c.Call.StaticCallee(); callee != nil && callee.Pkg != nil && callee.Pkg.Pkg.Path() == "math/bits" && strings.HasPrefix(callee.Name(), "Len") {
						n = stripConv(c.Call.Args[0])
					}
				}
			}
		}
		if n == nil {
			r.Fail("searchfields", r.MkKey("searchfields", site.fn, "record count"), w.Pos(fn.Pos()), "no bits.Len call found: the search fields are not computed from the integer logarithm of the record count in a form this rule can evaluate", nil)
			continue
		}
		ev := &sfEval{n: n, memo: map[ssa.Value]sfPoly{}}
		u := site.unit
		spec := [3]sfPoly{
			{sfTerm{1, 0, 0}: u / 2},                             // searchRange = unit * 2^(L-1)
			{sfTerm{0, 0, 1}: 1, sfTerm{}: -1},                   // entrySelector = L - 1
			{sfTerm{0, 1, 0}: u, sfTerm{1, 0, 0}: -u / 2},        // rangeShift
		}
		what := [3]string{"searchRange", "entrySelector", "rangeShift"}
		for i, name := range site.names {
			key := r.MkKey("searchfields", site.fn, what[i])
			val, pos := findNamedValue(w, fn, name)
			if val == nil {
				r.Fail("searchfields", key, w.Pos(fn.Pos()), "the value written for "+what[i]+" was not found (field or variable "+name+")", nil)
				continue
			}
			got, ok := ev.eval(val, 0)
			if !ok {
				r.Fail("searchfields", key, w.Pos(pos), what[i]+" is computed by operations this rule cannot evaluate (only +, -, *, << and bits.Len of the record count are understood)", nil)
				continue
			}
			if sfEqual(got, spec[i]) {
				r.OK("searchfields", key, w.Pos(pos), what[i]+" = "+spec[i].String())
			} else {
				r.Fail("searchfields", key, w.Pos(pos), fmt.Sprintf("%s is computed as %s (n = record count, L = bits.Len(n)), the format defines it as %s", what[i], got.String(), spec[i].String()), nil)
			}
		}
	}
}

// findNamedValue: the value stored into a struct field of that name, or
// the operand of a conversion whose source text is byte(<name>) / byte(<name> >> 8).
func findNamedValue(w *World, fn *ssa.Function, name string) (ssa.Value, token.Pos) {
	for _, b := range fn.Blocks {
		for _, in := range b.Instrs {
			switch x := in.(type) {
			case *ssa.Store:
				if fa, ok := x.Addr.(*ssa.FieldAddr); ok {
					st := fa.X.Type().Underlying().(*types.Pointer).Elem().Underlying().(*types.Struct)
					if st.Field(fa.Field).Name() == name {
						return x.Val, x.Pos()
					}
				}
			case *ssa.Convert:
				if convText(w, fn, x) == "byte("+name+")" {
					return x.X, x.Pos()
				}
			}
		}
	}
	return nil, token.NoPos
}
