package main

import (
	"fmt"
	"go/ast"
	"go/types"
	"sort"
	"strings"

	"golang.org/x/tools/go/ssa"
)

func init() { properties["C09"] = propC09 }

// condFormatsAgree: the formats cmap.Decode lets through are exactly the keys
// of cmap.decoders, and decoders is never modified.
func condFormatsAgree(w *World) func() (bool, string) {
	return func() (bool, string) {
		p := w.All[modPath+"/cmap"]
		if p == nil {
			return false, "package cmap not loaded"
		}
		info := p.TypesInfo
		lit, _, err := pkgVarLiteral(w, "cmap", "decoders")
		if err != nil {
			return false, err.Error()
		}
		keys := map[int64]bool{}
		for _, el := range lit.Elts {
			kv := el.(*ast.KeyValueExpr)
			c, ok := constInt(info, kv.Key)
			if !ok {
				return false, "non-constant key in cmap.decoders"
			}
			keys[c] = true
		}
		if ok, who := neverWritten(w, "cmap", "decoders"); !ok {
			return false, "cmap.decoders is modified at run time: " + who
		}
		fd := findFunc(p.Syntax, "Decode")
		if fd == nil {
			return false, "cmap.Decode not found"
		}
		accepted := map[int64]bool{}
		found := false
		ast.Inspect(fd.Body, func(n ast.Node) bool {
			sw, ok := n.(*ast.SwitchStmt)
			if !ok || sw.Tag == nil || types.ExprString(sw.Tag) != "format" {
				return true
			}
			found = true
			hasRejectingDefault := false
			for _, cc := range sw.Body.List {
				cl := cc.(*ast.CaseClause)
				if cl.List == nil {
					for _, s := range cl.Body {
						if _, isRet := s.(*ast.ReturnStmt); isRet {
							hasRejectingDefault = true
						}
					}
				}
				for _, e := range cl.List {
					if c, ok := constInt(info, e); ok {
						accepted[c] = true
					}
				}
			}
			if !hasRejectingDefault {
				accepted[-1] = true
			}
			return true
		})
		if !found {
			return false, "no `switch format` in cmap.Decode"
		}
		var missing []string
		for f := range accepted {
			if !keys[f] {
				if f == -1 {
					missing = append(missing, "(any: the default branch does not reject)")
				} else {
					missing = append(missing, fmt.Sprint(f))
				}
			}
		}
		sort.Strings(missing)
		if len(missing) > 0 {
			return false, "cmap.Decode accepts subtable format(s) " + strings.Join(missing, ",") + " for which cmap.decoders has no entry: Get would call a nil function"
		}
		return true, ""
	}
}

// C09: character maps.
func propC09(w *World, r *Report) {
	e := NewEffects(w)
	runDet(w, r, e, "C09")
	r.Rule("tabformats: the subtable formats cmap.Decode accepts are all keys of cmap.decoders, which is never modified (Get/GetNoLang never call a nil function) || bestorder: GetBest tries full-Unicode subtables before BMP subtables before legacy ones, in list order, returning the first that decodes || bigendian, sortfirst on package cmap || panicreach for the cmap entry points")
	r.Conds["cmap-formats-agree"] = condFormatsAgree(w)
	key := r.MkKey("tabformats", "cmap", "Decode vs decoders")
	if ok, why := condFormatsAgree(w)(); ok {
		r.OK("tabformats", key, "-", "every accepted format has a decoder entry")
	} else {
		r.Fail("tabformats", key, "-", why, nil)
	}
	checkBestOrder(w, r)
	entries := mustFuncs(w, r, detEntries["C09"]...)
	fns := srcFuncsReachable(w, entries)
	var cm []*ssa.Function
	for _, f := range fns {
		if strings.HasSuffix(fnPkgPath(f), "/cmap") {
			cm = append(cm, f)
		}
	}
	// panics are inventoried for the decoding side only (encoders refuse unrepresentable maps loudly by design)
	decEntries := mustFuncs(w, r, "cmap.Decode", "(cmap.Table).Get", "(cmap.Table).GetNoLang", "(cmap.Table).GetBest")
	var dm []*ssa.Function
	for _, f := range srcFuncsReachable(w, decEntries) {
		if strings.HasSuffix(fnPkgPath(f), "/cmap") {
			dm = append(dm, f)
		}
	}
	RunPanicReach(w, r, "panicreach", decEntries, dm)
	RunSortedBeforeIndexed(w, r, cm)
	RunBigEndian(w, r, func(p string) bool { return p == modPath+"/cmap" })
	RunNarrowArith(w, r, cm)
	RunControl(r, "narrowarith", "ctlNarrowArith", RunNarrowArith)
	r.Floor("bigendian/read", 15)
	r.Floor("mapdet", 4)
}

func checkBestOrder(w *World, r *Report) {
	p := w.All[modPath+"/cmap"]
	fd := findFunc(p.Syntax, "GetBest")
	key := r.MkKey("bestorder", "cmap.Table.GetBest", "candidate list")
	if fd == nil {
		r.FailC("bestorder", key, []string{"missing"}, "-", "cmap.Table.GetBest not found", nil)
		return
	}
	info := p.TypesInfo
	class := func(pl, enc int64) (int, string) {
		switch {
		case (pl == 3 && enc == 10) || (pl == 0 && (enc == 4 || enc == 6)):
			return 0, "full Unicode"
		case (pl == 3 && enc == 1) || (pl == 0 && enc >= 0 && enc <= 3):
			return 1, "BMP"
		default:
			return 2, "legacy"
		}
	}
	var ranks []int
	var descr []string
	var listObj types.Object
	ast.Inspect(fd.Body, func(n ast.Node) bool {
		as, ok := n.(*ast.AssignStmt)
		if !ok || len(as.Rhs) != 1 {
			return true
		}
		cl, ok := as.Rhs[0].(*ast.CompositeLit)
		if !ok {
			return true
		}
		for _, el := range cl.Elts {
			pair, ok := el.(*ast.CompositeLit)
			if !ok || len(pair.Elts) != 2 {
				return true
			}
			a, ok1 := constInt(info, pair.Elts[0])
			b, ok2 := constInt(info, pair.Elts[1])
			if !ok1 || !ok2 {
				return true
			}
			rk, nm := class(a, b)
			ranks = append(ranks, rk)
			descr = append(descr, fmt.Sprintf("(%d,%d)=%s", a, b, nm))
		}
		if id, ok := as.Lhs[0].(*ast.Ident); ok {
			listObj = info.ObjectOf(id)
		}
		return true
	})
	if len(ranks) < 3 {
		r.FailC("bestorder", key, []string{"shape"}, w.Pos(fd.Pos()), "cannot find the (platform, encoding) candidate list in GetBest", nil)
		return
	}
	sorted := sort.IntsAreSorted(ranks)
	// the loop ranges over the list and returns on the first success
	loopOK := false
	ast.Inspect(fd.Body, func(n ast.Node) bool {
		rs, ok := n.(*ast.RangeStmt)
		if !ok {
			return true
		}
		if id, ok := rs.X.(*ast.Ident); ok && info.ObjectOf(id) == listObj {
			ast.Inspect(rs.Body, func(m ast.Node) bool {
				if _, ok := m.(*ast.ReturnStmt); ok {
					loopOK = true
				}
				return true
			})
		}
		return true
	})
	switch {
	case !sorted:
		r.Fail("bestorder", key, w.Pos(fd.Pos()), "GetBest does not try full-Unicode before BMP before legacy subtables: "+strings.Join(descr, " "), nil)
	case !loopOK:
		r.Fail("bestorder", key, w.Pos(fd.Pos()), "GetBest does not return the first candidate that decodes", nil)
	default:
		r.OK("bestorder", key, w.Pos(fd.Pos()), strings.Join(descr, " "))
	}
}
