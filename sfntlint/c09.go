package main

import (
	"go/token"
	"fmt"
	"go/ast"
	"go/types"
	"sort"
	"strings"

	"golang.org/x/tools/go/ssa"
)

func init() { properties["C09"] = propC09 }

// condFormatsAgree: the formats cmap.Decode lets through are exactly the keys
// of cmap.decoders, and decoders is never modified.
func condFormatsAgree(w *World) func() (bool, string) {
	return func() (bool, string) {
		p := w.All[modPath+"/cmap"]
		if p == nil {
			return false, "package cmap not loaded"
		}
		info := p.TypesInfo
		lit, _, err := pkgVarLiteral(w, "cmap", "decoders")
		if err != nil {
			return false, err.Error()
		}
		keys := map[int64]bool{}
		for _, el := range lit.Elts {
			kv := el.(*ast.KeyValueExpr)
			c, ok := constInt(info, kv.Key)
			if !ok {
				return false, "non-constant key in cmap.decoders"
			}
			keys[c] = true
		}
		if ok, who := neverWritten(w, "cmap", "decoders"); !ok {
			return false, "cmap.decoders is modified at run time: " + who
		}
		fd := findFunc(p.Syntax, "Decode")
		if fd == nil {
			return false, "cmap.Decode not found"
		}
		accepted := map[int64]bool{}
		found := false
		ast.Inspect(fd.Body, func(n ast.Node) bool {
			sw, ok := n.(*ast.SwitchStmt)
			if !ok || sw.Tag == nil || types.ExprString(sw.Tag) != "format" {
				return true
			}
			found = true
			hasRejectingDefault := false
			for _, cc := range sw.Body.List {
				cl := cc.(*ast.CaseClause)
				if cl.List == nil {
					for _, s := range cl.Body {
						if _, isRet := s.(*ast.ReturnStmt); isRet {
							hasRejectingDefault = true
						}
					}
				}
				for _, e := range cl.List {
					if c, ok := constInt(info, e); ok {
						accepted[c] = true
					}
				}
			}
			if !hasRejectingDefault {
				accepted[-1] = true
			}
			return true
		})
		if !found {
			return false, "no `switch format` in cmap.Decode"
		}
		var missing []string
		for f := range accepted {
			if !keys[f] {
				if f == -1 {
					missing = append(missing, "(any: the default branch does not reject)")
				} else {
					missing = append(missing, fmt.Sprint(f))
				}
			}
		}
		sort.Strings(missing)
		if len(missing) > 0 {
			return false, "cmap.Decode accepts subtable format(s) " + strings.Join(missing, ",") + " for which cmap.decoders has no entry: Get would call a nil function"
		}
		return true, ""
	}
}

// C09: character maps.
func propC09(w *World, r *Report) {
	defer runDeadAccIn(w, r, "/cmap")
	defer RunSearchMonotone(w, r, "/cmap")
	e := NewEffects(w)
	runDet(w, r, e, "C09")
	r.Rule("tabformats: the subtable formats cmap.Decode accepts are all keys of cmap.decoders, which is never modified (Get/GetNoLang never call a nil function) || bestorder: GetBest tries full-Unicode subtables before BMP subtables before legacy ones, in list order, returning the first that decodes || bigendian, sortfirst on package cmap || panicreach for the cmap entry points")
	r.Conds["cmap-formats-agree"] = condFormatsAgree(w)
	key := r.MkKey("tabformats", "cmap", "Decode vs decoders")
	if ok, why := condFormatsAgree(w)(); ok {
		r.OK("tabformats", key, "-", "every accepted format has a decoder entry")
	} else {
		r.Fail("tabformats", key, "-", why, nil)
	}
	checkBestOrder(w, r)
	checkIDRangeOffset(w, r)
	// seg12break (syntactic, keys[i] != keys[i-1]+1 only) is superseded by segstep, which also accepts the difference form
	checkLangField(w, r)
	checkMacRoman(w, r)
	checkPerCode(w, r)
	checkExplicitDelta(w, r)
	checkSegmentSkip(w, r)
	checkSegDelta(w, r)
	checkCodeWrap(w, r)
	RunSegStep(w, r)
	checkFormat0Len(w, r)
	checkDecoderParam(w, r)
	checkLookupRange(w, r)
	checkPlatformRange(w, r)
	r.Floor("segmentskip", 1)
	checkOverlapStrict(w, r, newBoundsRun(w))
	RunSearchFields(w, r, map[string]bool{"(cmap.Format4).Encode": true})
	r.Floor("searchfields", 3)
	entries := mustFuncs(w, r, detEntries["C09"]...)
	fns := srcFuncsReachable(w, entries)
	var cm []*ssa.Function
	for _, f := range fns {
		if strings.HasSuffix(fnPkgPath(f), "/cmap") {
			cm = append(cm, f)
		}
	}
	// panics are inventoried for the decoding side only (encoders refuse unrepresentable maps loudly by design)
	decEntries := mustFuncs(w, r, "cmap.Decode", "(cmap.Table).Get", "(cmap.Table).GetNoLang", "(cmap.Table).GetBest")
	var dm []*ssa.Function
	for _, f := range srcFuncsReachable(w, decEntries) {
		if strings.HasSuffix(fnPkgPath(f), "/cmap") {
			dm = append(dm, f)
		}
	}
	RunPanicReach(w, r, "panicreach", decEntries, dm)
	RunSortedBeforeIndexed(w, r, cm)
	RunBigEndian(w, r, func(p string) bool { return p == modPath+"/cmap" })
	RunNarrowArith(w, r, cm)
	RunControl(r, "narrowarith", "ctlNarrowArith", RunNarrowArith)
	for _, a := range boundsAssumptions {
		r.Assumes(a)
	}
	br09 := newBoundsRun(w)
	RunLosslessFor(w, r, "C09", br09)
	runNarrowBoundIn(w, r, br09, "/cmap")
	runFlagReduceIn(w, r, "/cmap")
	RunPrevSentinel(w, r, cm)
	r.Floor("prevsentinel", 1)
	RunNarrowSucc(w, r, cm, br09)
	RunNarrowSuccControl(r)
	r.Floor("bigendian/read", 15)
	r.Floor("mapdet", 4)
}

func checkBestOrder(w *World, r *Report) {
	p := w.All[modPath+"/cmap"]
	fd := findFunc(p.Syntax, "GetBest")
	key := r.MkKey("bestorder", "cmap.Table.GetBest", "candidate list")
	if fd == nil {
		r.FailC("bestorder", key, []string{"missing"}, "-", "cmap.Table.GetBest not found", nil)
		return
	}
	info := p.TypesInfo
	class := func(pl, enc int64) (int, string) {
		switch {
		case (pl == 3 && enc == 10) || (pl == 0 && (enc == 4 || enc == 6)):
			return 0, "full Unicode"
		case (pl == 3 && enc == 1) || (pl == 0 && enc >= 0 && enc <= 3):
			return 1, "BMP"
		default:
			return 2, "legacy"
		}
	}
	var ranks []int
	var descr []string
	var listObj types.Object
	ast.Inspect(fd.Body, func(n ast.Node) bool {
		as, ok := n.(*ast.AssignStmt)
		if !ok || len(as.Rhs) != 1 {
			return true
		}
		cl, ok := as.Rhs[0].(*ast.CompositeLit)
		if !ok {
			return true
		}
		for _, el := range cl.Elts {
			pair, ok := el.(*ast.CompositeLit)
			if !ok || len(pair.Elts) != 2 {
				return true
			}
			a, ok1 := constInt(info, pair.Elts[0])
			b, ok2 := constInt(info, pair.Elts[1])
			if !ok1 || !ok2 {
				return true
			}
			rk, nm := class(a, b)
			ranks = append(ranks, rk)
			descr = append(descr, fmt.Sprintf("(%d,%d)=%s", a, b, nm))
		}
		if id, ok := as.Lhs[0].(*ast.Ident); ok {
			listObj = info.ObjectOf(id)
		}
		return true
	})
	if len(ranks) < 3 {
		r.FailC("bestorder", key, []string{"shape"}, w.Pos(fd.Pos()), "cannot find the (platform, encoding) candidate list in GetBest", nil)
		return
	}
	sorted := sort.IntsAreSorted(ranks)
	// the loop ranges over the list and returns on the first success
	loopOK := false
	ast.Inspect(fd.Body, func(n ast.Node) bool {
		rs, ok := n.(*ast.RangeStmt)
		if !ok {
			return true
		}
		if id, ok := rs.X.(*ast.Ident); ok && info.ObjectOf(id) == listObj {
			ast.Inspect(rs.Body, func(m ast.Node) bool {
				if _, ok := m.(*ast.ReturnStmt); ok {
					loopOK = true
				}
				return true
			})
		}
		return true
	})
	switch {
	case !sorted:
		r.Fail("bestorder", key, w.Pos(fd.Pos()), "GetBest does not try full-Unicode before BMP before legacy subtables: "+strings.Join(descr, " "), nil)
	case !loopOK:
		r.Fail("bestorder", key, w.Pos(fd.Pos()), "GetBest does not return the first candidate that decodes", nil)
	default:
		r.OK("bestorder", key, w.Pos(fd.Pos()), strings.Join(descr, " "))
	}
}

// checkIDRangeOffset: OpenType cmap format 4: the glyph for code c of
// segment i is glyphIdArray[idRangeOffset[i]/2 + (c - startCode[i]) -
// (segCount - i)], i.e. idRangeOffset[i] = 2*((segCount - i) + index of the
// segment's first entry in glyphIdArray).  Writer and reader are each
// compared with this formula through the linear forms of their SSA values.
func checkIDRangeOffset(w *World, r *Report) {
	r.Rule("idrange: in Format4.Encode the idRangeOffset of a segment is 2*(len(segments) - i) + 2*len(glyphIdArray so far), and decodeFormat4 indexes the glyph id array with idRangeOffset/2 - (segCount - k) + (code - start) — the two halves of the cmap format 4 addressing rule")
	br := newBoundsRun(w)
	// ---- writer
	enc := w.Func("(cmap.Format4).Encode")
	key := r.MkKey("idrange", "cmap.Format4.Encode", "idRangeOffset written")
	if enc == nil {
		r.Fatal("(cmap.Format4).Encode does not resolve")
		return
	}
	p := br.prover(enc)
	found := false
	for _, b := range enc.Blocks {
		for _, in := range b.Instrs {
			cv, ok := in.(*ssa.Convert)
			if !ok || !isIntType(cv.X.Type()) || btypeBits(cv.Type()) != 16 {
				continue
			}
			l := p.linOf(cv.X)
			var lens []atom
			var others []atom
			for a := range l.t {
				if a.k == aLen {
					lens = append(lens, a)
				} else {
					others = append(others, a)
				}
			}
			if len(lens) != 2 || len(others) != 1 {
				continue
			}
			found = true
			// the loop index: the value used to index the segment list in this loop
			ok2 := len(others) == 1 && l.t[lens[0]] == 2 && l.t[lens[1]] == 2 && l.t[others[0]] == -2
			if ok2 {
				// constant: -2*(i - phi) where i = phi + c
				idx := blatom(others[0])
				ok2 = false
				for _, bb := range enc.Blocks {
					for _, ii := range bb.Instrs {
						if ia, isIA := ii.(*ssa.IndexAddr); isIA {
							il := p.linOf(ia.Index)
							if c, has := il.t[others[0]]; has && c == 1 && len(il.t) == 1 {
								if d, okd := il.sub(idx); okd && l.k == -2*d.k {
									ok2 = true
								}
							}
						}
					}
				}
			}
			if ok2 {
				r.OK("idrange", key, w.Pos(cv.Pos()), "2*(len(segments) - i) + 2*len(glyphIdArray)")
			} else {
				r.Fail("idrange", key, w.Pos(cv.Pos()), "the idRangeOffset written is "+p.linStr(l)+", the format says 2*(number of remaining idRangeOffset entries) + 2*(entries already in glyphIdArray)", nil)
			}
		}
	}
	if !found {
		r.Fail("idrange", key, w.Pos(enc.Pos()), "no 16-bit value computed from two slice lengths found (the idRangeOffset)", nil)
	}
	// ---- reader
	dec := w.Func("cmap.decodeFormat4")
	key2 := r.MkKey("idrange", "cmap.decodeFormat4", "glyph id array index")
	if dec == nil {
		r.Fatal("cmap.decodeFormat4 does not resolve")
		return
	}
	pd := br.prover(dec)
	okDec := false
	var posDec token.Pos
	for _, b := range dec.Blocks {
		for _, in := range b.Instrs {
			bo, ok := in.(*ssa.BinOp)
			if !ok || bo.Op != token.SUB {
				continue
			}
			// d := int(idRangeOffset[k])/2 - (segCount - k)
			l := pd.linOf(bo)
			var quo, plus, minus int
			for a, c := range l.t {
				if q, isQ := a.v.(*ssa.BinOp); isQ && q.Op == token.QUO && c == 1 {
					if d, okc := bconstInt(q.Y); okc && d == 2 {
						quo++
						continue
					}
				}
				if c == 1 {
					plus++
				} else if c == -1 {
					minus++
				} else {
					plus += 10
				}
			}
			if quo == 1 && plus == 1 && minus == 1 && l.k == 0 && len(l.t) == 3 {
				okDec, posDec = true, bo.Pos()
			}
		}
	}
	if okDec {
		r.OK("idrange", key2, w.Pos(posDec), "idRangeOffset/2 - segCount + k")
	} else {
		r.Fail("idrange", key2, w.Pos(dec.Pos()), "no value of the form idRangeOffset/2 - (segCount - k) is computed: the reader does not follow the format 4 addressing rule", nil)
	}
	r.Floor("idrange", 2)
}

// checkSeg12Break: format 12 groups are runs of consecutive code points
// with consecutive glyph ids; the writer must start a new group whenever
// the code points are not adjacent.
func checkSeg12Break(w *World, r *Report) {
	r.Rule("seg12break: in Format12.Encode the decision to continue a group compares the sorted code points keys[i] and keys[i-1]+1 directly (adjacent code points), not only a difference that also involves the glyph ids")
	fn := w.Func("(cmap.Format12).Encode")
	key := r.MkKey("seg12break", "cmap.Format12.Encode", "group boundary test")
	if fn == nil {
		r.Fatal("(cmap.Format12).Encode does not resolve")
		return
	}
	p := newBoundsRun(w).prover(fn)
	for _, b := range fn.Blocks {
		for _, in := range b.Instrs {
			cmp, ok := in.(*ssa.BinOp)
			if !ok || (cmp.Op != token.NEQ && cmp.Op != token.EQL) {
				continue
			}
			isElem := func(v ssa.Value) (*ssa.IndexAddr, bool) {
				ld, ok := v.(*ssa.UnOp)
				if !ok || ld.Op != token.MUL {
					return nil, false
				}
				ia, ok := ld.X.(*ssa.IndexAddr)
				return ia, ok
			}
			for _, pair := range [][2]ssa.Value{{cmp.X, cmp.Y}, {cmp.Y, cmp.X}} {
				ia1, ok1 := isElem(pair[0])
				add, ok2 := pair[1].(*ssa.BinOp)
				if !ok1 || !ok2 || add.Op != token.ADD {
					continue
				}
				one, okc := bconstInt(add.Y)
				ia2, ok3 := isElem(add.X)
				if !okc || one != 1 || !ok3 || p.canonVal(ia1.X) != p.canonVal(ia2.X) {
					continue
				}
				d, okd := p.linOf(ia1.Index).sub(p.linOf(ia2.Index))
				if okd && d.isConst() && d.k == 1 {
					if _, isIf := (*cmp.Referrers())[0].(*ssa.If); isIf || len(*cmp.Referrers()) > 0 {
						r.OK("seg12break", key, w.Pos(cmp.Pos()), "keys[i] is compared with keys[i-1]+1")
						r.Floor("seg12break", 1)
						return
					}
				}
			}
		}
	}
	r.Fail("seg12break", key, w.Pos(fn.Pos()), "no comparison of adjacent sorted code points (keys[i] against keys[i-1]+1) decides the group boundaries: code points that are not consecutive can end up in one group, which then covers code points that are not mapped", nil)
	r.Floor("seg12break", 1)
}

// checkLangField: the language field of a cmap subtable header is the
// uint16 at offset 4 for formats 0, 2, 4, 6 and the low half (offset 10) of
// the uint32 at offset 8 for formats 8, 10, 12, 13 (OpenType cmap, subtable
// headers).  Decode's reads and the byte-literal writers are compared with
// this table.
func checkLangField(w *World, r *Report) {
	r.Rule("langfield: cmap.Decode reads the language of a subtable from header bytes 4,5 (formats 0, 2, 4, 6) or 10,11 (formats 8, 10, 12, 13), and the encoders that build the header as a byte literal (Format0.Encode, Format12.Encode) put byte(language>>8), byte(language) at the same offsets")
	want := map[int64]int64{0: 4, 2: 4, 4: 4, 6: 4, 8: 10, 10: 10, 12: 10, 13: 10}
	dec := w.Func("cmap.Decode")
	if dec == nil {
		r.Fatal("cmap.Decode does not resolve")
		return
	}
	br := newBoundsRun(w)
	p := br.prover(dec)
	// byteAt: v is uintN(data[X]) -> linear form of X
	byteAt := func(v ssa.Value) (blin, bool) {
		for {
			if c, ok := v.(*ssa.Convert); ok {
				v = c.X
				continue
			}
			break
		}
		u, ok := v.(*ssa.UnOp)
		if !ok || u.Op != token.MUL {
			return blin{}, false
		}
		ia, ok := u.X.(*ssa.IndexAddr)
		if !ok {
			return blin{}, false
		}
		return p.linOf(ia.Index), true
	}
	seen := map[int64]bool{}
	for _, b := range dec.Blocks {
		for _, in := range b.Instrs {
			bo, ok := in.(*ssa.BinOp)
			if !ok || bo.Op != token.OR || btypeBits(bo.Type()) != 16 {
				continue
			}
			hi, ok := bo.X.(*ssa.BinOp)
			if !ok || hi.Op != token.SHL {
				continue
			}
			if k, ok := bconstInt(hi.Y); !ok || k != 8 {
				continue
			}
			ih, ok1 := byteAt(hi.X)
			il, ok2 := byteAt(bo.Y)
			if !ok1 || !ok2 {
				continue
			}
			// is this the language? its value flows into the Language field of a key
			if !flowsToField(bo, "Language", 0) {
				continue
			}
			d, ok := il.sub(ih)
			if !ok || !d.isConst() || d.k != 1 {
				continue
			}
			// the formats that lead to this block
			var formats []int64
			var collect func(bb *ssa.BasicBlock, depth int)
			visited := map[*ssa.BasicBlock]bool{}
			collect = func(bb *ssa.BasicBlock, depth int) {
				if visited[bb] || depth > 12 {
					return
				}
				visited[bb] = true
				for _, pr := range bb.Preds {
					if len(pr.Instrs) == 0 {
						continue
					}
					if ifi, ok := pr.Instrs[len(pr.Instrs)-1].(*ssa.If); ok {
						if cmp, ok := ifi.Cond.(*ssa.BinOp); ok && cmp.Op == token.EQL && pr.Succs[0] == bb {
							if c, ok := bconstInt(cmp.Y); ok {
								formats = append(formats, c)
								continue
							}
						}
						// another test inside the case body: go on upwards
						if len(bb.Preds) == 1 {
							collect(pr, depth+1)
						}
						continue
					}
					if len(pr.Instrs) == 1 || len(bb.Preds) == 1 { // forwarding block / straight line
						collect(pr, depth+1)
					}
				}
			}
			collect(b, 0)
			// offset relative to the subtable start o: the atom part must be shared with the format read
			for _, f := range formats {
				exp, known := want[f]
				key := r.MkKey("langfield", "cmap.Decode", fmt.Sprintf("format %d", f))
				if !known {
					continue
				}
				seen[f] = true
				// ih = o + A: compare with the index of the format word (o + 0)
				okOff := false
				for _, fb := range dec.Blocks {
					for _, fi := range fb.Instrs {
						if ia, ok := fi.(*ssa.IndexAddr); ok {
							base := p.linOf(ia.Index)
							if dd, ok := ih.sub(base); ok && dd.isConst() && dd.k == exp && len(base.t) > 0 {
								// base must be the subtable offset: some read at base and base+1 forms the format
								okOff = okOff || sameAtoms(base, ih)
							}
						}
					}
				}
				if okOff {
					r.OK("langfield", key, w.Pos(bo.Pos()), fmt.Sprintf("language read from header bytes %d,%d", exp, exp+1))
				} else {
					r.Fail("langfield", key, w.Pos(bo.Pos()), fmt.Sprintf("for format %d the language is read from %s,+1 but the format stores it at header bytes %d,%d", f, p.linStr(ih), exp, exp+1), nil)
				}
			}
		}
	}
	for f := range want {
		if !seen[f] {
			key := r.MkKey("langfield", "cmap.Decode", fmt.Sprintf("format %d", f))
			r.Fail("langfield", key, w.Pos(dec.Pos()), fmt.Sprintf("no read of the language field found for format %d", f), nil)
		}
	}
	// writers
	for name, off := range map[string]int64{"(*cmap.Format0).Encode": 4, "(cmap.Format12).Encode": 10} {
		fn := w.Func(name)
		key := r.MkKey("langfield", name, "language written")
		if fn == nil || len(fn.Params) < 2 {
			r.Fail("langfield", key, "-", "encoder does not resolve", nil)
			continue
		}
		lang := fn.Params[len(fn.Params)-1]
		got := int64(-1)
		for _, b := range fn.Blocks {
			for _, in := range b.Instrs {
				st, ok := in.(*ssa.Store)
				if !ok {
					continue
				}
				cv, ok := st.Val.(*ssa.Convert)
				if !ok {
					continue
				}
				sh, ok := cv.X.(*ssa.BinOp)
				if !ok || sh.Op != token.SHR || sh.X != ssa.Value(lang) {
					continue
				}
				if ia, ok := st.Addr.(*ssa.IndexAddr); ok {
					if c, ok := bconstInt(ia.Index); ok {
						got = c
					}
				}
			}
		}
		if got == off {
			r.OK("langfield", key, w.Pos(fn.Pos()), fmt.Sprintf("byte(language>>8) at header offset %d", off))
		} else {
			r.Fail("langfield", key, w.Pos(fn.Pos()), fmt.Sprintf("byte(language>>8) is written at header offset %d, the format stores the language at %d", got, off), nil)
		}
	}
	r.Floor("langfield", 10)
}

func sameAtoms(a, b blin) bool {
	if len(a.t) != len(b.t) {
		return false
	}
	for k, v := range a.t {
		if b.t[k] != v {
			return false
		}
	}
	return true
}

// flowsToField: v reaches (through phis and conversions) a store into a struct field of that name.
func flowsToField(v ssa.Value, field string, depth int) bool {
	if depth > 6 || v.Referrers() == nil {
		return false
	}
	for _, ref := range *v.Referrers() {
		switch x := ref.(type) {
		case *ssa.Phi:
			if flowsToField(x, field, depth+1) {
				return true
			}
		case *ssa.Convert:
			if flowsToField(x, field, depth+1) {
				return true
			}
		case *ssa.Store:
			if fa, ok := x.Addr.(*ssa.FieldAddr); ok && x.Val == v {
				st := fa.X.Type().Underlying().(*types.Pointer).Elem().Underlying().(*types.Struct)
				if st.Field(fa.Field).Name() == field {
					return true
				}
			}
		}
	}
	return false
}
